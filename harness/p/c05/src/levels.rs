//! Nested columns as trees (schema and values) and their definition / repetition levels as
//! read back by the low-level column reader.  Projection only.
use arrow_array::cast::AsArray;
use arrow_array::*;
use arrow_schema::{DataType, Field, Fields, TimeUnit};
use bytes::Bytes;
use parquet::column::reader::ColumnReader;
use parquet::data_type::{ByteArray, FixedLenByteArray};
use parquet::file::reader::{FileReader, SerializedFileReader};
use std::sync::Arc;
use vcore::mk::{self, Cfg};
use vcore::{json, tok, Rng, Value};

fn fld(name: &str, t: DataType, nullable: bool) -> Arc<Field> {
    // dictionary values may be null whatever the field says: such fields are always nullable
    let nullable = nullable || matches!(t, DataType::Dictionary(..));
    Arc::new(Field::new(name, t, nullable))
}

fn random_leaf(rng: &mut Rng) -> DataType {
    use DataType::*;
    rng.pick(&[
        Int32, Int32, Int64, Int8, UInt16, UInt32, UInt64, Boolean, Float64, Float32, Float16, Utf8, Utf8, LargeUtf8, Utf8View, Binary,
        FixedSizeBinary(3), Date32, Timestamp(TimeUnit::Microsecond, None), Decimal128(9, 2), Decimal128(15, 2), Decimal128(25, 3),
        Dictionary(Box::new(Int8), Box::new(Utf8)), Dictionary(Box::new(Int16), Box::new(Int32)),
    ])
    .clone()
}

/// a random nested type of at most `depth` group levels over the leaves above
pub fn random_nested(rng: &mut Rng, depth: usize) -> DataType {
    use DataType::*;
    if depth == 0 {
        return random_leaf(rng);
    }
    let child = |rng: &mut Rng| {
        let d = if rng.chance(40) { 0 } else { rng.below(depth) };
        random_nested(rng, d)
    };
    let nn = |rng: &mut Rng| rng.chance(75);
    match rng.below(9) {
        0 | 1 => List(fld("item", child(rng), nn(rng))),
        2 => LargeList(fld("item", child(rng), nn(rng))),
        3 => ListView(fld("item", child(rng), nn(rng))),
        4 => FixedSizeList(fld("item", child(rng), nn(rng)), *rng.pick(&[0i32, 1, 2, 3])),
        5 | 6 => {
            let n = 1 + rng.below(3);
            Struct(Fields::from((0..n).map(|i| fld(&format!("f{i}"), child(rng), nn(rng))).collect::<Vec<_>>()))
        }
        7 => {
            let key = rng.pick(&[Utf8, Int32, Int64]).clone();
            let entries = Struct(Fields::from(vec![fld("key", key, false), fld("value", child(rng), nn(rng))]));
            Map(fld("entries", entries, false), false)
        }
        _ => LargeListView(fld("item", child(rng), nn(rng))),
    }
}

/// a column whose top level has no nulls while the nested levels have
pub fn child_nulls_only(rng: &mut Rng, t: &DataType, n: usize, np: usize) -> ArrayRef {
    let a = mk::array(rng, t, n, Cfg::tame(np));
    if matches!(t, DataType::Dictionary(..) | DataType::RunEndEncoded(..)) {
        return mk::array(rng, t, n, Cfg::tame(0));
    }
    let d = a.to_data().into_builder().nulls(None).build().unwrap();
    make_array(d)
}

/// the column's schema as a Dremel.tla schema tree
pub fn schema_tree(f: &Field) -> Value {
    use DataType::*;
    let opt = f.is_nullable();
    match f.data_type() {
        List(e) | LargeList(e) | ListView(e) | LargeListView(e) | FixedSizeList(e, _) => json!({"k": "list", "opt": opt, "c": [schema_tree(e)]}),
        Struct(fs) => json!({"k": "struct", "opt": opt, "c": fs.iter().map(|x| schema_tree(x)).collect::<Vec<_>>()}),
        Map(entries, _) => {
            let Struct(kv) = entries.data_type() else { panic!("map entries") };
            json!({"k": "list", "opt": opt, "c": [{"k": "struct", "opt": false, "c": [schema_tree(&kv[0]), schema_tree(&kv[1])]}]})
        }
        _ => json!({"k": "leaf", "opt": opt, "c": []}),
    }
}

/// arrow types of the leaves below `t`, in schema order (encodings projected away)
pub fn leaf_types(t: &DataType, out: &mut Vec<DataType>) {
    use DataType::*;
    match t {
        List(e) | LargeList(e) | ListView(e) | LargeListView(e) | FixedSizeList(e, _) | Map(e, _) => leaf_types(e.data_type(), out),
        Struct(fs) => fs.iter().for_each(|f| leaf_types(f.data_type(), out)),
        Dictionary(_, v) => leaf_types(v, out),
        RunEndEncoded(_, v) => leaf_types(v.data_type(), out),
        other => out.push(other.clone()),
    }
}

fn seq_tree(a: &dyn Array) -> Value {
    json!({"k": "l", "c": (0..a.len()).map(|i| value_tree(a, i)).collect::<Vec<_>>()})
}

/// row `i` of `a` as a Dremel.tla value tree (leaves are vcore::tok tokens)
pub fn value_tree(a: &dyn Array, i: usize) -> Value {
    use DataType::*;
    match a.data_type() {
        Dictionary(..) | RunEndEncoded(..) | Null => {}
        _ => {
            if a.is_null(i) {
                return json!({"k": "~"});
            }
        }
    }
    match a.data_type() {
        List(_) => seq_tree(a.as_list::<i32>().value(i).as_ref()),
        LargeList(_) => seq_tree(a.as_list::<i64>().value(i).as_ref()),
        ListView(_) => seq_tree(a.as_list_view::<i32>().value(i).as_ref()),
        LargeListView(_) => seq_tree(a.as_list_view::<i64>().value(i).as_ref()),
        FixedSizeList(..) => seq_tree(a.as_fixed_size_list().value(i).as_ref()),
        Map(..) => seq_tree(&a.as_map().value(i)),
        Struct(_) => json!({"k": "r", "c": a.as_struct().columns().iter().map(|c| value_tree(c.as_ref(), i)).collect::<Vec<_>>()}),
        _ => {
            let t = tok::row(a, i);
            if t == tok::NULL { json!({"k": "~"}) } else { json!({"k": "v", "x": t}) }
        }
    }
}

fn hex(b: &[u8]) -> String {
    let mut s = String::from("x");
    for x in b {
        s.push_str(&format!("{x:02x}"));
    }
    s
}

/// the token vcore::tok gives the arrow value that the writer stored as this physical value
fn tok_i32(lt: &DataType, v: i32) -> String {
    match lt {
        DataType::UInt32 => format!("{}", v as u32),
        _ => format!("{v}"),
    }
}
fn tok_i64(lt: &DataType, v: i64) -> String {
    match lt {
        DataType::UInt64 => format!("{}", v as u64),
        _ => format!("{v}"),
    }
}
fn tok_bytes(lt: &DataType, b: &[u8]) -> String {
    use DataType::*;
    match lt {
        Utf8 | LargeUtf8 | Utf8View => format!("s{}", hex(b)),
        Float16 if b.len() == 2 => format!("h{:04x}", u16::from_le_bytes([b[0], b[1]])),
        Decimal128(..) if !b.is_empty() && b.len() <= 16 => {
            // big-endian two's complement -> the integer (sign extension only)
            let fill = if b[0] & 0x80 != 0 { 0xFFu8 } else { 0 };
            let mut be = [fill; 16];
            be[16 - b.len()..].copy_from_slice(b);
            format!("{}", i128::from_be_bytes(be))
        }
        _ => hex(b),
    }
}

pub struct Levels {
    pub leaves: Value,
    pub maxdef: Vec<i64>,
    pub maxrep: Vec<i64>,
}

/// levels and leaf values of the leaves of top-level column 0, concatenated over the row groups
pub fn read_levels(bytes: &Bytes, field: &Field) -> Result<Levels, String> {
    {
        let rdr = SerializedFileReader::new(bytes.clone()).map_err(|e| e.to_string())?;
        let descr = rdr.metadata().file_metadata().schema_descr_ptr();
        let mut lts = vec![];
        leaf_types(field.data_type(), &mut lts);
        let leaves: Vec<usize> = (0..descr.num_columns()).filter(|i| descr.get_column_root_idx(*i) == 0).collect();
        if leaves.len() != lts.len() {
            return Err(format!("leaf count: parquet {} arrow {}", leaves.len(), lts.len()));
        }
        let mut out = vec![];
        let mut maxdef = vec![];
        let mut maxrep = vec![];
        for (k, &c) in leaves.iter().enumerate() {
            let cd = descr.column(c);
            maxdef.push(cd.max_def_level() as i64);
            maxrep.push(cd.max_rep_level() as i64);
            let lt = &lts[k];
            let mut reps: Vec<i16> = vec![];
            let mut defs: Vec<i16> = vec![];
            let mut vals: Vec<String> = vec![];
            for g in 0..rdr.num_row_groups() {
                let rg = rdr.get_row_group(g).map_err(|e| e.to_string())?;
                let cr = rg.get_column_reader(c).map_err(|e| e.to_string())?;
                let expect: i64 = rg.metadata().column(c).num_values();
                let mut d: Vec<i16> = vec![];
                let mut rp: Vec<i16> = vec![];
                let mut v: Vec<String> = vec![];
                macro_rules! drain {
                    ($r:expr, $t:ty, $f:expr) => {{
                        let mut r = $r;
                        let mut round = 0usize;
                        let mut idle = 0usize;
                        loop {
                            let mut vb: Vec<$t> = vec![];
                            let step = [1usize, 2, 3, 1000][round % 4];
                            round += 1;
                            let (recs, _nv, nl) = r.read_records(step, Some(&mut d), Some(&mut rp), &mut vb).map_err(|e| e.to_string())?;
                            v.extend(vb.iter().map($f));
                            // an empty data page (content-defined chunking writes them) makes the reader
                            // report "no more records" once: go on until the footer's level count is reached
                            let have = if cd.max_def_level() > 0 { d.len() } else if cd.max_rep_level() > 0 { rp.len() } else { v.len() };
                            if recs == 0 && nl == 0 {
                                idle += 1;
                                if have as i64 >= expect || idle > 16 {
                                    break;
                                }
                            } else {
                                idle = 0;
                            }
                        }
                    }};
                }
                match cr {
                    ColumnReader::BoolColumnReader(r) => drain!(r, bool, |x| (if *x { "T" } else { "F" }).to_string()),
                    ColumnReader::Int32ColumnReader(r) => drain!(r, i32, |x| tok_i32(lt, *x)),
                    ColumnReader::Int64ColumnReader(r) => drain!(r, i64, |x| tok_i64(lt, *x)),
                    ColumnReader::Int96ColumnReader(_) => return Err("unsupported: int96 leaf".into()),
                    ColumnReader::FloatColumnReader(r) => drain!(r, f32, |x| format!("f{:08x}", x.to_bits())),
                    ColumnReader::DoubleColumnReader(r) => drain!(r, f64, |x| format!("d{:016x}", x.to_bits())),
                    ColumnReader::ByteArrayColumnReader(r) => drain!(r, ByteArray, |x| tok_bytes(lt, x.data())),
                    ColumnReader::FixedLenByteArrayColumnReader(r) => drain!(r, FixedLenByteArray, |x| tok_bytes(lt, x.data())),
                }
                // columns without levels: the reader leaves the buffers untouched
                let nlev = if cd.max_def_level() > 0 { d.len() } else if cd.max_rep_level() > 0 { rp.len() } else { v.len() };
                if cd.max_def_level() == 0 {
                    d = vec![0; nlev];
                }
                if cd.max_rep_level() == 0 {
                    rp = vec![0; nlev];
                }
                // align the stored values with the entries whose definition level is maximal
                let mut vi = 0;
                for &dl in d.iter() {
                    if dl == cd.max_def_level() {
                        vals.push(v.get(vi).cloned().unwrap_or_else(|| "?missing".into()));
                        vi += 1;
                    } else {
                        vals.push("~".into());
                    }
                }
                if vi != v.len() {
                    vals.push(format!("?extra{}", v.len() - vi));
                }
                reps.extend(rp);
                defs.extend(d);
            }
            out.push(json!({"rep": reps, "def": defs, "val": vals}));
        }
        Ok(Levels { leaves: Value::Array(out), maxdef, maxrep })
    }
}
