//! C05 driver: Parquet write -> read round trips with the real Arrow writer and reader.
//!
//! Records, for Trace_ParquetRoundTrip.tla:
//! * `rt`  -- one file written with `ArrowWriter` under a random `WriterProperties`, a random
//!            split of the rows into write()/flush() calls (row groups flushed and rows buffered
//!            are read off after every call), read back with `ParquetRecordBatchReader`:
//!            schema in/out, row tokens in/out, footer row counts, page row counts from the
//!            offset index, page kinds (dictionary page / dictionary-encoded / other) per chunk;
//! * `par` -- the same rows written through independent `ArrowColumnWriter`s on one thread per
//!            leaf column, closed in a chosen completion order, appended in schema order;
//! * `lv`  -- for nested columns, the definition / repetition levels and leaf values read back
//!            with the low-level column reader, next to the logical values as trees.
//! No expectation is computed here: the specification decides.
mod dense;
mod levels;
mod props;
mod repro;

use arrow_array::*;
use arrow_schema::{DataType, Field, Fields, IntervalUnit, Schema, SchemaRef, TimeUnit};
use bytes::Bytes;
use parquet::arrow::arrow_reader::{ArrowReaderMetadata, ArrowReaderOptions, ParquetRecordBatchReaderBuilder};
use parquet::arrow::arrow_writer::{compute_leaves, ArrowColumnChunk, ArrowLeafColumn, ArrowRowGroupWriterFactory, ArrowWriter};
use parquet::arrow::{add_encoded_arrow_schema_to_metadata, ArrowSchemaConverter};
use parquet::basic::Encoding;
use parquet::column::page::Page;
use parquet::file::metadata::{PageIndexPolicy, ParquetMetaData};
use parquet::file::reader::{FileReader, SerializedFileReader};
use parquet::file::writer::SerializedFileWriter;
use props::Props;
use std::sync::Arc;
use vcore::mk::{self, Cfg};
use vcore::trace::Shards;
use vcore::{guarded, json, tok, Args, Rng, Value};

// ------------------------------------------------------------------ types

fn fld(name: &str, t: DataType, nullable: bool) -> Arc<Field> {
    Arc::new(Field::new(name, t, nullable))
}

/// extra nested shapes beyond vcore::mk::nested_types()
fn extra_types() -> Vec<DataType> {
    use DataType::*;
    let st = |fs: Vec<Field>| Struct(Fields::from(fs));
    let kv = |k: DataType, v: DataType, vn: bool| {
        fld("entries", st(vec![Field::new("key", k, false), Field::new("value", v, vn)]), false)
    };
    vec![
        LargeList(fld("item", Int32, true)),
        List(fld("element", Float64, false)),
        FixedSizeList(fld("item", Utf8, true), 3),
        FixedSizeList(fld("item", st(vec![Field::new("a", Int16, true), Field::new("b", Boolean, false)]), true), 2),
        List(fld("item", FixedSizeList(fld("item", Int32, true), 2), true)),
        LargeList(fld("item", LargeList(fld("item", Utf8, true), ), true)),
        List(fld("item", List(fld("item", List(fld("item", Int8, true)), true)), true)),
        st(vec![Field::new("x", st(vec![Field::new("y", st(vec![Field::new("z", Int32, true)]), true)]), true)]),
        st(vec![Field::new("req", Int32, false), Field::new("l", List(fld("item", Utf8, true)), false)]),
        st(vec![Field::new("m", Map(kv(Int32, Utf8, true), false), true), Field::new("d", Date32, true)]),
        Map(kv(Utf8, List(fld("item", Int32, true)), true), false),
        Map(kv(Int64, st(vec![Field::new("a", Float32, true)]), true), false),
        Map(kv(Utf8, Utf8, false), true),
        List(fld("item", Map(kv(Int8, Boolean, true), false), true)),
        ListView(fld("item", Utf8, true)),
        ListView(fld("item", st(vec![Field::new("a", Int32, true), Field::new("b", Utf8, true)]), true)),
        LargeListView(fld("item", List(fld("item", Int32, true)), true)),
        List(fld("item", Decimal128(12, 3), true)),
        st(vec![Field::new("f16", Float16, true), Field::new("dec", Decimal256(40, 4), true), Field::new("iv", Interval(IntervalUnit::DayTime), true)]),
        List(fld("item", Timestamp(TimeUnit::Nanosecond, None), true)),
        Dictionary(Box::new(UInt8), Box::new(Binary)),
        Dictionary(Box::new(Int16), Box::new(Float64)),
        Dictionary(Box::new(Int32), Box::new(FixedSizeBinary(4))),
        Dictionary(Box::new(Int8), Box::new(Utf8View)),
        st(vec![Field::new("d", Dictionary(Box::new(Int8), Box::new(Utf8)), true), Field::new("i", Int32, true)]),
        RunEndEncoded(fld("run_ends", Int32, false), fld("values", Boolean, true)),
        RunEndEncoded(fld("run_ends", Int16, false), fld("values", Decimal128(10, 2), true)),
        RunEndEncoded(fld("run_ends", Int32, false), fld("values", Binary, true)),
        Decimal128(5, 0), Decimal128(18, 18), Decimal128(19, 0), Decimal32(2, 1), Decimal64(10, 5), Decimal256(38, 10),
        FixedSizeBinary(1), FixedSizeBinary(16),
    ]
}

fn has_decimal(t: &DataType) -> bool {
    use DataType::*;
    match t {
        Decimal32(..) | Decimal64(..) | Decimal128(..) | Decimal256(..) => true,
        List(f) | LargeList(f) | ListView(f) | LargeListView(f) | FixedSizeList(f, _) | Map(f, _) => has_decimal(f.data_type()),
        Struct(fs) => fs.iter().any(|f| has_decimal(f.data_type())),
        Dictionary(_, v) => has_decimal(v),
        RunEndEncoded(_, v) => has_decimal(v.data_type()),
        _ => false,
    }
}

/// encodings whose nulls are logical (values can be null whatever the field says)
fn logical_nulls(t: &DataType) -> bool {
    matches!(t, DataType::Dictionary(..) | DataType::RunEndEncoded(..) | DataType::Null)
}

fn has_ree(t: &DataType) -> bool {
    use DataType::*;
    match t {
        RunEndEncoded(..) => true,
        List(f) | LargeList(f) | ListView(f) | LargeListView(f) | FixedSizeList(f, _) | Map(f, _) => has_ree(f.data_type()),
        Struct(fs) => fs.iter().any(|f| has_ree(f.data_type())),
        Dictionary(_, v) => has_ree(v),
        _ => false,
    }
}

/// the type with every run-end encoding replaced by its value type (a projection of the type,
/// logged next to the original; the specification says which one must come back)
fn flat_ree(t: &DataType) -> DataType {
    use DataType::*;
    let ff = |f: &Arc<Field>| Arc::new(f.as_ref().clone().with_data_type(flat_ree(f.data_type())));
    match t {
        RunEndEncoded(_, v) => flat_ree(v.data_type()),
        List(f) => List(ff(f)),
        LargeList(f) => LargeList(ff(f)),
        ListView(f) => ListView(ff(f)),
        LargeListView(f) => LargeListView(ff(f)),
        FixedSizeList(f, n) => FixedSizeList(ff(f), *n),
        Map(f, o) => Map(ff(f), *o),
        Struct(fs) => Struct(fs.iter().map(|f| ff(f)).collect()),
        other => other.clone(),
    }
}

/// the data type as a string; `dict_id` (deprecated, not part of `Field` equality) is left out
fn type_str(t: &DataType) -> String {
    let s = tok::type_str(t);
    let mut out = String::with_capacity(s.len());
    let mut rest = s.as_str();
    while let Some(i) = rest.find(", dict_id: ") {
        out.push_str(&rest[..i]);
        let tail = &rest[i + 11..];
        let n = tail.find(|c: char| !(c.is_ascii_digit() || c == '-')).unwrap_or(tail.len());
        rest = &tail[n..];
    }
    out.push_str(rest);
    out
}

/// do the list views below `a` address their child out of order or with overlaps?
fn listview_unordered(a: &dyn Array) -> bool {
    use arrow_array::cast::AsArray;
    use DataType::*;
    fn check<O: arrow_array::OffsetSizeTrait>(l: &GenericListViewArray<O>) -> bool {
        let mut end = 0usize;
        for i in 0..l.len() {
            let o = l.value_offsets()[i].as_usize();
            let s = l.value_sizes()[i].as_usize();
            if s > 0 {
                if o < end {
                    return true;
                }
                end = o + s;
            }
        }
        false
    }
    match a.data_type() {
        ListView(_) => check(a.as_list_view::<i32>()) || listview_unordered(a.as_list_view::<i32>().values().as_ref()),
        LargeListView(_) => check(a.as_list_view::<i64>()) || listview_unordered(a.as_list_view::<i64>().values().as_ref()),
        List(_) => listview_unordered(a.as_list::<i32>().values().as_ref()),
        LargeList(_) => listview_unordered(a.as_list::<i64>().values().as_ref()),
        FixedSizeList(..) => listview_unordered(a.as_fixed_size_list().values().as_ref()),
        Map(..) => listview_unordered(a.as_map().entries()),
        Struct(_) => a.as_struct().columns().iter().any(|c| listview_unordered(c.as_ref())),
        _ => false,
    }
}

/// features of a type that scope known findings (a projection of the type)
fn features(t: &DataType, out: &mut Vec<&'static str>) {
    use DataType::*;
    let mut add = |x: &'static str| {
        if !out.contains(&x) {
            out.push(x)
        }
    };
    match t {
        Dictionary(_, v) => {
            add("dict");
            match v.as_ref() {
                Utf8View | BinaryView => add("dictview"),
                FixedSizeBinary(_) => add("dictfsb"),
                Float16 | Decimal256(..) => add("dictflba"),
                Decimal128(p, _) if *p > 18 => add("dictflba"),
                _ => {}
            }
            features(v, out);
        }
        RunEndEncoded(_, v) => {
            add("ree");
            features(v.data_type(), out);
        }
        FixedSizeBinary(0) => add("fsb0"),
        Null => add("null"),
        Boolean => add("bool"),
        Interval(_) => add("interval"),
        List(f) | LargeList(f) | Map(f, _) => features(f.data_type(), out),
        ListView(f) | LargeListView(f) => {
            add("listview");
            features(f.data_type(), out);
        }
        FixedSizeList(f, n) => {
            add(if *n == 0 { "fsl0" } else { "fsl" });
            features(f.data_type(), out);
        }
        Struct(fs) => fs.iter().for_each(|f| features(f.data_type(), out)),
        _ => {}
    }
}

fn schema_features(s: &Schema) -> Vec<&'static str> {
    let mut v = vec![];
    s.fields().iter().for_each(|f| features(f.data_type(), &mut v));
    v
}

fn type_pool() -> Vec<DataType> {
    let mut v: Vec<DataType> = mk::all_types().into_iter().filter(|t| !matches!(t, DataType::Union(..))).collect();
    v.extend(extra_types());
    v
}

fn column(rng: &mut Rng, t: &DataType, n: usize, nullable: bool) -> ArrayRef {
    let np = if !nullable { 0 } else { *rng.pick(&[0usize, 10, 30, 60, 100]) };
    let cfg = if has_decimal(t) || rng.chance(25) { Cfg::tame(np) } else { Cfg::wild(np) };
    mk::array(rng, t, n, cfg)
}

// --------------------------------------------------------------- episodes

struct Input {
    schema: SchemaRef,
    /// one batch per write() call
    batches: Vec<RecordBatch>,
    /// ("w", rows) | ("f", 0)
    ops: Vec<(&'static str, usize)>,
}

fn random_ops(rng: &mut Rng, max_rows: usize) -> Vec<(&'static str, usize)> {
    let nops = 1 + rng.below(6);
    let mut ops = vec![];
    let mut total = 0;
    for _ in 0..nops {
        if rng.chance(25) {
            ops.push(("f", 0));
        } else {
            let n = match rng.below(8) {
                0 => 0,
                1 => 1,
                2..=4 => 1 + rng.below(9),
                5 => *rng.pick(&[7usize, 8, 9, 15, 16, 17, 31, 32, 33]),
                _ => rng.below(max_rows / 2 + 1),
            };
            let n = n.min(max_rows - total);
            total += n;
            ops.push(("w", n));
        }
    }
    ops
}

fn make_input(rng: &mut Rng, pool: &[DataType], max_rows: usize, ncols: usize) -> Input {
    let fields: Vec<Field> = (0..ncols)
        .map(|i| {
            let t = rng.pick(pool).clone();
            let nullable = logical_nulls(&t) || rng.chance(70);
            Field::new(format!("c{i}"), t, nullable)
        })
        .collect();
    let schema = Arc::new(Schema::new(fields));
    let ops = random_ops(rng, max_rows);
    let total: usize = ops.iter().map(|o| o.1).sum();
    let batches = if rng.chance(60) {
        // one set of columns, written as consecutive slices (non-zero offsets into shared buffers)
        let cols: Vec<ArrayRef> = schema.fields().iter().map(|f| column(rng, f.data_type(), total, f.is_nullable())).collect();
        let mut at = 0;
        ops.iter()
            .filter(|o| o.0 == "w")
            .map(|o| {
                let b = RecordBatch::try_new(schema.clone(), cols.iter().map(|c| c.slice(at, o.1)).collect()).unwrap();
                at += o.1;
                b
            })
            .collect()
    } else {
        // independent arrays per call (different dictionaries, validity present or not)
        ops.iter()
            .filter(|o| o.0 == "w")
            .map(|o| {
                let cols: Vec<ArrayRef> = schema.fields().iter().map(|f| column(rng, f.data_type(), o.1, f.is_nullable())).collect();
                RecordBatch::try_new(schema.clone(), cols).unwrap()
            })
            .collect()
    };
    Input { schema, batches, ops }
}

fn schema_fields(ev: &mut serde_json::Map<String, Value>, s: &Schema, suffix: &str) {
    ev.insert(format!("names{suffix}"), json!(s.fields().iter().map(|f| f.name().clone()).collect::<Vec<_>>()));
    ev.insert(format!("types{suffix}"), json!(s.fields().iter().map(|f| type_str(f.data_type())).collect::<Vec<_>>()));
    ev.insert(format!("nullable{suffix}"), json!(s.fields().iter().map(|f| f.is_nullable()).collect::<Vec<_>>()));
}

fn describe_schema(ev: &mut serde_json::Map<String, Value>, schema: &Schema) {
    schema_fields(ev, schema, "_in");
    ev.insert("types_flat".into(), json!(schema.fields().iter().map(|f| type_str(&flat_ree(f.data_type()))).collect::<Vec<_>>()));
    ev.insert("top_ree".into(), json!(schema.fields().iter().map(|f| matches!(f.data_type(), DataType::RunEndEncoded(..))).collect::<Vec<_>>()));
    ev.insert("any_ree".into(), json!(schema.fields().iter().map(|f| has_ree(f.data_type())).collect::<Vec<_>>()));
}

/// everything read back from the file; Err = a reader error / panic (data for the specification)
fn read_back(bytes: &Bytes, bs: usize, ev: &mut serde_json::Map<String, Value>) -> Result<(), Fail> {
    let (schema, batches) = step("read", || -> Result<(SchemaRef, Vec<RecordBatch>), String> {
        let b = ParquetRecordBatchReaderBuilder::try_new(bytes.clone()).map_err(|e| e.to_string())?;
        let schema = b.schema().clone();
        let rdr = b.with_batch_size(bs).build().map_err(|e| e.to_string())?;
        let mut out = vec![];
        for x in rdr {
            out.push(x.map_err(|e| e.to_string())?);
        }
        Ok((schema, out))
    })?;
    schema_fields(ev, &schema, "_out");
    // every batch carries the schema of the reader
    let same = batches.iter().all(|b| b.schema().fields() == schema.fields());
    ev.insert("batch_schema_same".into(), json!(same));
    let rout: Vec<String> = batches.iter().flat_map(tok::batch_rows).collect();
    ev.insert("rout".into(), tok::strs(&rout));
    ev.insert("bs".into(), json!(bs));
    ev.insert("outb".into(), json!(batches.iter().map(|b| b.num_rows()).collect::<Vec<_>>()));
    Ok(())
}

/// footer and page structure of the file
fn describe_file(bytes: &Bytes, ev: &mut serde_json::Map<String, Value>) -> Result<Arc<ParquetMetaData>, Fail> {
    let meta = step("meta", || ArrowReaderMetadata::load(bytes, ArrowReaderOptions::new().with_page_index_policy(PageIndexPolicy::Optional)).map_err(|e| e.to_string()))?;
    let meta = meta.metadata().clone();
    ev.insert("nrows".into(), json!(meta.file_metadata().num_rows()));
    ev.insert("rg".into(), json!(meta.row_groups().iter().map(|r| r.num_rows()).collect::<Vec<_>>()));
    let nleaves = meta.file_metadata().schema_descr().num_columns();
    ev.insert("nleaves".into(), json!(nleaves));
    // page row counts from the offset index
    let mut pg: Vec<Vec<Vec<i64>>> = vec![];
    let mut has_oi = true;
    for (g, rgm) in meta.row_groups().iter().enumerate() {
        let mut per_leaf = vec![];
        for c in 0..nleaves {
            match meta.page_index().and_then(|pi| pi.page_locations(g, c)) {
                Some(locs) => {
                    let firsts: Vec<i64> = locs.iter().map(|l| l.first_row_index).collect();
                    let mut rows = vec![];
                    for (i, f) in firsts.iter().enumerate() {
                        let next = if i + 1 < firsts.len() { firsts[i + 1] } else { rgm.num_rows() };
                        rows.push(next - f);
                    }
                    // the first page starts at row 0 (a non-zero start is kept visible as a leading entry)
                    if let Some(f0) = firsts.first() {
                        if *f0 != 0 {
                            rows.insert(0, -*f0);
                        }
                    }
                    per_leaf.push(rows);
                }
                None => {
                    has_oi = false;
                    per_leaf.push(vec![]);
                }
            }
        }
        pg.push(per_leaf);
    }
    ev.insert("has_oi".into(), json!(has_oi));
    ev.insert("pg".into(), json!(pg));
    // page kinds in file order: 0 dictionary page, 1 dictionary-encoded data page, 2 other data page
    let (k, v) = step("meta", || -> Result<(Vec<Vec<Vec<u8>>>, Vec<Vec<i64>>), String> {
        let rdr = SerializedFileReader::new(bytes.clone()).map_err(|e| e.to_string())?;
        let mut all = vec![];
        let mut vals = vec![];
        for g in 0..rdr.num_row_groups() {
            let rg = rdr.get_row_group(g).map_err(|e| e.to_string())?;
            let mut per_leaf = vec![];
            let mut nv = vec![];
            for c in 0..nleaves {
                let mut pr = rg.get_column_page_reader(c).map_err(|e| e.to_string())?;
                let mut ks = vec![];
                let mut n = 0i64;
                while let Some(p) = pr.get_next_page().map_err(|e| e.to_string())? {
                    let dict_enc = matches!(p.encoding(), Encoding::RLE_DICTIONARY | Encoding::PLAIN_DICTIONARY);
                    match &p {
                        Page::DictionaryPage { .. } => ks.push(0u8),
                        Page::DataPage { num_values, .. } | Page::DataPageV2 { num_values, .. } => {
                            n += *num_values as i64;
                            ks.push(if dict_enc { 1 } else { 2 })
                        }
                    }
                }
                per_leaf.push(ks);
                nv.push(n);
            }
            all.push(per_leaf);
            vals.push(nv);
        }
        Ok((all, vals))
    })?;
    ev.insert("penc".into(), json!(k));
    // levels per chunk: sum over the pages vs the footer's num_values
    ev.insert("page_values".into(), json!(v));
    ev.insert("chunk_values".into(), json!(meta.row_groups().iter().map(|r| r.columns().iter().map(|c| c.num_values()).collect::<Vec<_>>()).collect::<Vec<_>>()));
    Ok(meta)
}

fn unsupported(e: &str) -> bool {
    let e = e.to_lowercase();
    e.contains("not supported") || e.contains("not yet supported") || e.contains("unsupported") || e.contains("not implemented") || e.contains("nyi")
        || e.contains("does not support") || e.contains("unimplemented") || e.contains("arrow-8817")
}

/// a failure of the code under test: where, whether it was a panic, the message
struct Fail {
    stage: &'static str,
    panic: bool,
    note: String,
}

impl Fail {
    fn err(stage: &'static str, e: impl std::fmt::Display) -> Fail {
        Fail { stage, panic: false, note: e.to_string() }
    }
    fn panic(stage: &'static str, p: String) -> Fail {
        Fail { stage, panic: true, note: p }
    }
}

/// run one step of the code under test: Err(Fail) on an error or a panic
fn step<T>(stage: &'static str, f: impl FnOnce() -> Result<T, String>) -> Result<T, Fail> {
    match guarded(f) {
        Ok(Ok(x)) => Ok(x),
        Ok(Err(e)) if e.starts_with("panic: ") => Err(Fail::panic(stage, e)),
        Ok(Err(e)) => Err(Fail::err(stage, e)),
        Err(p) => Err(Fail::panic(stage, p)),
    }
}

struct Written {
    bytes: Bytes,
    /// outcome of a write() after finish(): "none" (not tried), "err", "ok"
    waf: &'static str,
    fin: &'static str,
}

/// write the input through ArrowWriter, one API call at a time; with a trace, every call is an
/// event carrying what the public API shows after it
fn write_serial(rng: &mut Rng, inp: &Input, p: &Props, mut tr: Option<&mut Shards>) -> Result<Written, Fail> {
    let finish_then_write = rng.chance(15);
    let mut buf: Vec<u8> = vec![];
    let mut waf = "none";
    let fin;
    {
        let props = p.build(&inp.schema).map_err(|e| Fail::err("write", e))?;
        let mut w = step("write", || ArrowWriter::try_new(&mut buf, inp.schema.clone(), Some(props)).map_err(|e| format!("try_new: {e}")))?;
        let mut bi = 0;
        for (k, _) in &inp.ops {
            let mut ev = serde_json::Map::new();
            if *k == "w" {
                let b = &inp.batches[bi];
                bi += 1;
                step("write", || w.write(b).map_err(|e| format!("write: {e}")))?;
                ev.insert("op".into(), json!("write"));
                ev.insert("rows".into(), tok::batch_rows_json(b));
            } else {
                step("write", || w.flush().map_err(|e| format!("flush: {e}")))?;
                ev.insert("op".into(), json!("flush"));
            }
            ev.insert("gs".into(), json!(w.flushed_row_groups().iter().map(|r| r.num_rows()).collect::<Vec<_>>()));
            ev.insert("b".into(), json!(w.in_progress_rows()));
            if let Some(t) = tr.as_mut() {
                t.emit(Value::Object(ev));
            }
        }
        if finish_then_write {
            fin = "finish";
            step("write", || w.finish().map(|_| ()).map_err(|e| format!("finish: {e}")))?;
            if let Some(b) = inp.batches.iter().find(|b| b.num_rows() > 0) {
                waf = step("write", || Ok(if w.write(b).is_err() { "err" } else { "ok" }))?;
            }
        } else {
            fin = "close";
            step("write", || w.close().map(|_| ()).map_err(|e| format!("close: {e}")))?;
        }
    }
    Ok(Written { bytes: Bytes::from(buf), waf, fin })
}

/// write the rows as `parts` row groups with one ArrowColumnWriter thread per leaf column; the
/// threads close their chunk in the order `order[g]` (a permutation of the leaves)
fn write_parallel(inp: &Input, p: &Props, parts: &[usize], orders: &[Vec<usize>]) -> Result<Bytes, Fail> {
    step("write", || -> Result<Bytes, String> {
        let mut props = p.build(&inp.schema)?;
        let pq_schema = ArrowSchemaConverter::new().with_coerce_types(props.coerce_types()).convert(&inp.schema).map_err(|e| format!("convert: {e}"))?;
        add_encoded_arrow_schema_to_metadata(&inp.schema, &mut props);
        let props = Arc::new(props);
        let mut out: Vec<u8> = vec![];
        {
            let mut fw = SerializedFileWriter::new(&mut out, pq_schema.root_schema_ptr(), props.clone()).map_err(|e| format!("file writer: {e}"))?;
            let factory = ArrowRowGroupWriterFactory::new(&fw, inp.schema.clone());
            let all = arrow_select::concat::concat_batches(&inp.schema, inp.batches.iter()).map_err(|e| format!("concat: {e}"))?;
            let mut at = 0;
            for (g, n) in parts.iter().enumerate() {
                let slice = all.slice(at, *n);
                at += n;
                let writers = factory.create_column_writers(g).map_err(|e| format!("column writers: {e}"))?;
                let nw = writers.len();
                // worker: receive leaves, wait for the release signal, close, send the chunk back
                let mut handles = vec![];
                let mut leaf_tx = vec![];
                let mut release_tx = vec![];
                let (done_tx, done_rx) = std::sync::mpsc::channel::<(usize, Result<ArrowColumnChunk, String>)>();
                for (i, mut cw) in writers.into_iter().enumerate() {
                    let (ltx, lrx) = std::sync::mpsc::channel::<ArrowLeafColumn>();
                    let (rtx, rrx) = std::sync::mpsc::channel::<()>();
                    let dtx = done_tx.clone();
                    handles.push(std::thread::spawn(move || {
                        // a panic of the column writer is data: it is reported through the channel
                        let written = guarded(move || {
                            let mut res: Result<(), String> = Ok(());
                            for leaf in lrx {
                                if res.is_ok() {
                                    res = cw.write(&leaf).map_err(|e| format!("column write: {e}"));
                                }
                            }
                            (cw, res)
                        });
                        let _ = rrx.recv();
                        let chunk = match written {
                            Ok((cw, res)) => match guarded(move || res.and_then(|_| cw.close().map_err(|e| format!("column close: {e}")))) {
                                Ok(c) => c,
                                Err(p) => Err(format!("panic: {p}")),
                            },
                            Err(p) => Err(format!("panic: {p}")),
                        };
                        let _ = dtx.send((i, chunk));
                    }));
                    leaf_tx.push(ltx);
                    release_tx.push(rtx);
                }
                // the rows go to the writers in two pieces (two write() calls per column writer)
                let cut = n / 2;
                for piece in [slice.slice(0, cut), slice.slice(cut, n - cut)] {
                    if piece.num_rows() == 0 && cut != 0 {
                        continue;
                    }
                    let mut li = 0;
                    for (f, a) in inp.schema.fields().iter().zip(piece.columns()) {
                        for leaf in compute_leaves(f, a).map_err(|e| format!("compute_leaves: {e}"))? {
                            leaf_tx[li].send(leaf).map_err(|_| "worker gone".to_string())?;
                            li += 1;
                        }
                    }
                }
                drop(leaf_tx);
                let mut chunks: Vec<Option<ArrowColumnChunk>> = (0..nw).map(|_| None).collect();
                let mut first_err: Option<String> = None;
                for i in &orders[g] {
                    let _ = release_tx[*i].send(());
                    // wait for exactly this worker: the completion order is the chosen one
                    let (j, c) = done_rx.recv().map_err(|_| "worker gone".to_string())?;
                    match c {
                        Ok(c) => chunks[j] = Some(c),
                        Err(e) => first_err = first_err.or(Some(e)),
                    }
                }
                for h in handles {
                    h.join().map_err(|_| "worker panicked".to_string())?;
                }
                if let Some(e) = first_err {
                    return Err(e);
                }
                let mut rgw = fw.next_row_group().map_err(|e| format!("next_row_group: {e}"))?;
                for c in chunks {
                    c.unwrap().append_to_row_group(&mut rgw).map_err(|e| format!("append: {e}"))?;
                }
                rgw.close().map_err(|e| format!("row group close: {e}"))?;
            }
            fw.close().map_err(|e| format!("file close: {e}"))?;
        }
        Ok(Bytes::from(out))
    })
}

struct Counters {
    rt: usize,
    par: usize,
    lv: usize,
    skipped: usize,
    refused: usize,
    failed: usize,
    dense: usize,
}

/// the event that ends an episode in which the code under test failed; None when the writer
/// reports the input as unsupported (skipped, not judged)
fn fail_event(f: Fail, inp: &Input, p: &Props, cnt: &mut Counters) -> Option<Value> {
    let schema: &Schema = &inp.schema;
    let cfg = p.describe();
    let mut feat = schema_features(schema);
    if inp.batches.iter().any(|b| b.columns().iter().any(|c| listview_unordered(c.as_ref()))) {
        feat.push("lvunordered");
    }
    if !f.panic && f.stage == "write" && unsupported(&f.note) {
        cnt.skipped += 1;
        return None;
    }
    if !f.panic && f.stage == "write" {
        cnt.refused += 1;
    } else {
        cnt.failed += 1;
    }
    Some(json!({
        "op": "fail", "stage": f.stage, "panic": f.panic, "note": f.note.chars().take(200).collect::<String>(),
        "feat": feat, "cfg": cfg, "cdc": p.cdc.is_some(),
        "pmsg": f.note.trim_start_matches("panic: ").chars().map(|c| if c.is_ascii_digit() { 'N' } else { c }).take(80).collect::<String>(),
        "types_in": schema.fields().iter().map(|x| type_str(x.data_type())).collect::<Vec<_>>(),
    }))
}

fn rt_episode(rng: &mut Rng, pool: &[DataType], max_rows: usize, tr: &mut Shards, cnt: &mut Counters) {
    let ncols = 1 + rng.below(4);
    let inp = make_input(rng, pool, max_rows, ncols);
    let total: usize = inp.ops.iter().map(|o| o.1).sum();
    let p = Props::random(rng, &inp.schema, total);
    run_rt(rng, &inp, &p, tr, cnt);
}

/// one serial ArrowWriter session over `inp`, recorded call by call
fn run_rt(rng: &mut Rng, inp: &Input, p: &Props, tr: &mut Shards, cnt: &mut Counters) {
    // is the schema supported at all?  (decided by the writer: an unsupported schema is skipped)
    {
        let mut probe: Vec<u8> = vec![];
        let props = p.build(&inp.schema).unwrap();
        match step("write", || ArrowWriter::try_new(&mut probe, inp.schema.clone(), Some(props)).map(|_| ()).map_err(|e| e.to_string())) {
            Ok(()) => {}
            Err(f) => {
                if let Some(e) = fail_event(f, inp, p, cnt) {
                    tr.emit(e);
                    tr.next_episode();
                }
                return;
            }
        }
    }
    let mut ev = serde_json::Map::new();
    ev.insert("op".into(), json!("new"));
    ev.insert("cfg".into(), json!(p.describe()));
    describe_schema(&mut ev, &inp.schema);
    ev.insert("maxrg".into(), json!(p.maxrg.unwrap_or(0)));
    ev.insert("bytes".into(), json!(p.maxbytes.is_some()));
    ev.insert("cdc".into(), json!(p.cdc.is_some()));
    tr.emit(Value::Object(ev));
    let res = write_serial(rng, inp, p, Some(tr)).and_then(|w| {
        let mut ev = serde_json::Map::new();
        ev.insert("op".into(), json!("close"));
        ev.insert("waf".into(), json!(w.waf));
        ev.insert("fin".into(), json!(w.fin));
        let bs = *rng.pick(&[1usize, 2, 3, 7, 8, 16, 33, 64, 1024]);
        let meta = describe_file(&w.bytes, &mut ev)?;
        ev.insert("dict_leaf".into(), json!(p.dict_leaves(&meta)));
        read_back(&w.bytes, bs, &mut ev)?;
        Ok(Value::Object(ev))
    });
    match res {
        Ok(ev) => {
            tr.emit(ev);
            cnt.rt += 1;
        }
        Err(f) => {
            // an episode may end in a failure after some calls were recorded: the `fail` event closes it
            let e = fail_event(Fail { note: f.note.clone(), ..f }, inp, p, cnt)
                .unwrap_or_else(|| json!({"op": "fail", "stage": "write", "panic": false, "note": "unsupported", "feat": schema_features(&inp.schema), "cfg": "", "cdc": false, "pmsg": "", "types_in": []}));
            tr.emit(e);
        }
    }
    tr.next_episode();
}

fn par_episode(rng: &mut Rng, pool: &[DataType], max_rows: usize, tr: &mut Shards, cnt: &mut Counters) {
    let ncols = 1 + rng.below(3);
    let mut inp = make_input(rng, pool, max_rows, ncols);
    inp.ops.retain(|o| o.0 == "w");
    let total: usize = inp.ops.iter().map(|o| o.1).sum();
    let mut p = Props::random(rng, &inp.schema, total);
    p.cdc = None; // content-defined chunking is documented as ArrowWriter-only
    // row groups chosen by the driver
    let mut parts = vec![];
    let mut left = total;
    while left > 0 {
        let n = 1 + rng.below(left.min(1 + max_rows / 2));
        parts.push(n);
        left -= n;
    }
    let nleaves = match guarded(|| ArrowSchemaConverter::new().convert(&inp.schema)) {
        Ok(Ok(s)) => s.num_columns(),
        _ => {
            cnt.skipped += 1;
            return;
        }
    };
    let orders: Vec<Vec<usize>> = parts
        .iter()
        .map(|_| {
            let mut o: Vec<usize> = (0..nleaves).collect();
            for i in (1..o.len()).rev() {
                o.swap(i, rng.below(i + 1));
            }
            o
        })
        .collect();
    let mut ev = serde_json::Map::new();
    ev.insert("op".into(), json!("par"));
    ev.insert("cfg".into(), json!(p.describe()));
    describe_schema(&mut ev, &inp.schema);
    let rin: Vec<String> = inp.batches.iter().flat_map(tok::batch_rows).collect();
    ev.insert("rin".into(), tok::strs(&rin));
    ev.insert("cdc".into(), json!(false));
    ev.insert("parts".into(), json!(parts));
    ev.insert("orders".into(), json!(orders));
    let res = write_parallel(&inp, &p, &parts, &orders).and_then(|bytes| {
        let bs = *rng.pick(&[1usize, 3, 8, 64, 1024]);
        let meta = describe_file(&bytes, &mut ev)?;
        ev.insert("dict_leaf".into(), json!(p.dict_leaves(&meta)));
        read_back(&bytes, bs, &mut ev)?;
        Ok(())
    });
    match res {
        Ok(()) => {
            tr.emit(Value::Object(ev));
            cnt.par += 1;
        }
        Err(f) => {
            if let Some(e) = fail_event(f, &inp, &p, cnt) {
                tr.emit(e);
            }
        }
    }
    tr.next_episode();
}

fn lv_episode(rng: &mut Rng, max_rows: usize, tr: &mut Shards, cnt: &mut Counters) {
    let t = levels::random_nested(rng, 3);
    let nullable = rng.chance(70) || logical_nulls(&t);
    let schema = Arc::new(Schema::new(vec![Field::new("c0", t, nullable), Field::new("id", DataType::Int32, false)]));
    let ops = random_ops(rng, max_rows);
    let total: usize = ops.iter().map(|o| o.1).sum();
    let np = *rng.pick(&[0usize, 15, 40, 100]);
    let col = if nullable { mk::array(rng, schema.field(0).data_type(), total, Cfg::tame(np)) } else { levels::child_nulls_only(rng, schema.field(0).data_type(), total, np) };
    let ids: ArrayRef = Arc::new(Int32Array::from_iter_values(0..total as i32));
    let cols = vec![col, ids];
    let mut at = 0;
    let batches: Vec<RecordBatch> = ops
        .iter()
        .filter(|o| o.0 == "w")
        .map(|o| {
            let b = RecordBatch::try_new(schema.clone(), cols.iter().map(|c| c.slice(at, o.1)).collect()).unwrap();
            at += o.1;
            b
        })
        .collect();
    let inp = Input { schema: schema.clone(), batches, ops };
    let p = Props::random(rng, &schema, total);
    run_lv(rng, &inp, &p, &cols[0], tr, cnt);
}

/// levels of column 0 (`col0` = all its rows) of a file written from `inp`
fn run_lv(rng: &mut Rng, inp: &Input, p: &Props, col0: &ArrayRef, tr: &mut Shards, cnt: &mut Counters) {
    let schema = inp.schema.clone();
    let total = col0.len();
    let mut ev = serde_json::Map::new();
    ev.insert("op".into(), json!("lv"));
    ev.insert("cfg".into(), json!(p.describe()));
    ev.insert("types_in".into(), json!([type_str(schema.field(0).data_type())]));
    ev.insert("schema".into(), levels::schema_tree(schema.field(0)));
    ev.insert("rows".into(), Value::Array((0..total).map(|i| levels::value_tree(col0.as_ref(), i)).collect()));
    let res = write_serial(rng, inp, p, None).and_then(|w| {
        let l = step("levels", || levels::read_levels(&w.bytes, schema.field(0)))?;
        ev.insert("leaves".into(), l.leaves);
        ev.insert("maxdef".into(), json!(l.maxdef));
        ev.insert("maxrep".into(), json!(l.maxrep));
        Ok(())
    });
    match res {
        Ok(()) => {
            tr.emit(Value::Object(ev));
            cnt.lv += 1;
        }
        Err(f) => {
            if std::env::var("C05_DEBUG").is_ok() && total <= 8 && f.panic {
                eprintln!("DEBUG lv fail: {} ops={:?} cfg={}\n{:?}", f.note, inp.ops, p.describe(), col0);
            }
            if let Some(e) = fail_event(f, inp, p, cnt) {
                tr.emit(e);
            }
        }
    }
    tr.next_episode();
}

/// one small flat column written under a forced value encoding: 0 PLAIN, 1 BYTE_STREAM_SPLIT,
/// 2 the type's delta encoding, 3 dictionary (with a tiny dictionary page now and then)
fn forced_encoding_episode(rng: &mut Rng, t: &DataType, mode: usize, tr: &mut Shards, cnt: &mut Counters) {
    use parquet::basic::Encoding;
    let n = 10 + rng.below(31);
    let schema = Arc::new(Schema::new(vec![Field::new("c0", t.clone(), true)]));
    let np = *rng.pick(&[0usize, 10, 30]);
    let col = mk::array(rng, t, n, if has_decimal(t) { Cfg::tame(np) } else { Cfg::wild(np) });
    let ops: Vec<(&'static str, usize)> = if rng.chance(50) { vec![("w", n)] } else { vec![("w", n / 2), ("w", n - n / 2)] };
    let mut at = 0;
    let batches: Vec<RecordBatch> = ops
        .iter()
        .map(|o| {
            let b = RecordBatch::try_new(schema.clone(), vec![col.slice(at, o.1)]).unwrap();
            at += o.1;
            b
        })
        .collect();
    let inp = Input { schema: schema.clone(), batches, ops };
    let mut p = Props::random(rng, &schema, n);
    p.cdc = None;
    p.maxbytes = None;
    use parquet::basic::Type as Phys;
    let phys = ArrowSchemaConverter::new().convert(&schema).ok().map(|d| d.column(0).physical_type());
    let delta = match phys {
        Some(Phys::INT32 | Phys::INT64) => Encoding::DELTA_BINARY_PACKED,
        Some(Phys::BYTE_ARRAY | Phys::FIXED_LEN_BYTE_ARRAY) => Encoding::DELTA_BYTE_ARRAY,
        _ => Encoding::PLAIN,
    };
    if p.enc.len() == 1 {
        p.dict[0] = mode == 3;
        p.enc[0] = match mode {
            0 => Some(Encoding::PLAIN),
            1 => Some(Encoding::BYTE_STREAM_SPLIT),
            2 => Some(delta),
            _ => None,
        };
    }
    run_rt(rng, &inp, &p, tr, cnt);
}

/// a longer nested column with null runs in the parents and a chosen leaf null density: the
/// round trip (row tokens) and the levels (Shred) of the same input
fn dense_episode(rng: &mut Rng, k: usize, rt: &mut Shards, lv: &mut Shards, cnt: &mut Counters) {
    let leaves = dense::leaf_types();
    let t = leaves[k % leaves.len()].clone();
    let density = dense::DENSITIES[(k / leaves.len() + k) % dense::DENSITIES.len()];
    let shape = k / 3 + k;
    let n = 70 + rng.below(231);
    let col = dense::column(rng, shape, &t, n, density);
    let schema = Arc::new(Schema::new(vec![Field::new("c0", col.data_type().clone(), true), Field::new("id", DataType::Int32, false)]));
    let ids: ArrayRef = Arc::new(Int32Array::from_iter_values(0..n as i32));
    let cols = vec![col, ids];
    // one long write, or two (the second batch is a slice that starts above 0)
    let ops: Vec<(&'static str, usize)> = match rng.below(3) {
        0 => vec![("w", n)],
        1 => vec![("w", n - 66), ("w", 66)],
        _ => vec![("w", 3), ("f", 0), ("w", n - 3)],
    };
    let mut at = 0;
    let batches: Vec<RecordBatch> = ops
        .iter()
        .filter(|o| o.0 == "w")
        .map(|o| {
            let b = RecordBatch::try_new(schema.clone(), cols.iter().map(|c| c.slice(at, o.1)).collect()).unwrap();
            at += o.1;
            b
        })
        .collect();
    let inp = Input { schema: schema.clone(), batches, ops };
    let mut p = Props::random(rng, &schema, n);
    // row groups do not cut the batches short (the children must be visited in long ranges)
    p.maxbytes = None;
    if rng.chance(75) {
        p.maxrg = None;
    }
    run_rt(rng, &inp, &p, rt, cnt);
    run_lv(rng, &inp, &p, &cols[0], lv, cnt);
    cnt.dense += 1;
}

fn main() {
    let args = Args::parse();
    vcore::quiet_panics();
    if args.driver == "repro" {
        repro::run();
        return;
    }
    let mut rng = Rng::new(args.seed ^ 0xC05);
    let pool = type_pool();
    let max_rows = args.scale(48, 130);
    let mut cnt = Counters { rt: 0, par: 0, lv: 0, skipped: 0, refused: 0, failed: 0, dense: 0 };
    let mut rt = Shards::create(&args.out, "rt", 14);
    let mut lv = Shards::create(&args.out, "lv", 8);
    // every type of the pool alone first (so that each is exercised in each run), then random schemas
    for t in &pool {
        let single = vec![t.clone()];
        rt_episode(&mut rng, &single, max_rows, &mut rt, &mut cnt);
    }
    for _ in 0..args.scale(380, 9000) {
        rt_episode(&mut rng, &pool, max_rows, &mut rt, &mut cnt);
    }
    for _ in 0..args.scale(120, 2500) {
        par_episode(&mut rng, &pool, max_rows, &mut rt, &mut cnt);
    }
    for _ in 0..args.scale(360, 9000) {
        lv_episode(&mut rng, args.scale(24, 60), &mut lv, &mut cnt);
    }
    // every FIXED_LEN_BYTE_ARRAY width (the encoders have per-width code paths) under every value
    // encoding, and every physical type BYTE_STREAM_SPLIT supports under it
    for round in 0..args.scale(1, 12) {
        let _ = round;
        for w in (1..=17).chain([19, 32, 33, 64, 100]) {
            for mode in 0..4 {
                forced_encoding_episode(&mut rng, &DataType::FixedSizeBinary(w), mode, &mut rt, &mut cnt);
            }
        }
        use DataType::*;
        for t in [Int8, Int16, Int32, Int64, UInt8, UInt16, UInt32, UInt64, Float16, Float32, Float64, Date32, Date64, Time32(TimeUnit::Millisecond),
                  Timestamp(TimeUnit::Microsecond, None), Duration(TimeUnit::Nanosecond), Decimal32(7, 2), Decimal64(15, 3), Decimal128(9, 2), Decimal128(18, 4),
                  Decimal128(19, 0), Decimal128(30, 5), Decimal128(38, 10), Decimal256(40, 4), Decimal256(76, 5), Interval(IntervalUnit::DayTime)] {
            forced_encoding_episode(&mut rng, &t, 1, &mut rt, &mut cnt);
            forced_encoding_episode(&mut rng, &t, 2, &mut rt, &mut cnt);
        }
    }
    for k in 0..args.scale(45, 900) {
        dense_episode(&mut rng, k, &mut rt, &mut lv, &mut cnt);
    }
    let n1 = rt.finish();
    let n2 = lv.finish();
    println!(
        "DRIVER c05 events={} roundtrips={} parallel={} levels={} skipped_unsupported={} refused={} failed={} dense_nested={}",
        n1 + n2, cnt.rt, cnt.par, cnt.lv, cnt.skipped, cnt.refused, cnt.failed, cnt.dense
    );
}
