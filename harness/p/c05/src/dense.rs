//! Longer nested columns (70-300 rows) with controlled null structure: the parents' validity
//! has null runs at the start, in the middle and at the end, with valid runs of lengths around
//! the writer's thresholds (1, 63, 64, 65, 128+), so that the children are visited in several
//! separate ranges that start above 0; the leaf null density is one of 0, ~10, ~50, ~90, 100 %.
//! Inputs only.
use arrow_array::*;
use arrow_buffer::{NullBuffer, OffsetBuffer, ScalarBuffer};
use arrow_schema::{DataType, Field, Fields};
use std::sync::Arc;
use vcore::mk::{self, Cfg};
use vcore::Rng;

const RUNS: &[usize] = &[1, 2, 63, 64, 65, 70, 128, 130];

/// validity of `n` slots: null run, valid run, null run, ... ; `start_null` / `end_null` force a
/// null run at the ends
pub fn run_validity(rng: &mut Rng, n: usize, start_pct: usize, end_pct: usize) -> Vec<bool> {
    let start_null = rng.chance(start_pct);
    let end_null = rng.chance(end_pct);
    let mut v = Vec::with_capacity(n);
    let mut valid = !start_null;
    while v.len() < n {
        let len = if valid { *rng.pick(RUNS) } else { *rng.pick(&[1usize, 1, 2, 5]) };
        for _ in 0..len.min(n - v.len()) {
            v.push(valid);
        }
        valid = !valid;
    }
    if end_null && n > 0 {
        let k = 1 + rng.below(2.min(n));
        for x in v.iter_mut().rev().take(k) {
            *x = false;
        }
    }
    v
}

fn nulls_of(v: &[bool]) -> Option<NullBuffer> {
    Some(NullBuffer::from(v.to_vec()))
}

pub fn leaf_types() -> Vec<DataType> {
    use DataType::*;
    vec![Int32, Int64, Float64, Boolean, Utf8, Binary, LargeUtf8, Dictionary(Box::new(Int8), Box::new(Utf8)), Dictionary(Box::new(Int16), Box::new(Int32))]
}

pub const DENSITIES: &[usize] = &[0, 10, 50, 90, 100];

fn leaf(rng: &mut Rng, t: &DataType, n: usize, density: usize) -> ArrayRef {
    mk::array(rng, t, n, Cfg::tame(density))
}

fn fld(name: &str, t: DataType, nullable: bool) -> Arc<Field> {
    Arc::new(Field::new(name, t, nullable))
}

fn struct_of(rng: &mut Rng, children: Vec<(&str, ArrayRef)>, n: usize, with_nulls: bool) -> ArrayRef {
    let fields: Fields = children.iter().map(|(name, a)| Field::new(*name, a.data_type().clone(), true)).collect();
    let cols: Vec<ArrayRef> = children.into_iter().map(|(_, a)| a).collect();
    let nulls = if with_nulls { nulls_of(&run_validity(rng, n, 70, 50)) } else { None };
    Arc::new(StructArray::new(fields, cols, nulls))
}

/// list offsets over `n` lists: mostly short lists, now and then a long one
fn list_offsets(rng: &mut Rng, n: usize) -> (Vec<i32>, usize) {
    let mut o = vec![0i32];
    let mut acc = 0usize;
    for _ in 0..n {
        acc += match rng.below(12) {
            0 | 1 => 0,
            2..=8 => 1 + rng.below(3),
            9 | 10 => 4 + rng.below(6),
            _ => *rng.pick(&[63usize, 64, 65, 130]),
        };
        o.push(acc as i32);
    }
    (o, acc)
}

/// one of the parent shapes over a leaf of type `t` with the given leaf null density; `n` rows
pub fn column(rng: &mut Rng, shape: usize, t: &DataType, n: usize, density: usize) -> ArrayRef {
    match shape % 9 {
        // struct { leaf }
        0 => {
            let l = leaf(rng, t, n, density);
            struct_of(rng, vec![("a", l)], n, true)
        }
        // struct { struct { leaf, leaf } }
        1 => {
            let l1 = leaf(rng, t, n, density);
            let d2 = *rng.pick(DENSITIES);
            let l2 = leaf(rng, &DataType::Int32, n, d2);
            let inner = struct_of(rng, vec![("x", l1), ("y", l2)], n, true);
            struct_of(rng, vec![("s", inner)], n, true)
        }
        // list < struct { leaf } >
        2 => {
            let (o, m) = list_offsets(rng, n);
            let l = leaf(rng, t, m, density);
            let st = struct_of(rng, vec![("a", l)], m, true);
            let nulls = nulls_of(&run_validity(rng, n, 50, 50));
            Arc::new(ListArray::new(fld("item", st.data_type().clone(), true), OffsetBuffer::new(ScalarBuffer::from(o)), st, nulls))
        }
        // struct { list < leaf > }
        3 => {
            let (o, m) = list_offsets(rng, n);
            let l = leaf(rng, t, m, density);
            let lnulls = nulls_of(&run_validity(rng, n, 30, 30));
            let list: ArrayRef = Arc::new(ListArray::new(fld("item", t.clone(), true), OffsetBuffer::new(ScalarBuffer::from(o)), l, lnulls));
            struct_of(rng, vec![("l", list)], n, true)
        }
        // list view < leaf >  (ascending, with gaps: unused child slots between the views)
        4 | 5 => {
            let mut offs = vec![];
            let mut sizes = vec![];
            let mut acc = 0i32;
            for _ in 0..n {
                acc += rng.below(2) as i32; // gap
                let s = match rng.below(10) {
                    0 => 0,
                    9 => *rng.pick(&[64i32, 65, 70]),
                    _ => 1 + rng.below(3) as i32,
                };
                offs.push(acc);
                sizes.push(s);
                acc += s;
            }
            let m = acc as usize + rng.below(3);
            let l = leaf(rng, t, m, density);
            let child: ArrayRef = if shape % 9 == 5 { struct_of(rng, vec![("a", l)], m, true) } else { l };
            let nulls = nulls_of(&run_validity(rng, n, 50, 50));
            Arc::new(ListViewArray::new(fld("item", child.data_type().clone(), true), ScalarBuffer::from(offs), ScalarBuffer::from(sizes), child, nulls))
        }
        // list < list < leaf > >
        6 => {
            let (o1, m1) = list_offsets(rng, n);
            let (o2, m2) = list_offsets(rng, m1);
            let l = leaf(rng, t, m2, density);
            let inner_nulls = nulls_of(&run_validity(rng, m1, 50, 50));
            let inner: ArrayRef = Arc::new(ListArray::new(fld("item", t.clone(), true), OffsetBuffer::new(ScalarBuffer::from(o2)), l, inner_nulls));
            let nulls = nulls_of(&run_validity(rng, n, 50, 50));
            Arc::new(ListArray::new(fld("item", inner.data_type().clone(), true), OffsetBuffer::new(ScalarBuffer::from(o1)), inner, nulls))
        }
        // map < int32, leaf >
        7 => {
            let (o, m) = list_offsets(rng, n);
            let keys: ArrayRef = Arc::new(Int32Array::from_iter_values(0..m as i32));
            let vals = leaf(rng, t, m, density);
            let kv = Fields::from(vec![Field::new("key", DataType::Int32, false), Field::new("value", t.clone(), true)]);
            let entries = StructArray::new(kv.clone(), vec![keys, vals], None);
            let nulls = nulls_of(&run_validity(rng, n, 50, 50));
            Arc::new(MapArray::new(fld("entries", DataType::Struct(kv), false), OffsetBuffer::new(ScalarBuffer::from(o)), entries, nulls, false))
        }
        // struct { leaf, struct { list < struct { leaf } > } }
        _ => {
            let (o, m) = list_offsets(rng, n);
            let l = leaf(rng, t, m, density);
            let st = struct_of(rng, vec![("v", l)], m, true);
            let lnulls = nulls_of(&run_validity(rng, n, 30, 30));
            let list: ArrayRef = Arc::new(ListArray::new(fld("item", st.data_type().clone(), true), OffsetBuffer::new(ScalarBuffer::from(o)), st, lnulls));
            let mid = struct_of(rng, vec![("l", list)], n, true);
            let flat = leaf(rng, t, n, density);
            struct_of(rng, vec![("f", flat), ("m", mid)], n, true)
        }
    }
}
