//! Minimal reproductions of the known findings (`c05 repro`): prints one line per case.
use arrow_array::types::*;
use arrow_array::*;
use arrow_buffer::ScalarBuffer;
use arrow_schema::{DataType, Field, Schema};
use bytes::Bytes;
use parquet::arrow::arrow_reader::ParquetRecordBatchReaderBuilder;
use parquet::arrow::arrow_writer::ArrowWriter;
use std::sync::Arc;
use vcore::{guarded, tok};

fn roundtrip(name: &str, a: ArrayRef) {
    roundtrip_with(name, a, None)
}

fn roundtrip_with(name: &str, a: ArrayRef, props: Option<parquet::file::properties::WriterProperties>) {
    let schema = Arc::new(Schema::new(vec![Field::new("c", a.data_type().clone(), true)]));
    let batch = RecordBatch::try_new(schema.clone(), vec![a.clone()]).unwrap();
    let r = guarded(|| -> Result<Vec<String>, String> {
        let mut buf = vec![];
        let mut w = ArrowWriter::try_new(&mut buf, schema.clone(), props.clone()).map_err(|e| format!("try_new: {e}"))?;
        w.write(&batch).map_err(|e| format!("write: {e}"))?;
        w.close().map_err(|e| format!("close: {e}"))?;
        let rdr = ParquetRecordBatchReaderBuilder::try_new(Bytes::from(buf)).map_err(|e| format!("open: {e}"))?.build().map_err(|e| format!("build: {e}"))?;
        let mut out = vec![];
        for b in rdr {
            out.extend(tok::batch_rows(&b.map_err(|e| format!("read: {e}"))?));
        }
        Ok(out)
    });
    let rin = tok::rows(a.as_ref());
    match r {
        Ok(Ok(out)) if rin.len() > 10 => println!("{name}: {} in={} rows out={} rows", if out == rin { "same" } else { "DIFFERENT" }, rin.len(), out.len()),
        Ok(Ok(out)) => println!("{name}: {} in={:?} out={:?}", if out == rin { "same" } else { "DIFFERENT" }, rin, out),
        Ok(Err(e)) => println!("{name}: error {e}"),
        Err(p) => println!("{name}: PANIC {p}"),
    }
}

fn lv(offsets: Vec<i32>, sizes: Vec<i32>, child: ArrayRef) -> ArrayRef {
    let f = Arc::new(Field::new("item", child.data_type().clone(), true));
    Arc::new(ListViewArray::new(f, ScalarBuffer::from(offsets), ScalarBuffer::from(sizes), child, None))
}

fn write_after_finish() {
    let schema = Arc::new(Schema::new(vec![Field::new("c", DataType::Int32, false)]));
    let batch = RecordBatch::try_new(schema.clone(), vec![Arc::new(Int32Array::from(vec![1, 2, 3])) as ArrayRef]).unwrap();
    let mut buf = vec![];
    let mut w = ArrowWriter::try_new(&mut buf, schema.clone(), None).unwrap();
    w.write(&batch).unwrap();
    w.finish().unwrap();
    let r = w.write(&batch);
    println!("write after finish: {}", match &r { Ok(()) => "Ok(()) -- accepted, rows are lost".to_string(), Err(e) => format!("error {e}") });
    drop(w);
    let n: usize = ParquetRecordBatchReaderBuilder::try_new(Bytes::from(buf)).unwrap().build().unwrap().map(|b| b.unwrap().num_rows()).sum();
    println!("write after finish: file holds {n} rows");
}

pub fn run() {
    write_after_finish();
    if std::env::var("C05_LOCATE").is_ok() {
        // locate the panic of the zero-width column
        let a: ArrayRef = Arc::new(FixedSizeBinaryArray::try_new_with_len(0, arrow_buffer::Buffer::from_vec(Vec::<u8>::new()), None, 3).unwrap());
        let schema = Arc::new(Schema::new(vec![Field::new("c", a.data_type().clone(), true)]));
        let batch = RecordBatch::try_new(schema.clone(), vec![a]).unwrap();
        let mut buf = vec![];
        let mut w = ArrowWriter::try_new(&mut buf, schema, None).unwrap();
        let _ = w.write(&batch);
    }
    let ints: ArrayRef = Arc::new(Int32Array::from(vec![1, 2, 3, 4, 5]));
    let strs: ArrayRef = Arc::new(StringArray::from(vec!["a", "b", "c", "d", "e"]));
    roundtrip("listview ordered", lv(vec![0, 2, 3], vec![2, 1, 2], ints.clone()));
    roundtrip("listview reversed offsets", lv(vec![3, 0], vec![2, 3], ints.clone()));
    roundtrip("listview overlapping", lv(vec![0, 1], vec![3, 3], ints.clone()));
    roundtrip("listview gap", lv(vec![0, 3], vec![1, 2], ints.clone()));
    roundtrip("listview utf8 reversed offsets", lv(vec![3, 0], vec![2, 3], strs.clone()));
    roundtrip("listview utf8 overlapping", lv(vec![0, 1], vec![3, 3], strs.clone()));
    roundtrip("listview sliced", lv(vec![0, 2, 3], vec![2, 1, 2], ints.clone()).slice(1, 2));
    // dictionaries
    let keys = Int8Array::from(vec![0, 1, 0]);
    roundtrip("dict<int8, utf8view>", Arc::new(DictionaryArray::new(keys.clone(), Arc::new(StringViewArray::from(vec!["x", "y"])))));
    roundtrip("dict<int8, utf8>", Arc::new(DictionaryArray::new(keys.clone(), Arc::new(StringArray::from(vec!["x", "y"])))));
    let dec: ArrayRef = Arc::new(Decimal128Array::from(vec![1i128, 2]).with_precision_and_scale(20, 2).unwrap());
    roundtrip("dict<int8, decimal128(20,2)>", Arc::new(DictionaryArray::new(keys.clone(), dec)));
    let dec9: ArrayRef = Arc::new(Decimal128Array::from(vec![1i128, 2]).with_precision_and_scale(9, 2).unwrap());
    roundtrip("dict<int8, decimal128(9,2)>", Arc::new(DictionaryArray::new(keys.clone(), dec9)));
    let fsb: ArrayRef = Arc::new(FixedSizeBinaryArray::try_from_iter(vec![vec![1u8, 2, 3, 4], vec![5, 6, 7, 8]].into_iter()).unwrap());
    roundtrip("dict<int8, fixedsizebinary(4)>", Arc::new(DictionaryArray::new(keys.clone(), fsb)));
    let f16: ArrayRef = Arc::new(Float16Array::from(vec![half::f16::from_f32(1.0), half::f16::from_f32(2.0)]));
    roundtrip("dict<int8, float16>", Arc::new(DictionaryArray::new(keys.clone(), f16)));
    roundtrip("fixedsizebinary(0)", Arc::new(FixedSizeBinaryArray::try_new_with_len(0, arrow_buffer::Buffer::from_vec(Vec::<u8>::new()), None, 3).unwrap()));
    {
        use parquet::basic::Encoding;
        use parquet::file::properties::WriterProperties;
        let mk = || -> ArrayRef {
            let fsb: ArrayRef = Arc::new(FixedSizeBinaryArray::try_from_iter(vec![vec![1u8, 2, 3, 4], vec![5, 6, 7, 8]].into_iter()).unwrap());
            Arc::new(DictionaryArray::new(Int8Array::from(vec![Some(0), None, Some(1), Some(0)]), fsb))
        };
        roundtrip_with("dict<int8, fsb(4)> with null key", mk(), None);
        roundtrip_with("dict<int8, fsb(4)> dictionary disabled", mk(), Some(WriterProperties::builder().set_dictionary_enabled(false).build()));
        roundtrip_with("dict<int8, fsb(4)> dict page limit 1", mk(), Some(WriterProperties::builder().set_dictionary_page_size_limit(1).build()));
        roundtrip_with("dict<int8, fsb(4)> BYTE_STREAM_SPLIT", mk(), Some(WriterProperties::builder().set_encoding(Encoding::BYTE_STREAM_SPLIT).build()));
        roundtrip_with("dict<int8, fsb(4)> v2", mk(), Some(WriterProperties::builder().set_writer_version(parquet::file::properties::WriterVersion::PARQUET_2_0).build()));
        let fsb: ArrayRef = Arc::new(FixedSizeBinaryArray::try_from_iter(vec![vec![1u8, 2, 3, 4], vec![5, 6, 7, 8]].into_iter()).unwrap());
        roundtrip_with("dict<int8, fsb(4)> empty", Arc::new(DictionaryArray::new(Int8Array::from(Vec::<i8>::new()), fsb.clone())), None);
        roundtrip_with("dict<int8, fsb(4)> all null", Arc::new(DictionaryArray::new(Int8Array::from(vec![None, None]), fsb)), None);
    }
    {
        use parquet::file::properties::{CdcOptions, WriterProperties};
        for oi_off in [false, true] {
            for rows in [3usize, 8, 20] {
                let a: ArrayRef = Arc::new(Int32Array::from_iter_values(0..60));
                let p = WriterProperties::builder()
                    .set_content_defined_chunking(Some(CdcOptions { min_chunk_size: 8, max_chunk_size: 200, norm_level: 1 }))
                    .set_data_page_row_count_limit(rows)
                    .set_write_batch_size(2)
                    .set_offset_index_disabled(oi_off)
                    .set_statistics_enabled(parquet::file::properties::EnabledStatistics::None)
                    .build();
                roundtrip_with(&format!("cdc int32 x60 page_rows={rows} oi_off={oi_off}"), a, Some(p));
            }
        }
    }
    {
        use parquet::file::properties::{CdcOptions, WriterProperties, WriterVersion};
        for (rows, v2) in [(3usize, true), (1, true), (3, false)] {
            let a: ArrayRef = Arc::new(BooleanArray::from((0..60).map(|i| i % 3 == 0).collect::<Vec<bool>>()));
            let p = WriterProperties::builder()
                .set_writer_version(if v2 { WriterVersion::PARQUET_2_0 } else { WriterVersion::PARQUET_1_0 })
                .set_content_defined_chunking(Some(CdcOptions { min_chunk_size: 8, max_chunk_size: 200, norm_level: 1 }))
                .set_data_page_row_count_limit(rows)
                .set_write_batch_size(2)
                .build();
            roundtrip_with(&format!("cdc boolean x60 page_rows={rows} v2={v2} (v2: RLE values)"), a, Some(p));
        }
    }
    let _ = DataType::Null;
    let _: Option<Int32Type> = None;
}
