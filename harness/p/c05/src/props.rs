//! Random `WriterProperties` (inputs only).
use arrow_schema::Schema;
use parquet::arrow::ArrowSchemaConverter;
use parquet::basic::{BrotliLevel, Compression, Encoding, GzipLevel, Type as PhysType, ZstdLevel};
use parquet::file::metadata::ParquetMetaData;
use parquet::file::properties::{BloomFilterPosition, CdcOptions, EnabledStatistics, WriterProperties, WriterVersion};
use parquet::schema::types::ColumnPath;
use vcore::Rng;

pub struct Props {
    pub v2: bool,
    /// per leaf: explicit (fallback) encoding
    pub enc: Vec<Option<Encoding>>,
    /// per leaf: dictionary enabled
    pub dict: Vec<bool>,
    pub dict_page: Option<usize>,
    pub page_bytes: Option<usize>,
    pub page_rows: Option<usize>,
    pub batch: Option<usize>,
    pub maxrg: Option<usize>,
    pub maxbytes: Option<usize>,
    pub comp: Compression,
    pub stats: u8,
    pub bloom: Option<(u64, f64)>,
    pub bloom_end: bool,
    pub cdc: Option<(usize, usize, i32)>,
    pub oi_disabled: bool,
    pub hdr_stats: bool,
    pub ndv: bool,
    pub v2_ratio: Option<f64>,
    pub trunc: Option<Option<usize>>,
    paths: Vec<ColumnPath>,
}

fn encodings_for(t: PhysType) -> &'static [Encoding] {
    match t {
        PhysType::BOOLEAN => &[Encoding::PLAIN, Encoding::RLE],
        PhysType::INT32 | PhysType::INT64 => &[Encoding::PLAIN, Encoding::DELTA_BINARY_PACKED, Encoding::BYTE_STREAM_SPLIT],
        PhysType::FLOAT | PhysType::DOUBLE => &[Encoding::PLAIN, Encoding::BYTE_STREAM_SPLIT],
        PhysType::BYTE_ARRAY => &[Encoding::PLAIN, Encoding::DELTA_LENGTH_BYTE_ARRAY, Encoding::DELTA_BYTE_ARRAY],
        PhysType::FIXED_LEN_BYTE_ARRAY => &[Encoding::PLAIN, Encoding::DELTA_BYTE_ARRAY, Encoding::BYTE_STREAM_SPLIT],
        PhysType::INT96 => &[Encoding::PLAIN],
    }
}

impl Props {
    pub fn random(rng: &mut Rng, schema: &Schema, total_rows: usize) -> Props {
        let (paths, phys): (Vec<ColumnPath>, Vec<PhysType>) = match ArrowSchemaConverter::new().convert(schema) {
            Ok(d) => d.columns().iter().map(|c| (c.path().clone(), c.physical_type())).unzip(),
            Err(_) => (vec![], vec![]),
        };
        let dict_mode = rng.below(4); // 0: off, 1: on, 2/3: per leaf
        let small = |rng: &mut Rng, xs: &[usize]| -> Option<usize> { if rng.chance(60) { Some(*rng.pick(xs)) } else { None } };
        Props {
            v2: rng.chance(50),
            enc: phys.iter().map(|t| if rng.chance(60) { Some(*rng.pick(encodings_for(*t))) } else { None }).collect(),
            dict: phys.iter().map(|_| match dict_mode { 0 => false, 1 => true, _ => rng.chance(50) }).collect(),
            dict_page: small(rng, &[1, 8, 16, 40, 100, 400]),
            page_bytes: small(rng, &[1, 10, 32, 64, 200, 1000]),
            page_rows: small(rng, &[1, 2, 3, 5, 8, 20]),
            batch: small(rng, &[1, 2, 3, 4, 7, 16, 32]),
            maxrg: if rng.chance(65) { Some(1 + rng.below(total_rows + 2)) } else { None },
            maxbytes: if rng.chance(12) { Some(*rng.pick(&[1usize, 50, 200, 1000, 100000])) } else { None },
            comp: match rng.below(9) {
                0 => Compression::SNAPPY,
                1 => Compression::GZIP(GzipLevel::default()),
                2 => Compression::BROTLI(BrotliLevel::default()),
                3 => Compression::LZ4,
                4 => Compression::ZSTD(ZstdLevel::default()),
                5 => Compression::LZ4_RAW,
                _ => Compression::UNCOMPRESSED,
            },
            stats: rng.below(3) as u8,
            bloom: if rng.chance(30) { Some((*rng.pick(&[1u64, 4, 32, 1000]), *rng.pick(&[0.5f64, 0.05, 0.001]))) } else { None },
            bloom_end: rng.chance(50),
            cdc: if rng.chance(15) { Some(*rng.pick(&[(16usize, 80usize, 0i32), (32, 160, 0), (8, 200, 1), (64, 1024, 0), (16, 4096, -1)])) } else { None },
            oi_disabled: rng.chance(15),
            hdr_stats: rng.chance(30),
            ndv: rng.chance(20),
            v2_ratio: if rng.chance(20) { Some(*rng.pick(&[0.5f64, 1.0, 1.5, 100.0])) } else { None },
            trunc: if rng.chance(30) { Some(*rng.pick(&[None, Some(1usize), Some(2), Some(3), Some(64)])) } else { None },
            paths,
        }
    }

    pub fn build(&self, _schema: &Schema) -> Result<WriterProperties, String> {
        let mut b = WriterProperties::builder()
            .set_writer_version(if self.v2 { WriterVersion::PARQUET_2_0 } else { WriterVersion::PARQUET_1_0 })
            .set_compression(self.comp)
            .set_statistics_enabled(match self.stats {
                0 => EnabledStatistics::None,
                1 => EnabledStatistics::Chunk,
                _ => EnabledStatistics::Page,
            })
            .set_max_row_group_row_count(self.maxrg)
            .set_max_row_group_bytes(self.maxbytes)
            .set_offset_index_disabled(self.oi_disabled)
            .set_write_page_header_statistics(self.hdr_stats)
            .set_write_row_group_number_distinct_values(self.ndv)
            .set_bloom_filter_position(if self.bloom_end { BloomFilterPosition::End } else { BloomFilterPosition::AfterRowGroup });
        if let Some(x) = self.dict_page {
            b = b.set_dictionary_page_size_limit(x);
        }
        if let Some(x) = self.page_bytes {
            b = b.set_data_page_size_limit(x);
        }
        if let Some(x) = self.page_rows {
            b = b.set_data_page_row_count_limit(x);
        }
        if let Some(x) = self.batch {
            b = b.set_write_batch_size(x);
        }
        if let Some((ndv, fpp)) = self.bloom {
            b = b.set_bloom_filter_enabled(true).set_bloom_filter_max_ndv(ndv).set_bloom_filter_fpp(fpp);
        }
        if let Some((lo, hi, norm)) = self.cdc {
            b = b.set_content_defined_chunking(Some(CdcOptions { min_chunk_size: lo, max_chunk_size: hi, norm_level: norm }));
        }
        if let Some(r) = self.v2_ratio {
            b = b.set_data_page_v2_compression_ratio_threshold(r);
        }
        if let Some(t) = self.trunc {
            b = b.set_statistics_truncate_length(t).set_column_index_truncate_length(t);
        }
        for (i, path) in self.paths.iter().enumerate() {
            b = b.set_column_dictionary_enabled(path.clone(), self.dict[i]);
            if let Some(e) = self.enc[i] {
                b = b.set_column_encoding(path.clone(), e);
            }
        }
        Ok(b.build())
    }

    /// per leaf of the written file: was dictionary encoding enabled (matched by column path)
    pub fn dict_leaves(&self, meta: &ParquetMetaData) -> Vec<bool> {
        meta.file_metadata()
            .schema_descr()
            .columns()
            .iter()
            .map(|c| self.paths.iter().position(|p| p == c.path()).map(|i| self.dict[i]).unwrap_or(true))
            .collect()
    }

    pub fn describe(&self) -> String {
        format!(
            "v{} enc={:?} dict={:?} dictpage={:?} pagebytes={:?} pagerows={:?} batch={:?} maxrg={:?} maxbytes={:?} comp={:?} stats={} bloom={:?} cdc={:?} oi_off={} hdr={} ndv={} ratio={:?} trunc={:?}",
            if self.v2 { 2 } else { 1 },
            self.enc, self.dict, self.dict_page, self.page_bytes, self.page_rows, self.batch, self.maxrg, self.maxbytes, self.comp,
            self.stats, self.bloom, self.cdc, self.oi_disabled, self.hdr_stats, self.ndv, self.v2_ratio, self.trunc
        )
    }
}
