//! JSON: (1) documents generated from a typed value tree (random white space, every escape form, number forms,
//! key order, unknown and missing keys) and mutated near-valid / invalid texts, read with arrow-json under the
//! schema the tree implies -> `json_text` events (the specification parses the text itself); (2) writer round
//! trips over the supported type set and all writer options -> `json_rt` events, plus a `json_text` event with
//! the input rows as value trees when the schema lies in Utf8 / Int64 / Float64 / Boolean / List / Struct.
use crate::csv::edge_array;
use crate::util::*;
use arrow_array::cast::AsArray;
use arrow_array::types::*;
use arrow_array::*;
use arrow_json::writer::{JsonArray, LineDelimited};
use arrow_json::{ReaderBuilder, StructMode, WriterBuilder};
use arrow_schema::{DataType, Field, Fields, Schema, TimeUnit};
use std::io::Cursor;
use std::sync::Arc;
use vcore::mk::{self, Cfg};
use vcore::trace::Shards;
use vcore::{guarded, json, tok, Args, Rng, Value};

/// the type fragment the specification evaluates values of
#[derive(Clone, Debug)]
pub enum JT {
    Int,
    /// an integer column of another width: (bits, unsigned)
    IntW(u8, bool),
    Float,
    Str,
    Bool,
    List(Box<JT>),
    Struct(Vec<(String, JT)>),
}

impl JT {
    pub fn arrow(&self) -> DataType {
        match self {
            JT::Int => DataType::Int64,
            JT::IntW(8, false) => DataType::Int8,
            JT::IntW(16, false) => DataType::Int16,
            JT::IntW(32, false) => DataType::Int32,
            JT::IntW(8, true) => DataType::UInt8,
            JT::IntW(16, true) => DataType::UInt16,
            JT::IntW(32, true) => DataType::UInt32,
            JT::IntW(64, true) => DataType::UInt64,
            JT::IntW(_, _) => DataType::Int64,
            JT::Float => DataType::Float64,
            JT::Str => DataType::Utf8,
            JT::Bool => DataType::Boolean,
            JT::List(t) => DataType::List(Arc::new(Field::new("item", t.arrow(), true))),
            JT::Struct(fs) => DataType::Struct(Fields::from(fs.iter().map(|(n, t)| Field::new(n, t.arrow(), true)).collect::<Vec<_>>())),
        }
    }
    pub fn tree(&self) -> Value {
        let (w, u) = match self {
            JT::Int => (64, 0),
            JT::IntW(b, un) => (*b as i32, *un as i32),
            _ => (0, 0),
        };
        let (k, names, kids): (&str, Vec<Value>, Vec<Value>) = match self {
            JT::Int | JT::IntW(_, _) => ("int", vec![], vec![]),
            JT::Float => ("float", vec![], vec![]),
            JT::Str => ("str", vec![], vec![]),
            JT::Bool => ("bool", vec![], vec![]),
            JT::List(t) => ("list", vec![], vec![t.tree()]),
            JT::Struct(fs) => ("struct", fs.iter().map(|(n, _)| cps(n)).collect(), fs.iter().map(|(_, t)| t.tree()).collect()),
        };
        json!({"k": k, "names": names, "kids": kids, "w": w, "u": u})
    }
    /// the fragment type of an Arrow type, if it lies in the fragment
    pub fn of(t: &DataType) -> Option<JT> {
        Some(match t {
            DataType::Int64 => JT::Int,
            DataType::Int8 => JT::IntW(8, false),
            DataType::Int16 => JT::IntW(16, false),
            DataType::Int32 => JT::IntW(32, false),
            DataType::UInt8 => JT::IntW(8, true),
            DataType::UInt16 => JT::IntW(16, true),
            DataType::UInt32 => JT::IntW(32, true),
            DataType::UInt64 => JT::IntW(64, true),
            DataType::Float64 => JT::Float,
            DataType::Utf8 => JT::Str,
            DataType::Boolean => JT::Bool,
            DataType::List(f) => JT::List(Box::new(JT::of(f.data_type())?)),
            DataType::Struct(fs) => {
                let mut v = vec![];
                for f in fs {
                    v.push((f.name().clone(), JT::of(f.data_type())?));
                }
                JT::Struct(v)
            }
            _ => return None,
        })
    }
}

fn node(k: &str, s: Value, kids: Vec<Value>) -> Value {
    json!({"k": k, "s": s, "kids": kids})
}

/// a float as the specification can compare it: the decimal integer when it is one below 10^15, else opaque bits
fn float_repr(x: f64) -> String {
    if x == 0.0 {
        return if x.is_sign_negative() { "i-0".into() } else { "i0".into() };
    }
    if x.fract() == 0.0 && x.abs() < 1e15 {
        return format!("i{}", x as i64);
    }
    format!("b{:016x}", x.to_bits())
}

/// row `i` of `a` as a value tree (positional members for structs)
pub fn tree_of(a: &dyn Array, i: usize) -> Value {
    if a.is_null(i) {
        return node("null", cps(""), vec![]);
    }
    match a.data_type() {
        DataType::Int64 => node("num", cps(&a.as_primitive::<Int64Type>().value(i).to_string()), vec![]),
        DataType::Int8 => node("num", cps(&a.as_primitive::<Int8Type>().value(i).to_string()), vec![]),
        DataType::Int16 => node("num", cps(&a.as_primitive::<Int16Type>().value(i).to_string()), vec![]),
        DataType::Int32 => node("num", cps(&a.as_primitive::<Int32Type>().value(i).to_string()), vec![]),
        DataType::UInt8 => node("num", cps(&a.as_primitive::<UInt8Type>().value(i).to_string()), vec![]),
        DataType::UInt16 => node("num", cps(&a.as_primitive::<UInt16Type>().value(i).to_string()), vec![]),
        DataType::UInt32 => node("num", cps(&a.as_primitive::<UInt32Type>().value(i).to_string()), vec![]),
        DataType::UInt64 => node("num", cps(&a.as_primitive::<UInt64Type>().value(i).to_string()), vec![]),
        DataType::Float64 => node("flt", cps(&float_repr(a.as_primitive::<Float64Type>().value(i))), vec![]),
        DataType::Utf8 => node("str", cps(a.as_string::<i32>().value(i)), vec![]),
        DataType::Boolean => node(if a.as_boolean().value(i) { "true" } else { "false" }, cps(""), vec![]),
        DataType::List(_) => {
            let v = a.as_list::<i32>().value(i);
            node("arr", cps(""), (0..v.len()).map(|j| tree_of(v.as_ref(), j)).collect())
        }
        DataType::Struct(_) => {
            let s = a.as_struct();
            node("obj", cps(""), s.columns().iter().map(|c| tree_of(c.as_ref(), i)).collect())
        }
        _ => node("other", cps(""), vec![]),
    }
}

// ------------------------------------------------------------------------------------------ generated documents

#[derive(Clone, Debug)]
enum JV {
    Null,
    Bool(bool),
    Num(String),
    Str(String),
    Arr(Vec<JV>),
    Obj(Vec<(String, JV)>),
}

const KEYS: &[&str] = &["a", "b", "", "k\"q", "\u{e9}\n", "x y", "\u{1F600}"];

fn gen_type(rng: &mut Rng, depth: usize) -> JT {
    let top = if depth == 0 { 4 } else { 6 };
    match rng.below(top) {
        0 => {
            if rng.chance(50) {
                JT::Int
            } else {
                rng.pick(&[JT::IntW(8, false), JT::IntW(16, false), JT::IntW(32, false), JT::IntW(8, true), JT::IntW(16, true), JT::IntW(32, true), JT::IntW(64, true)]).clone()
            }
        }
        1 => JT::Float,
        2 => JT::Str,
        3 => JT::Bool,
        4 => JT::List(Box::new(gen_type(rng, depth - 1))),
        _ => {
            let n = rng.below(4);
            let mut names: Vec<&str> = KEYS.to_vec();
            let mut fs = vec![];
            for _ in 0..n {
                let k = names.remove(rng.below(names.len()));
                fs.push((k.to_string(), gen_type(rng, depth - 1)));
            }
            JT::Struct(fs)
        }
    }
}

fn gen_string(rng: &mut Rng) -> String {
    let units = ["a", "b", "\"", "\\", "/", "\n", "\r", "\t", "\u{8}", "\u{c}", "\u{0}", "\u{1f}", "\u{7f}", "\u{e9}", "\u{2028}", "\u{ffff}", "\u{10000}", "\u{1F600}", "\u{10ffff}", " ", "{", "]", ",", ":", "u", "1"];
    let n = match rng.below(6) {
        0 => 0,
        1..=3 => 1 + rng.below(3),
        _ => 3 + rng.below(5),
    };
    (0..n).map(|_| *rng.pick(&units)).collect()
}

/// a number lexeme with fraction / exponent (the value of the lexeme is what an integer column must hold)
fn number_lexeme(rng: &mut Rng) -> String {
    let mut s = String::new();
    if rng.chance(40) {
        s.push('-');
    }
    s.push_str(*rng.pick(&["0", "1", "2", "25", "127", "128", "300", "65535", "4294967296", "9007199254740993", "9223372036854775807", "18446744073709551615"]));
    s.push_str(*rng.pick(&["", "", ".0", ".5", ".50", ".000", ".25", ".99999999999999999"]));
    s.push_str(*rng.pick(&["", "", "e0", "E+2", "e-1", "e3", "E-2", "e1", "e18", "e-30", "e400"]));
    s
}

fn gen_value(rng: &mut Rng, t: &JT, wild: bool) -> JV {
    if rng.chance(12) {
        return JV::Null;
    }
    match t {
        JT::IntW(bits, unsigned) => {
            let b = *bits as u32;
            let (lo, hi): (i128, i128) = if *unsigned { (0, (1i128 << b) - 1) } else { (-(1i128 << (b - 1)), (1i128 << (b - 1)) - 1) };
            JV::Num(match rng.below(8) {
                0 => lo.to_string(),
                1 => hi.to_string(),
                2 => (hi + 1).to_string(),
                3 => (lo - 1).to_string(),
                4 => rng.pick(&["0", "-0", "1", "-1"]).to_string(),
                5 => number_lexeme(rng),
                _ => (lo + (rng.next() as i128 & i128::MAX) % (hi - lo + 1)).to_string(),
            })
        }
        JT::Int => JV::Num(match rng.below(8) {
            0 => "0".into(),
            1 => "-0".into(),
            2 => i64::MAX.to_string(),
            3 => i64::MIN.to_string(),
            4 => (rng.next() as i64).to_string(),
            // not integers of the fragment (exponent / fraction / out of range): the specification decides
            5 if wild => rng.pick(&["1e2", "1.0", "9223372036854775808", "-9223372036854775809", "12.5", "1E0"]).to_string(),
            6 => number_lexeme(rng),
            _ => rng.range(-1000, 1000).to_string(),
        }),
        JT::Float => JV::Num(match rng.below(8) {
            0 => rng.pick(&["0", "-0", "0.0", "-0.0", "0e0", "0E-0"]).to_string(),
            1 => rng.pick(&["1.5", "2.5e10", "1e2", "1E+2", "1e-2", "0.1", "123456789012345", "999999999999999", "1000000000000000", "1e15", "12e3", "0.5E1"]).to_string(),
            2 => rng.pick(&["1.7976931348623157e308", "5e-324", "2.2250738585072014e-308", "9007199254740993", "0.30000000000000004", "1e400", "-1e-400"]).to_string(),
            3 => format!("{:?}", f64::from_bits(rng.next() >> 2)),
            _ => rng.range(-100000, 100000).to_string(),
        }),
        JT::Str => JV::Str(gen_string(rng)),
        JT::Bool => JV::Bool(rng.chance(50)),
        JT::List(e) => JV::Arr((0..rng.below(4)).map(|_| gen_value(rng, e, wild)).collect()),
        JT::Struct(fs) => {
            let mut m = vec![];
            for (k, t) in fs {
                if rng.chance(15) {
                    continue; // missing key = null
                }
                m.push((k.clone(), gen_value(rng, t, wild)));
            }
            if rng.chance(10) {
                // a key that is not in the schema (ignored by the reader)
                m.push(("zz".to_string(), gen_value(rng, &JT::List(Box::new(JT::Str)), wild)));
            }
            // members in any order
            for i in (1..m.len()).rev() {
                let j = rng.below(i + 1);
                m.swap(i, j);
            }
            JV::Obj(m)
        }
    }
}

fn ws(rng: &mut Rng, out: &mut String, newline_ok: bool) {
    if rng.chance(75) {
        return;
    }
    for _ in 0..1 + rng.below(2) {
        let c = *rng.pick(&[' ', ' ', '\t', '\n', '\r']);
        if (c == '\n' || c == '\r') && !newline_ok {
            out.push(' ');
        } else {
            out.push(c);
        }
    }
}

fn render_string(rng: &mut Rng, s: &str, out: &mut String) {
    out.push('"');
    for c in s.chars() {
        let cp = c as u32;
        let must = c == '"' || c == '\\' || cp < 0x20;
        let form = if must { 1 + rng.below(2) } else if rng.chance(12) { 2 } else { 0 };
        match form {
            0 => out.push(c),
            1 => {
                // short escape where one exists
                match c {
                    '"' => out.push_str("\\\""),
                    '\\' => out.push_str("\\\\"),
                    '\n' => out.push_str("\\n"),
                    '\r' => out.push_str("\\r"),
                    '\t' => out.push_str("\\t"),
                    '\u{8}' => out.push_str("\\b"),
                    '\u{c}' => out.push_str("\\f"),
                    _ => unicode_escape(rng, cp, out),
                }
            }
            _ => {
                if c == '/' && rng.chance(50) {
                    out.push_str("\\/");
                } else {
                    unicode_escape(rng, cp, out);
                }
            }
        }
    }
    out.push('"');
}

fn unicode_escape(rng: &mut Rng, cp: u32, out: &mut String) {
    let upper = rng.chance(50);
    let mut unit = |u: u32, out: &mut String| {
        if upper {
            out.push_str(&format!("\\u{u:04X}"));
        } else {
            out.push_str(&format!("\\u{u:04x}"));
        }
    };
    if cp >= 0x10000 {
        let v = cp - 0x10000;
        unit(0xD800 + (v >> 10), out);
        unit(0xDC00 + (v & 0x3ff), out);
    } else {
        unit(cp, out);
    }
}

fn render(rng: &mut Rng, v: &JV, out: &mut String, nl: bool) {
    match v {
        JV::Null => out.push_str("null"),
        JV::Bool(b) => out.push_str(if *b { "true" } else { "false" }),
        JV::Num(s) => out.push_str(s),
        JV::Str(s) => render_string(rng, s, out),
        JV::Arr(xs) => {
            out.push('[');
            ws(rng, out, nl);
            for (i, x) in xs.iter().enumerate() {
                if i > 0 {
                    out.push(',');
                    ws(rng, out, nl);
                }
                render(rng, x, out, nl);
                ws(rng, out, nl);
            }
            out.push(']');
        }
        JV::Obj(ms) => {
            out.push('{');
            ws(rng, out, nl);
            for (i, (k, x)) in ms.iter().enumerate() {
                if i > 0 {
                    out.push(',');
                    ws(rng, out, nl);
                }
                render_string(rng, k, out);
                ws(rng, out, nl);
                out.push(':');
                ws(rng, out, nl);
                render(rng, x, out, nl);
                ws(rng, out, nl);
            }
            out.push('}');
        }
    }
}

fn mutate(rng: &mut Rng, s: &str) -> String {
    let mut cs: Vec<char> = s.chars().collect();
    let ins = ['{', '}', '[', ']', ',', ':', '"', '\\', '0', '1', '-', '.', 'e', 'n', 't', 'u', ' ', '\n', 'a', '+'];
    match rng.below(4) {
        0 if !cs.is_empty() => {
            let i = rng.below(cs.len());
            cs.remove(i);
        }
        1 => {
            let i = rng.below(cs.len() + 1);
            cs.insert(i, *rng.pick(&ins));
        }
        2 if !cs.is_empty() => {
            let i = rng.below(cs.len());
            cs[i] = *rng.pick(&ins);
        }
        _ if cs.len() >= 2 => {
            let i = rng.below(cs.len() - 1);
            cs.swap(i, i + 1);
        }
        _ => {}
    }
    cs.into_iter().collect()
}

/// read `text` with the schema of `t`: (outcome, rows as trees)
fn read_trees(text: &[u8], t: &JT, top_struct: bool, bs: usize) -> (String, Vec<Value>) {
    let r = guarded(|| {
        let b = match (top_struct, t) {
            (true, JT::Struct(_)) => {
                let DataType::Struct(fs) = t.arrow() else { unreachable!() };
                ReaderBuilder::new(Arc::new(Schema::new(fs)))
            }
            _ => ReaderBuilder::new_with_field(Field::new("v", t.arrow(), true)),
        };
        let rd = b.with_batch_size(bs).build(Cursor::new(text.to_vec())).map_err(|e| format!("open:{}", variant(&e)))?;
        let mut rows = vec![];
        for b in rd {
            let b = b.map_err(|e| format!("read:{}", variant(&e)))?;
            if top_struct && matches!(t, JT::Struct(_)) {
                let s = StructArray::from(b);
                for i in 0..s.len() {
                    rows.push(tree_of(&s, i));
                }
            } else {
                for i in 0..b.num_rows() {
                    rows.push(tree_of(b.column(0).as_ref(), i));
                }
            }
        }
        Ok::<_, String>(rows)
    });
    match r {
        Ok(Ok(rows)) => ("ok".into(), rows),
        Ok(Err(e)) => (format!("err:{e}"), vec![]),
        Err(p) => (format!("panic:{}", safe(&p.chars().take(60).collect::<String>())), vec![]),
    }
}

pub fn texts(args: &Args, rng: &mut Rng, tr: &mut Shards) -> usize {
    let mut n = 0;
    // fixed corner documents first (each with the schema it needs)
    let fixed: Vec<(&str, JT)> = vec![
        ("0", JT::Int), ("-0", JT::Int), ("-0", JT::Float), ("1", JT::Int), ("1 ", JT::Int), ("1\n", JT::Int), ("\"\\u0000\"", JT::Str), ("\"\"", JT::Str),
        ("\"\\ud83d\\ude00\"", JT::Str), ("\"\\uD83D\\uDE00\"", JT::Str), ("\"\\ud83d\"", JT::Str), ("\"\\ude00\"", JT::Str), ("\"\\/\"", JT::Str),
        ("null", JT::Str), ("true", JT::Bool), ("false", JT::Bool), ("[]", JT::List(Box::new(JT::Int))), ("[ ]", JT::List(Box::new(JT::Int))),
        ("{}", JT::Struct(vec![("a".into(), JT::Int)])), ("{ }", JT::Struct(vec![("a".into(), JT::Str)])), ("[1,2]", JT::List(Box::new(JT::Int))), ("[1,]", JT::List(Box::new(JT::Int))),
        ("[,1]", JT::List(Box::new(JT::Int))), ("[1 2]", JT::List(Box::new(JT::Int))), ("{\"a\":1,}", JT::Struct(vec![("a".into(), JT::Int)])),
        ("{\"a\" 1}", JT::Struct(vec![("a".into(), JT::Int)])), ("01", JT::Int), ("1.", JT::Float), (".5", JT::Float), ("1e", JT::Float), ("+1", JT::Int), ("- 1", JT::Int),
        ("\"a\nb\"", JT::Str), ("\"\\x\"", JT::Str), ("tru", JT::Bool), ("nul", JT::Str), ("", JT::Int), (" ", JT::Int), ("\n\n", JT::Int), ("[[]]", JT::List(Box::new(JT::List(Box::new(JT::Str))))),
        ("1e2", JT::Float), ("1E+2", JT::Float), ("9223372036854775807", JT::Int), ("-9223372036854775808", JT::Int), ("\u{feff}1", JT::Int),
        ("{\"a\":{\"a\":null}}", JT::Struct(vec![("a".into(), JT::Struct(vec![("a".into(), JT::Bool)]))])),
        ("1\n2", JT::Int), ("1 2\t3\r\n4 ", JT::Int), ("\"a\"\"b\"", JT::Str), ("[1][2]", JT::List(Box::new(JT::Int))), ("truefalse", JT::Bool),
    ];
    for (t, ty) in &fixed {
        for top in [false, true] {
            if top && !matches!(ty, JT::Struct(_)) {
                continue;
            }
            let (outcome, rows) = read_trees(t.as_bytes(), ty, top, 1024);
            emit_text(tr, t, ty, top, &outcome, rows, "fixed", None, "object", false);
            n += 1;
        }
    }
    // every number lexeme of a small universe into every integer width (the value of the lexeme decides)
    let widths = [JT::IntW(8, false), JT::IntW(16, false), JT::IntW(32, false), JT::Int, JT::IntW(8, true), JT::IntW(16, true), JT::IntW(32, true), JT::IntW(64, true)];
    let mut lexemes: Vec<(String, bool)> = vec![];
    for sign in ["", "-"] {
        for ip in ["0", "1", "25", "9007199254740993"] {
            for fp in ["", ".0", ".5", ".50"] {
                for ex in ["", "e0", "E+2", "e-1", "e3"] {
                    lexemes.push((format!("{sign}{ip}{fp}{ex}"), false));
                }
            }
        }
    }
    for ip in ["9223372036854775807", "-9223372036854775808", "18446744073709551615", "9223372036854775808", "-9223372036854775809", "18446744073709551616"] {
        for fp in ["", ".0"] {
            for ex in ["", "e0", "E+2", "e-1", "E-0"] {
                lexemes.push((format!("{ip}{fp}{ex}"), true));
            }
        }
    }
    for (lx, wide_only) in &lexemes {
        for ty in &widths {
            if *wide_only && !matches!(ty, JT::Int | JT::IntW(64, true)) {
                continue;
            }
            let text = format!("{lx}\n");
            let (outcome, rows) = read_trees(text.as_bytes(), ty, false, 1024);
            emit_text(tr, &text, ty, false, &outcome, rows, "lexeme", None, "object", false);
            n += 1;
        }
    }
    for _ in 0..args.scale(1200, 50000) {
        let ty = gen_type(rng, 2);
        let ndocs = 1 + rng.below(3);
        let wild = rng.chance(30);
        let mut text = String::new();
        let nl = rng.chance(50);
        ws(rng, &mut text, true);
        for d in 0..ndocs {
            if d > 0 {
                text.push(*rng.pick(&['\n', '\n', ' ', '\t', '\r']));
                ws(rng, &mut text, true);
            }
            let v = gen_value(rng, &ty, wild);
            render(rng, &v, &mut text, nl);
        }
        if rng.chance(70) {
            text.push(*rng.pick(&['\n', ' ', '\n']));
        }
        if rng.chance(35) {
            text = mutate(rng, &text);
        }
        if text.chars().count() > 400 {
            continue;
        }
        let top = matches!(&ty, JT::Struct(fs) if !fs.is_empty()) && rng.chance(50);
        let (outcome, rows) = read_trees(text.as_bytes(), &ty, top, *rng.pick(&[1usize, 2, 1024]));
        emit_text(tr, &text, &ty, top, &outcome, rows, "gen", None, "object", false);
        n += 1;
    }
    n
}

#[allow(clippy::too_many_arguments)]
fn emit_text(tr: &mut Shards, text: &str, ty: &JT, top: bool, outcome: &str, rows: Vec<Value>, src: &str, want: Option<Vec<Value>>, smode: &str, flatten: bool) {
    let mut ev = json!({
        "op": "json_text", "src": src, "text": cps(text), "schema": ty.tree(), "top_struct": top, "smode": smode, "flatten": flatten,
        "outcome": if outcome == "ok" { "ok" } else if outcome.starts_with("panic") { "panic" } else { "err" }, "why": outcome,
        "rows": rows, "has_want": want.is_some(),
    });
    if let Some(w) = want {
        ev["want"] = Value::Array(w);
    }
    tr.emit(ev);
    tr.next_episode();
}

// ------------------------------------------------------------------------------------------ writer round trips

fn fld(name: &str, t: DataType, nullable: bool) -> Arc<Field> {
    Arc::new(Field::new(name, t, nullable))
}

fn json_types() -> Vec<DataType> {
    use DataType::*;
    let mut v = vec![
        Boolean, Int8, Int16, Int32, Int64, Int64, UInt8, UInt16, UInt32, UInt64, Float16, Float32, Float64, Float64,
        Decimal32(9, 2), Decimal64(18, 3), Decimal128(38, 10), Decimal256(76, 5), Date32, Date64,
        Time32(TimeUnit::Second), Time32(TimeUnit::Millisecond), Time64(TimeUnit::Microsecond), Time64(TimeUnit::Nanosecond),
        Timestamp(TimeUnit::Second, None), Timestamp(TimeUnit::Millisecond, Some("+01:00".into())), Timestamp(TimeUnit::Microsecond, None),
        Timestamp(TimeUnit::Nanosecond, Some("+00:00".into())), Duration(TimeUnit::Millisecond), Utf8, Utf8, Utf8, LargeUtf8, Utf8View,
        Binary, LargeBinary, BinaryView, FixedSizeBinary(3), Null,
        List(fld("item", Int64, true)), List(fld("item", Utf8, true)), List(fld("item", Float64, true)), LargeList(fld("item", Boolean, true)),
        FixedSizeList(fld("item", Int32, true), 2), ListView(fld("item", Int16, true)),
        Struct(Fields::from(vec![Field::new("a", Int64, true), Field::new("b", Utf8, true)])),
        Struct(Fields::from(vec![Field::new("q\"k", List(fld("item", Float64, true)), true), Field::new("", Struct(Fields::from(vec![Field::new("x", Boolean, true)])), true)])),
        List(fld("item", Struct(Fields::from(vec![Field::new("a", Int64, true), Field::new("s", Utf8, true)])), true)),
        List(fld("item", List(fld("item", Int64, true)), true)),
        Map(fld("entries", Struct(Fields::from(vec![Field::new("key", Utf8, false), Field::new("value", Int32, true)])), false), false),
        Dictionary(Box::new(Int8), Box::new(Utf8)), Dictionary(Box::new(Int32), Box::new(Int64)),
        RunEndEncoded(fld("run_ends", Int32, false), fld("values", Utf8, true)),
    ];
    v.push(Struct(Fields::from(vec![Field::new("i", Int64, true), Field::new("f", Float64, true), Field::new("s", Utf8, true), Field::new("l", List(fld("item", Boolean, true)), true)])));
    v
}

/// a child array of `n` slots whose nulls are LOGICAL (no validity bitmap of its own says so): run-end encoded
/// values with null runs, dictionaries with null values and / or null keys, the Null type
fn logical_null_child(rng: &mut Rng, n: usize) -> ArrayRef {
    use arrow_array::types::{Int16Type, Int32Type, Int8Type};
    let run_ends = |rng: &mut Rng| -> Vec<usize> {
        let mut ends = vec![];
        let mut acc = 0;
        while acc < n {
            acc = (acc + 1 + rng.below(3)).min(n);
            ends.push(acc);
        }
        ends
    };
    match rng.below(6) {
        0 => {
            let ends = run_ends(rng);
            let vals: Int64Array = (0..ends.len()).map(|i| if i % 2 == 1 || rng.chance(30) { None } else { Some(rng.range(-3, 3)) }).collect();
            let re = Int32Array::from(ends.iter().map(|x| *x as i32).collect::<Vec<_>>());
            Arc::new(RunArray::<Int32Type>::try_new(&re, &vals).unwrap())
        }
        1 => {
            let ends = run_ends(rng);
            let vals: StringArray = (0..ends.len()).map(|i| if i % 2 == 0 && rng.chance(70) { None } else { Some(gen_string(rng)) }).collect();
            let re = Int16Array::from(ends.iter().map(|x| *x as i16).collect::<Vec<_>>());
            Arc::new(RunArray::<Int16Type>::try_new(&re, &vals).unwrap())
        }
        2 => {
            // dictionary whose VALUES hold a null (keys all valid): no key bitmap at all
            let values = StringArray::from(vec![Some("a"), None, Some("b\"")]);
            let keys = Int8Array::from((0..n).map(|_| rng.below(3) as i8).collect::<Vec<_>>());
            Arc::new(DictionaryArray::<Int8Type>::try_new(keys, Arc::new(values)).unwrap())
        }
        3 => {
            // null values and null keys
            let values = Int64Array::from(vec![Some(7), None]);
            let keys: Int32Array = (0..n).map(|_| if rng.chance(25) { None } else { Some(rng.below(2) as i32) }).collect();
            Arc::new(DictionaryArray::<Int32Type>::try_new(keys, Arc::new(values)).unwrap())
        }
        4 => {
            let values = StringArray::from(vec!["x", "y"]);
            let keys: Int8Array = (0..n).map(|_| if rng.chance(40) { None } else { Some(rng.below(2) as i8) }).collect();
            Arc::new(DictionaryArray::<Int8Type>::try_new(keys, Arc::new(values)).unwrap())
        }
        _ => Arc::new(NullArray::new(n)),
    }
}

/// a column of `rows` rows: a container (list, large list, fixed-size list, struct, map - or none) over such a child
pub fn logical_null_column(rng: &mut Rng, rows: usize) -> (DataType, ArrayRef) {
    use arrow_buffer::{NullBuffer, OffsetBuffer};
    let nulls = |rng: &mut Rng| -> Option<NullBuffer> { if rng.chance(50) { None } else { Some(NullBuffer::from((0..rows).map(|_| !rng.chance(25)).collect::<Vec<bool>>())) } };
    let sizes: Vec<usize> = (0..rows).map(|_| *rng.pick(&[0usize, 1, 1, 2, 3])).collect();
    let total: usize = sizes.iter().sum();
    let a: ArrayRef = match rng.below(6) {
        0 => {
            let c = logical_null_child(rng, total);
            let f = fld("item", c.data_type().clone(), true);
            Arc::new(ListArray::new(f, OffsetBuffer::from_lengths(sizes.clone()), c, nulls(rng)))
        }
        1 => {
            let c = logical_null_child(rng, total);
            let f = fld("item", c.data_type().clone(), true);
            Arc::new(LargeListArray::new(f, OffsetBuffer::from_lengths(sizes.clone()), c, nulls(rng)))
        }
        2 => {
            let c = logical_null_child(rng, rows * 2);
            let f = fld("item", c.data_type().clone(), true);
            Arc::new(FixedSizeListArray::new(f, 2, c, nulls(rng)))
        }
        3 => {
            let c = logical_null_child(rng, rows);
            let x: ArrayRef = Arc::new(Int64Array::from((0..rows).map(|i| i as i64).collect::<Vec<_>>()));
            let fields = Fields::from(vec![Field::new("x", c.data_type().clone(), true), Field::new("y", DataType::Int64, true)]);
            Arc::new(StructArray::new(fields, vec![c, x], nulls(rng)))
        }
        4 => {
            let c = logical_null_child(rng, total);
            let keys: ArrayRef = Arc::new(StringArray::from((0..total).map(|i| format!("k{i}")).collect::<Vec<_>>()));
            let kv = Fields::from(vec![Field::new("key", DataType::Utf8, false), Field::new("value", c.data_type().clone(), true)]);
            let entries = StructArray::new(kv.clone(), vec![keys, c], None);
            let f = fld("entries", DataType::Struct(kv), false);
            Arc::new(MapArray::new(f, OffsetBuffer::from_lengths(sizes.clone()), entries, nulls(rng), false))
        }
        _ => logical_null_child(rng, rows),
    };
    (a.data_type().clone(), a)
}

/// some dictionary array (at any depth) has a null among its VALUES (scopes a known finding)
fn dict_null_values(a: &dyn Array) -> bool {
    match a.data_type() {
        DataType::Dictionary(_, _) => {
            let d = a.as_any_dictionary();
            d.values().logical_null_count() > 0 || dict_null_values(d.values().as_ref())
        }
        DataType::List(_) => dict_null_values(a.as_list::<i32>().values().as_ref()),
        DataType::LargeList(_) => dict_null_values(a.as_list::<i64>().values().as_ref()),
        DataType::FixedSizeList(_, _) => dict_null_values(a.as_fixed_size_list().values().as_ref()),
        DataType::Map(_, _) => a.as_map().entries().columns().iter().any(|c| dict_null_values(c.as_ref())),
        DataType::Struct(_) => a.as_struct().columns().iter().any(|c| dict_null_values(c.as_ref())),
        _ => false,
    }
}

/// the type with every dictionary replaced by its value type
fn undict(t: &DataType) -> DataType {
    let f = |f: &Arc<Field>| Arc::new(Field::new(f.name(), undict(f.data_type()), f.is_nullable()));
    match t {
        DataType::Dictionary(_, v) => undict(v),
        DataType::List(x) => DataType::List(f(x)),
        DataType::LargeList(x) => DataType::LargeList(f(x)),
        DataType::FixedSizeList(x, n) => DataType::FixedSizeList(f(x), *n),
        DataType::Map(x, o) => DataType::Map(f(x), *o),
        DataType::Struct(fs) => DataType::Struct(fs.iter().map(|x| f(x)).collect::<Vec<_>>().into()),
        other => other.clone(),
    }
}

fn has_duration(t: &DataType) -> bool {
    match t {
        DataType::Duration(_) => true,
        DataType::List(f) | DataType::LargeList(f) | DataType::FixedSizeList(f, _) | DataType::ListView(f) | DataType::LargeListView(f) | DataType::Map(f, _) => has_duration(f.data_type()),
        DataType::Struct(fs) => fs.iter().any(|f| has_duration(f.data_type())),
        DataType::Dictionary(_, v) => has_duration(v),
        _ => false,
    }
}

fn has_map(t: &DataType) -> bool {
    match t {
        DataType::Map(_, _) => true,
        DataType::List(f) | DataType::LargeList(f) | DataType::FixedSizeList(f, _) | DataType::ListView(f) | DataType::LargeListView(f) => has_map(f.data_type()),
        DataType::Struct(fs) => fs.iter().any(|f| has_map(f.data_type())),
        _ => false,
    }
}

pub fn round_trips(args: &Args, rng: &mut Rng, tr: &mut Shards) -> (usize, usize) {
    let types = json_types();
    let mut n = 0;
    let mut skipped = 0;
    for _ in 0..args.scale(800, 24000) {
        let ncols = 1 + rng.below(3);
        let nrows = if rng.chance(10) { 0 } else { 1 + rng.below(4) };
        let mut fields = vec![];
        let mut cols: Vec<ArrayRef> = vec![];
        let fragment = rng.chance(40);
        for c in 0..ncols {
            let dt = loop {
                let t = rng.pick(&types).clone();
                if !fragment || JT::of(&t).is_some() {
                    break t;
                }
            };
            let np = *rng.pick(&[0usize, 30, 30]);
            let mut strings = |r: &mut Rng| gen_string(r);
            let (dt, a) = if !fragment && rng.chance(30) {
                logical_null_column(rng, nrows)
            } else {
                let a = if rng.chance(60) { edge_array(rng, &dt, nrows, np, &mut strings) } else { mk::array(rng, &dt, nrows, Cfg::tame(np)) };
                (dt, a)
            };
            let name = if rng.chance(15) { rng.pick(KEYS).to_string() + &c.to_string() } else { format!("c{c}") };
            fields.push(Field::new(name, dt, true));
            cols.push(a);
        }
        let schema = Arc::new(Schema::new(fields));
        let Ok(batch) = RecordBatch::try_new_with_options(schema.clone(), cols, &RecordBatchOptions::new().with_row_count(Some(nrows))) else { continue };
        let array_framing = rng.chance(40);
        let smode = if rng.chance(25) { StructMode::ListOnly } else { StructMode::ObjectOnly };
        let explicit = rng.chance(50) || schema.fields().iter().any(|f| has_map(f.data_type()));
        let parts: Vec<RecordBatch> = if nrows >= 2 && rng.chance(40) { vec![batch.slice(0, 1), batch.slice(1, nrows - 1)] } else { vec![batch.clone()] };
        let wb = WriterBuilder::new().with_explicit_nulls(explicit).with_struct_mode(smode);
        if std::env::var("C17_DEBUG").is_ok() { eprintln!("json write {}", norm_schema(&schema)); }
        let written = guarded(|| {
            let mut out = Vec::new();
            if array_framing {
                let mut w = wb.clone().build::<_, JsonArray>(&mut out);
                for p in &parts {
                    w.write(p).map_err(|e| variant(&e))?;
                }
                w.finish().map_err(|e| variant(&e))?;
            } else {
                let mut w = wb.clone().build::<_, LineDelimited>(&mut out);
                for p in &parts {
                    w.write(p).map_err(|e| variant(&e))?;
                }
                w.finish().map_err(|e| variant(&e))?;
            }
            Ok::<_, String>(out)
        });
        let text = match written {
            Ok(Ok(t)) => t,
            Ok(Err(_)) => {
                skipped += 1;
                continue;
            }
            Err(p) => {
                tr.emit(json!({"op": "json_rt", "wout": "panic", "why": safe(&p.chars().take(80).collect::<String>()), "schema_in": norm_schema(&schema)}));
                tr.next_episode();
                n += 1;
                continue;
            }
        };
        let Ok(text_s) = String::from_utf8(text.clone()) else {
            tr.emit(json!({"op": "json_rt", "wout": "not-utf8", "schema_in": norm_schema(&schema)}));
            tr.next_episode();
            n += 1;
            continue;
        };
        if text_s.chars().count() > 900 {
            continue;
        }
        let bs = *rng.pick(&[1usize, 2, 1024]);
        let mut unsupported = false;
        if std::env::var("C17_DEBUG").is_ok() { eprintln!("json read {}", norm_schema(&schema)); }
        let read_back = |rs: Arc<Schema>| {
            guarded(|| {
                let rd = ReaderBuilder::new(rs.clone()).with_struct_mode(smode).with_flatten(array_framing).with_batch_size(bs).build(Cursor::new(text.clone())).map_err(|e| (format!("open:{}", variant(&e)), e.to_string()))?;
                let mut rows = vec![];
                let sch = norm_schema(&rd.schema());
                for b in rd {
                    let b = b.map_err(|e| (format!("read:{}", variant(&e)), e.to_string()))?;
                    rows.extend(tok::batch_rows(&b));
                }
                Ok::<_, (String, String)>((rows, sch))
            })
        };
        let is_unsupported = |e: &str, msg: &str| e.ends_with("NotYetImplemented") || msg.contains("not supported") || msg.contains("Unsupported") || msg.contains("unsupported") || msg.contains("not yet implemented");
        let mut read_schema = schema.clone();
        let mut back = read_back(read_schema.clone());
        if matches!(&back, Ok(Err((e, msg))) if is_unsupported(e, msg)) {
            // the reader has no dictionary decoder: read the same text with the dictionaries replaced by their value
            // types (row tokens denote values, so rows out = rows in is still the statement)
            let plain = Arc::new(Schema::new(schema.fields().iter().map(|f| Field::new(f.name(), undict(f.data_type()), f.is_nullable())).collect::<Vec<_>>()));
            if plain != schema {
                read_schema = plain;
                back = read_back(read_schema.clone());
            }
        }
        let (outcome, rows_out, schema_out) = match back {
            Ok(Ok((r, s))) => ("ok".to_string(), r, s),
            Ok(Err((e, msg))) => {
                unsupported = is_unsupported(&e, &msg);
                (format!("err:{e}"), vec![], String::new())
            }
            Err(p) => (format!("panic:{}", safe(&p.chars().take(60).collect::<String>())), vec![], String::new()),
        };
        if unsupported {
            skipped += 1;
            continue;
        }
        tr.emit(json!({
            "op": "json_rt", "framing": if array_framing { "array" } else { "lines" }, "explicit_nulls": explicit,
            "smode": if smode == StructMode::ListOnly { "list" } else { "object" },
            "nrows": nrows, "text": cps(&text_s), "wout": "ok",
            "rows_in": strs(&tok::batch_rows(&batch)), "rows_out": strs(&rows_out), "schema_in": norm_schema(&read_schema), "schema_written": norm_schema(&schema), "schema_out": schema_out,
            "outcome": outcome, "bs": bs, "dict_null_values": batch.columns().iter().any(|c| dict_null_values(c.as_ref())), "has_duration": schema.fields().iter().any(|f| has_duration(f.data_type())),
        }));
        tr.next_episode();
        n += 1;
        // the same text judged value by value when the schema lies in the fragment
        if let Some(ty) = JT::of(&DataType::Struct(schema.fields().clone())) {
            let s = StructArray::from(batch.clone());
            let want: Vec<Value> = (0..nrows).map(|i| tree_of(&s, i)).collect();
            let r = guarded(|| {
                let rd = ReaderBuilder::new(schema.clone()).with_struct_mode(smode).with_flatten(array_framing).build(Cursor::new(text.clone())).map_err(|e| format!("open:{}", variant(&e)))?;
                let mut rows = vec![];
                for b in rd {
                    let b = b.map_err(|e| format!("read:{}", variant(&e)))?;
                    let s = StructArray::from(b);
                    for i in 0..s.len() {
                        rows.push(tree_of(&s, i));
                    }
                }
                Ok::<_, String>(rows)
            });
            let (outcome, rows) = match r {
                Ok(Ok(rows)) => ("ok".to_string(), rows),
                Ok(Err(e)) => (format!("err:{e}"), vec![]),
                Err(p) => (format!("panic:{}", safe(&p.chars().take(60).collect::<String>())), vec![]),
            };
            emit_text(tr, &text_s, &ty, true, &outcome, rows, "writer", Some(want), if smode == StructMode::ListOnly { "list" } else { "object" }, array_framing);
            n += 1;
        }
    }
    (n, skipped)
}
