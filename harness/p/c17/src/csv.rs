//! CSV: (1) texts (exhaustive short ones over the special characters, random longer ones, all formats) read
//! with arrow-csv as Utf8 columns -> `csv_split` events (the specification splits the text itself);
//! (2) writer round trips over the supported type set and all writer options -> `csv_rt` events carrying the
//! field strings the writer was given (ArrayFormatter / the string values), the produced text, the typed
//! read-back (row tokens) and the all-Utf8 read-back.
use crate::util::*;
use arrow_array::cast::AsArray;
use arrow_array::types::*;
use arrow_array::*;
use arrow_cast::display::{ArrayFormatter, FormatOptions};
use arrow_csv::reader::Format;
use arrow_csv::writer::QuoteStyle;
use arrow_csv::{ReaderBuilder, WriterBuilder};
use arrow_schema::{DataType, Field, Schema, SchemaRef, TimeUnit};
use std::io::Cursor;
use std::sync::Arc;
use vcore::mk::{self, Cfg};
use vcore::trace::Shards;
use vcore::{guarded, json, tok, Args, Rng, Value};

#[derive(Clone, Debug)]
pub struct RFmt {
    pub delim: u8,
    pub quote: u8,
    pub esc: Option<u8>,
    pub term: Option<u8>,
}

impl RFmt {
    fn json(&self) -> Value {
        json!({"delim": self.delim, "quote": self.quote, "esc": self.esc.unwrap_or(0), "term": self.term.unwrap_or(0)})
    }
    fn format(&self, header: bool, never_null: bool) -> Format {
        let mut f = Format::default().with_header(header).with_delimiter(self.delim).with_quote(self.quote);
        if let Some(e) = self.esc {
            f = f.with_escape(e);
        }
        if let Some(t) = self.term {
            f = f.with_terminator(t);
        }
        if never_null {
            f = f.with_null_regex(regex::Regex::new("^\u{0}\u{0}never\u{0}$").unwrap());
        }
        f
    }
}

fn utf8_schema(ncols: usize) -> SchemaRef {
    Arc::new(Schema::new((0..ncols).map(|i| Field::new(format!("c{i}"), DataType::Utf8, true)).collect::<Vec<_>>()))
}

/// read `text` as `ncols` Utf8 columns: (outcome, cells row-major, null flags, rows)
fn read_utf8(text: &[u8], f: &Format, ncols: usize, bs: usize) -> (String, Vec<Value>, Vec<Value>, usize) {
    let schema = utf8_schema(ncols);
    let r = guarded(|| {
        let rd = ReaderBuilder::new(schema.clone()).with_format(f.clone()).with_batch_size(bs).build(Cursor::new(text.to_vec())).map_err(|e| format!("open:{}", variant(&e)))?;
        let mut cells = vec![];
        let mut nul = vec![];
        let mut rows = 0;
        for b in rd {
            let b = b.map_err(|e| format!("read:{}", variant(&e)))?;
            if b.num_rows() > bs {
                return Err("batch-size".to_string());
            }
            for i in 0..b.num_rows() {
                for c in 0..ncols {
                    let a = b.column(c).as_string::<i32>();
                    if a.is_null(i) {
                        cells.push(cps(""));
                        nul.push(Value::from(1));
                    } else {
                        cells.push(cps(a.value(i)));
                        nul.push(Value::from(0));
                    }
                }
            }
            rows += b.num_rows();
        }
        Ok::<_, String>((cells, nul, rows))
    });
    match r {
        Ok(Ok((c, n, rows))) => ("ok".into(), c, n, rows),
        Ok(Err(e)) => (format!("err:{e}"), vec![], vec![], 0),
        Err(_) => ("panic".into(), vec![], vec![], 0),
    }
}

fn split_event(tr: &mut Shards, text: &str, f: &RFmt, header: bool, ncols: usize, never_null: bool, bs: usize, src: &str) {
    let (outcome, cells, nul, rows) = read_utf8(text.as_bytes(), &f.format(header, never_null), ncols, bs);
    tr.emit(json!({
        "op": "csv_split", "src": src, "text": cps(text), "f": f.json(), "header": header, "ncols": ncols,
        "nullre": if never_null { "never" } else { "empty" }, "bs": bs,
        "outcome": if outcome == "ok" { "ok".to_string() } else if outcome == "panic" { "panic".into() } else { "err".into() },
        "why": outcome, "cells": cells, "nul": nul, "nrows": rows,
    }));
    tr.next_episode();
}

const DEFAULT: RFmt = RFmt { delim: b',', quote: b'"', esc: None, term: None };

pub fn split_texts(args: &Args, rng: &mut Rng, tr: &mut Shards) -> usize {
    let mut n = 0;
    // (a) every text up to a length over {delimiter, quote, CR, LF, a, space}, default format, 1..3 columns
    let alpha = [',', '"', '\r', '\n', 'a', ' '];
    let maxlen = args.scale(4, 6);
    let mut texts: Vec<String> = vec![String::new()];
    let mut frontier = vec![String::new()];
    for _ in 0..maxlen {
        let mut next = vec![];
        for t in &frontier {
            for c in alpha {
                let mut s = t.clone();
                s.push(c);
                next.push(s);
            }
        }
        texts.extend(next.iter().cloned());
        frontier = next;
    }
    for t in &texts {
        for ncols in 1..=3usize {
            // short texts cannot have many fields: skip column counts no record can reach
            if ncols > t.len() + 1 {
                continue;
            }
            split_event(tr, t, &DEFAULT, false, ncols, rng.chance(50), if rng.chance(30) { 1 } else { 1024 }, "all");
            n += 1;
        }
    }
    // (b) random longer texts under every format option
    let fmts = [
        DEFAULT.clone(),
        RFmt { delim: b';', quote: b'\'', esc: None, term: None },
        RFmt { delim: b',', quote: b'"', esc: Some(b'\\'), term: None },
        RFmt { delim: b'\t', quote: b'"', esc: None, term: Some(b'|') },
        RFmt { delim: b'|', quote: b'"', esc: Some(b'\\'), term: Some(b'\n') },
        RFmt { delim: b',', quote: b'"', esc: None, term: Some(b'\r') },
    ];
    for _ in 0..args.scale(1000, 40000) {
        let f = rng.pick(&fmts).clone();
        let ncols = 1 + rng.below(3);
        let mut units: Vec<String> = vec![
            (f.delim as char).to_string(), (f.delim as char).to_string(), (f.quote as char).to_string(), (f.quote as char).to_string(),
            "\n".into(), "\r\n".into(), "\r".into(), "a".into(), "b".into(), " ".into(), "\u{e9}".into(), "\u{1F600}".into(), "\\".into(),
            "\"".into(), "'".into(), ",".into(), "|".into(), "\u{1}".into(),
        ];
        if let Some(t) = f.term {
            units.push((t as char).to_string());
            units.push((t as char).to_string());
        }
        let len = 3 + rng.below(14);
        let mut t = String::new();
        // shape the text as records of about ncols fields so that ok outcomes are frequent
        if rng.chance(60) {
            let rows = 1 + rng.below(3);
            let brk = match f.term {
                Some(t) => (t as char).to_string(),
                None => rng.pick(&["\n", "\r\n", "\r"]).to_string(),
            };
            for r in 0..rows {
                for c in 0..ncols {
                    if c > 0 {
                        t.push(f.delim as char);
                    }
                    let quoted = rng.chance(40);
                    if quoted {
                        t.push(f.quote as char);
                    }
                    for _ in 0..rng.below(4) {
                        let u = rng.pick(&units).clone();
                        if quoted && u == (f.quote as char).to_string() {
                            if f.esc.is_some() && rng.chance(50) {
                                t.push(f.esc.unwrap() as char);
                            } else {
                                t.push(f.quote as char);
                            }
                        }
                        if !quoted && (u == (f.delim as char).to_string() || u.contains('\n') || u.contains('\r') || u == (f.quote as char).to_string() || f.term.map(|x| u == (x as char).to_string()).unwrap_or(false)) {
                            if rng.chance(90) {
                                continue;
                            }
                        }
                        t.push_str(&u);
                    }
                    if quoted {
                        t.push(f.quote as char);
                    }
                }
                if r + 1 < rows || rng.chance(50) {
                    t.push_str(&brk);
                }
            }
        } else {
            for _ in 0..len {
                let u: &String = rng.pick(&units[..]); t.push_str(u);
            }
        }
        split_event(tr, &t, &f, rng.chance(25), ncols, rng.chance(50), *rng.pick(&[1usize, 2, 1024]), "rand");
        n += 1;
    }
    n
}

// ------------------------------------------------------------------------------------------ writer round trips

#[derive(Clone, Debug)]
struct WFmt {
    delim: u8,
    quote: u8,
    esc: u8,
    dq: bool,
    term: Option<u8>, // None: CRLF
    style: &'static str,
    header: bool,
    null: String,
    tsfmt: u8, // 0 defaults, 1 alternative formats the reader parses, 2 formats it does not (text-level only)
}

fn adversarial_string(rng: &mut Rng, w: &WFmt) -> String {
    let units: Vec<String> = vec![
        (w.delim as char).to_string(), (w.quote as char).to_string(), (w.esc as char).to_string(), "\"".into(), "'".into(), ",".into(), ";".into(),
        "\t".into(), "|".into(), "\\".into(), "\r".into(), "\n".into(), "\r\n".into(), " ".into(), "a".into(), "b".into(), "NULL".into(),
        "\u{e9}".into(), "\u{1F600}".into(), "\u{1}".into(), "\u{7f}".into(), "\u{2028}".into(), "0".into(), "-".into(), "1e5".into(), "true".into(), "#".into(),
    ];
    let n = match rng.below(8) {
        0 => 0,
        1..=4 => 1 + rng.below(2),
        _ => 2 + rng.below(5),
    };
    (0..n).map(|_| rng.pick(&units).clone()).collect()
}

fn edge_f64(rng: &mut Rng) -> f64 {
    match rng.below(10) {
        0 => *rng.pick(&[0.0, -0.0, 1.0, -1.5, 0.1, 1e21, 1e-7, 1e16, 123456789.125, f64::MAX, f64::MIN_POSITIVE, 5e-324, 9007199254740993.0, 0.3]),
        1 => rng.range(-1000, 1000) as f64 / 8.0,
        _ => loop {
            let v = f64::from_bits(rng.next());
            if v.is_finite() {
                break v;
            }
        },
    }
}

fn edge_f32(rng: &mut Rng) -> f32 {
    match rng.below(6) {
        0 => *rng.pick(&[0.0f32, -0.0, 1.0, 0.1, 1e21, 1e-7, f32::MAX, f32::MIN_POSITIVE, 1e-45, 16777217.0]),
        _ => loop {
            let v = f32::from_bits(rng.next() as u32);
            if v.is_finite() {
                break v;
            }
        },
    }
}

fn validity(rng: &mut Rng, len: usize, np: usize) -> Vec<bool> {
    (0..len).map(|_| np == 0 || !rng.chance(np)).collect()
}

/// columns with extreme / adversarial values for the types where the tame generator of vcore is too tame
pub fn edge_array(rng: &mut Rng, dt: &DataType, len: usize, np: usize, strings: &mut dyn FnMut(&mut Rng) -> String) -> ArrayRef {
    let v = validity(rng, len, np);
    macro_rules! ints {
        ($t:ty, $n:ty) => {{
            let a: PrimitiveArray<$t> = (0..len)
                .map(|i| {
                    if !v[i] {
                        None
                    } else {
                        Some(match rng.below(5) {
                            0 => <$n>::MIN,
                            1 => <$n>::MAX,
                            2 => 0 as $n,
                            _ => rng.next() as $n,
                        })
                    }
                })
                .collect();
            Arc::new(a) as ArrayRef
        }};
    }
    match dt {
        DataType::Int8 => ints!(Int8Type, i8),
        DataType::Int16 => ints!(Int16Type, i16),
        DataType::Int32 => ints!(Int32Type, i32),
        DataType::Int64 => ints!(Int64Type, i64),
        DataType::UInt8 => ints!(UInt8Type, u8),
        DataType::UInt16 => ints!(UInt16Type, u16),
        DataType::UInt32 => ints!(UInt32Type, u32),
        DataType::UInt64 => ints!(UInt64Type, u64),
        DataType::Float64 => Arc::new((0..len).map(|i| v[i].then(|| edge_f64(rng))).collect::<Float64Array>()),
        DataType::Float32 => Arc::new((0..len).map(|i| v[i].then(|| edge_f32(rng))).collect::<Float32Array>()),
        DataType::Float16 => Arc::new(
            (0..len)
                .map(|i| {
                    v[i].then(|| loop {
                        let x = half::f16::from_bits(rng.next() as u16);
                        if x.is_finite() {
                            break x;
                        }
                    })
                })
                .collect::<Float16Array>(),
        ),
        DataType::Utf8 => Arc::new((0..len).map(|i| v[i].then(|| strings(rng))).collect::<StringArray>()),
        DataType::LargeUtf8 => Arc::new((0..len).map(|i| v[i].then(|| strings(rng))).collect::<LargeStringArray>()),
        DataType::Utf8View => Arc::new((0..len).map(|i| v[i].then(|| strings(rng))).collect::<StringViewArray>()),
        _ => mk::array(rng, dt, len, Cfg::tame(np)),
    }
}

fn csv_types() -> Vec<DataType> {
    use DataType::*;
    vec![
        Boolean, Int8, Int16, Int32, Int64, UInt8, UInt16, UInt32, UInt64, Float16, Float32, Float64,
        Decimal32(9, 2), Decimal64(18, 3), Decimal128(38, 10), Decimal128(10, 0), Decimal256(76, 5),
        Date32, Date64, Time32(TimeUnit::Second), Time32(TimeUnit::Millisecond), Time64(TimeUnit::Microsecond), Time64(TimeUnit::Nanosecond),
        Timestamp(TimeUnit::Second, None), Timestamp(TimeUnit::Millisecond, Some("+01:00".into())), Timestamp(TimeUnit::Microsecond, None),
        Timestamp(TimeUnit::Nanosecond, Some("UTC".into())), Timestamp(TimeUnit::Nanosecond, None), Timestamp(TimeUnit::Second, Some("-05:30".into())),
        Utf8, Utf8, Utf8, Utf8View, LargeUtf8, Dictionary(Box::new(Int8), Box::new(Utf8)), Dictionary(Box::new(UInt16), Box::new(Utf8)), Null,
        Binary, Duration(TimeUnit::Second),
        RunEndEncoded(Arc::new(Field::new("run_ends", Int32, false)), Arc::new(Field::new("values", Utf8, true))),
        RunEndEncoded(Arc::new(Field::new("run_ends", Int16, false)), Arc::new(Field::new("values", Int64, true))),
    ]
}

fn is_string_type(t: &DataType) -> bool {
    match t {
        DataType::Utf8 | DataType::LargeUtf8 | DataType::Utf8View => true,
        DataType::Dictionary(_, v) => is_string_type(v),
        _ => false,
    }
}

fn string_at(a: &dyn Array, i: usize) -> Option<String> {
    // through the row token of vcore (hex of the UTF-8 bytes): one accessor path for every string encoding
    let t = tok::row(a, i);
    if t == "~" {
        return None;
    }
    let hex = &t[2..];
    let b: Vec<u8> = (0..hex.len() / 2).map(|k| u8::from_str_radix(&hex[2 * k..2 * k + 2], 16).unwrap()).collect();
    Some(String::from_utf8(b).unwrap())
}

fn wopts(w: &WFmt) -> WriterBuilder {
    let mut b = WriterBuilder::new()
        .with_header(w.header)
        .with_delimiter(w.delim)
        .with_quote(w.quote)
        .with_escape(w.esc)
        .with_double_quote(w.dq)
        .with_null(w.null.clone())
        .with_quote_style(match w.style {
            "always" => QuoteStyle::Always,
            "never" => QuoteStyle::Never,
            "nonnumeric" => QuoteStyle::NonNumeric,
            _ => QuoteStyle::Necessary,
        })
        .with_line_terminator(match w.term {
            None => arrow_csv::writer::Terminator::CRLF,
            Some(t) => arrow_csv::writer::Terminator::Any(t),
        });
    match w.tsfmt {
        1 => {
            b = b.with_timestamp_format("%Y-%m-%d %H:%M:%S%.f".into()).with_timestamp_tz_format("%Y-%m-%d %H:%M:%S%.f%:z".into()).with_datetime_format("%Y-%m-%d %H:%M:%S%.f".into());
        }
        2 => {
            b = b.with_date_format("%d/%m/%Y".into()).with_time_format("%H.%M.%S%.f".into()).with_timestamp_format("%d/%m/%Y %H.%M.%S%.f".into()).with_timestamp_tz_format("%d/%m/%Y %H.%M.%S%.f %z".into()).with_datetime_format("%d/%m/%Y %H.%M".into());
        }
        _ => {}
    }
    b
}

fn fopts<'a>(w: &'a WFmt) -> FormatOptions<'a> {
    let o = FormatOptions::default().with_null(&w.null);
    match w.tsfmt {
        1 => o.with_timestamp_format(Some("%Y-%m-%d %H:%M:%S%.f")).with_timestamp_tz_format(Some("%Y-%m-%d %H:%M:%S%.f%:z")).with_datetime_format(Some("%Y-%m-%d %H:%M:%S%.f")),
        2 => o
            .with_date_format(Some("%d/%m/%Y"))
            .with_time_format(Some("%H.%M.%S%.f"))
            .with_timestamp_format(Some("%d/%m/%Y %H.%M.%S%.f"))
            .with_timestamp_tz_format(Some("%d/%m/%Y %H.%M.%S%.f %z"))
            .with_datetime_format(Some("%d/%m/%Y %H.%M")),
        _ => o,
    }
}

fn reader_for(w: &WFmt, schema: SchemaRef, bs: usize) -> ReaderBuilder {
    let mut f = Format::default().with_header(w.header).with_delimiter(w.delim).with_quote(w.quote);
    if !w.dq {
        f = f.with_escape(w.esc);
    }
    if let Some(t) = w.term {
        if t != b'\n' && t != b'\r' {
            f = f.with_terminator(t);
        }
    }
    if !w.null.is_empty() {
        f = f.with_null_regex(regex::Regex::new(&format!("^{}$", regex::escape(&w.null))).unwrap());
    }
    ReaderBuilder::new(schema).with_format(f).with_batch_size(bs)
}

pub fn round_trips(args: &Args, rng: &mut Rng, tr: &mut Shards) -> (usize, usize) {
    let types = csv_types();
    let mut n = 0;
    let mut skipped = 0;
    for case in 0..args.scale(900, 30000) {
        let w = WFmt {
            delim: *rng.pick(&[b',', b',', b';', b'\t', b'|']),
            quote: *rng.pick(&[b'"', b'"', b'\'']),
            esc: *rng.pick(&[b'\\', b'\\', b'#']),
            dq: rng.chance(75),
            term: *rng.pick(&[Some(b'\n'), Some(b'\n'), None, Some(b'\r'), Some(b'~')]),
            style: *rng.pick(&["necessary", "necessary", "necessary", "always", "never", "nonnumeric"]),
            header: rng.chance(50),
            null: rng.pick(&["", "", "NULL", "\\N", "n/a"]).to_string(),
            tsfmt: *rng.pick(&[0u8, 0, 0, 1, 2]),
        };
        if w.delim == w.quote || w.term == Some(w.delim) {
            continue;
        }
        let ncols = 1 + rng.below(4);
        let nrows = if case % 7 == 0 { 0 } else { 1 + rng.below(5) };
        let mut fields = vec![];
        let mut cols: Vec<ArrayRef> = vec![];
        for c in 0..ncols {
            let dt = rng.pick(&types).clone();
            let np = *rng.pick(&[0usize, 0, 30]);
            let wc = w.clone();
            let mut strings = move |r: &mut Rng| adversarial_string(r, &wc);
            let a = if rng.chance(70) { edge_array(rng, &dt, nrows, np, &mut strings) } else { mk::array(rng, &dt, nrows, Cfg::tame(np)) };
            let name = if rng.chance(15) { adversarial_string(rng, &w) } else { format!("c{c}") };
            fields.push(Field::new(name, dt, np > 0 || a.logical_null_count() > 0 || matches!(a.data_type(), DataType::Null)));
            cols.push(a);
        }
        let schema = Arc::new(Schema::new(fields));
        let Ok(batch) = RecordBatch::try_new_with_options(schema.clone(), cols, &RecordBatchOptions::new().with_row_count(Some(nrows))) else { continue };
        // split into two writes sometimes (the header must be written once)
        let parts: Vec<RecordBatch> = if nrows >= 2 && rng.chance(40) { vec![batch.slice(0, 1), batch.slice(1, nrows - 1)] } else { vec![batch.clone()] };
        let written = guarded(|| {
            let mut wr = wopts(&w).build(Vec::new());
            for p in &parts {
                wr.write(p).map_err(|e| variant(&e))?;
            }
            Ok::<_, String>(wr.into_inner())
        });
        let text = match written {
            Ok(Ok(t)) => t,
            Ok(Err(_)) => {
                // the writer refuses the batch (type not supported in CSV): not judged
                skipped += 1;
                continue;
            }
            Err(p) => {
                tr.emit(json!({"op": "csv_rt", "wout": "panic", "why": safe(&p.chars().take(80).collect::<String>()), "schema_in": norm_schema(&schema)}));
                tr.next_episode();
                n += 1;
                continue;
            }
        };
        let Ok(text_s) = String::from_utf8(text.clone()) else {
            tr.emit(json!({"op": "csv_rt", "wout": "not-utf8", "schema_in": norm_schema(&schema)}));
            tr.next_episode();
            n += 1;
            continue;
        };
        if text_s.chars().count() > 700 {
            continue;
        }
        // the field strings the writer was given
        let mut cells = vec![];
        let mut cellnull = vec![];
        if w.header {
            for f in schema.fields() {
                cells.push(cps(f.name()));
                cellnull.push(Value::from(0));
            }
        }
        let fo = fopts(&w);
        let fmts: Vec<Option<ArrayFormatter>> =
            batch.columns().iter().map(|a| if is_string_type(a.data_type()) { None } else { ArrayFormatter::try_new(a.as_ref(), &fo).ok() }).collect();
        let mut cells_ok = true;
        for i in 0..nrows {
            for (c, a) in batch.columns().iter().enumerate() {
                let null = a.logical_nulls().map(|x| x.is_null(i)).unwrap_or(false) || matches!(a.data_type(), DataType::Null);
                if null {
                    cells.push(cps(&w.null));
                    cellnull.push(Value::from(1));
                } else if is_string_type(a.data_type()) {
                    cells.push(cps(&string_at(a.as_ref(), i).unwrap_or_default()));
                    cellnull.push(Value::from(0));
                } else {
                    match &fmts[c] {
                        Some(f) => {
                            let mut s = String::new();
                            if f.value(i).write(&mut s).is_err() {
                                cells_ok = false;
                            }
                            cells.push(cps(&s));
                            cellnull.push(Value::from(0));
                        }
                        None => cells_ok = false,
                    }
                }
            }
        }
        if !cells_ok {
            skipped += 1;
            continue;
        }
        // typed read-back
        let bs = *rng.pick(&[1usize, 2, 1024]);
        let back = guarded(|| {
            let rd = reader_for(&w, schema.clone(), bs).build(Cursor::new(text.clone())).map_err(|e| (format!("open:{}", variant(&e)), e.to_string()))?;
            let mut rows = vec![];
            let sch = norm_schema(&rd.schema());
            for b in rd {
                let b = b.map_err(|e| (format!("read:{}", variant(&e)), e.to_string()))?;
                rows.extend(tok::batch_rows(&b));
            }
            Ok::<_, (String, String)>((rows, sch))
        });
        // a type the writer formats but the reader has no parser for ("Unsupported data type ..."): not judged
        let (outcome, rows_out, schema_out, unsupported) = match back {
            Ok(Ok((r, s))) => ("ok".to_string(), r, s, false),
            Ok(Err((e, msg))) => (format!("err:{e}"), vec![], String::new(), msg.contains("Unsupported data type") || msg.contains("Unsupported dictionary")),
            Err(p) => (format!("panic:{}", safe(&p.chars().take(60).collect::<String>())), vec![], String::new(), false),
        };
        // all-Utf8 read-back of the same text (header row read as data, no null conversion)
        let rf = RFmt {
            delim: w.delim,
            quote: w.quote,
            esc: if w.dq { None } else { Some(w.esc) },
            term: match w.term {
                Some(t) if t != b'\n' && t != b'\r' => Some(t),
                _ => None,
            },
        };
        let (uout, ucells, _, urows) = read_utf8(&text, &rf.format(false, true), ncols, 1024);
        tr.emit(json!({
            "op": "csv_rt",
            "w": {"delim": w.delim, "quote": w.quote, "esc": w.esc, "dq": w.dq,
                  "wterm": match w.term { None => vec![13, 10], Some(t) => vec![t as i32] }, "style": w.style},
            "header": w.header, "null": cps(&w.null), "lossy": w.tsfmt == 2, "reader_unsupported": unsupported,
            "ncols": ncols, "nrows": nrows, "cells": cells, "cellnull": cellnull, "text": cps(&text_s), "wout": "ok",
            "rows_in": strs(&tok::batch_rows(&batch)), "rows_out": strs(&rows_out), "schema_in": norm_schema(&schema), "schema_out": schema_out,
            "outcome": outcome, "bs": bs, "utf8": ucells, "utf8_out": uout, "utf8_rows": urows,
            "types": schema.fields().iter().map(|f| safe(&format!("{:?}", f.data_type()))).collect::<Vec<_>>(),
        }));
        tr.next_episode();
        n += 1;
    }
    (n, skipped)
}

