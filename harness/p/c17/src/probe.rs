//! `c17 probe`: minimal reproductions (prints; not part of the check)
use arrow_array::*;
use arrow_avro::reader::ReaderBuilder;
use arrow_avro::writer::format::AvroOcfFormat;
use arrow_avro::writer::WriterBuilder;
use arrow_schema::{DataType, Field, Schema, UnionFields, UnionMode};
use std::io::Cursor;
use std::sync::Arc;

fn ocf_rt(name: &str, schema: Arc<Schema>, batch: RecordBatch) {
    let mut w = match WriterBuilder::new(schema.as_ref().clone()).build::<_, AvroOcfFormat>(Vec::new()) {
        Ok(w) => w,
        Err(e) => {
            println!("{name}: writer refused: {e}");
            return;
        }
    };
    if let Err(e) = w.write(&batch) {
        println!("{name}: write failed: {e}");
        return;
    }
    w.finish().unwrap();
    let bytes = w.into_inner();
    let hdr = arrow_avro::reader::read_header_info(Cursor::new(bytes.clone())).unwrap();
    println!("{name}: schema {}", hdr.writer_schema().unwrap().json_string);
    println!("{name}: data {:?}", &bytes[hdr.header_len() as usize..bytes.len() - 16]);
    for bs in [1usize, 2] {
        match ReaderBuilder::new().with_batch_size(bs).build(Cursor::new(bytes.clone())) {
            Err(e) => println!("{name}: bs={bs} open failed: {e}"),
            Ok(rd) => {
                for b in rd {
                    match b {
                        Ok(b) => println!("{name}: bs={bs} read {:?}", vcore::tok::batch_rows(&b)),
                        Err(e) => println!("{name}: bs={bs} read failed: {e}"),
                    }
                }
            }
        }
    }
    match ReaderBuilder::new().build(Cursor::new(bytes)) {
        Err(e) => println!("{name}: open failed: {e}"),
        Ok(rd) => {
            for b in rd {
                match b {
                    Ok(b) => println!("{name}: read {:?}", vcore::tok::batch_rows(&b)),
                    Err(e) => println!("{name}: read failed: {e}"),
                }
            }
        }
    }
}

pub fn run() {
    let uf = UnionFields::try_new(vec![0, 1], vec![Field::new("long", DataType::Int64, false), Field::new("string", DataType::Utf8, false)]).unwrap();
    // dense union, rows: long 5, string "ab", long 7
    let u = UnionArray::try_new(
        uf.clone(),
        vec![0i8, 1, 0].into(),
        Some(vec![0i32, 0, 1].into()),
        vec![Arc::new(Int64Array::from(vec![5i64, 7])) as ArrayRef, Arc::new(StringArray::from(vec!["ab"]))],
    )
    .unwrap();
    let schema = Arc::new(Schema::new(vec![Field::new("c0", DataType::Union(uf.clone(), UnionMode::Dense), false)]));
    let batch = RecordBatch::try_new(schema.clone(), vec![Arc::new(u.clone())]).unwrap();
    println!("in: {:?}", vcore::tok::batch_rows(&batch));
    ocf_rt("dense-union", schema, batch);
    // only the first variant used
    let u2 = UnionArray::try_new(
        uf.clone(),
        vec![0i8, 0].into(),
        Some(vec![0i32, 1].into()),
        vec![Arc::new(Int64Array::from(vec![5i64, 7])) as ArrayRef, Arc::new(StringArray::from(Vec::<&str>::new()))],
    )
    .unwrap();
    let schema = Arc::new(Schema::new(vec![Field::new("c0", DataType::Union(uf.clone(), UnionMode::Dense), false)]));
    let batch = RecordBatch::try_new(schema.clone(), vec![Arc::new(u2)]).unwrap();
    println!("in: {:?}", vcore::tok::batch_rows(&batch));
    ocf_rt("dense-union-first-only", schema, batch);
    // union followed by another column
    let u3 = UnionArray::try_new(
        uf.clone(),
        vec![1i8, 0, 0].into(),
        Some(vec![0i32, 0, 1].into()),
        vec![Arc::new(Int64Array::from(vec![3i64, 2])) as ArrayRef, Arc::new(StringArray::from(vec![""]))],
    )
    .unwrap();
    let schema = Arc::new(Schema::new(vec![Field::new("c0", DataType::Union(uf.clone(), UnionMode::Dense), false), Field::new("c1", DataType::Int64, false)]));
    let batch = RecordBatch::try_new(schema.clone(), vec![Arc::new(u3), Arc::new(Int64Array::from(vec![1i64, 2, 3]))]).unwrap();
    println!("in: {:?}", vcore::tok::batch_rows(&batch));
    ocf_rt("union-then-long", schema, batch);
    // union followed by a list column
    {
        use arrow_array::builder::{Int64Builder, ListBuilder};
        let u3 = UnionArray::try_new(
            uf.clone(),
            vec![1i8, 0, 0].into(),
            Some(vec![0i32, 0, 1].into()),
            vec![Arc::new(Int64Array::from(vec![3i64, 2])) as ArrayRef, Arc::new(StringArray::from(vec![""]))],
        )
        .unwrap();
        let mut lb = ListBuilder::new(Int64Builder::new());
        lb.append_value([Some(0i64), Some(3), Some(4)]);
        lb.append_value([Some(2i64), Some(4)]);
        lb.append_value([] as [Option<i64>; 0]);
        let l = lb.finish();
        let schema = Arc::new(Schema::new(vec![Field::new("c0", DataType::Union(uf.clone(), UnionMode::Dense), false), Field::new("c1", l.data_type().clone(), false)]));
        let batch = RecordBatch::try_new(schema.clone(), vec![Arc::new(u3), Arc::new(l)]).unwrap();
        println!("in: {:?}", vcore::tok::batch_rows(&batch));
        ocf_rt("union-then-list", schema, batch);
    }
    // generated unions
    for seed in 0..200u64 {
        let mut rng = vcore::Rng::new(seed);
        let dt = DataType::Union(uf.clone(), UnionMode::Dense);
        let a = vcore::mk::array(&mut rng, &dt, 3, vcore::mk::Cfg::tame(0));
        let schema = Arc::new(Schema::new(vec![Field::new("c0", dt, false)]));
        let batch = RecordBatch::try_new(schema.clone(), vec![a]).unwrap();
        let mut w = WriterBuilder::new(schema.as_ref().clone()).build::<_, AvroOcfFormat>(Vec::new()).unwrap();
        w.write(&batch).unwrap();
        w.finish().unwrap();
        let bytes = w.into_inner();
        let bad = match ReaderBuilder::new().build(Cursor::new(bytes.clone())) {
            Err(_) => true,
            Ok(rd) => rd.into_iter().any(|b| b.is_err()),
        };
        if bad {
            println!("seed {seed} in: {:?}", vcore::tok::batch_rows(&batch));
            ocf_rt("generated-union", schema, batch);
            break;
        }
    }
    // Null column
    let schema = Arc::new(Schema::new(vec![Field::new("n", DataType::Null, true)]));
    let batch = RecordBatch::try_new(schema.clone(), vec![Arc::new(NullArray::new(2))]).unwrap();
    ocf_rt("null-column", schema, batch);
}
