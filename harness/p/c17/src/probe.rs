//! `c17 probe`: minimal reproductions (prints; not part of the check)
use arrow_array::*;
use arrow_avro::reader::ReaderBuilder;
use arrow_avro::writer::format::AvroOcfFormat;
use arrow_avro::writer::WriterBuilder;
use arrow_schema::{DataType, Field, Schema, UnionFields, UnionMode};
use std::io::Cursor;
use std::sync::Arc;

fn ocf_rt(name: &str, schema: Arc<Schema>, batch: RecordBatch) {
    let mut w = match WriterBuilder::new(schema.as_ref().clone()).build::<_, AvroOcfFormat>(Vec::new()) {
        Ok(w) => w,
        Err(e) => {
            println!("{name}: writer refused: {e}");
            return;
        }
    };
    if let Err(e) = w.write(&batch) {
        println!("{name}: write failed: {e}");
        return;
    }
    w.finish().unwrap();
    let bytes = w.into_inner();
    let hdr = arrow_avro::reader::read_header_info(Cursor::new(bytes.clone())).unwrap();
    println!("{name}: schema {}", hdr.writer_schema().unwrap().json_string);
    println!("{name}: data {:?}", &bytes[hdr.header_len() as usize..bytes.len() - 16]);
    for bs in [1usize, 2] {
        match ReaderBuilder::new().with_batch_size(bs).build(Cursor::new(bytes.clone())) {
            Err(e) => println!("{name}: bs={bs} open failed: {e}"),
            Ok(rd) => {
                for b in rd {
                    match b {
                        Ok(b) => println!("{name}: bs={bs} read {:?}", vcore::tok::batch_rows(&b)),
                        Err(e) => println!("{name}: bs={bs} read failed: {e}"),
                    }
                }
            }
        }
    }
    match ReaderBuilder::new().build(Cursor::new(bytes)) {
        Err(e) => println!("{name}: open failed: {e}"),
        Ok(rd) => {
            for b in rd {
                match b {
                    Ok(b) => println!("{name}: read {:?}", vcore::tok::batch_rows(&b)),
                    Err(e) => println!("{name}: read failed: {e}"),
                }
            }
        }
    }
}

fn json_probe() {
    use arrow_schema::TimeUnit;
    for tz in ["UTC", "+01:00"] {
        let schema = Arc::new(Schema::new(vec![Field::new("t", DataType::Timestamp(TimeUnit::Nanosecond, Some(tz.into())), true)]));
        match arrow_json::ReaderBuilder::new(schema.clone()).build(Cursor::new(b"{\"t\":\"2020-01-01T00:00:00Z\"}\n".to_vec())) {
            Err(e) => println!("json tz {tz}: open failed: {e}"),
            Ok(rd) => {
                for b in rd {
                    match b {
                        Ok(b) => println!("json tz {tz}: read {:?}", vcore::tok::batch_rows(&b)),
                        Err(e) => {
                            println!("json tz {tz}: read failed: {e}");
                            break;
                        }
                    }
                }
            }
        }
    }
}

fn findings_probe() {
    use arrow_schema::TimeUnit;
    // C17-csv-escape-char-not-escaped
    let schema = Arc::new(Schema::new(vec![Field::new("s", DataType::Utf8, false)]));
    let batch = RecordBatch::try_new(schema.clone(), vec![Arc::new(StringArray::from(vec!["a\\b", "x\\\"y"]))]).unwrap();
    let mut w = arrow_csv::WriterBuilder::new().with_header(false).with_double_quote(false).with_escape(b'\\').build(Vec::new());
    w.write(&batch).unwrap();
    let text = w.into_inner();
    println!("csv escape: in {:?} text {:?}", vcore::tok::batch_rows(&batch), String::from_utf8_lossy(&text));
    let rd = arrow_csv::ReaderBuilder::new(schema.clone()).with_escape(b'\\').build(Cursor::new(text)).unwrap();
    for b in rd {
        match b {
            Ok(b) => println!("csv escape: read {:?} = {:?}", vcore::tok::batch_rows(&b), b.column(0)),
            Err(e) => println!("csv escape: read failed: {e}"),
        }
    }
    // C17-json-number-at-eof, C17-json-surrogate-pair-or
    for (text, dt) in [("1", DataType::Int64), ("1\n", DataType::Int64), ("2.5", DataType::Float64), ("\"\\ud840\\udc00\"", DataType::Utf8), ("\"\\ud83d\\ude00\"", DataType::Utf8), ("\"\\udbff\\udfff\"", DataType::Utf8)] {
        match arrow_json::ReaderBuilder::new_with_field(Field::new("v", dt, true)).build(Cursor::new(text.as_bytes().to_vec())) {
            Err(e) => println!("json {text:?}: open failed: {e}"),
            Ok(rd) => {
                for b in rd {
                    match b {
                        Ok(b) => println!("json {text:?}: read {:?}", b.column(0)),
                        Err(e) => {
                            println!("json {text:?}: read failed: {e}");
                            break; // the iterator keeps returning the error
                        }
                    }
                }
            }
        }
    }
    // C17-json-duration-iso-not-readable
    let schema = Arc::new(Schema::new(vec![Field::new("d", DataType::Duration(TimeUnit::Millisecond), true)]));
    let batch = RecordBatch::try_new(schema.clone(), vec![Arc::new(DurationMillisecondArray::from(vec![4i64]))]).unwrap();
    let mut out = Vec::new();
    {
        let mut w = arrow_json::LineDelimitedWriter::new(&mut out);
        w.write(&batch).unwrap();
        w.finish().unwrap();
    }
    println!("json duration: text {:?}", String::from_utf8_lossy(&out));
    for b in arrow_json::ReaderBuilder::new(schema).build(Cursor::new(out)).unwrap() {
        match b {
            Ok(b) => println!("json duration: read {:?}", vcore::tok::batch_rows(&b)),
            Err(e) => {
                println!("json duration: read failed: {e}");
                break;
            }
        }
    }
}

fn dict_probe() {
    use arrow_array::types::Int32Type;
    use arrow_avro::writer::format::AvroSoeFormat;
    for (name, arr) in [
        ("dict-empty", DictionaryArray::<Int32Type>::from_iter(Vec::<Option<&str>>::new())),
        ("dict-2", DictionaryArray::<Int32Type>::from_iter(vec![Some("a"), None])),
    ] {
        let schema = Arc::new(Schema::new(vec![Field::new("c0", arr.data_type().clone(), true)]));
        let batch = RecordBatch::try_new(schema.clone(), vec![Arc::new(arr)]).unwrap();
        let enc = WriterBuilder::new(schema.as_ref().clone()).build_encoder::<AvroSoeFormat>().and_then(|mut e| e.encode(&batch).map(|_| e.flush().len()));
        println!("{name}: encoder {:?}", enc.map_err(|e| e.to_string()));
        let wr = WriterBuilder::new(schema.as_ref().clone()).build::<_, AvroSoeFormat>(Vec::new()).and_then(|mut w| w.write(&batch).and_then(|_| w.finish()).map(|_| w.into_inner().len()));
        println!("{name}: stream writer {:?}", wr.map_err(|e| e.to_string()));
        let wr = WriterBuilder::new(schema.as_ref().clone()).build::<_, AvroOcfFormat>(Vec::new()).and_then(|mut w| w.write(&batch).and_then(|_| w.finish()).map(|_| w.into_inner().len()));
        println!("{name}: ocf writer {:?}", wr.map_err(|e| e.to_string()));
    }
}

fn ree_probe() {
    use arrow_array::types::Int16Type;
    use arrow_schema::Fields;
    // Struct { x: RunEndEncoded<Int16, Utf8> (runs: "a" x2, null x1), y: Int64 }
    let re = Int16Array::from(vec![2i16, 3]);
    let vals = StringArray::from(vec![Some("a"), None]);
    let ree: ArrayRef = Arc::new(RunArray::<Int16Type>::try_new(&re, &vals).unwrap());
    let y: ArrayRef = Arc::new(Int64Array::from(vec![1i64, 2, 3]));
    for nested in [false, true] {
        let (schema, batch) = if nested {
            let fields = Fields::from(vec![Field::new("x", ree.data_type().clone(), true), Field::new("y", DataType::Int64, true)]);
            let st: ArrayRef = Arc::new(StructArray::new(fields.clone(), vec![ree.clone(), y.clone()], None));
            let schema = Arc::new(Schema::new(vec![Field::new("c", DataType::Struct(fields), true)]));
            (schema.clone(), RecordBatch::try_new(schema, vec![st]).unwrap())
        } else {
            let schema = Arc::new(Schema::new(vec![Field::new("x", ree.data_type().clone(), true), Field::new("y", DataType::Int64, true)]));
            (schema.clone(), RecordBatch::try_new(schema, vec![ree.clone(), y.clone()]).unwrap())
        };
        let name = if nested { "struct-of-ree" } else { "top-level-ree" };
        println!("{name}: in {:?}", vcore::tok::batch_rows(&batch));
        let mut w = match WriterBuilder::new(schema.as_ref().clone()).build::<_, AvroOcfFormat>(Vec::new()) {
            Ok(w) => w,
            Err(e) => {
                println!("{name}: writer refused: {e}");
                continue;
            }
        };
        if let Err(e) = w.write(&batch) {
            println!("{name}: write failed: {e}");
            continue;
        }
        w.finish().unwrap();
        let bytes = w.into_inner();
        let hdr = arrow_avro::reader::read_header_info(Cursor::new(bytes.clone())).unwrap();
        println!("{name}: schema {}", hdr.writer_schema().unwrap().json_string);
        println!("{name}: data {:?}", &bytes[hdr.header_len() as usize..bytes.len() - 16]);
        let (tx, rx) = std::sync::mpsc::channel();
        std::thread::spawn(move || {
            let r = ReaderBuilder::new().build(Cursor::new(bytes)).map(|rd| rd.map(|b| b.map(|b| vcore::tok::batch_rows(&b)).map_err(|e| e.to_string())).collect::<Vec<_>>());
            let _ = tx.send(format!("{:?}", r.map_err(|e| e.to_string())));
        });
        match rx.recv_timeout(std::time::Duration::from_secs(5)) {
            Ok(r) => println!("{name}: read {r}"),
            Err(_) => println!("{name}: NO RETURN within 5 s (the reader spins)"),
        }
    }
}

fn json_dict_probe() {
    use arrow_array::types::Int8Type;
    // keys all valid, the dictionary VALUE 1 is null: rows "a", null
    let values = StringArray::from(vec![Some("a"), None]);
    let d = DictionaryArray::<Int8Type>::try_new(Int8Array::from(vec![0i8, 1]), Arc::new(values)).unwrap();
    let schema = Arc::new(Schema::new(vec![Field::new("d", d.data_type().clone(), true)]));
    let batch = RecordBatch::try_new(schema, vec![Arc::new(d)]).unwrap();
    let mut out = Vec::new();
    {
        let mut w = arrow_json::WriterBuilder::new().with_explicit_nulls(true).build::<_, arrow_json::writer::LineDelimited>(&mut out);
        w.write(&batch).unwrap();
        w.finish().unwrap();
    }
    println!("json dictionary null value: in {:?} text {:?}", vcore::tok::batch_rows(&batch), String::from_utf8_lossy(&out));
}

fn ree_encoder_probe() {
    use arrow_array::types::Int32Type;
    use arrow_avro::writer::format::{AvroBinaryFormat, AvroSoeFormat};
    let re = Int32Array::from(vec![1i32, 3]);
    let vals = Int64Array::from(vec![Some(-3i64), None]);
    let ree: ArrayRef = Arc::new(RunArray::<Int32Type>::try_new(&re, &vals).unwrap());
    let schema = Arc::new(Schema::new(vec![Field::new("c0", ree.data_type().clone(), true)]));
    let batch = RecordBatch::try_new(schema.clone(), vec![ree]).unwrap();
    println!("ree encoder: in {:?}", vcore::tok::batch_rows(&batch));
    for (name, parts) in [("whole", vec![batch.clone()]), ("sliced", vec![batch.slice(0, 1), batch.slice(1, 2)])] {
        let mut e = WriterBuilder::new(schema.as_ref().clone()).build_encoder::<AvroBinaryFormat>().unwrap();
        for p in &parts {
            e.encode(p).unwrap();
        }
        println!("ree encoder: {name} Encoder<AvroBinaryFormat> rows {:?}", e.flush().iter().map(|b| b.to_vec()).collect::<Vec<_>>());
        let mut w = WriterBuilder::new(schema.as_ref().clone()).build::<_, AvroSoeFormat>(Vec::new()).unwrap();
        for p in &parts {
            w.write(p).unwrap();
        }
        w.finish().unwrap();
        println!("ree encoder: {name} stream Writer<AvroSoeFormat> bytes {:?}", w.into_inner());
    }
}

pub fn run() {
    ree_encoder_probe();
    json_dict_probe();
    ree_probe();
    dict_probe();
    findings_probe();
    json_probe();
    let uf = UnionFields::try_new(vec![0, 1], vec![Field::new("long", DataType::Int64, false), Field::new("string", DataType::Utf8, false)]).unwrap();
    // dense union, rows: long 5, string "ab", long 7
    let u = UnionArray::try_new(
        uf.clone(),
        vec![0i8, 1, 0].into(),
        Some(vec![0i32, 0, 1].into()),
        vec![Arc::new(Int64Array::from(vec![5i64, 7])) as ArrayRef, Arc::new(StringArray::from(vec!["ab"]))],
    )
    .unwrap();
    let schema = Arc::new(Schema::new(vec![Field::new("c0", DataType::Union(uf.clone(), UnionMode::Dense), false)]));
    let batch = RecordBatch::try_new(schema.clone(), vec![Arc::new(u.clone())]).unwrap();
    println!("in: {:?}", vcore::tok::batch_rows(&batch));
    ocf_rt("dense-union", schema, batch);
    // only the first variant used
    let u2 = UnionArray::try_new(
        uf.clone(),
        vec![0i8, 0].into(),
        Some(vec![0i32, 1].into()),
        vec![Arc::new(Int64Array::from(vec![5i64, 7])) as ArrayRef, Arc::new(StringArray::from(Vec::<&str>::new()))],
    )
    .unwrap();
    let schema = Arc::new(Schema::new(vec![Field::new("c0", DataType::Union(uf.clone(), UnionMode::Dense), false)]));
    let batch = RecordBatch::try_new(schema.clone(), vec![Arc::new(u2)]).unwrap();
    println!("in: {:?}", vcore::tok::batch_rows(&batch));
    ocf_rt("dense-union-first-only", schema, batch);
    // union followed by another column
    let u3 = UnionArray::try_new(
        uf.clone(),
        vec![1i8, 0, 0].into(),
        Some(vec![0i32, 0, 1].into()),
        vec![Arc::new(Int64Array::from(vec![3i64, 2])) as ArrayRef, Arc::new(StringArray::from(vec![""]))],
    )
    .unwrap();
    let schema = Arc::new(Schema::new(vec![Field::new("c0", DataType::Union(uf.clone(), UnionMode::Dense), false), Field::new("c1", DataType::Int64, false)]));
    let batch = RecordBatch::try_new(schema.clone(), vec![Arc::new(u3), Arc::new(Int64Array::from(vec![1i64, 2, 3]))]).unwrap();
    println!("in: {:?}", vcore::tok::batch_rows(&batch));
    ocf_rt("union-then-long", schema, batch);
    // union followed by a list column
    {
        use arrow_array::builder::{Int64Builder, ListBuilder};
        let u3 = UnionArray::try_new(
            uf.clone(),
            vec![1i8, 0, 0].into(),
            Some(vec![0i32, 0, 1].into()),
            vec![Arc::new(Int64Array::from(vec![3i64, 2])) as ArrayRef, Arc::new(StringArray::from(vec![""]))],
        )
        .unwrap();
        let mut lb = ListBuilder::new(Int64Builder::new());
        lb.append_value([Some(0i64), Some(3), Some(4)]);
        lb.append_value([Some(2i64), Some(4)]);
        lb.append_value([] as [Option<i64>; 0]);
        let l = lb.finish();
        let schema = Arc::new(Schema::new(vec![Field::new("c0", DataType::Union(uf.clone(), UnionMode::Dense), false), Field::new("c1", l.data_type().clone(), false)]));
        let batch = RecordBatch::try_new(schema.clone(), vec![Arc::new(u3), Arc::new(l)]).unwrap();
        println!("in: {:?}", vcore::tok::batch_rows(&batch));
        ocf_rt("union-then-list", schema, batch);
    }
    // generated unions
    for seed in 0..200u64 {
        let mut rng = vcore::Rng::new(seed);
        let dt = DataType::Union(uf.clone(), UnionMode::Dense);
        let a = vcore::mk::array(&mut rng, &dt, 3, vcore::mk::Cfg::tame(0));
        let schema = Arc::new(Schema::new(vec![Field::new("c0", dt, false)]));
        let batch = RecordBatch::try_new(schema.clone(), vec![a]).unwrap();
        let mut w = WriterBuilder::new(schema.as_ref().clone()).build::<_, AvroOcfFormat>(Vec::new()).unwrap();
        w.write(&batch).unwrap();
        w.finish().unwrap();
        let bytes = w.into_inner();
        let bad = match ReaderBuilder::new().build(Cursor::new(bytes.clone())) {
            Err(_) => true,
            Ok(rd) => rd.into_iter().any(|b| b.is_err()),
        };
        if bad {
            println!("seed {seed} in: {:?}", vcore::tok::batch_rows(&batch));
            ocf_rt("generated-union", schema, batch);
            break;
        }
    }
    // Null column
    let schema = Arc::new(Schema::new(vec![Field::new("n", DataType::Null, true)]));
    let batch = RecordBatch::try_new(schema.clone(), vec![Arc::new(NullArray::new(2))]).unwrap();
    ocf_rt("null-column", schema, batch);
}
