//! Shared projections (never an oracle): text as code points, bytes as integers, schemas without metadata.
use arrow_schema::{DataType, Field, Schema};
use vcore::{json, Value};

/// a text as the sequence of its code points
pub fn cps(s: &str) -> Value {
    Value::Array(s.chars().map(|c| Value::from(c as u32)).collect())
}

pub fn bytes(b: &[u8]) -> Value {
    Value::Array(b.iter().map(|x| Value::from(*x)).collect())
}

pub fn strs(v: &[String]) -> Value {
    Value::Array(v.iter().map(|s| Value::String(s.clone())).collect())
}

/// data type with field names and nullability, without metadata
pub fn norm_type(t: &DataType) -> String {
    use DataType::*;
    let f = |f: &Field| format!("{}:{}{}", f.name(), norm_type(f.data_type()), if f.is_nullable() { "?" } else { "" });
    match t {
        List(x) => format!("List({})", f(x)),
        LargeList(x) => format!("LargeList({})", f(x)),
        ListView(x) => format!("ListView({})", f(x)),
        LargeListView(x) => format!("LargeListView({})", f(x)),
        FixedSizeList(x, n) => format!("FixedSizeList({},{n})", f(x)),
        Struct(fs) => format!("Struct({})", fs.iter().map(|x| f(x)).collect::<Vec<_>>().join(",")),
        Map(x, sorted) => format!("Map({},{sorted})", f(x)),
        Dictionary(k, v) => format!("Dictionary({},{})", norm_type(k), norm_type(v)),
        RunEndEncoded(r, v) => format!("RunEndEncoded({},{})", f(r), f(v)),
        Union(fs, m) => format!("Union({:?},{})", m, fs.iter().map(|(i, x)| format!("{i}={}", f(x))).collect::<Vec<_>>().join(",")),
        other => format!("{other:?}"),
    }
}

/// ASCII only (python's splitlines, used by the orchestrator, also splits at U+2028 / U+0085)
pub fn safe(s: &str) -> String {
    s.chars().flat_map(|c| c.escape_default()).collect()
}

pub fn norm_schema(s: &Schema) -> String {
    safe(&norm_schema_raw(s))
}

fn norm_schema_raw(s: &Schema) -> String {
    s.fields().iter().map(|f| format!("{}:{}{}", f.name(), norm_type(f.data_type()), if f.is_nullable() { "?" } else { "" })).collect::<Vec<_>>().join(";")
}

/// error variant name (never the message)
pub fn variant<E: std::fmt::Debug>(e: &E) -> String {
    let s = format!("{e:?}");
    s.split(|c: char| !c.is_alphanumeric()).next().unwrap_or("Err").to_string()
}

pub fn outcome_err(phase: &str, v: &str) -> Value {
    json!(format!("err:{phase}:{v}"))
}

/// run `f` on its own thread; None when it has not returned after `secs` seconds (a hang in code under test is
/// data; the thread is left behind and dies with the process)
pub fn with_timeout<T: Send + 'static>(secs: u64, f: impl FnOnce() -> T + Send + 'static) -> Option<T> {
    let (tx, rx) = std::sync::mpsc::channel();
    std::thread::spawn(move || {
        vcore::quiet_panics();
        let _ = tx.send(f());
    });
    rx.recv_timeout(std::time::Duration::from_secs(secs)).ok()
}
