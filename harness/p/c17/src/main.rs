//! C17 driver: CSV, JSON and Avro writers and readers.  Drives arrow-csv / arrow-json / arrow-avro and projects
//! what they produce to JSON; every judgement is made by TLC on spec/Trace_TextFormats.tla (CsvGrammar.tla,
//! JsonGrammar.tla, AvroEncoding.tla).  `c17 run --tier T --seed S --out DIR` writes text-NN.ndjson.
mod avro;
mod csv;
mod json;
mod probe;
mod replay;
mod util;

use vcore::trace::Shards;
use vcore::{Args, Rng};

fn main() {
    let args = Args::parse();
    vcore::quiet_panics();
    match args.driver.as_str() {
        "run" => {
            let mut rng = Rng::new(args.seed);
            let mut tr = Shards::create(&args.out, "text", args.scale(6, 14));
            let only = args.extra.first().cloned().unwrap_or_default();
            let on = |k: &str| only.is_empty() || only == k;
            let mut split = 0;
            let (mut crt, mut cskip, mut jt, mut jrt, mut jskip, mut art, mut askip) = (0, 0, 0, 0, 0, 0, 0);
            if on("csv") {
                split = csv::split_texts(&args, &mut rng.fork(), &mut tr);
                (crt, cskip) = csv::round_trips(&args, &mut rng.fork(), &mut tr);
            }
            if on("json") {
                jt = json::texts(&args, &mut rng.fork(), &mut tr);
                (jrt, jskip) = json::round_trips(&args, &mut rng.fork(), &mut tr);
            }
            if on("avro") {
                (art, askip) = avro::round_trips(&args, &mut rng.fork(), &mut tr);
            }
            let events = tr.finish();
            println!(
                "DRIVER c17 events={events} csv_split={split} csv_rt={crt} csv_skipped={cskip} json_text={jt} json_rt={jrt} json_skipped={jskip} avro={art} avro_skipped={askip}"
            );
        }
        "probe" => probe::run(),
        "replay-avro" => replay::replay_avro(args.cases.as_deref().expect("--cases FILE")),
        other => {
            eprintln!("unknown driver {other}");
            std::process::exit(2);
        }
    }
}
