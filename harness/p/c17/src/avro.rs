//! Avro: writer round trips (object container files with every codec, single-object / Confluent / Apicurio
//! framing, raw bodies) -> `avro` events carrying row tokens in / out and, for uncompressed output, the produced
//! bytes, the writer schema as a type tree (from the schema JSON the writer declared) and the input rows as
//! Avro value trees (projected from the Arrow arrays) - the specification encodes / decodes them itself.
use crate::csv::edge_array;
use crate::util::*;
use arrow_array::cast::AsArray;
use arrow_array::types::*;
use arrow_array::*;
use arrow_avro::compression::CompressionCodec;
use arrow_avro::reader::ReaderBuilder;
use arrow_avro::schema::{AvroSchema, Fingerprint, FingerprintAlgorithm, FingerprintStrategy, SchemaStore};
use arrow_avro::writer::format::{AvroBinaryFormat, AvroOcfFormat, AvroSoeFormat};
use arrow_avro::writer::WriterBuilder;
use arrow_schema::{DataType, Field, Fields, Schema, TimeUnit, UnionFields, UnionMode};
use std::io::Cursor;
use std::sync::Arc;
use vcore::mk::{self, Cfg};
use vcore::trace::Shards;
use vcore::{big, guarded, json, tok, Args, Rng, Value};

// ------------------------------------------------------------------------------------------ projections

fn val(k: &str, i: i64, n: Value, b: Value, kids: Vec<Value>) -> Value {
    json!({"k": k, "i": i, "n": n, "b": b, "kids": kids})
}
fn zero() -> Value {
    json!([0])
}
fn nob() -> Value {
    json!([])
}

/// row `i` of `a` as an Avro value (kind "other": the Arrow type has no 1:1 Avro counterpart in the fragment)
pub fn avro_value(a: &dyn Array, i: usize) -> Value {
    use DataType::*;
    if !matches!(a.data_type(), Union(_, _)) && a.is_null(i) {
        return val("null", 0, zero(), nob(), vec![]);
    }
    let int = |v: i64| val("int", 0, big::wire(v), nob(), vec![]);
    match a.data_type() {
        Null => val("null", 0, zero(), nob(), vec![]),
        Boolean => val("bool", a.as_boolean().value(i) as i64, zero(), nob(), vec![]),
        Int32 => int(a.as_primitive::<Int32Type>().value(i) as i64),
        Int64 => int(a.as_primitive::<Int64Type>().value(i)),
        Date32 => int(a.as_primitive::<Date32Type>().value(i) as i64),
        Time32(TimeUnit::Millisecond) => int(a.as_primitive::<Time32MillisecondType>().value(i) as i64),
        Time64(TimeUnit::Microsecond) => int(a.as_primitive::<Time64MicrosecondType>().value(i)),
        Timestamp(TimeUnit::Millisecond, _) => int(a.as_primitive::<TimestampMillisecondType>().value(i)),
        Timestamp(TimeUnit::Microsecond, _) => int(a.as_primitive::<TimestampMicrosecondType>().value(i)),
        Timestamp(TimeUnit::Nanosecond, _) => int(a.as_primitive::<TimestampNanosecondType>().value(i)),
        Float32 => val("float", 0, zero(), bytes(&a.as_primitive::<Float32Type>().value(i).to_bits().to_be_bytes()), vec![]),
        Float64 => val("double", 0, zero(), bytes(&a.as_primitive::<Float64Type>().value(i).to_bits().to_be_bytes()), vec![]),
        Utf8 => val("bytes", 0, zero(), bytes(a.as_string::<i32>().value(i).as_bytes()), vec![]),
        Binary => val("bytes", 0, zero(), bytes(a.as_binary::<i32>().value(i)), vec![]),
        FixedSizeBinary(_) => val("bytes", 0, zero(), bytes(a.as_fixed_size_binary().value(i)), vec![]),
        List(_) => {
            let v = a.as_list::<i32>().value(i);
            val("arr", 0, zero(), nob(), (0..v.len()).map(|j| avro_value(v.as_ref(), j)).collect())
        }
        Map(_, _) => {
            let e = a.as_map().value(i);
            let mut kids = vec![];
            for j in 0..e.len() {
                kids.push(avro_value(e.column(0).as_ref(), j));
                kids.push(avro_value(e.column(1).as_ref(), j));
            }
            val("map", 0, zero(), nob(), kids)
        }
        Struct(_) => val("rec", 0, zero(), nob(), a.as_struct().columns().iter().map(|c| avro_value(c.as_ref(), i)).collect()),
        Union(fields, mode) => {
            let u = a.as_union();
            let tid = u.type_id(i);
            let pos = fields.iter().position(|(id, _)| id == tid).unwrap_or(0);
            let off = match mode {
                UnionMode::Dense => u.value_offset(i),
                UnionMode::Sparse => i,
            };
            val("union", pos as i64, zero(), nob(), vec![avro_value(u.child(tid).as_ref(), off)])
        }
        RunEndEncoded(r, _) => {
            // the value the row denotes (run-end encoding has no Avro counterpart: the writer declares the value type)
            macro_rules! ree {
                ($t:ty) => {{
                    let ra = a.as_any().downcast_ref::<RunArray<$t>>().unwrap();
                    avro_value(ra.values().as_ref(), ra.get_physical_index(i))
                }};
            }
            match r.data_type() {
                Int16 => ree!(Int16Type),
                Int32 => ree!(Int32Type),
                _ => ree!(Int64Type),
            }
        }
        _ => val("other", 0, zero(), nob(), vec![]),
    }
}

/// the type with run-end and dictionary encodings replaced by the types of their values (what the reader returns)
pub fn plain_type(t: &DataType) -> DataType {
    use DataType::*;
    let f = |f: &Arc<Field>| Arc::new(Field::new(f.name(), plain_type(f.data_type()), f.is_nullable()));
    match t {
        RunEndEncoded(_, v) => plain_type(v.data_type()),
        Dictionary(_, v) => plain_type(v),
        List(x) => List(f(x)),
        LargeList(x) => LargeList(f(x)),
        FixedSizeList(x, n) => FixedSizeList(f(x), *n),
        Map(x, o) => Map(f(x), *o),
        Struct(fs) => Struct(fs.iter().map(|x| f(x)).collect::<Vec<_>>().into()),
        other => other.clone(),
    }
}

/// a run-end encoded array below a struct / list / map (scopes a known finding)
pub fn ree_nested(t: &DataType, below: bool) -> bool {
    use DataType::*;
    match t {
        RunEndEncoded(_, _) => below,
        List(f) | LargeList(f) | FixedSizeList(f, _) | Map(f, _) => ree_nested(f.data_type(), true),
        Struct(fs) => fs.iter().any(|f| ree_nested(f.data_type(), true)),
        _ => false,
    }
}

fn sch(k: &str, size: i64, kids: Vec<Value>) -> Value {
    json!({"k": k, "size": size, "kids": kids})
}

/// the type tree of an Avro schema given as JSON
pub fn schema_tree(v: &serde_json::Value) -> Value {
    use serde_json::Value as J;
    match v {
        J::String(s) => match s.as_str() {
            "null" | "boolean" | "int" | "long" | "float" | "double" | "bytes" | "string" => sch(s, 0, vec![]),
            _ => sch("other", 0, vec![]),
        },
        J::Array(bs) => sch("union", 0, bs.iter().map(schema_tree).collect()),
        J::Object(o) => {
            if let Some(lt) = o.get("logicalType").and_then(|x| x.as_str()) {
                let plain = ["date", "time-millis", "time-micros", "timestamp-millis", "timestamp-micros", "timestamp-nanos", "local-timestamp-millis", "local-timestamp-micros", "local-timestamp-nanos"];
                if !plain.contains(&lt) {
                    return sch("other", 0, vec![]);
                }
            }
            match o.get("type") {
                Some(J::String(t)) => match t.as_str() {
                    "record" => sch("record", 0, o.get("fields").and_then(|f| f.as_array()).map(|fs| fs.iter().map(|f| schema_tree(f.get("type").unwrap_or(&J::Null))).collect()).unwrap_or_default()),
                    "array" => sch("array", 0, vec![schema_tree(o.get("items").unwrap_or(&J::Null))]),
                    "map" => sch("map", 0, vec![schema_tree(o.get("values").unwrap_or(&J::Null))]),
                    "fixed" => sch("fixed", o.get("size").and_then(|x| x.as_i64()).unwrap_or(-1), vec![]),
                    "enum" => sch("other", 0, vec![]),
                    _ => schema_tree(&J::String(t.clone())),
                },
                Some(inner) => schema_tree(inner),
                None => sch("other", 0, vec![]),
            }
        }
        _ => sch("other", 0, vec![]),
    }
}

// ------------------------------------------------------------------------------------------ cases

fn fld(name: &str, t: DataType, nullable: bool) -> Arc<Field> {
    Arc::new(Field::new(name, t, nullable))
}

/// types with a 1:1 Avro counterpart (the byte-level clauses are decided for schemas made of these)
fn fragment_types() -> Vec<DataType> {
    use DataType::*;
    let kv = |v: DataType, vn: bool| fld("entries", Struct(Fields::from(vec![Field::new("key", Utf8, false), Field::new("value", v, vn)])), false);
    vec![
        Boolean, Int32, Int64, Int64, Float32, Float64, Utf8, Utf8, Binary, FixedSizeBinary(3), FixedSizeBinary(16), Date32,
        Time32(TimeUnit::Millisecond), Time64(TimeUnit::Microsecond), Timestamp(TimeUnit::Millisecond, Some("+00:00".into())), Timestamp(TimeUnit::Microsecond, None),
        Timestamp(TimeUnit::Nanosecond, Some("+00:00".into())), Timestamp(TimeUnit::Microsecond, Some("+00:00".into())),
        List(fld("item", Int64, true)), List(fld("item", Utf8, false)), List(fld("item", List(fld("item", Int32, true)), true)),
        Map(kv(Int64, true), false), Map(kv(Utf8, false), false), Map(kv(List(fld("item", Boolean, true)), true), false),
        Struct(Fields::from(vec![Field::new("a", Int64, true), Field::new("b", Utf8, false)])),
        Struct(Fields::from(vec![Field::new("l", List(fld("item", Float64, true)), true), Field::new("s", Struct(Fields::from(vec![Field::new("x", Boolean, true)])), true)])),
        List(fld("item", Struct(Fields::from(vec![Field::new("a", Int32, true), Field::new("b", Binary, true)])), true)),
        Union(UnionFields::try_new(vec![0, 1], vec![Field::new("long", Int64, false), Field::new("string", Utf8, false)]).unwrap(), UnionMode::Dense),
        Union(UnionFields::try_new(vec![0, 1, 2], vec![Field::new("boolean", Boolean, false), Field::new("double", Float64, false), Field::new("array", List(fld("item", Int32, true)), false)]).unwrap(), UnionMode::Sparse),
    ]
}

/// further types the writer may support (round trip only)
fn other_types() -> Vec<DataType> {
    use DataType::*;
    vec![
        Int8, Int16, UInt8, UInt16, UInt32, UInt64, Float16, LargeUtf8, Utf8View, LargeBinary, BinaryView, Date64, Time32(TimeUnit::Second), Time64(TimeUnit::Nanosecond),
        Timestamp(TimeUnit::Second, None), Decimal128(10, 2), Decimal128(38, 10), Decimal256(50, 5), Decimal32(9, 2), Decimal64(18, 3),
        Duration(TimeUnit::Millisecond), Interval(arrow_schema::IntervalUnit::MonthDayNano), Interval(arrow_schema::IntervalUnit::YearMonth),
        LargeList(fld("item", Int64, true)), FixedSizeList(fld("item", Int32, true), 2), Dictionary(Box::new(Int32), Box::new(Utf8)), Null,
        RunEndEncoded(fld("run_ends", Int32, false), fld("values", Utf8, true)),
    ]
}

fn adversarial(rng: &mut Rng) -> String {
    let units = ["a", "b", "", "\"", "\n", "\u{0}", "\u{e9}", "\u{1F600}", " ", "0123456789", "xxxxxxxxxxxxxxxxxxxxxxxxxxxxxxxxxxxxxxxxxxxxxxxxxxxxxxxxxxxxxxxx"];
    (0..rng.below(4)).map(|_| *rng.pick(&units)).collect()
}

struct Case {
    schema: Arc<Schema>,
    batch: RecordBatch,
    parts: Vec<RecordBatch>,
    in_fragment: bool,
}

fn gen_case(rng: &mut Rng) -> Option<Case> {
    let frag = fragment_types();
    let other = other_types();
    let in_fragment = rng.chance(70);
    let ncols = 1 + rng.below(3);
    let nrows = if rng.chance(10) { 0 } else { 1 + rng.below(4) };
    let mut fields = vec![];
    let mut cols: Vec<ArrayRef> = vec![];
    for c in 0..ncols {
        let dt = if in_fragment || rng.chance(40) { rng.pick(&frag).clone() } else { rng.pick(&other).clone() };
        let np = if matches!(dt, DataType::Union(_, _)) { 0 } else { *rng.pick(&[0usize, 0, 30]) };
        let mut strings = |r: &mut Rng| adversarial(r);
        let (dt, a) = if !in_fragment && rng.chance(25) {
            crate::json::logical_null_column(rng, nrows)
        } else {
            let a = if rng.chance(60) { edge_array(rng, &dt, nrows, np, &mut strings) } else { mk::array(rng, &dt, nrows, Cfg::tame(np)) };
            (dt, a)
        };
        let nullable = np > 0 || a.logical_null_count() > 0 || matches!(dt, DataType::Null) || !in_fragment;
        fields.push(Field::new(format!("c{c}"), dt, nullable));
        cols.push(a);
    }
    let schema = Arc::new(Schema::new(fields));
    let batch = RecordBatch::try_new_with_options(schema.clone(), cols, &RecordBatchOptions::new().with_row_count(Some(nrows))).ok()?;
    let parts = if nrows >= 2 && rng.chance(40) { vec![batch.slice(0, 1), batch.slice(1, nrows - 1)] } else { vec![batch.clone()] };
    Some(Case { schema, batch, parts, in_fragment })
}

fn rows_of(b: &RecordBatch) -> Vec<Value> {
    let s = StructArray::from(b.clone());
    (0..b.num_rows()).map(|i| avro_value(&s, i)).collect()
}

fn read_ocf(bytes: &[u8], bs: usize) -> (String, Vec<String>, String) {
    let bytes = bytes.to_vec();
    with_timeout(8, move || read_ocf_inner(&bytes, bs)).unwrap_or(("hang".into(), vec![], String::new()))
}

fn read_ocf_inner(bytes: &[u8], bs: usize) -> (String, Vec<String>, String) {
    let r = guarded(|| {
        let rd = ReaderBuilder::new().with_batch_size(bs).build(Cursor::new(bytes.to_vec())).map_err(|e| format!("open:{}", variant(&e)))?;
        let sch = norm_schema(&rd.schema());
        let mut rows = vec![];
        for b in rd {
            let b = b.map_err(|e| format!("read:{}", variant(&e)))?;
            rows.extend(tok::batch_rows(&b));
        }
        Ok::<_, String>((rows, sch))
    });
    match r {
        Ok(Ok((rows, s))) => ("ok".into(), rows, s),
        Ok(Err(e)) => (format!("err:{e}"), vec![], String::new()),
        Err(p) => (format!("panic:{}", safe(&p.chars().take(60).collect::<String>())), vec![], String::new()),
    }
}

fn read_soe(bytes: &[u8], store: SchemaStore, bs: usize) -> (String, Vec<String>, String) {
    let bytes = bytes.to_vec();
    with_timeout(8, move || read_soe_inner(&bytes, store, bs)).unwrap_or(("hang".into(), vec![], String::new()))
}

fn read_soe_inner(bytes: &[u8], store: SchemaStore, bs: usize) -> (String, Vec<String>, String) {
    let r = guarded(|| {
        let mut dec = ReaderBuilder::new().with_writer_schema_store(store).with_batch_size(bs).build_decoder().map_err(|e| format!("open:{}", variant(&e)))?;
        let mut rows = vec![];
        let mut sch = String::new();
        let mut pos = 0;
        loop {
            if pos < bytes.len() {
                let n = dec.decode(&bytes[pos..]).map_err(|e| format!("decode:{}", variant(&e)))?;
                pos += n;
                if n == 0 && !dec.batch_is_full() {
                    return Err("decode:stalled".to_string());
                }
            }
            if dec.batch_is_full() || pos >= bytes.len() {
                match dec.flush().map_err(|e| format!("flush:{}", variant(&e)))? {
                    Some(b) => {
                        sch = norm_schema(&b.schema());
                        rows.extend(tok::batch_rows(&b));
                    }
                    None => {
                        if pos >= bytes.len() {
                            break;
                        }
                    }
                }
            }
        }
        Ok::<_, String>((rows, sch))
    });
    match r {
        Ok(Ok((rows, s))) => ("ok".into(), rows, s),
        Ok(Err(e)) => (format!("err:{e}"), vec![], String::new()),
        Err(p) => (format!("panic:{}", safe(&p.chars().take(60).collect::<String>())), vec![], String::new()),
    }
}

pub fn round_trips(args: &Args, rng: &mut Rng, tr: &mut Shards) -> (usize, usize) {
    let mut n = 0;
    let mut skipped = 0;
    let codecs: [(&str, Option<CompressionCodec>); 6] = [
        ("null", None),
        ("deflate", Some(CompressionCodec::Deflate)),
        ("snappy", Some(CompressionCodec::Snappy)),
        ("zstandard", Some(CompressionCodec::ZStandard)),
        ("bzip2", Some(CompressionCodec::Bzip2)),
        ("xz", Some(CompressionCodec::Xz)),
    ];
    let mut hangs = 0;
    for _ in 0..args.scale(800, 28000) {
        let Some(case) = gen_case(rng) else { continue };
        // every hang leaves a spinning thread behind: after a few, cases of the same class are not run any more
        if hangs >= 3 && case.schema.fields().iter().any(|f| ree_nested(f.data_type(), false)) {
            skipped += 1;
            continue;
        }
        let framing = *rng.pick(&["ocf", "ocf", "ocf", "soe", "soe", "confluent", "apicurio", "binary"]);
        let bs = *rng.pick(&[1usize, 2, 1024]);
        let nrows = case.batch.num_rows();
        let mut ev = json!({
            "op": "avro", "framing": framing, "nrows": nrows, "bs": bs, "in_fragment": case.in_fragment,
            "rows_in": strs(&tok::batch_rows(&case.batch)), "schema_in": norm_schema(&case.schema),
            "union_tids": case.batch.columns().iter().filter(|a| matches!(a.data_type(), DataType::Union(_, _))).map(|a| {
                let u = a.as_union();
                Value::Array((0..u.len()).map(|i| Value::from(u.type_id(i))).collect())
            }).collect::<Vec<_>>(),
            "has_ree": case.schema.fields().iter().any(|f| ree_nested(f.data_type(), true)),
            "sliced": case.parts.len() > 1,
            "schema_in_plain": norm_schema(&Schema::new(case.schema.fields().iter().map(|f| Field::new(f.name(), plain_type(f.data_type()), f.is_nullable())).collect::<Vec<_>>())),
            "ree_nested": case.schema.fields().iter().any(|f| ree_nested(f.data_type(), false)),
            "types": case.schema.fields().iter().map(|f| safe(&format!("{:?}", f.data_type()))).collect::<Vec<_>>(),
        });
        if framing == "ocf" {
            let (cname, codec) = if rng.chance(50) { codecs[0] } else { *rng.pick(&codecs) };
        if std::env::var("C17_DEBUG").is_ok() { eprintln!("avro ocf write {}", norm_schema(&case.schema)); }
            let written = guarded(|| {
                let mut w = WriterBuilder::new(case.schema.as_ref().clone()).with_compression(codec).build::<_, AvroOcfFormat>(Vec::new()).map_err(|e| variant(&e))?;
                for p in &case.parts {
                    w.write(p).map_err(|e| variant(&e))?;
                }
                w.finish().map_err(|e| variant(&e))?;
                Ok::<_, String>(w.into_inner())
            });
            let file = match written {
                Ok(Ok(f)) => f,
                Ok(Err(_)) => {
                    skipped += 1;
                    continue;
                }
                Err(p) => {
                    ev["wout"] = json!("panic");
                    ev["why"] = json!(safe(&p.chars().take(80).collect::<String>()));
                    tr.emit(ev);
                    tr.next_episode();
                    n += 1;
                    continue;
                }
            };
        if std::env::var("C17_DEBUG").is_ok() { eprintln!("avro ocf read {}", norm_schema(&case.schema)); }
            let (outcome, rows_out, schema_out) = read_ocf(&file, bs);
            if outcome == "hang" {
                hangs += 1;
            }
            ev["wout"] = json!("ok");
            ev["stream_is_concat"] = json!(true);
            ev["id"] = json!(0);
            ev["codec"] = json!(cname);
            ev["outcome"] = json!(outcome);
            ev["rows_out"] = strs(&rows_out);
            ev["schema_out"] = json!(schema_out);
            // the schema the file declares
            let declared = arrow_avro::reader::read_header_info(Cursor::new(file.clone())).ok().and_then(|h| h.writer_schema().ok());
            let has_bytes = file.len() <= 1600 && declared.is_some();
            ev["has_bytes"] = json!(has_bytes);
            if has_bytes {
                let js = declared.unwrap().json_string;
                ev["schema_json"] = bytes(js.as_bytes());
                ev["schema"] = serde_json::from_str::<serde_json::Value>(&js).map(|v| schema_tree(&v)).unwrap_or(sch("other", 0, vec![]));
                ev["vals"] = Value::Array(rows_of(&case.batch));
                ev["file"] = bytes(&file);
            }
        } else {
            let (strategy, id): (Option<FingerprintStrategy>, u32) = match framing {
                "confluent" => {
                    let id = *rng.pick(&[0u32, 7, 300, 0x01020304, 0x7fffffff]);
                    (Some(FingerprintStrategy::Id(id)), id)
                }
                "apicurio" => {
                    let id = *rng.pick(&[1u32, 258, 0x7fffffff]);
                    (Some(FingerprintStrategy::Id64(id as u64)), id)
                }
                _ => (None, 0),
            };
        if std::env::var("C17_DEBUG").is_ok() { eprintln!("avro encode {}", norm_schema(&case.schema)); }
            let encoded = guarded(|| {
                let mut wb = WriterBuilder::new(case.schema.as_ref().clone());
                if let Some(s) = strategy {
                    wb = wb.with_fingerprint_strategy(s);
                }
                let mut enc = if framing == "binary" { wb.build_encoder::<AvroBinaryFormat>() } else { wb.build_encoder::<AvroSoeFormat>() }.map_err(|e| variant(&e))?;
                for p in &case.parts {
                    enc.encode(p).map_err(|e| variant(&e))?;
                }
                let js = enc.schema().metadata().get("avro.schema").cloned().unwrap_or_default();
                let rows = enc.flush();
                Ok::<_, String>((rows.iter().map(|b| b.to_vec()).collect::<Vec<_>>(), js))
            });
            let (msgs, js) = match encoded {
                Ok(Ok(x)) => x,
                Ok(Err(_)) => {
                    skipped += 1;
                    continue;
                }
                Err(p) => {
                    ev["wout"] = json!("panic");
                    ev["why"] = json!(safe(&p.chars().take(80).collect::<String>()));
                    tr.emit(ev);
                    tr.next_episode();
                    n += 1;
                    continue;
                }
            };
            ev["wout"] = json!("ok");
            ev["codec"] = json!("null");
            ev["id"] = json!(id);
            // the stream writer must produce the concatenation of the encoder's messages
            if framing != "binary" {
        if std::env::var("C17_DEBUG").is_ok() { eprintln!("avro stream write {}", norm_schema(&case.schema)); }
                let streamed = guarded(|| {
                    let mut wb = WriterBuilder::new(case.schema.as_ref().clone());
                    if let Some(s) = strategy {
                        wb = wb.with_fingerprint_strategy(s);
                    }
                    let mut w = wb.build::<_, AvroSoeFormat>(Vec::new()).map_err(|e| variant(&e))?;
                    for p in &case.parts {
                        w.write(p).map_err(|e| variant(&e))?;
                    }
                    w.finish().map_err(|e| variant(&e))?;
                    Ok::<_, String>(w.into_inner())
                });
                let stream = match streamed {
                    Ok(Ok(s)) => s,
                    Ok(Err(_)) => {
                        // the writer refuses the schema (the row encoder only notices with a row to encode): not judged
                        skipped += 1;
                        continue;
                    }
                    Err(_) => {
                        ev["outcome"] = json!("panic:stream-writer");
                        vec![]
                    }
                };
                ev["stream_is_concat"] = json!(stream == msgs.concat());
                let avro = AvroSchema::new(js.clone());
                let store = match framing {
                    "confluent" => {
                        let mut s = SchemaStore::new_with_type(FingerprintAlgorithm::Id);
                        s.set(Fingerprint::Id(id), avro).ok().map(|_| s)
                    }
                    "apicurio" => {
                        let mut s = SchemaStore::new_with_type(FingerprintAlgorithm::Id64);
                        s.set(Fingerprint::Id64(id as u64), avro).ok().map(|_| s)
                    }
                    _ => {
                        let mut s = SchemaStore::new();
                        s.register(avro).ok().map(|_| s)
                    }
                };
                let Some(store) = store else {
                    skipped += 1;
                    continue;
                };
        if std::env::var("C17_DEBUG").is_ok() { eprintln!("avro soe read {}", norm_schema(&case.schema)); }
                let (outcome, rows_out, schema_out) = read_soe(&stream, store, bs);
                if outcome == "hang" {
                    hangs += 1;
                }
                if ev.get("outcome").is_none() {
                    ev["outcome"] = json!(outcome);
                }
                ev["rows_out"] = strs(&rows_out);
                ev["schema_out"] = json!(if nrows == 0 { String::new() } else { schema_out });
            } else {
                // raw bodies have no reader of their own: only the encoding is judged
                ev["outcome"] = json!("ok");
                ev["rows_out"] = ev["rows_in"].clone();
                ev["schema_out"] = json!("");
                ev["stream_is_concat"] = json!(true);
            }
            let total: usize = msgs.iter().map(|m| m.len()).sum();
            let has_bytes = total <= 1600 && !js.is_empty();
            ev["has_bytes"] = json!(has_bytes);
            if has_bytes {
                ev["schema_json"] = bytes(js.as_bytes());
                ev["schema"] = serde_json::from_str::<serde_json::Value>(&js).map(|v| schema_tree(&v)).unwrap_or(sch("other", 0, vec![]));
                ev["vals"] = Value::Array(rows_of(&case.batch));
                ev["msgs"] = Value::Array(msgs.iter().map(|m| bytes(m)).collect());
            }
        }
        tr.emit(ev);
        tr.next_episode();
        n += 1;
    }
    (n, skipped)
}
