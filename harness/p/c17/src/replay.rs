//! spec -> impl: Avro bodies computed by TLC (Gen_AvroBlocks: every blocking of arrays / maps the Avro
//! specification allows) are framed as Confluent messages and decoded by the real arrow-avro Decoder; the decoded
//! row, projected to an Avro value, must be the value TLC wrote.  Nothing is decided here beyond JSON equality.
use crate::avro::avro_value;
use arrow_array::{Array, StructArray};
use arrow_avro::reader::ReaderBuilder;
use arrow_avro::schema::{AvroSchema, Fingerprint, FingerprintAlgorithm, SchemaStore};
use vcore::{json, Value};

/// the schemas of Gen_AvroBlocks!Schemas, by position
const SCHEMAS: &[&str] = &[
    r#"{"type":"record","name":"r1","fields":[{"name":"a","type":{"type":"array","items":"long"}}]}"#,
    r#"{"type":"record","name":"r2","fields":[{"name":"a","type":{"type":"array","items":"string"}},{"name":"x","type":"long"}]}"#,
    r#"{"type":"record","name":"r3","fields":[{"name":"m","type":{"type":"map","values":"int"}}]}"#,
    r#"{"type":"record","name":"r4","fields":[{"name":"a","type":{"type":"array","items":{"type":"array","items":"long"}}}]}"#,
    r#"{"type":"record","name":"r5","fields":[{"name":"a","type":{"type":"array","items":["null","long"]}},{"name":"s","type":"string"}]}"#,
];

fn canon(v: &Value) -> Value {
    // key order / number representation independent comparison: re-serialise through serde_json's map
    serde_json::from_str(&serde_json::to_string(v).unwrap()).unwrap()
}

pub fn replay_avro(path: &str) {
    let mut replayed = 0usize;
    let mut mismatches = 0usize;
    for line in std::fs::read_to_string(path).unwrap().lines() {
        let Ok(case) = serde_json::from_str::<Value>(line) else { continue };
        let sid = case["sid"].as_u64().unwrap() as usize;
        let body: Vec<u8> = case["body"].as_array().map(|b| b.iter().map(|x| x.as_u64().unwrap() as u8).collect()).unwrap_or_default();
        let mut msg = vec![0u8];
        msg.extend_from_slice(&(sid as u32).to_be_bytes());
        msg.extend_from_slice(&body);
        // two messages in a row: the reader must also find the end of the first body
        let mut stream = msg.clone();
        stream.extend_from_slice(&msg);
        let got = vcore::guarded(|| {
            let mut store = SchemaStore::new_with_type(FingerprintAlgorithm::Id);
            store.set(Fingerprint::Id(sid as u32), AvroSchema::new(SCHEMAS[sid - 1].to_string())).map_err(|e| format!("store:{e}"))?;
            let mut dec = ReaderBuilder::new().with_writer_schema_store(store).with_batch_size(16).build_decoder().map_err(|e| format!("open:{e}"))?;
            let mut pos = 0;
            while pos < stream.len() {
                let n = dec.decode(&stream[pos..]).map_err(|e| format!("decode:{e}"))?;
                if n == 0 {
                    return Err("decode:stalled".to_string());
                }
                pos += n;
            }
            let b = dec.flush().map_err(|e| format!("flush:{e}"))?.ok_or("flush:none".to_string())?;
            let s = StructArray::from(b);
            Ok::<_, String>((0..s.len()).map(|i| avro_value(&s, i)).collect::<Vec<_>>())
        });
        replayed += 1;
        let want = canon(&case["want"]);
        let ok = match &got {
            Ok(Ok(rows)) => rows.len() == 2 && canon(&rows[0]) == want && canon(&rows[1]) == want,
            _ => false,
        };
        if !ok {
            mismatches += 1;
            if mismatches <= 10 {
                let g = match got {
                    Ok(Ok(rows)) => json!(rows),
                    Ok(Err(e)) => json!(crate::util::safe(&e)),
                    Err(p) => json!(crate::util::safe(&p)),
                };
                println!("MISMATCH {}", json!({"case": case, "got": g}));
            }
        }
    }
    println!("REPLAYED {replayed}");
    println!("DRIVER c17-replay-avro cases={replayed} mismatches={mismatches}");
}
