//! C06 driver.  (a) records calls of the public RowSelection API (both
//! backings) for Trace_RowSelection.tla; (b) writes small Parquet files with
//! varied layouts and records scans through ParquetRecordBatchReaderBuilder
//! under random and boundary configurations for Trace_ParquetScan.tla.
//! No expectation is computed here.
use arrow_array::BooleanArray;
use arrow_buffer::BooleanBuffer;
use parquet::arrow::arrow_reader::{MaskRunIter, ParquetRecordBatchReaderBuilder, RowSelection, RowSelector};
use parquet::file::page_index::offset_index::PageLocation;
use pqcommon::*;
use vcore::trace::Shards;
use vcore::{guarded, json, Args, Rng, Value};

// ------------------------------------------------------- RowSelection API

#[derive(Clone)]
enum Sel {
    Runs(Vec<(usize, bool)>),
    Mask(Vec<bool>),
}

impl Sel {
    fn build(&self) -> RowSelection {
        match self {
            Sel::Runs(r) => RowSelection::from(r.iter().map(|(n, s)| if *s { RowSelector::skip(*n) } else { RowSelector::select(*n) }).collect::<Vec<_>>()),
            Sel::Mask(b) => RowSelection::from_boolean_buffer(sliced(b)),
        }
    }
    fn json(&self) -> Value {
        match self {
            Sel::Runs(r) => json!({"k":"runs","runs":r.iter().map(|(n, s)| json!([n, *s as u8])).collect::<Vec<_>>(),"bits":[]}),
            Sel::Mask(b) => json!({"k":"mask","runs":[],"bits":b.iter().map(|x| *x as u8).collect::<Vec<_>>()}),
        }
    }
    fn total(&self) -> usize {
        match self {
            Sel::Runs(r) => r.iter().map(|x| x.0).sum(),
            Sel::Mask(b) => b.len(),
        }
    }
    fn count(&self) -> usize {
        match self {
            Sel::Runs(r) => r.iter().filter(|x| !x.1).map(|x| x.0).sum(),
            Sel::Mask(b) => b.iter().filter(|x| **x).count(),
        }
    }
}

/// a boolean buffer with the given bits, at a non-zero bit offset now and then
fn sliced(b: &[bool]) -> BooleanBuffer {
    let pre = (b.len() * 7 + 3) % 11;
    if b.len() % 3 == 0 {
        return BooleanBuffer::from(b.to_vec());
    }
    let mut v = vec![true; pre];
    v.extend_from_slice(b);
    v.push(true);
    BooleanBuffer::from(v).slice(pre, b.len())
}

fn rand_bits(rng: &mut Rng, n: usize) -> Vec<bool> {
    let style = rng.below(7);
    let mut run = rng.chance(50);
    (0..n)
        .map(|i| match style {
            0 => true,
            1 => false,
            2 => rng.chance(8),
            3 => rng.chance(92),
            4 => {
                if rng.chance(20) { run = !run }
                run
            }
            5 => i % 2 == 0,
            _ => rng.chance(50),
        })
        .collect()
}

/// a selection over exactly `n` rows, in a random backing, with rough runs
fn rand_sel(rng: &mut Rng, n: usize) -> Sel {
    let bits = rand_bits(rng, n);
    if rng.chance(40) {
        return Sel::Mask(bits);
    }
    let mut runs: Vec<(usize, bool)> = vec![];
    for b in &bits {
        match runs.last_mut() {
            Some(l) if l.1 == !*b && !rng.chance(10) => l.0 += 1,
            _ => runs.push((1, !*b)),
        }
        if rng.chance(6) {
            runs.push((0, rng.chance(50)));
        }
    }
    if rng.chance(10) {
        runs.insert(0, (0, rng.chance(50)));
    }
    Sel::Runs(runs)
}

fn len(rng: &mut Rng, max: usize) -> usize {
    match rng.below(6) {
        0 => 0,
        1 => 1,
        2 => rng.below(9),
        _ => rng.below(max + 1),
    }
}

fn runs_json(s: &RowSelection) -> Value {
    Value::Array(s.iter().map(|r| json!([r.row_count, r.skip as u8])).collect())
}

fn put_obs(m: &mut serde_json::Map<String, Value>, s: &RowSelection, suffix: &str) {
    m.insert(format!("out{suffix}"), runs_json(s));
    m.insert(format!("rc{suffix}"), json!(s.row_count()));
    m.insert(format!("sk{suffix}"), json!(s.skipped_row_count()));
    m.insert(format!("tot{suffix}"), json!(s.total_row_count()));
    m.insert(format!("any{suffix}"), json!(s.selects_any()));
    m.insert(format!("ismask{suffix}"), json!(s.as_mask().is_some()));
}

fn put_none(m: &mut serde_json::Map<String, Value>, suffix: &str, note: String) {
    m.insert(format!("out{suffix}"), json!([]));
    m.insert(format!("rc{suffix}"), json!(0));
    m.insert(format!("sk{suffix}"), json!(0));
    m.insert(format!("tot{suffix}"), json!(0));
    m.insert(format!("any{suffix}"), json!(false));
    m.insert(format!("ismask{suffix}"), json!(false));
    m.insert("note".into(), json!(note));
}

fn emit_sel(t: &mut Shards, mut ev: Value, r: Result<RowSelection, String>) {
    let m = ev.as_object_mut().unwrap();
    match r {
        Ok(s) => {
            m.insert("err".into(), json!(false));
            put_obs(m, &s, "");
        }
        Err(p) => {
            m.insert("err".into(), json!(true));
            put_none(m, "", p);
        }
    }
    t.emit(ev);
}

fn selection_api(rng: &mut Rng, t: &mut Shards, max: usize) {
    let n = len(rng, max);
    let a = rand_sel(rng, n);
    // construction
    emit_sel(t, json!({"op":"from","a":a.json()}), guarded(|| a.build()));
    // and_then: mostly with the right length, sometimes not (documented panic)
    {
        let want = a.count();
        let bl = if rng.chance(85) { want } else if rng.chance(50) { want + 1 + rng.below(3) } else { want.saturating_sub(1 + rng.below(2)) };
        let b = rand_sel(rng, bl);
        emit_sel(t, json!({"op":"and_then","a":a.json(),"b":b.json()}), guarded(|| a.build().and_then(&b.build())));
    }
    // intersection / union: equal lengths mostly
    for op in ["intersection", "union"] {
        let bl = if rng.chance(70) { n } else { len(rng, max) };
        let b = rand_sel(rng, bl);
        emit_sel(
            t,
            json!({"op":op,"a":a.json(),"b":b.json()}),
            guarded(|| if op == "union" { a.build().union(&b.build()) } else { a.build().intersection(&b.build()) }),
        );
    }
    // split_off
    {
        let k = match rng.below(5) {
            0 => 0,
            1 => n,
            2 => n + 1 + rng.below(3),
            _ => rng.below(n + 1),
        };
        let mut ev = json!({"op":"split_off","a":a.json(),"n":k});
        let r = guarded(|| {
            let mut s = a.build();
            if rng.chance(30) {
                let _ = s.row_count(); // populate the cached count of a mask backing
            }
            let head = s.split_off(k);
            (head, s)
        });
        let m = ev.as_object_mut().unwrap();
        match r {
            Ok((h, rest)) => {
                m.insert("err".into(), json!(false));
                put_obs(m, &h, "");
                put_obs(m, &rest, "2");
            }
            Err(p) => {
                m.insert("err".into(), json!(true));
                put_none(m, "", p.clone());
                put_none(m, "2", p);
            }
        }
        t.emit(ev);
    }
    // repeated split_off (how the push decoder walks the row groups)
    if rng.chance(30) && n > 0 {
        let mut s = a.build();
        let mut cur = a.clone();
        for _ in 0..3 {
            let k = 1 + rng.below(cur.total().max(1));
            let mut ev = json!({"op":"split_off","a":cur.json(),"n":k});
            let head = s.split_off(k);
            let m = ev.as_object_mut().unwrap();
            m.insert("err".into(), json!(false));
            put_obs(m, &head, "");
            put_obs(m, &s, "2");
            t.emit(ev);
            // the remainder, as a mask description (its denotation is what matters)
            let bits: Vec<bool> = s.iter().flat_map(|r| std::iter::repeat(!r.skip).take(r.row_count)).collect();
            cur = Sel::Mask(bits);
            if cur.total() == 0 {
                break;
            }
        }
    }
    // from_filters
    {
        let bits = rand_bits(rng, n);
        let mut parts: Vec<Vec<bool>> = vec![];
        let mut at = 0;
        while at < bits.len() {
            let k = 1 + rng.below(bits.len() - at);
            parts.push(bits[at..at + k].to_vec());
            at += k;
            if rng.chance(10) {
                parts.push(vec![]);
            }
        }
        let pj: Vec<Value> = parts.iter().map(|p| json!(p.iter().map(|x| *x as u8).collect::<Vec<_>>())).collect();
        emit_sel(
            t,
            json!({"op":"from_filters","filters":pj}),
            guarded(|| RowSelection::from_filters(&parts.iter().map(|p| BooleanArray::from(p.clone())).collect::<Vec<_>>())),
        );
    }
    // from_consecutive_ranges
    {
        let mut ranges: Vec<(usize, usize)> = vec![];
        let mut at = 0;
        while at < n && rng.chance(80) {
            let s = at + if rng.chance(40) { 0 } else { rng.below(n - at + 1) };
            let e = s + rng.below(n - s + 1).min(1 + rng.below(9));
            ranges.push((s, e));
            at = e;
        }
        emit_sel(
            t,
            json!({"op":"from_ranges","ranges":ranges.iter().map(|r| json!([r.0, r.1])).collect::<Vec<_>>(),"total":n}),
            guarded(|| RowSelection::from_consecutive_ranges(ranges.iter().map(|r| r.0..r.1), n)),
        );
    }
    // FromIterator<RowSelection>
    {
        let k = rng.below(4);
        let all_mask = rng.chance(40);
        let parts: Vec<Sel> = (0..k)
            .map(|_| {
                let l = len(rng, max / 3);
                let s = rand_sel(rng, l);
                if all_mask { Sel::Mask(s.build().iter().flat_map(|r| std::iter::repeat(!r.skip).take(r.row_count)).collect()) } else { s }
            })
            .collect();
        emit_sel(
            t,
            json!({"op":"collect","parts":parts.iter().map(|p| p.json()).collect::<Vec<_>>()}),
            guarded(|| parts.iter().map(|p| p.build()).collect::<RowSelection>()),
        );
    }
    // equality across backings
    {
        let b = if rng.chance(50) {
            // the same rows in the other backing
            let bits: Vec<bool> = a.build().iter().flat_map(|r| std::iter::repeat(!r.skip).take(r.row_count)).collect();
            match a {
                Sel::Mask(_) => Sel::Runs(bits.iter().map(|x| (1usize, !*x)).collect()),
                Sel::Runs(_) => Sel::Mask(bits),
            }
        } else {
            let bl = if rng.chance(60) { n } else { len(rng, max) };
            rand_sel(rng, bl)
        };
        match guarded(|| a.build() == b.build()) {
            Ok(e) => t.emit(json!({"op":"eq","a":a.json(),"b":b.json(),"err":false,"eq":e})),
            Err(p) => t.emit(json!({"op":"eq","a":a.json(),"b":b.json(),"err":true,"eq":false,"note":p})),
        }
    }
    // MaskRunIter
    {
        let bits = rand_bits(rng, n);
        let buf = sliced(&bits);
        match guarded(|| MaskRunIter::new(&buf).map(|r| json!([r.row_count, r.skip as u8])).collect::<Vec<_>>()) {
            Ok(o) => t.emit(json!({"op":"mask_runs","bits":bits.iter().map(|x| *x as u8).collect::<Vec<_>>(),"err":false,"out":o})),
            Err(p) => t.emit(json!({"op":"mask_runs","bits":bits.iter().map(|x| *x as u8).collect::<Vec<_>>(),"err":true,"out":[],"note":p})),
        }
    }
    // scan_ranges over a random page layout
    {
        let np = 1 + rng.below(6);
        let mut firsts: Vec<i64> = vec![0];
        for _ in 1..np {
            let last = *firsts.last().unwrap();
            firsts.push(last + 1 + rng.below((n / 2).max(2)) as i64);
        }
        let mut starts: Vec<i64> = vec![];
        let mut sizes: Vec<i32> = vec![];
        let mut off = 4 + rng.below(50) as i64;
        for _ in 0..np {
            let sz = 1 + rng.below(40) as i32;
            starts.push(off);
            sizes.push(sz);
            off += sz as i64 + rng.below(3) as i64;
        }
        let pages: Vec<PageLocation> = (0..np).map(|i| PageLocation { offset: starts[i], compressed_page_size: sizes[i], first_row_index: firsts[i] }).collect();
        let r = guarded(|| a.build().scan_ranges(&pages).iter().map(|r| json!([r.start, r.end])).collect::<Vec<_>>());
        let (err, out) = match r {
            Ok(o) => (false, o),
            Err(_) => (true, vec![]),
        };
        t.emit(json!({"op":"scan_ranges","a":a.json(),"firsts":firsts,"starts":starts,"sizes":sizes,"err":err,"out":out}));
    }
}

// ------------------------------------------------------------------ scans

fn scan(t: &mut Shards, f: &TestFile, cfg: &ScanCfg) {
    let r = guarded(|| -> Result<Collected, String> {
        let b = ParquetRecordBatchReaderBuilder::try_new_with_options(f.bytes.clone(), reader_options(cfg)).map_err(|e| e.to_string())?;
        let rdr = apply(b, f, cfg).build().map_err(|e| e.to_string())?;
        let mut c = Collected::new(cfg.proj.len());
        for b in rdr {
            c.add(&b.map_err(|e| e.to_string())?)?;
        }
        Ok(c)
    });
    let mut m = serde_json::Map::new();
    m.insert("op".into(), json!("scan"));
    m.insert("front".into(), json!("sync"));
    cfg_fields(f, cfg, &mut m);
    match r {
        Ok(Ok(c)) => {
            m.insert("err".into(), json!(false));
            m.insert("toks".into(), c.toks_json());
            m.insert("blens".into(), json!(c.blens));
        }
        Ok(Err(e)) | Err(e) => {
            m.insert("err".into(), json!(true));
            m.insert("toks".into(), json!([]));
            m.insert("blens".into(), json!([]));
            m.insert("note".into(), json!(e));
        }
    }
    t.emit(Value::Object(m));
}

/// configurations aimed at row-group and page boundaries of this file
fn boundary_cfgs(rng: &mut Rng, f: &TestFile) -> Vec<ScanCfg> {
    let mut out = vec![];
    let mut edges: Vec<usize> = vec![];
    let mut at = 0;
    for (g, r) in f.rg_rows.iter().enumerate() {
        if let Some(p) = f.page_firsts(g, *rng.pick(&[0usize, 2, 4])) {
            for x in p.iter().skip(1) {
                if rng.chance(30) {
                    edges.push(at + *x as usize);
                }
            }
        }
        at += r;
        edges.push(at);
    }
    edges.retain(|e| *e > 0 && *e < f.n);
    edges.dedup();
    for e in edges.into_iter().take(6) {
        let base = |rng: &mut Rng| {
            let mut c = random_cfg(rng, f);
            c.rgs = None;
            c.sel = None;
            c.preds = vec![];
            c.offset = None;
            c.limit = None;
            c
        };
        // a short run across the edge
        let lo = e - 1;
        let hi = (e + 1 + rng.below(2)).min(f.n);
        let mut c = base(rng);
        c.sel = Some(SelSpec::Runs(vec![(lo, true), (hi - lo, false), (f.n - hi, true)]));
        out.push(c.clone());
        c.sel = Some(SelSpec::Mask((0..f.n).map(|i| i >= lo && i < hi).collect()));
        out.push(c);
        // offset / limit landing on the edge
        let mut c = base(rng);
        c.offset = Some(lo);
        c.limit = Some(hi - lo);
        out.push(c);
        // a predicate true exactly around the edge, batch size 1 and 2
        let mut c = base(rng);
        c.preds = vec![PredSpec { kind: 1, p1: lo as i64, p2: hi as i64 }];
        c.bs = 1 + rng.below(2);
        out.push(c);
        // everything but the edge rows
        let mut c = base(rng);
        c.sel = Some(SelSpec::Runs(vec![(lo, false), (hi - lo, true), (f.n - hi, false)]));
        c.limit = Some(f.n - (hi - lo) - rng.below(2));
        out.push(c);
    }
    out
}

/// every configuration of a family on a tiny file (3 + 2 rows, one or two rows per page):
/// the domain MC_ParquetScan explores on the model, run against the real reader
fn tiny_exhaustive(t: &mut Shards, thorough: bool, seed: u64) {
    for (fi, page_rows) in [1usize, 2].into_iter().enumerate() {
        let layout = Layout {
            n: 5,
            rg_rows: 3,
            page_rows,
            write_batch: 1,
            s_page_bytes: None,
            offset_index: true,
            v2: fi == 1,
            dict: fi == 0,
            stats: 1,
            compression: 0,
            writes: vec![(5, false)],
        };
        let f = build_file(&layout);
        assert_eq!(f.rg_rows, vec![3, 2]);
        let offsets = [None, Some(0), Some(1), Some(3)];
        let limits = [None, Some(0), Some(1), Some(2)];
        let preds: [Vec<PredSpec>; 3] = [vec![], vec![PredSpec { kind: 0, p1: 2, p2: 0 }], vec![PredSpec { kind: 2, p1: 5, p2: 0 }, PredSpec { kind: 1, p1: 1, p2: 4 }]];
        let mut k = 0u64;
        for selbits in 0..=32u32 {
            for o in offsets {
                for l in limits {
                    for bs in [1usize, 2, 5] {
                        for policy in [0usize, 1] {
                            for (pi, pr) in preds.iter().enumerate() {
                                k += 1;
                                // the quick tier takes a twelfth of the grid, a different one per seed
                                if !thorough && (k + seed) % 12 != 0 {
                                    continue;
                                }
                                let sel = if selbits == 32 {
                                    None
                                } else {
                                    let bits: Vec<bool> = (0..5).map(|i| ((selbits >> i) & 1) == 1).collect();
                                    Some(if (k + pi as u64) % 2 == 0 { SelSpec::Mask(bits) } else { SelSpec::Runs(bits.iter().map(|b| (1usize, !*b)).collect()) })
                                };
                                let c = ScanCfg {
                                    proj: if k % 4 == 0 { vec![0, 4, 6] } else { vec![0, 2] },
                                    proj_style: 0,
                                    rgs: None,
                                    sel,
                                    preds: pr.clone(),
                                    offset: o,
                                    limit: l,
                                    bs,
                                    policy: Some(policy),
                                    page_index: k % 3 != 1,
                                    cache: None,
                                };
                                scan(t, &f, &c);
                            }
                        }
                    }
                }
            }
            t.next_episode();
        }
    }
}

fn main() {
    let args = Args::parse();
    vcore::quiet_panics();
    let mut rng = Rng::new(args.seed);
    let shards = 14;

    let mut t = Shards::create(&args.out, "rowsel", shards);
    let rounds = args.scale(260, 6000);
    for i in 0..rounds {
        let max = if i % 5 == 0 { 90 } else { 24 };
        selection_api(&mut rng, &mut t, max);
        t.next_episode();
    }
    let n1 = t.finish();

    let mut t = Shards::create(&args.out, "scan", shards);
    let files = args.scale(20, 250);
    let per_file = args.scale(26, 50);
    let max_rows = args.scale(110, 200);
    for _ in 0..files {
        let layout = random_layout(&mut rng, max_rows);
        let f = build_file(&layout);
        for c in boundary_cfgs(&mut rng, &f) {
            scan(&mut t, &f, &c);
        }
        for _ in 0..per_file {
            let c = random_cfg(&mut rng, &f);
            scan(&mut t, &f, &c);
        }
        t.next_episode();
    }
    // whole-page skips: page index + small pages x every policy x batch sizes 1..5
    let mut gap_scans = 0usize;
    for _ in 0..args.scale(6, 60) {
        let f = build_file(&gap_layout(&mut rng, args.scale(56, 120)));
        for c in gap_cfgs(&mut rng, &f) {
            if is_mask_gap(&f, &c) {
                gap_scans += 1;
            }
            scan(&mut t, &f, &c);
        }
        t.next_episode();
    }
    let n2 = t.finish();

    let mut t = Shards::create(&args.out, "tiny", shards);
    tiny_exhaustive(&mut t, args.thorough(), args.seed);
    let n3 = t.finish();
    println!("DRIVER c06 rowsel_events={n1} scan_events={n2} tiny_scan_events={n3} mask_gap_scans={gap_scans}");
}
