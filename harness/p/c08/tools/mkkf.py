#!/usr/bin/env python3
"""Maintenance tool (not part of the check): scan recorded C08 traces, list the distinct defect sites
(outcome, panic source file, constant head of the message, reader module) and draft
  * the KFTable / KFVTable records of spec/Trace_Untrusted.tla        (--tla)
  * the lines for known_findings.txt                                   (--lines)
  * the reproduction files findings/C08/<id>.bin + INDEX.txt           (--save DIR, needs the c08 binary)
usage: mkkf.py [--tla] [--lines] [--save DIR] <trace dir>[:tier:seed] ...
Trace dirs are given with the tier / seed they were recorded with (needed to rebuild the inputs)."""
import collections, glob, json, os, subprocess, sys

BIN = "/verif/harness/target/release/c08"
# curated ids: (outcome, wfile, msg) -> id   (anything else gets an automatic slug)
IDS = {
    ("panic", "arrow-buffer/src/buffer/immutable.rs", "the offset of the new Buffer cannot exceed the existing length"): "C08-ipc-buffer-beyond-body",
    ("panic", "arrow-buffer/src/buffer/boolean.rs", "buffer not large enough"): "C08-ipc-validity-bitmap-short",
    ("panic", "arrow-buffer/src/buffer/immutable.rs", "assertion failed"): "C08-ipc-buffer-not-multiple-of-width",
    ("panic", "arrow-buffer/src/buffer/scalar.rs", "Memory pointer is not aligned with the specified scalar type"): "C08-ipc-buffer-misaligned",
    ("panic", "arrow-data/src/data.rs", "called `Result"): "C08-ipc-arraydata-build-unwrap",
    ("panic", "arrow-data/src/data.rs", "integer overflow computing expected number of expected values in Fixed"): "C08-ipc-fixed-size-list-overflow",
    ("panic", "arrow-ipc/src/reader.rs", "assertion failed"): "C08-ipc-variadic-counts-assert",
    ("panic", "arrow-ipc/src/reader.rs", "called `Option"): "C08-ipc-reader-unwrap-none",
    ("panic", "arrow-ipc/src/reader.rs", "index out of bounds"): "C08-ipc-reader-index",
    ("panic", "arrow-buffer/src/util/bit_chunk_iterator.rs", "offset + len out of bounds"): "C08-pq-def-levels-out-of-bounds",
    ("panic", "arrow-buffer/src/util/bit_util.rs", "assertion `left != right` failed"): "C08-pq-def-levels-bit-util-assert",
    ("panic", "bytes-1.12.1/src/bytes.rs", "range end out of bounds"): "C08-pq-bytes-slice-out-of-bounds",
    ("panic", "bytes-1.12.1/src/bytes.rs", "range start must not be greater than end"): "C08-pq-bytes-slice-start-after-end",
    ("panic", "parquet/src/arrow/array_reader/byte_array.rs", "attempt to divide by zero"): "C08-pq-byte-array-divide-by-zero",
    ("panic", "parquet/src/arrow/array_reader/fixed_len_byte_array.rs", "attempt to divide by zero"): "C08-pq-flba-divide-by-zero",
    ("panic", "parquet/src/arrow/array_reader/fixed_len_byte_array.rs", "called `Option"): "C08-pq-flba-unwrap-none",
    ("panic", "parquet/src/arrow/array_reader/fixed_len_byte_array.rs", "range end index"): "C08-pq-flba-range-end",
    ("panic", "parquet/src/arrow/array_reader/fixed_len_byte_array.rs", "range start index"): "C08-pq-flba-range-start",
    ("panic", "parquet/src/arrow/decoder/delta_byte_array.rs", "slice index starts at"): "C08-pq-delta-byte-array-slice",
    ("panic", "parquet/src/column/page.rs", "called `Option"): "C08-pq-page-header-unwrap-none",
    ("panic", "parquet/src/column/reader/decoder.rs", "Decoder for dict should have been set"): "C08-pq-dict-decoder-missing",
    ("panic", "parquet/src/data_type.rs", "assertion failed"): "C08-pq-plain-decoder-assert",
    ("panic", "parquet/src/data_type.rs", "set_data should have been called"): "C08-pq-plain-decoder-no-data",
    ("panic", "parquet/src/encodings/decoding.rs", "range end index"): "C08-pq-decoding-range-end",
    ("panic", "parquet/src/encodings/decoding/byte_stream_split_decoder.rs", "index out of bounds"): "C08-pq-byte-stream-split-index",
    ("panic", "parquet/src/file/metadata/mod.rs", "column start and length should not be negative"): "C08-pq-negative-column-range",
    ("panic", "parquet/src/record/reader.rs", "assertion `left == right` failed"): "C08-pq-record-reader-assert",
    ("panic", "parquet/src/record/triplet.rs", "Cannot extract value, max definition level"): "C08-pq-record-triplet-panic",
    ("panic", "parquet/src/util/bit_util.rs", "range end index"): "C08-pq-bit-reader-range-end",
}
ALLOC_IDS = {"arrow_ipc::compression": "C08-ipc-decompress-alloc", "arrow_ipc::reader": "C08-ipc-length-field-alloc",
             "parquet::schema": "C08-pq-thrift-schema-alloc", "parquet::arrow": "C08-pq-arrow-value-decoder-alloc",
             "parquet::encodings": "C08-pq-dict-decoder-alloc"}
HANG_IDS = {"avro_ocf": "C08-avro-ocf-no-progress-loop"}


def slug(outcome, wfile, msg, fmod):
    crate = {"arrow_ipc": "ipc", "arrow_flight": "flight", "parquet": "pq", "arrow_avro": "avro", "arrow_csv": "csv", "arrow_json": "json",
             "parquet_variant": "variant"}.get(fmod.split("::")[0], fmod.split("::")[0] or "x")
    stem = os.path.basename(wfile).replace(".rs", "").replace("_", "-")
    words = "".join(c if c.isalnum() else " " for c in msg.lower()).split()[:4]
    return f"C08-{crate}-{stem}-{'-'.join(words)}"[:60].rstrip("-")


def main():
    args = sys.argv[1:]
    save = None
    if "--save" in args:
        i = args.index("--save"); save = args[i + 1]; del args[i:i + 2]
    tla = "--tla" in args
    lines = "--lines" in args
    dirs = [a for a in args if not a.startswith("--")]
    sites, vsites = {}, {}
    for spec in dirs:
        d, tier, seed = (spec.split(":") + ["quick", "1"])[:3]
        for p in sorted(glob.glob(os.path.join(d, "untrusted-*.ndjson"))):
            for l in open(p):
                if '"outcome":"ok"' in l or '"outcome":"err"' in l:
                    continue
                try:
                    e = json.loads(l)
                except Exception:
                    continue
                if e["ev"] == "session":
                    k = (e["outcome"], e["wfile"], e["msg"], e["fmod"])
                    s = sites.setdefault(k, dict(n=0, fmts=set(), apis=set(), fns=set(), kinds=collections.Counter(), ops=collections.Counter(), best=None))
                    s["n"] += 1; s["fmts"].add(e["fmt"]); s["apis"].add(e["api"]); s["fns"].add(e["fn"]); s["kinds"][e["kind"]] += 1
                    s["ops"][e["src"] + ":" + e["op"]] += 1
                    if s["best"] is None or e["newlen"] < s["best"][0]["newlen"]:
                        s["best"] = (e, tier, seed)
                else:
                    k = (e["ev"], e["outcome"], e["where"])
                    s = vsites.setdefault(k, dict(n=0, best=None))
                    s["n"] += 1
                    sz = len(e["meta"]) + len(e.get("value", []))
                    if s["best"] is None or sz < len(s["best"]["meta"]) + len(s["best"].get("value", [])):
                        s["best"] = e
    # group by (outcome, wfile, msg): one finding per assertion / unwrap, the reader modules it is reached from as a set
    groups = {}
    for (outcome, wfile, msg, fmod), s in sites.items():
        gk = (outcome, wfile, msg) if outcome == "panic" else (outcome, wfile, msg, fmod)
        g = groups.setdefault(gk, dict(n=0, fmts=set(), apis=set(), fns=set(), fmods=set(), kinds=collections.Counter(), ops=collections.Counter(), best=None))
        g["n"] += s["n"]; g["fmts"] |= s["fmts"]; g["apis"] |= s["apis"]; g["fns"] |= s["fns"]; g["fmods"].add(fmod)
        g["kinds"].update(s["kinds"]); g["ops"].update(s["ops"])
        if g["best"] is None or s["best"][0]["newlen"] < g["best"][0]["newlen"]:
            g["best"] = s["best"]
    out = []
    for gk, g in sorted(groups.items()):
        outcome, wfile, msg = gk[:3]
        if outcome == "alloc":
            fid = ALLOC_IDS.get(gk[3]) or slug(outcome, "alloc", msg, gk[3])
        elif outcome == "hang":
            fid = HANG_IDS.get("-".join(sorted(g["fmts"]))) or "C08-" + "-".join(sorted(g["fmts"])).replace("_", "-") + "-hang"
        else:
            fid = IDS.get((outcome, wfile, msg)) or slug(outcome, wfile, msg, sorted(g["fmods"])[0])
        out.append((fid, gk, g))
    if save:
        os.makedirs(save, exist_ok=True)
        idx = []
    for fid, gk, g in out:
        e, tier, seed = g["best"]
        if tla:
            q = lambda xs: "{" + ", ".join('"' + x + '"' for x in sorted(xs)) + "}"
            print(f'  [id |-> "{fid}", outcome |-> "{gk[0]}", fmts |-> {q(g["fmts"])}, wfile |-> "{gk[1]}",\n   msg |-> "{gk[2]}",\n   fns |-> {q(g["fns"])}],')
        elif lines:
            fns = ", ".join(sorted(x.split("::")[-1] for x in g["fns"] if x))[:160]
            what = {"panic": f'panics "{gk[2]}..." ({gk[1]})', "alloc": "requests memory unrelated to the input size (refused by the capping allocator)",
                    "hang": "does not return within 5 s of CPU", "crash": "kills the process"}[gk[0]]
            print(f'finding: property=C08 id={fid} safe readers of {"/".join(sorted(g["fmts"]))} ({", ".join(sorted(g["apis"]))}) on corrupted input: {what}, reached from '
                  f'{", ".join(sorted(g["fmods"]))} ({fns}); observed for corruptions of region kinds {dict(g["kinds"].most_common(4))} by {dict(g["ops"].most_common(4))}; '
                  f'minimal recorded input: findings/C08/{fid}.bin ({e["newlen"]} bytes; `c08 runfile {e["fmt"]} {e["api"]} findings/C08/{fid}.bin {e["file"]}`)')
        else:
            print(g["n"], fid, "|", gk, "|", ",".join(sorted(g["fmts"])), "|", ",".join(sorted(g["fmods"])), "|", ",".join(sorted(x.split("::")[-1] for x in g["fns"]))[:100])
        if save:
            evp = os.path.join(save, fid + ".event.json")
            json.dump(e, open(evp, "w"))
            subprocess.run([BIN, "save", evp, os.path.join(save, fid + ".bin"), "--tier", tier, "--seed", seed], check=True, stdout=subprocess.DEVNULL)
            os.remove(evp)
            idx.append(f"{fid} {e['fmt']} {e['api']} {fid}.bin {e['file']}")
    for k, s in sorted(vsites.items()):
        e = s["best"]
        if tla:
            print(f'  V: [ev |-> "{k[0]}", outcome |-> "{k[1]}", where |-> "{k[2]}"]   meta={e["meta"]} value={e.get("value")}')
        else:
            print(s["n"], k, e["meta"], e.get("value"))
    if save:
        open(os.path.join(save, "INDEX.txt"), "a").write("\n".join(idx) + "\n")


main()
