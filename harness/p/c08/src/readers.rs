//! One reader session: the safe reader API `api` of format `fmt` is run over `bytes` to the end (or to the
//! first error).  Only safe, validating entry points are used (no `with_skip_validation`).  The result is
//! projected to: the reader's declared schema, and for every returned record batch its own schema, the
//! physical dump of every column (`vcore::dump::to_layout`) and its row count.  Nothing is judged here.
use crate::files::Extra;
use arrow_array::{Array, RecordBatch};
use arrow_schema::{ArrowError, Schema, SchemaRef};
use bytes::Bytes;
use std::io::{BufReader, Cursor};
use std::sync::Arc;
use vcore::dump;
use vcore::{json, Value};

#[derive(Default)]
pub struct Out {
    /// "ok" | "err" (panic / hang / alloc / crash are decided by the session runner)
    pub outcome: String,
    pub phase: String,
    pub declared: Vec<Value>,
    pub has_declared: bool,
    pub batches: Vec<Value>,
    pub nb: usize,
    pub rows: usize,
    /// batches whose dump was too large for TLC: only the crate's own validation is recorded
    pub big: usize,
    pub runaway: bool,
    pub units: usize,
}

/// The dump clamps integers to +-2^30 (TLC has 32-bit integers).  Run ends of a run-end encoded array may
/// legitimately be that large, and two clamped run ends are no longer strictly increasing for the
/// specification: such a batch is not dumped (like an oversized one, it is left to the recorded
/// `validate_full` observation).
fn has_clamped_run_ends(d: &Value) -> bool {
    let kids = d["kids"].as_array();
    if d["t"]["k"] == "ree" {
        if let Some(re) = kids.and_then(|k| k.first()) {
            if re["bufs"][0]["ints"].as_array().is_some_and(|a| a.iter().any(|x| x.as_i64().is_some_and(|v| v.abs() >= dump::HUGE))) {
                return true;
            }
        }
    }
    kids.is_some_and(|k| k.iter().any(has_clamped_run_ends))
}

const MAX_DUMP_ROWS: usize = 200;
const MAX_EVENT_WEIGHT: usize = 9000;

impl Out {
    fn declare(&mut self, s: &Schema) {
        if let Value::Array(a) = dump::schema_desc(s) {
            self.declared = a;
        }
        self.has_declared = true;
    }
    fn err(&mut self, phase: &str) {
        self.outcome = "err".into();
        self.phase = phase.into();
    }
    fn batch(&mut self, b: &RecordBatch, weight: &mut usize) {
        self.nb += 1;
        self.rows += b.num_rows();
        // the crate's own full validation of what its reader returned (an observation, judged by the specification)
        let vf = b.columns().iter().all(|c| c.to_data().validate_full().is_ok()) && RecordBatch::try_new_with_options(b.schema(), b.columns().to_vec(), &arrow_array::RecordBatchOptions::new().with_row_count(Some(b.num_rows()))).is_ok();
        let mut small = b.num_rows() <= MAX_DUMP_ROWS && b.columns().iter().all(|c| c.len() <= MAX_DUMP_ROWS);
        let mut cols = vec![];
        let mut w = 0;
        if small {
            for c in b.columns() {
                let d = dump::to_layout(&c.to_data());
                w += dump::weight(&d);
                small &= !has_clamped_run_ends(&d);
                cols.push(d);
            }
        }
        let lens: Vec<usize> = b.columns().iter().map(|c| c.len().min(1 << 30)).collect();
        let types: Vec<String> = b.columns().iter().map(|c| dump::type_str(c.data_type())).collect();
        if small && *weight + w <= MAX_EVENT_WEIGHT {
            *weight += w;
            self.batches.push(json!({"big": false, "decl": self.declared, "schema": dump::schema_desc(&b.schema()), "cols": cols, "nrows": b.num_rows().min(1 << 30), "vf": vf, "lens": lens, "types": types}));
        } else {
            self.big += 1;
            let none: Vec<Value> = vec![];
            self.batches.push(json!({"big": true, "decl": self.declared, "schema": dump::schema_desc(&b.schema()), "cols": none, "nrows": b.num_rows().min(1 << 30), "vf": vf, "lens": lens, "types": types}));
        }
    }
}

fn drain<I, E>(out: &mut Out, it: I, cap: usize)
where
    I: Iterator<Item = Result<RecordBatch, E>>,
{
    let mut w = 0;
    for b in it {
        match b {
            Ok(b) => out.batch(&b, &mut w),
            Err(_) => return out.err("read"),
        }
        if out.nb > cap {
            out.runaway = true;
            return;
        }
    }
    out.outcome = "ok".into();
}

type ArrowIter = Box<dyn Iterator<Item = Result<RecordBatch, ArrowError>>>;

pub fn run(fmt: &str, api: &str, data: &[u8], extra: &Extra) -> Out {
    let mut out = Out::default();
    let cap = 64 + data.len();
    let bytes = data.to_vec();
    match (fmt, api) {
        ("ipc_file", "FileReader") => match arrow_ipc::reader::FileReader::try_new(Cursor::new(bytes), None) {
            Err(_) => out.err("open"),
            Ok(r) => {
                out.declare(&r.schema());
                drain(&mut out, r, cap);
            }
        },
        ("ipc_file", "FileDecoder") => ipc_file_decoder(&mut out, bytes),
        ("ipc_stream", "StreamReader") => match arrow_ipc::reader::StreamReader::try_new(Cursor::new(bytes), None) {
            Err(_) => out.err("open"),
            Ok(r) => {
                out.declare(&r.schema());
                drain(&mut out, r, cap);
            }
        },
        ("ipc_stream", "StreamDecoder") => {
            let mut dec = arrow_ipc::reader::StreamDecoder::new();
            let mut buf = arrow_buffer::Buffer::from_vec(bytes);
            let mut w = 0;
            let mut calls = 0;
            loop {
                calls += 1;
                if calls > cap * 4 {
                    out.runaway = true;
                    break;
                }
                if buf.is_empty() {
                    match dec.finish() {
                        Ok(()) => out.outcome = "ok".into(),
                        Err(_) => out.err("finish"),
                    }
                    break;
                }
                match dec.decode(&mut buf) {
                    Ok(Some(b)) => {
                        if let Some(s) = dec.schema() {
                            out.declare(&s);
                        }
                        out.batch(&b, &mut w)
                    }
                    Ok(None) => {}
                    Err(_) => {
                        out.err("decode");
                        break;
                    }
                }
            }
            if let Some(s) = dec.schema() {
                out.declare(&s);
            }
        }
        ("flight", _) => flight(&mut out, api, &bytes, cap),
        ("parquet", _) => parquet(&mut out, api, bytes, cap),
        ("avro_ocf", _) => match arrow_avro::reader::ReaderBuilder::new().with_batch_size(4).build(BufReader::new(Cursor::new(bytes))) {
            Err(_) => out.err("open"),
            Ok(r) => {
                out.declare(&r.schema());
                let it: ArrowIter = Box::new(r);
                drain(&mut out, it, cap);
            }
        },
        ("avro_soe", _) => avro_soe(&mut out, &bytes, extra, cap),
        ("csv", "Reader") => {
            let Extra::Schema(s) = extra else { return out };
            match arrow_csv::ReaderBuilder::new(s.clone()).with_header(true).with_batch_size(4).build(Cursor::new(bytes)) {
                Err(_) => out.err("open"),
                Ok(r) => {
                    out.declare(s);
                    drain(&mut out, r, cap);
                }
            }
        }
        ("csv", "infer") => {
            let fmt = arrow_csv::reader::Format::default().with_header(true);
            match fmt.infer_schema(Cursor::new(&bytes), None) {
                Err(_) => out.err("infer"),
                Ok((s, _)) => {
                    let s: SchemaRef = Arc::new(s);
                    match arrow_csv::ReaderBuilder::new(s.clone()).with_format(fmt).with_batch_size(4).build(Cursor::new(bytes)) {
                        Err(_) => out.err("open"),
                        Ok(r) => {
                            out.declare(&s);
                            drain(&mut out, r, cap);
                        }
                    }
                }
            }
        }
        ("json", "Reader") => {
            let Extra::Schema(s) = extra else { return out };
            match arrow_json::ReaderBuilder::new(s.clone()).with_batch_size(4).build(BufReader::new(Cursor::new(bytes))) {
                Err(_) => out.err("open"),
                Ok(r) => {
                    out.declare(s);
                    drain(&mut out, r, cap);
                }
            }
        }
        ("json", "infer") => match arrow_json::reader::infer_json_schema(BufReader::new(Cursor::new(&bytes)), None) {
            Err(_) => out.err("infer"),
            Ok((s, _)) => {
                let s: SchemaRef = Arc::new(s);
                match arrow_json::ReaderBuilder::new(s.clone()).with_batch_size(4).build(BufReader::new(Cursor::new(bytes))) {
                    Err(_) => out.err("open"),
                    Ok(r) => {
                        out.declare(&s);
                        drain(&mut out, r, cap);
                    }
                }
            }
        },
        _ => out.err("unknown-api"),
    }
    out
}

/// the documented low-level way to read an IPC file (arrow-ipc reader.rs, `FileDecoder`): the caller
/// locates the footer and the blocks; every slice the caller takes is bounds-checked here (a careful caller)
fn ipc_file_decoder(out: &mut Out, bytes: Vec<u8>) {
    use arrow_ipc::reader::{read_footer_length, FileDecoder};
    let buffer = arrow_buffer::Buffer::from_vec(bytes);
    let n = buffer.len();
    if n < 10 {
        return out.err("caller-bounds");
    }
    let trailer: [u8; 10] = buffer[n - 10..].try_into().unwrap();
    let Ok(flen) = read_footer_length(trailer) else { return out.err("footer-length") };
    if flen > n - 10 {
        return out.err("caller-bounds");
    }
    let Ok(footer) = arrow_ipc::root_as_footer(&buffer[n - 10 - flen..n - 10]) else { return out.err("footer") };
    let Some(fs) = footer.schema() else { return out.err("footer-schema") };
    let Ok(schema) = arrow_ipc::convert::try_fb_to_schema(fs) else { return out.err("schema") };
    let schema = Arc::new(schema);
    out.declare(&schema);
    let mut dec = FileDecoder::new(schema, footer.version());
    let slice = |off: i64, meta: i32, body: i64| -> Option<arrow_buffer::Buffer> {
        let off = usize::try_from(off).ok()?;
        let len = usize::try_from(meta).ok()?.checked_add(usize::try_from(body).ok()?)?;
        (off.checked_add(len)? <= n).then(|| buffer.slice_with_length(off, len))
    };
    for block in footer.dictionaries().iter().flatten() {
        let Some(data) = slice(block.offset(), block.metaDataLength(), block.bodyLength()) else { return out.err("caller-bounds") };
        if dec.read_dictionary(block, &data).is_err() {
            return out.err("dictionary");
        }
    }
    let mut w = 0;
    for block in footer.recordBatches().iter().flatten() {
        let Some(data) = slice(block.offset(), block.metaDataLength(), block.bodyLength()) else { return out.err("caller-bounds") };
        match dec.read_record_batch(block, &data) {
            Ok(Some(b)) => out.batch(&b, &mut w),
            Ok(None) => {}
            Err(_) => return out.err("read"),
        }
        if out.nb > 64 + n {
            out.runaway = true;
            return;
        }
    }
    out.outcome = "ok".into();
}

fn flight(out: &mut Out, api: &str, bytes: &[u8], cap: usize) {
    use arrow_flight::decode::FlightRecordBatchStream;
    use arrow_flight::FlightData;
    use futures::StreamExt;
    use prost::Message;
    let mut msgs = vec![];
    let mut rest: &[u8] = bytes;
    while !rest.is_empty() {
        match FlightData::decode_length_delimited(&mut rest) {
            Ok(m) => msgs.push(m),
            Err(_) => return out.err("protobuf"),
        }
        if msgs.len() > cap {
            out.runaway = true;
            return;
        }
    }
    if api == "flight_utils" {
        match arrow_flight::utils::flight_data_to_batches(&msgs) {
            Err(_) => out.err("decode"),
            Ok(bs) => {
                let mut w = 0;
                if let Some(b) = bs.first() {
                    out.declare(&b.schema());
                }
                for b in &bs {
                    out.batch(b, &mut w);
                }
                out.outcome = "ok".into();
            }
        }
        return;
    }
    let mut st = FlightRecordBatchStream::new_from_flight_data(futures::stream::iter(msgs.into_iter().map(Ok)));
    let mut w = 0;
    loop {
        match futures::executor::block_on(st.next()) {
            None => {
                out.outcome = "ok".into();
                break;
            }
            Some(Ok(b)) => {
                if let Some(s) = st.schema() {
                    out.declare(s);
                }
                out.batch(&b, &mut w)
            }
            Some(Err(_)) => {
                out.err("decode");
                break;
            }
        }
        if out.nb > cap {
            out.runaway = true;
            break;
        }
    }
    if let Some(s) = st.schema() {
        out.declare(s);
    }
}

fn parquet(out: &mut Out, api: &str, bytes: Vec<u8>, cap: usize) {
    use parquet::arrow::arrow_reader::{ArrowReaderOptions, ParquetRecordBatchReaderBuilder};
    use parquet::file::metadata::{PageIndexPolicy, ParquetMetaDataReader};
    use parquet::file::reader::FileReader as _;
    use parquet::file::serialized_reader::SerializedFileReader;
    let data = Bytes::from(bytes);
    match api {
        "arrow_reader" | "arrow_index" => {
            let opts = if api == "arrow_index" { ArrowReaderOptions::new().with_page_index_policy(PageIndexPolicy::Optional) } else { ArrowReaderOptions::new() };
            match ParquetRecordBatchReaderBuilder::try_new_with_options(data, opts) {
                Err(_) => out.err("open"),
                Ok(b) => {
                    let schema = b.schema().clone();
                    match b.with_batch_size(4).build() {
                        Err(_) => out.err("build"),
                        Ok(r) => {
                            out.declare(&schema);
                            drain(out, r, cap);
                        }
                    }
                }
            }
        }
        "metadata" => match ParquetMetaDataReader::new().with_page_index_policy(PageIndexPolicy::Optional).parse_and_finish(&data) {
            Err(_) => out.err("parse"),
            Ok(md) => {
                // walk what a consumer reads from the metadata
                for rg in md.row_groups() {
                    out.units += rg.num_rows().clamp(0, 1000) as usize;
                    for c in rg.columns() {
                        let _ = c.statistics().map(|s| (s.min_bytes_opt().map(|b| b.len()), s.max_bytes_opt().map(|b| b.len()), s.null_count_opt()));
                        // (byte_range() is documented to panic on negative offsets: not a safe accessor)
                        let _ = (c.compression(), c.num_values(), c.data_page_offset(), c.compressed_size());
                        out.units += 1;
                    }
                }
                let _ = md.file_metadata().schema_descr().num_columns();
                out.outcome = "ok".into();
            }
        },
        "pages" => match SerializedFileReader::new(data) {
            Err(_) => out.err("open"),
            Ok(rd) => {
                for g in 0..rd.metadata().num_row_groups() {
                    let Ok(rg) = rd.get_row_group(g) else { return out.err("row-group") };
                    for c in 0..rg.num_columns() {
                        let Ok(mut pr) = rg.get_column_page_reader(c) else { return out.err("page-reader") };
                        loop {
                            match pr.get_next_page() {
                                Ok(Some(p)) => {
                                    out.units += 1;
                                    let _ = (p.num_values(), p.buffer().len(), p.encoding());
                                }
                                Ok(None) => break,
                                Err(_) => return out.err("page"),
                            }
                            if out.units > cap {
                                out.runaway = true;
                                return;
                            }
                        }
                    }
                }
                out.outcome = "ok".into();
            }
        },
        "rows" => match SerializedFileReader::new(data) {
            Err(_) => out.err("open"),
            Ok(rd) => match rd.get_row_iter(None) {
                Err(_) => out.err("row-iter"),
                Ok(it) => {
                    for r in it {
                        match r {
                            Ok(row) => {
                                out.units += 1;
                                let _ = row.to_string().len();
                            }
                            Err(_) => return out.err("row"),
                        }
                        if out.units > cap * 64 {
                            out.runaway = true;
                            return;
                        }
                    }
                    out.outcome = "ok".into();
                }
            },
        },
        _ => out.err("unknown-api"),
    }
}

fn avro_soe(out: &mut Out, bytes: &[u8], extra: &Extra, cap: usize) {
    let Extra::Soe(store) = extra else { return };
    let mut dec = match arrow_avro::reader::ReaderBuilder::new().with_writer_schema_store(store.clone()).with_batch_size(4).build_decoder() {
        Ok(d) => d,
        Err(_) => return out.err("open"),
    };
    out.declare(&dec.schema());
    let mut w = 0;
    let mut pending: &[u8] = bytes;
    let mut calls = 0;
    loop {
        calls += 1;
        if calls > cap * 4 {
            out.runaway = true;
            return;
        }
        if pending.is_empty() {
            break;
        }
        let n = match dec.decode(pending) {
            Ok(n) => n,
            Err(_) => return out.err("decode"),
        };
        pending = &pending[n..];
        if dec.batch_is_full() {
            match dec.flush() {
                Ok(Some(b)) => out.batch(&b, &mut w),
                Ok(None) => {}
                Err(_) => return out.err("flush"),
            }
            continue;
        }
        if n == 0 {
            break;
        }
    }
    loop {
        match dec.flush() {
            Ok(Some(b)) => out.batch(&b, &mut w),
            Ok(None) => break,
            Err(_) => return out.err("flush"),
        }
        if out.nb > cap {
            out.runaway = true;
            return;
        }
    }
    if pending.is_empty() {
        out.outcome = "ok".into();
    } else {
        // the input ended inside a prefix or a record body: the caller reports truncation
        out.err("truncated");
    }
}
