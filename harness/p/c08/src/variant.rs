//! Variant binary format: `Variant::try_new` (fully validating) + traversal through the infallible
//! accessors a validated instance promises to be panic-free, projected to the canonical token of
//! spec/VariantFormat.tla (`Decode`).  `VariantMetadata::try_new` + iteration likewise.
use chrono::{Datelike, Timelike};
use parquet_variant::{Variant, VariantBuilder, VariantMetadata};
use std::collections::HashMap;
use vcore::{json, Value};

fn bt(b: &[u8]) -> String {
    b.iter().map(|x| x.to_string()).collect::<Vec<_>>().join(".")
}

pub fn token(v: &Variant) -> String {
    match v {
        Variant::Null => "null".into(),
        Variant::BooleanTrue => "true".into(),
        Variant::BooleanFalse => "false".into(),
        Variant::Int8(x) => format!("i8:{x}"),
        Variant::Int16(x) => format!("i16:{x}"),
        Variant::Int32(x) => format!("i32:{x}"),
        Variant::Int64(x) => format!("i64:{}", bt(&x.to_le_bytes())),
        Variant::Double(x) => format!("f64:{}", bt(&x.to_le_bytes())),
        Variant::Float(x) => format!("f32:{}", bt(&x.to_le_bytes())),
        Variant::Decimal4(d) => format!("d4:{}/{}", d.scale(), d.integer()),
        Variant::Decimal8(d) => {
            let mut b = vec![d.scale()];
            b.extend_from_slice(&d.integer().to_le_bytes());
            format!("d8:{}", bt(&b))
        }
        Variant::Decimal16(d) => {
            let mut b = vec![d.scale()];
            b.extend_from_slice(&d.integer().to_le_bytes());
            format!("d16:{}", bt(&b))
        }
        Variant::Date(d) => format!("date:{}", d.num_days_from_ce() - 719_163),
        Variant::TimestampMicros(t) => format!("tsu:{}", bt(&t.timestamp_micros().to_le_bytes())),
        Variant::TimestampNtzMicros(t) => format!("tsnu:{}", bt(&t.and_utc().timestamp_micros().to_le_bytes())),
        Variant::TimestampNanos(t) => format!("tsn:{}", bt(&t.timestamp_nanos_opt().unwrap_or(0).to_le_bytes())),
        Variant::TimestampNtzNanos(t) => format!("tsnn:{}", bt(&t.and_utc().timestamp_nanos_opt().unwrap_or(0).to_le_bytes())),
        Variant::Time(t) => {
            let us = t.num_seconds_from_midnight() as u64 * 1_000_000 + (t.nanosecond() / 1000) as u64;
            format!("time:{}", bt(&us.to_le_bytes()))
        }
        Variant::Uuid(u) => format!("uuid:{}", bt(u.as_bytes())),
        Variant::Binary(b) => format!("bin:{}", bt(b)),
        Variant::String(s) => format!("s:{}", bt(s.as_bytes())),
        Variant::ShortString(s) => format!("ss:{}", bt(s.as_str().as_bytes())),
        Variant::List(l) => {
            // infallible iteration and indexing of a validated instance
            let a: Vec<String> = l.iter().map(|x| token(&x)).collect();
            for i in 0..l.len() {
                let _ = l.get(i);
            }
            format!("[{}]", a.join(","))
        }
        Variant::Object(o) => {
            let a: Vec<String> = o.iter().map(|(k, x)| format!("{}={}", bt(k.as_bytes()), token(&x))).collect();
            for i in 0..o.len() {
                if let Some(n) = o.field_name(i) {
                    let _ = o.get(n);
                }
                let _ = o.field(i);
            }
            format!("{{{}}}", a.join(","))
        }
    }
}

pub struct VOut {
    pub outcome: &'static str,
    pub tok: String,
}

/// `Variant::try_new` + full traversal (the caller wraps this in `guarded`)
pub fn run_value(meta: &[u8], value: &[u8]) -> VOut {
    match Variant::try_new(meta, value) {
        Err(_) => VOut { outcome: "err", tok: String::new() },
        Ok(v) => {
            let t = token(&v);
            // the dictionary of an accepted variant is iterable as well
            let _ = v.metadata().iter().count();
            VOut { outcome: "ok", tok: t }
        }
    }
}

pub struct MOut {
    pub outcome: &'static str,
    pub names: Vec<String>,
}

pub fn run_meta(meta: &[u8]) -> MOut {
    match VariantMetadata::try_new(meta) {
        Err(_) => MOut { outcome: "err", names: vec![] },
        Ok(m) => {
            let names: Vec<String> = m.iter().map(|s| bt(s.as_bytes())).collect();
            for i in 0..m.len() {
                let _ = m.get(i);
                let _ = &m[i];
            }
            for n in m.iter() {
                let _ = m.get_entry(n);
            }
            MOut { outcome: "ok", names }
        }
    }
}

fn ints(b: &[u8]) -> Vec<u64> {
    b.iter().map(|x| *x as u64).collect()
}

/// `wher` = "<panic file>|<message head>@<innermost parquet_variant function>" (empty unless the outcome is a panic)
fn site(wher: &str) -> (String, String, String, String) {
    let (wfile, rest) = wher.split_once('|').unwrap_or(("", wher));
    let (msg, func) = rest.split_once('@').unwrap_or((rest, ""));
    (wfile.to_string(), msg.to_string(), crate::alloc::fn_module(func), func.to_string())
}

pub fn value_event(src: &str, meta: &[u8], value: &[u8], outcome: &str, wher: &str, tok: &str) -> Value {
    let (wfile, msg, fmod, func) = site(wher);
    json!({"ev": "variant", "fmt": "variant", "api": "Variant::try_new", "src": src, "meta": ints(meta), "value": ints(value), "outcome": outcome,
           "where": wher, "wfile": wfile, "msg": msg, "fmod": fmod, "fn": func, "tok": tok})
}

pub fn meta_event(src: &str, meta: &[u8], outcome: &str, wher: &str, names: &[String]) -> Value {
    let (wfile, msg, fmod, func) = site(wher);
    json!({"ev": "vmeta", "fmt": "variant", "api": "VariantMetadata::try_new", "src": src, "meta": ints(meta), "outcome": outcome,
           "where": wher, "wfile": wfile, "msg": msg, "fmod": fmod, "fn": func, "names": names})
}

/// valid sample variants (metadata, value) written by the crate's own builder
pub fn samples() -> Vec<(String, Vec<u8>, Vec<u8>)> {
    let mut out = vec![];
    let mut add = |name: &str, f: &dyn Fn(&mut VariantBuilder)| {
        let mut b = VariantBuilder::new();
        f(&mut b);
        let (m, v) = b.finish();
        out.push((name.to_string(), m, v));
    };
    add("object", &|b| {
        let mut o = b.new_object();
        o.insert("a", 1i8);
        o.insert("bb", "hi");
        o.insert("c", Variant::Null);
        {
            let mut l = o.new_list("l");
            l.append_value(1i16);
            l.append_value("x\u{e9}");
            l.append_value(false);
            l.finish();
        }
        {
            let mut n = o.new_object("n");
            n.insert("a", 300i32);
            n.finish();
        }
        o.finish();
    });
    add("list", &|b| {
        let mut l = b.new_list();
        l.append_value(7i64);
        l.append_value(2.5f64);
        l.append_value(1.5f32);
        l.append_value("a string that is longer than sixty-three bytes, so that it is not a short string at all");
        l.append_value(&b"\x00\x01\x02"[..]);
        l.append_value(true);
        l.finish();
    });
    add("temporal", &|b| {
        let mut l = b.new_list();
        l.append_value(chrono::NaiveDate::from_ymd_opt(2024, 2, 29).unwrap());
        l.append_value(chrono::DateTime::from_timestamp_micros(1_700_000_000_123_456).unwrap());
        l.append_value(chrono::DateTime::from_timestamp_micros(-5).unwrap().naive_utc());
        l.append_value(chrono::NaiveTime::from_hms_micro_opt(23, 59, 59, 999_999).unwrap());
        l.append_value(chrono::DateTime::from_timestamp_nanos(1_700_000_000_123_456_789));
        l.finish();
    });
    add("decimals", &|b| {
        let mut l = b.new_list();
        l.append_value(parquet_variant::VariantDecimal4::try_new(-12345, 2).unwrap());
        l.append_value(parquet_variant::VariantDecimal8::try_new(999_999_999_999_999_999, 18).unwrap());
        l.append_value(parquet_variant::VariantDecimal16::try_new(-(10i128.pow(38) - 1), 0).unwrap());
        l.finish();
    });
    add("int32", &|b| b.append_value(-70000i32));
    add("date", &|b| b.append_value(chrono::NaiveDate::from_ymd_opt(1969, 12, 31).unwrap()));
    add("uuid", &|b| {
        let mut l = b.new_list();
        l.append_value(Variant::Uuid(Default::default()));
        l.finish();
    });
    // hand-written encodings the builder does not produce: 2-byte offsets, large containers, unsorted dictionary
    out.push(("wide-array".into(), vec![1, 0, 0], vec![0x07, 2, 0, 0, 1, 0, 2, 0, 0x00, 0x04]));
    out.push(("large-array".into(), vec![1, 0, 0], vec![0x13, 1, 0, 0, 0, 0, 2, 0x0C, 5]));
    out.push(("unsorted-dict".into(), vec![1, 2, 0, 1, 2, b'b', b'a'], vec![0x02, 2, 1, 0, 0, 1, 3, 0x00, 0x0C, 9]));
    out.push(("sorted-dict".into(), vec![0x11, 2, 0, 1, 2, b'a', b'b'], vec![0x02, 2, 0, 1, 2, 0, 3, 0x0C, 9, 0x00]));
    out.push(("large-object".into(), vec![1, 1, 0, 1, b'k'], vec![0x42, 1, 0, 0, 0, 0, 0, 1, 0x04]));
    out.push(("dict-2byte".into(), vec![0x41, 1, 0, 0, 0, 2, 0, 0xC3, 0xA9], vec![0x02, 1, 0, 0, 1, 0x00]));
    out
}

/// the universes TLC enumerated (CASE lines of MC_Variant), replayed exhaustively against the real code.
/// Returns (events for TLC, number of strings enumerated, accepted strings explained by a TLC case, stricter-than-spec count)
pub struct Replay {
    pub events: Vec<Value>,
    pub enumerated: usize,
    pub explained: usize,
    pub accepted: usize,
    pub stricter: usize,
    pub panics: usize,
}

fn bytes_of(v: &Value) -> Vec<u8> {
    v.as_array().map(|a| a.iter().map(|x| x.as_u64().unwrap_or(0) as u8).collect()).unwrap_or_default()
}

fn for_all_strings(pre: &[u8], alpha: &[u8], maxlen: usize, f: &mut dyn FnMut(&[u8])) {
    let mut cur: Vec<u8> = pre.to_vec();
    fn rec(alpha: &[u8], maxlen: usize, cur: &mut Vec<u8>, f: &mut dyn FnMut(&[u8])) {
        f(cur);
        if cur.len() >= maxlen {
            return;
        }
        for a in alpha {
            cur.push(*a);
            rec(alpha, maxlen, cur, f);
            cur.pop();
        }
    }
    rec(alpha, maxlen, &mut cur, f);
}

pub fn replay(cases: &[Value], run_guarded: &dyn Fn(&dyn Fn() -> (String, String)) -> (String, String, String)) -> Replay {
    // tight valid encodings per metadata: value bytes -> token
    let mut tight: HashMap<(Vec<u8>, Vec<u8>), String> = HashMap::new();
    let mut tight_meta: HashMap<Vec<u8>, Vec<String>> = HashMap::new();
    for c in cases {
        match c["k"].as_str() {
            Some("v") => {
                tight.insert((bytes_of(&c["m"]), bytes_of(&c["v"])), c["tok"].as_str().unwrap_or("").to_string());
            }
            Some("m") => {
                let names = c["names"].as_array().map(|a| a.iter().map(|x| x.as_str().unwrap_or("").to_string()).collect()).unwrap_or_default();
                tight_meta.insert(bytes_of(&c["m"]), names);
            }
            _ => {}
        }
    }
    let mut r = Replay { events: vec![], enumerated: 0, explained: 0, accepted: 0, stricter: 0, panics: 0 };
    for c in cases {
        let alpha = bytes_of(&c["alpha"]);
        let pre = bytes_of(&c["pre"]);
        let maxlen = c["maxlen"].as_u64().unwrap_or(0) as usize;
        match c["k"].as_str() {
            Some("uv") => {
                let m = bytes_of(&c["m"]);
                for_all_strings(&pre, &alpha, maxlen, &mut |v: &[u8]| {
                    r.enumerated += 1;
                    let (outcome, wher, tok) = run_guarded(&|| {
                        let o = run_value(&m, v);
                        (o.outcome.to_string(), o.tok)
                    });
                    // the TLC verdict: valid iff a prefix is a tight valid encoding (laws SelfDelimiting / ExtensionStable)
                    let want = (1..=v.len()).find_map(|k| tight.get(&(m.clone(), v[..k].to_vec())));
                    match (outcome.as_str(), want) {
                        ("err", None) => {}
                        ("err", Some(_)) => r.stricter += 1,
                        ("ok", Some(t)) if *t == tok && !tight.contains_key(&(m.clone(), v.to_vec())) => {
                            r.accepted += 1;
                            r.explained += 1;
                        }
                        _ => {
                            if outcome == "ok" {
                                r.accepted += 1;
                            } else {
                                r.panics += 1;
                            }
                            r.events.push(value_event("gen", &m, v, &outcome, &wher, &tok));
                        }
                    }
                });
            }
            Some("um") => {
                for_all_strings(&pre, &alpha, maxlen, &mut |m: &[u8]| {
                    r.enumerated += 1;
                    let (outcome, wher, names) = run_guarded(&|| {
                        let o = run_meta(m);
                        (o.outcome.to_string(), o.names.iter().map(|n| format!("{n};")).collect::<String>())
                    });
                    let want = (1..=m.len()).find_map(|k| tight_meta.get(&m[..k].to_vec()));
                    match (outcome.as_str(), want) {
                        ("err", None) => {}
                        ("err", Some(_)) => r.stricter += 1,
                        ("ok", Some(t)) if t.iter().map(|n| format!("{n};")).collect::<String>() == names && !tight_meta.contains_key(m) => {
                            r.accepted += 1;
                            r.explained += 1;
                        }
                        _ => {
                            if outcome == "ok" {
                                r.accepted += 1;
                            } else {
                                r.panics += 1;
                            }
                            let mut names: Vec<String> = names.split(';').map(|s| s.to_string()).collect();
                            names.pop();
                            r.events.push(meta_event("gen", m, &outcome, &wher, &names));
                        }
                    }
                });
            }
            _ => {}
        }
    }
    r
}
