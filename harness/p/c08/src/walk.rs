//! Schema-less walkers that locate the *length-like fields* of the containers (field maps for the
//! structural corruption plans).  They only tokenise valid files written by arrow-rs itself; nothing here
//! judges anything.
//!
//! * thrift compact protocol (Parquet footer, page headers, page indexes): zig-zag varints (i16/i32/i64),
//!   unsigned varints (binary lengths, long list sizes, map sizes)
//! * Avro zig-zag longs, protobuf varints (Flight)

#[derive(Clone, Copy, Debug, PartialEq)]
pub enum TokKind {
    Zigzag,
    Uvarint,
}

#[derive(Clone, Copy, Debug)]
pub struct Tok {
    pub kind: TokKind,
    pub lo: usize,
    pub hi: usize,
}

/// unsigned LEB128 at `p`: (value, end)
pub fn uvarint(b: &[u8], p: usize) -> Option<(u64, usize)> {
    let mut v: u64 = 0;
    let mut sh = 0;
    let mut q = p;
    loop {
        let x = *b.get(q)?;
        q += 1;
        if sh < 64 {
            v |= ((x & 0x7f) as u64) << sh;
        }
        sh += 7;
        if x & 0x80 == 0 {
            return Some((v, q));
        }
        if q - p > 10 {
            return None;
        }
    }
}

pub fn unzigzag(v: u64) -> i64 {
    ((v >> 1) as i64) ^ -((v & 1) as i64)
}

pub fn zigzag(v: i64) -> u64 {
    ((v << 1) ^ (v >> 63)) as u64
}

pub fn put_uvarint(mut v: u64, out: &mut Vec<u8>) {
    loop {
        let b = (v & 0x7f) as u8;
        v >>= 7;
        if v == 0 {
            out.push(b);
            return;
        }
        out.push(b | 0x80);
    }
}

struct Thrift<'a> {
    b: &'a [u8],
    toks: Vec<Tok>,
}

impl Thrift<'_> {
    fn var(&mut self, p: usize, kind: TokKind) -> Option<(u64, usize)> {
        let (v, q) = uvarint(self.b, p)?;
        self.toks.push(Tok { kind, lo: p, hi: q });
        Some((v, q))
    }
    fn value(&mut self, ty: u8, p: usize, depth: usize) -> Option<usize> {
        if depth > 32 {
            return None;
        }
        match ty {
            1 | 2 => Some(p),
            3 => Some(p + 1),
            4 | 5 | 6 => self.var(p, TokKind::Zigzag).map(|x| x.1),
            7 => Some(p + 8),
            8 => {
                let (n, q) = self.var(p, TokKind::Uvarint)?;
                let e = q.checked_add(n as usize)?;
                (e <= self.b.len()).then_some(e)
            }
            9 | 10 => {
                let h = *self.b.get(p)?;
                let et = h & 0x0f;
                let mut n = (h >> 4) as u64;
                let mut q = p + 1;
                if n == 15 {
                    let (m, q2) = self.var(q, TokKind::Uvarint)?;
                    n = m;
                    q = q2;
                }
                for _ in 0..n {
                    q = if et == 1 || et == 2 { q + 1 } else { self.value(et, q, depth + 1)? };
                }
                Some(q)
            }
            11 => {
                let (n, mut q) = self.var(p, TokKind::Uvarint)?;
                if n > 0 {
                    let kv = *self.b.get(q)?;
                    q += 1;
                    for _ in 0..n {
                        q = self.value(kv >> 4, q, depth + 1)?;
                        q = self.value(kv & 0x0f, q, depth + 1)?;
                    }
                }
                Some(q)
            }
            12 => self.strukt(p, depth + 1),
            _ => None,
        }
    }
    fn strukt(&mut self, mut p: usize, depth: usize) -> Option<usize> {
        loop {
            let h = *self.b.get(p)?;
            p += 1;
            if h == 0 {
                return Some(p);
            }
            let ty = h & 0x0f;
            if h >> 4 == 0 {
                // explicit field id (zig-zag i16); not a length-like field: do not record
                let (_, q) = uvarint(self.b, p)?;
                p = q;
            }
            p = self.value(ty, p, depth)?;
            if p > self.b.len() {
                return None;
            }
        }
    }
}

/// walk one thrift compact struct starting at `p`: (end, varint tokens)
pub fn thrift_struct(b: &[u8], p: usize) -> Option<(usize, Vec<Tok>)> {
    let mut t = Thrift { b, toks: vec![] };
    let e = t.strukt(p, 0)?;
    Some((e, t.toks))
}

/// the i32 value of top-level field `id` of the thrift struct at `p` (page header sizes)
pub fn thrift_top_i32(b: &[u8], p: usize, want: i16) -> Option<i64> {
    let mut t = Thrift { b, toks: vec![] };
    let mut q = p;
    let mut last: i16 = 0;
    loop {
        let h = *b.get(q)?;
        q += 1;
        if h == 0 {
            return None;
        }
        let ty = h & 0x0f;
        let id = if h >> 4 == 0 {
            let (v, q2) = uvarint(b, q)?;
            q = q2;
            unzigzag(v) as i16
        } else {
            last + (h >> 4) as i16
        };
        last = id;
        if id == want && (4..=6).contains(&ty) {
            return Some(unzigzag(uvarint(b, q)?.0));
        }
        q = t.value(ty, q, 0)?;
    }
}

/// protobuf message: list of (field number, wire type, tag position, payload lo, payload hi, length-varint lo..hi)
pub struct PbField {
    pub num: u64,
    pub lo: usize,
    pub len_lo: usize,
    pub len_hi: usize,
    pub pay_lo: usize,
    pub pay_hi: usize,
}

pub fn protobuf_fields(b: &[u8], lo: usize, hi: usize) -> Option<Vec<PbField>> {
    let mut out = vec![];
    let mut p = lo;
    while p < hi {
        let (tag, q) = uvarint(b, p)?;
        let (num, wt) = (tag >> 3, tag & 7);
        match wt {
            0 => {
                let (_, e) = uvarint(b, q)?;
                out.push(PbField { num, lo: p, len_lo: q, len_hi: q, pay_lo: q, pay_hi: e });
                p = e;
            }
            2 => {
                let (n, e) = uvarint(b, q)?;
                let end = e.checked_add(n as usize)?;
                if end > hi {
                    return None;
                }
                out.push(PbField { num, lo: p, len_lo: q, len_hi: e, pay_lo: e, pay_hi: end });
                p = end;
            }
            1 => {
                out.push(PbField { num, lo: p, len_lo: q, len_hi: q, pay_lo: q, pay_hi: q + 8 });
                p = q + 8;
            }
            5 => {
                out.push(PbField { num, lo: p, len_lo: q, len_hi: q, pay_lo: q, pay_hi: q + 4 });
                p = q + 4;
            }
            _ => return None,
        }
    }
    (p == hi).then_some(out)
}
