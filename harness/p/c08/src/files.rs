//! Valid base files of every format (written by arrow-rs itself) and their *region maps*: a partition of
//! the file into regions of kinds
//!   magic   fixed markers (magic numbers, continuation markers, end-of-stream, sync markers)
//!   len4 / len8   fixed-width little-endian length / offset / count fields
//!   zigzag / uvarint   variable-width length-like integers (thrift, Avro, protobuf)
//!   meta    other structured metadata (flatbuffer tables, thrift field headers, strings, schemas)
//!   body    payload (IPC buffers, Parquet page data, Avro block data)
//!   enc     one of the first bytes of an uncompressed Parquet page body: the headers / length blocks of the
//!           value encodings (DELTA_* block headers and first values, RLE / PLAIN length prefixes, the
//!           dictionary bit width, level lengths)
//!   line    one line of a text format
//! `grp` numbers the enclosing frame (message, page, block, line); `encl` points to the region holding the
//! length of the enclosing container when the plan may keep it consistent (Parquet footer length).
use crate::walk::{self, TokKind};
use arrow_array::*;
use arrow_schema::{DataType, Field, Fields, Schema, SchemaRef};
use std::sync::Arc;
use vcore::mk::{self, Cfg};
use vcore::Rng;

#[derive(Clone, Debug)]
pub struct Region {
    pub kind: &'static str,
    pub lo: usize,
    pub hi: usize,
    pub grp: usize,
    pub encl: usize, // 0 = none, else 1-based region index
}

#[derive(Clone)]
pub enum Extra {
    None,
    Schema(SchemaRef),
    Soe(arrow_avro::schema::SchemaStore),
}

#[derive(Clone)]
pub struct BaseFile {
    pub fmt: &'static str,
    pub name: String,
    pub bytes: Vec<u8>,
    pub regions: Vec<Region>,
    pub extra: Extra,
    /// used by the TLC-generated structural plans of the quick tier
    pub gen_quick: bool,
    /// quick tier: "" = every region gets plans, otherwise only the regions of this kind (the "encoding
    /// zoo" Parquet files exist for the heads of their page bodies)
    pub focus: &'static str,
}

pub fn apis(fmt: &str) -> &'static [&'static str] {
    match fmt {
        "ipc_file" => &["FileReader", "FileDecoder"],
        "ipc_stream" => &["StreamReader", "StreamDecoder"],
        "flight" => &["FlightStream", "flight_utils"],
        "parquet" => &["arrow_reader", "rows", "metadata", "pages", "arrow_index"],
        "avro_ocf" => &["Reader"],
        "avro_soe" => &["Decoder"],
        "csv" => &["Reader", "infer"],
        "json" => &["Reader", "infer"],
        _ => &[],
    }
}

// ------------------------------------------------------------------------------------------ claims

struct Claims {
    owner: Vec<u32>,
    list: Vec<(&'static str, usize)>,
}

impl Claims {
    fn new(n: usize) -> Claims {
        Claims { owner: vec![0; n], list: vec![("meta", 0)] }
    }
    fn claim(&mut self, lo: usize, hi: usize, kind: &'static str, grp: usize) {
        let id = self.list.len() as u32;
        self.list.push((kind, grp));
        let n = self.owner.len();
        for i in lo.min(n)..hi.min(n) {
            self.owner[i] = id;
        }
    }
    fn toks(&mut self, toks: &[walk::Tok], grp: usize) {
        for t in toks {
            self.claim(t.lo, t.hi, if t.kind == TokKind::Zigzag { "zigzag" } else { "uvarint" }, grp);
        }
    }
    fn regions(&self) -> Vec<Region> {
        let mut out: Vec<Region> = vec![];
        let mut i = 0;
        while i < self.owner.len() {
            let o = self.owner[i];
            let mut j = i;
            while j < self.owner.len() && self.owner[j] == o {
                j += 1;
            }
            let (kind, grp) = self.list[o as usize];
            out.push(Region { kind, lo: i, hi: j, grp, encl: 0 });
            i = j;
        }
        out
    }
}

fn off_in(outer: &[u8], inner: &[u8]) -> usize {
    inner.as_ptr() as usize - outer.as_ptr() as usize
}

fn u32le(b: &[u8], p: usize) -> usize {
    u32::from_le_bytes(b[p..p + 4].try_into().unwrap()) as usize
}

// ------------------------------------------------------------------------------------------ IPC

/// length-like fields inside one IPC message (flatbuffer `meta` at absolute position `mlo`; the body,
/// if it is part of the same byte string, at `body_lo`)
fn ipc_message_claims(all: &[u8], mlo: usize, mhi: usize, body_lo: Option<usize>, c: &mut Claims, grp: usize) -> usize {
    let meta = &all[mlo..mhi];
    let msg = arrow_ipc::root_as_message(meta).expect("valid message");
    let blen = msg.bodyLength();
    // bodyLength: located by probing (the accessor reports the sentinel when the right bytes are overwritten)
    if meta.len() >= 8 {
        let sentinel: i64 = 0x1122_3344_5566_7788;
        for p in (0..=meta.len() - 8).step_by(4) {
            if i64::from_le_bytes(meta[p..p + 8].try_into().unwrap()) != blen {
                continue;
            }
            let mut m2 = meta.to_vec();
            m2[p..p + 8].copy_from_slice(&sentinel.to_le_bytes());
            if arrow_ipc::root_as_message(&m2).map(|m| m.bodyLength() == sentinel).unwrap_or(false) {
                c.claim(mlo + p, mlo + p + 8, "len8", grp);
                break;
            }
        }
    }
    let rb = match msg.header_type() {
        arrow_ipc::MessageHeader::RecordBatch => msg.header_as_record_batch(),
        arrow_ipc::MessageHeader::DictionaryBatch => msg.header_as_dictionary_batch().and_then(|d| d.data()),
        _ => None,
    };
    if let Some(rb) = rb {
        if let Some(nodes) = rb.nodes() {
            let o = mlo + off_in(meta, nodes.bytes());
            for i in 0..nodes.len() {
                c.claim(o + 16 * i, o + 16 * i + 8, "len8", grp);
                c.claim(o + 16 * i + 8, o + 16 * i + 16, "len8", grp);
            }
        }
        if let Some(bufs) = rb.buffers() {
            let o = mlo + off_in(meta, bufs.bytes());
            let compressed = rb.compression().is_some();
            for i in 0..bufs.len() {
                c.claim(o + 16 * i, o + 16 * i + 8, "len8", grp);
                c.claim(o + 16 * i + 8, o + 16 * i + 16, "len8", grp);
                if let Some(bl) = body_lo {
                    let b = bufs.get(i);
                    let (bo, bn) = (b.offset() as usize, b.length() as usize);
                    if bn > 0 {
                        c.claim(bl + bo, bl + bo + bn, "body", grp);
                        if compressed && bn >= 8 {
                            c.claim(bl + bo, bl + bo + 8, "len8", grp);
                        }
                    }
                }
            }
        }
    }
    blen as usize
}

/// messages of the encapsulated format starting at `pos`; returns the position after the end-of-stream marker
fn ipc_messages(b: &[u8], mut pos: usize, c: &mut Claims, grp: &mut usize) -> usize {
    while pos + 8 <= b.len() {
        let mlen = u32le(b, pos + 4);
        *grp += 1;
        if mlen == 0 {
            c.claim(pos, pos + 8, "magic", *grp);
            return pos + 8;
        }
        c.claim(pos, pos + 4, "magic", *grp);
        c.claim(pos + 4, pos + 8, "len4", *grp);
        c.claim(pos + 8, pos + 8 + mlen, "meta", *grp);
        let msg = arrow_ipc::root_as_message(&b[pos + 8..pos + 8 + mlen]).expect("valid message");
        let blen = msg.bodyLength() as usize;
        let body_lo = pos + 8 + mlen;
        c.claim(body_lo, body_lo + blen, "body", *grp);
        ipc_message_claims(b, pos + 8, pos + 8 + mlen, Some(body_lo), c, *grp);
        pos = body_lo + blen;
    }
    pos
}

fn ipc_stream_regions(b: &[u8]) -> Vec<Region> {
    let mut c = Claims::new(b.len());
    let mut g = 0;
    ipc_messages(b, 0, &mut c, &mut g);
    c.regions()
}

fn ipc_file_regions(b: &[u8]) -> Vec<Region> {
    let n = b.len();
    let mut c = Claims::new(n);
    // the header (magic + padding to the writer's alignment) ends where the first continuation marker is
    let start = (8..n.saturating_sub(4)).step_by(8).find(|p| b[*p..*p + 4] == [0xFF; 4]).unwrap_or(8);
    c.claim(0, start, "magic", 0);
    let mut g = 0;
    let end = ipc_messages(b, start, &mut c, &mut g);
    g += 1;
    let flen = u32le(b, n - 10);
    let flo = n - 10 - flen;
    let _ = end;
    c.claim(flo, n - 10, "meta", g);
    let fb = &b[flo..n - 10];
    let footer = arrow_ipc::root_as_footer(fb).expect("valid footer");
    for v in [footer.dictionaries(), footer.recordBatches()].into_iter().flatten() {
        let o = flo + off_in(fb, v.bytes());
        for i in 0..v.len() {
            c.claim(o + 24 * i, o + 24 * i + 8, "len8", g);
            c.claim(o + 24 * i + 8, o + 24 * i + 12, "len4", g);
            c.claim(o + 24 * i + 16, o + 24 * i + 24, "len8", g);
        }
    }
    c.claim(n - 10, n - 6, "len4", g);
    c.claim(n - 6, n, "magic", g);
    c.regions()
}

pub fn ipc_write(batches: &[RecordBatch], file: bool, comp: Option<arrow_ipc::CompressionType>) -> Option<Vec<u8>> {
    use arrow_ipc::writer::{FileWriter, IpcWriteOptions, StreamWriter};
    let schema = batches[0].schema();
    let opts = IpcWriteOptions::default().try_with_compression(comp).ok()?;
    let mut out = vec![];
    if file {
        let mut w = FileWriter::try_new_with_options(&mut out, &schema, opts).ok()?;
        for b in batches {
            w.write(b).ok()?;
        }
        w.finish().ok()?;
    } else {
        let mut w = StreamWriter::try_new_with_options(&mut out, &schema, opts).ok()?;
        for b in batches {
            w.write(b).ok()?;
        }
        w.finish().ok()?;
    }
    Some(out)
}

// ------------------------------------------------------------------------------------------ Flight

pub fn flight_encode(batches: &[RecordBatch]) -> Option<Vec<arrow_flight::FlightData>> {
    use arrow_flight::encode::{DictionaryHandling, FlightDataEncoderBuilder};
    use futures::TryStreamExt;
    let enc = FlightDataEncoderBuilder::new()
        .with_dictionary_handling(DictionaryHandling::Resend)
        .build(futures::stream::iter(batches.to_vec().into_iter().map(Ok)));
    futures::executor::block_on(enc.try_collect::<Vec<_>>()).ok()
}

/// the byte string of a Flight session: the protobuf encodings of the FlightData messages, each preceded
/// by its length (protobuf length-delimited framing)
pub fn flight_bytes(msgs: &[arrow_flight::FlightData]) -> Vec<u8> {
    use prost::Message;
    let mut out = vec![];
    for m in msgs {
        m.encode_length_delimited(&mut out).unwrap();
    }
    out
}

fn flight_regions(b: &[u8]) -> Vec<Region> {
    let mut c = Claims::new(b.len());
    let mut p = 0;
    let mut g = 0;
    while p < b.len() {
        g += 1;
        let (n, q) = walk::uvarint(b, p).expect("frame length");
        c.claim(p, q, "uvarint", g);
        let end = q + n as usize;
        c.claim(q, end, "meta", g);
        let fields = walk::protobuf_fields(b, q, end).expect("protobuf");
        let body = fields.iter().find(|f| f.num == 1000).map(|f| f.pay_lo);
        for f in &fields {
            if f.len_hi > f.len_lo {
                c.claim(f.len_lo, f.len_hi, "uvarint", g);
            }
            if f.num == 1000 {
                c.claim(f.pay_lo, f.pay_hi, "body", g);
            }
        }
        for f in &fields {
            if f.num == 2 && f.pay_hi > f.pay_lo {
                ipc_message_claims(b, f.pay_lo, f.pay_hi, body, &mut c, g);
            }
        }
        p = end;
    }
    c.regions()
}

// ------------------------------------------------------------------------------------------ Parquet

pub struct PqOpts {
    pub dict: bool,
    pub v2: bool,
    pub comp: parquet::basic::Compression,
    pub enc: Option<&'static str>, // "delta" | "bss" | "plain"
    pub stats_page: bool,
    pub bloom: bool,
    /// rows per data page
    pub page_rows: usize,
}

pub fn parquet_write(batches: &[RecordBatch], o: &PqOpts) -> Option<Vec<u8>> {
    use parquet::arrow::ArrowWriter;
    use parquet::basic::Encoding;
    use parquet::file::properties::{EnabledStatistics, WriterProperties, WriterVersion};
    use parquet::schema::types::ColumnPath;
    let schema = batches[0].schema();
    let mut p = WriterProperties::builder()
        .set_dictionary_enabled(o.dict)
        .set_writer_version(if o.v2 { WriterVersion::PARQUET_2_0 } else { WriterVersion::PARQUET_1_0 })
        .set_compression(o.comp)
        .set_data_page_row_count_limit(o.page_rows)
        .set_write_batch_size(o.page_rows.min(2).max(if o.page_rows > 4 { o.page_rows } else { 2 }))
        .set_max_row_group_row_count(Some(6))
        .set_bloom_filter_enabled(o.bloom)
        .set_statistics_enabled(if o.stats_page { EnabledStatistics::Page } else { EnabledStatistics::Chunk });
    if let Some(e) = o.enc {
        for f in schema.fields() {
            let enc = match (e, f.data_type()) {
                ("delta", DataType::Int32 | DataType::Int64) => Some(Encoding::DELTA_BINARY_PACKED),
                ("delta", DataType::Utf8) => Some(Encoding::DELTA_BYTE_ARRAY),
                ("delta", DataType::Binary) => Some(Encoding::DELTA_LENGTH_BYTE_ARRAY),
                ("delta", DataType::Boolean) => Some(Encoding::RLE),
                ("delta", DataType::FixedSizeBinary(_)) => Some(Encoding::DELTA_BYTE_ARRAY),
                ("bss", DataType::Binary) => Some(Encoding::DELTA_BYTE_ARRAY),
                ("bss", DataType::Int32 | DataType::Int64 | DataType::Float64 | DataType::Float32 | DataType::FixedSizeBinary(_)) => Some(Encoding::BYTE_STREAM_SPLIT),
                ("bss", DataType::Utf8) => Some(Encoding::DELTA_LENGTH_BYTE_ARRAY),
                _ => None,
            };
            if let Some(enc) = enc {
                p = p.set_column_encoding(ColumnPath::from(f.name().as_str()), enc);
            }
        }
    }
    let mut buf = vec![];
    let mut w = ArrowWriter::try_new(&mut buf, schema, Some(p.build())).ok()?;
    for b in batches {
        w.write(b).ok()?;
    }
    w.close().ok()?;
    Some(buf)
}

/// how many leading bytes of an uncompressed page body are mapped as `enc` regions
const ENC_HEAD: usize = 5;

fn parquet_regions(b: &[u8]) -> Vec<Region> {
    use parquet::file::metadata::{PageIndexPolicy, ParquetMetaDataReader};
    let n = b.len();
    let mut c = Claims::new(n);
    let bytes = bytes::Bytes::from(b.to_vec());
    let md = ParquetMetaDataReader::new().with_page_index_policy(PageIndexPolicy::Optional).parse_and_finish(&bytes).expect("valid parquet");
    c.claim(0, 4, "magic", 0);
    let mut g = 0;
    for rg in md.row_groups() {
        for col in rg.columns() {
            let (start, len) = col.byte_range();
            let (mut p, end) = (start as usize, (start + len) as usize);
            while p < end {
                g += 1;
                let Some((hend, toks)) = walk::thrift_struct(b, p) else { break };
                let comp = walk::thrift_top_i32(b, p, 3).unwrap_or(0).max(0) as usize;
                c.claim(p, hend, "meta", g);
                c.toks(&toks, g);
                c.claim(hend, (hend + comp).min(end), "body", g);
                if col.compression() == parquet::basic::Compression::UNCOMPRESSED {
                    for q in hend..(hend + comp.min(ENC_HEAD)).min(end) {
                        c.claim(q, q + 1, "enc", g);
                    }
                }
                p = hend + comp;
            }
            for (o, l) in [(col.column_index_offset(), col.column_index_length()), (col.offset_index_offset(), col.offset_index_length())] {
                if let (Some(o), Some(l)) = (o, l) {
                    g += 1;
                    c.claim(o as usize, (o + l as i64) as usize, "meta", g);
                    if let Some((_, toks)) = walk::thrift_struct(b, o as usize) {
                        c.toks(&toks, g);
                    }
                }
            }
            if let (Some(o), Some(l)) = (col.bloom_filter_offset(), col.bloom_filter_length()) {
                g += 1;
                let (o, l) = (o as usize, l as usize);
                c.claim(o, o + l, "body", g);
                if let Some((hend, toks)) = walk::thrift_struct(b, o) {
                    c.claim(o, hend, "meta", g);
                    c.toks(&toks, g);
                }
            }
        }
    }
    g += 1;
    let flen = u32le(b, n - 8);
    let flo = n - 8 - flen;
    c.claim(flo, n - 8, "meta", g);
    if let Some((_, toks)) = walk::thrift_struct(b, flo) {
        c.toks(&toks, g);
    }
    c.claim(n - 8, n - 4, "len4", g);
    c.claim(n - 4, n, "magic", g);
    let mut regs = c.regions();
    let li = regs.iter().position(|r| r.lo == n - 8).unwrap() + 1;
    for r in regs.iter_mut() {
        if r.lo >= flo && r.hi <= n - 8 {
            r.encl = li;
        }
    }
    regs
}

// ------------------------------------------------------------------------------------------ Avro

pub fn avro_ocf_write(schema: &Schema, batches: &[RecordBatch], codec: Option<arrow_avro::compression::CompressionCodec>) -> Option<Vec<u8>> {
    use arrow_avro::writer::WriterBuilder;
    let mut w = WriterBuilder::new(schema.clone()).with_compression(codec).build::<_, arrow_avro::writer::format::AvroOcfFormat>(Vec::new()).ok()?;
    for b in batches {
        w.write(b).ok()?;
    }
    w.finish().ok()?;
    Some(w.into_inner())
}

fn zz(c: &mut Claims, b: &[u8], p: usize, g: usize) -> Option<(i64, usize)> {
    let (v, q) = walk::uvarint(b, p)?;
    c.claim(p, q, "zigzag", g);
    Some((walk::unzigzag(v), q))
}

fn avro_ocf_regions(b: &[u8]) -> Vec<Region> {
    let mut c = Claims::new(b.len());
    let walk = |c: &mut Claims| -> Option<()> {
        c.claim(0, 4, "magic", 0);
        let mut p = 4;
        loop {
            let (mut cnt, q) = zz(c, b, p, 0)?;
            p = q;
            if cnt == 0 {
                break;
            }
            if cnt < 0 {
                cnt = -cnt;
                p = zz(c, b, p, 0)?.1;
            }
            for _ in 0..cnt {
                let (kl, q) = zz(c, b, p, 0)?;
                c.claim(q, q + kl as usize, "meta", 0);
                let (vl, q2) = zz(c, b, q + kl as usize, 0)?;
                c.claim(q2, q2 + vl as usize, "meta", 0);
                p = q2 + vl as usize;
            }
        }
        c.claim(p, p + 16, "magic", 0);
        p += 16;
        let mut g = 0;
        while p < b.len() {
            g += 1;
            let (_, q) = zz(c, b, p, g)?;
            let (sz, q2) = zz(c, b, q, g)?;
            c.claim(q2, q2 + sz as usize, "body", g);
            c.claim(q2 + sz as usize, q2 + sz as usize + 16, "magic", g);
            p = q2 + sz as usize + 16;
        }
        Some(())
    };
    walk(&mut c).expect("valid OCF");
    c.regions()
}

fn avro_soe(schema: &Schema, batches: &[RecordBatch]) -> Option<(Vec<u8>, Vec<Region>, arrow_avro::schema::SchemaStore)> {
    use arrow_avro::schema::{AvroSchema, FingerprintStrategy, SchemaStore};
    use arrow_avro::writer::format::AvroSoeFormat;
    use arrow_avro::writer::WriterBuilder;
    let mut enc = WriterBuilder::new(schema.clone()).with_fingerprint_strategy(FingerprintStrategy::Rabin).build_encoder::<AvroSoeFormat>().ok()?;
    for b in batches {
        enc.encode(b).ok()?;
    }
    let rows = enc.flush();
    let bytes = rows.bytes().to_vec();
    let offs = rows.offsets().to_vec();
    let mut store = SchemaStore::new();
    store.register(AvroSchema::try_from(schema).ok()?).ok()?;
    let mut c = Claims::new(bytes.len());
    for (g, w) in offs.windows(2).enumerate() {
        c.claim(w[0], w[0] + 2, "magic", g + 1);
        c.claim(w[0] + 2, w[0] + 10, "meta", g + 1);
        c.claim(w[0] + 10, w[1], "body", g + 1);
    }
    Some((bytes, c.regions(), store))
}

// ------------------------------------------------------------------------------------------ text

fn line_regions(b: &[u8]) -> Vec<Region> {
    let mut c = Claims::new(b.len());
    let mut p = 0;
    let mut g = 0;
    while p < b.len() {
        let e = b[p..].iter().position(|x| *x == b'\n').map(|i| p + i + 1).unwrap_or(b.len());
        g += 1;
        c.claim(p, e, "line", g);
        p = e;
    }
    c.regions()
}

// ------------------------------------------------------------------------------------------ data

fn batch_of(rng: &mut Rng, fields: &[(&str, DataType, bool)], rows: usize) -> RecordBatch {
    let schema = Arc::new(Schema::new(fields.iter().map(|(n, t, nul)| Field::new(*n, t.clone(), *nul)).collect::<Vec<_>>()));
    let cols: Vec<ArrayRef> = fields.iter().map(|(_, t, nul)| mk::array(rng, t, rows, Cfg::tame(if *nul { 30 } else { 0 }))).collect();
    // a column generated without nulls may still carry an all-valid bitmap; fine for a non-nullable field
    RecordBatch::try_new(schema, cols).expect("batch")
}

fn batches_of(rng: &mut Rng, fields: &[(&str, DataType, bool)], rows: &[usize]) -> Vec<RecordBatch> {
    let first = batch_of(rng, fields, rows[0]);
    let schema = first.schema();
    let mut out = vec![first];
    for r in &rows[1..] {
        let b = batch_of(rng, fields, *r);
        // keep one dictionary per dictionary column (the file format does not allow replacement)
        let cols: Vec<ArrayRef> = b
            .columns()
            .iter()
            .zip(out[0].columns())
            .map(|(c, c0)| match c.data_type() {
                DataType::Dictionary(_, _) => c0.slice(0, (*r).min(c0.len())),
                _ => c.clone(),
            })
            .collect();
        if cols.iter().all(|c| c.len() == *r) {
            out.push(RecordBatch::try_new(schema.clone(), cols).expect("batch"));
        }
    }
    out
}

fn prims() -> Vec<(&'static str, DataType, bool)> {
    vec![("i", DataType::Int32, true), ("s", DataType::Utf8, true), ("b", DataType::Boolean, false), ("f", DataType::Float64, false)]
}

fn list_i32() -> DataType {
    DataType::List(Arc::new(Field::new("item", DataType::Int32, true)))
}

fn nested() -> Vec<(&'static str, DataType, bool)> {
    vec![
        ("l", list_i32(), true),
        ("st", DataType::Struct(Fields::from(vec![Field::new("a", DataType::Int16, true), Field::new("t", DataType::Utf8, true)])), true),
        ("d", DataType::Dictionary(Box::new(DataType::Int8), Box::new(DataType::Utf8)), true),
    ]
}

fn exotic() -> Vec<(&'static str, DataType, bool)> {
    vec![
        ("v", DataType::Utf8View, true),
        ("fsb", DataType::FixedSizeBinary(3), true),
        ("ls", DataType::LargeUtf8, false),
        ("dec", DataType::Decimal128(10, 2), true),
        ("bin", DataType::Binary, true),
        ("fl", DataType::FixedSizeList(Arc::new(Field::new("item", DataType::Int16, true)), 2), true),
    ]
}

fn base(fmt: &'static str, name: &str, bytes: Vec<u8>, extra: Extra, gen_quick: bool) -> BaseFile {
    let regions = match fmt {
        "ipc_file" => ipc_file_regions(&bytes),
        "ipc_stream" => ipc_stream_regions(&bytes),
        "flight" => flight_regions(&bytes),
        "parquet" => parquet_regions(&bytes),
        "avro_ocf" => avro_ocf_regions(&bytes),
        "csv" | "json" => line_regions(&bytes),
        _ => vec![],
    };
    let focus = if fmt == "parquet" && name.starts_with("zoo_") { "enc" } else { "" };
    BaseFile { fmt, name: name.to_string(), bytes, regions, extra, gen_quick, focus }
}

fn csv_text(rng: &mut Rng) -> (Vec<u8>, SchemaRef) {
    let schema = Arc::new(Schema::new(vec![
        Field::new("i", DataType::Int64, true),
        Field::new("f", DataType::Float64, true),
        Field::new("s", DataType::Utf8, true),
        Field::new("b", DataType::Boolean, true),
        Field::new("d", DataType::Date32, true),
    ]));
    let mut t = String::from("i,f,s,b,d\n");
    let words = ["", "a", "hello", "\"q,x\"", "h\u{e9}llo", "\"two\nlines\"", "\"dq\"\"x\""];
    for _ in 0..6 {
        t.push_str(&format!(
            "{},{},{},{},{}\n",
            rng.range(-70000, 70000),
            rng.range(-100, 100) as f64 / 4.0,
            rng.pick(&words),
            if rng.chance(50) { "true" } else { "false" },
            ["2020-01-31", "1970-01-01", "", "1999-12-31"][rng.below(4)]
        ));
    }
    (t.into_bytes(), schema)
}

fn json_text(rng: &mut Rng) -> (Vec<u8>, SchemaRef) {
    let schema = Arc::new(Schema::new(vec![
        Field::new("i", DataType::Int64, true),
        Field::new("f", DataType::Float64, true),
        Field::new("s", DataType::Utf8, true),
        Field::new("b", DataType::Boolean, true),
        Field::new("l", DataType::List(Arc::new(Field::new("item", DataType::Int32, true))), true),
        Field::new("o", DataType::Struct(Fields::from(vec![Field::new("x", DataType::Int32, true), Field::new("y", DataType::Utf8, true)])), true),
    ]));
    let mut t = String::new();
    let words = ["", "a", "hello", "h\\u00e9llo", "q\\\"x", "\u{1F600}"];
    for _ in 0..5 {
        t.push_str(&format!(
            "{{\"i\":{},\"f\":{},\"s\":\"{}\",\"b\":{},\"l\":[{},null,{}],\"o\":{{\"x\":{},\"y\":\"{}\"}}}}\n",
            rng.range(-70000, 70000),
            rng.range(-100, 100) as f64 / 4.0,
            rng.pick(&words),
            if rng.chance(50) { "true" } else { "null" },
            rng.range(0, 9),
            rng.range(-300, 300),
            rng.range(0, 99),
            rng.pick(&words)
        ));
    }
    (t.into_bytes(), schema)
}

fn avro_batches(rng: &mut Rng) -> (Arc<Schema>, Vec<RecordBatch>) {
    let f = [
        ("x", DataType::Int64, false),
        ("s", DataType::Utf8, false),
        ("n", DataType::Int32, true),
        ("d", DataType::Float64, false),
        ("b", DataType::Boolean, false),
        ("bin", DataType::Binary, true),
    ];
    let bs = batches_of(rng, &f, &[3, 2]);
    (bs[0].schema(), bs)
}

fn avro_nested(rng: &mut Rng) -> (Arc<Schema>, Vec<RecordBatch>) {
    let f = [("l", DataType::List(Arc::new(Field::new("item", DataType::Int32, false))), false), ("s", DataType::Utf8, true)];
    let bs = batches_of(rng, &f, &[3, 2]);
    (bs[0].schema(), bs)
}

/// all base files of a tier (deterministic in `seed`)
pub fn all(seed: u64, thorough: bool) -> Vec<BaseFile> {
    use parquet::basic::Compression as PC;
    let mut rng = Rng::new(seed ^ 0xC08);
    let mut out = vec![];
    let p = batches_of(&mut rng, &prims(), &[3, 2]);
    let nst = batches_of(&mut rng, &nested(), &[3, 2]);
    let exo = batches_of(&mut rng, &exotic(), &[3, 2]);

    // ---- IPC
    for (name, bs, gq) in [("prims", &p, true), ("nested", &nst, false), ("exotic", &exo, false)] {
        if let Some(b) = ipc_write(bs, true, None) {
            out.push(base("ipc_file", name, b, Extra::None, gq));
        }
        if let Some(b) = ipc_write(bs, false, None) {
            out.push(base("ipc_stream", name, b, Extra::None, gq || name == "nested"));
        }
    }
    if let Some(b) = ipc_write(&p, false, Some(arrow_ipc::CompressionType::LZ4_FRAME)) {
        out.push(base("ipc_stream", "lz4", b, Extra::None, false));
    }
    if let Some(b) = ipc_write(&nst, true, Some(arrow_ipc::CompressionType::ZSTD)) {
        out.push(base("ipc_file", "zstd", b, Extra::None, false));
    }
    if thorough {
        for (k, dt) in mk::all_types().into_iter().enumerate() {
            let f = [("c", dt.clone(), true)];
            let ok = vcore::guarded(|| batches_of(&mut rng.fork(), &f, &[4, 2]));
            if let Ok(bs) = ok {
                if let Ok(Some(b)) = vcore::guarded(|| ipc_write(&bs, k % 2 == 0, None)) {
                    out.push(base(if k % 2 == 0 { "ipc_file" } else { "ipc_stream" }, &format!("t{k}"), b, Extra::None, false));
                }
            }
        }
    }

    // ---- Flight
    if let Some(msgs) = flight_encode(&nst) {
        out.push(base("flight", "nested", flight_bytes(&msgs), Extra::None, true));
    }
    if let Some(msgs) = flight_encode(&p) {
        out.push(base("flight", "prims", flight_bytes(&msgs), Extra::None, false));
    }

    // ---- Parquet
    let pq_cols = [
        ("i", DataType::Int32, true),
        ("s", DataType::Utf8, true),
        ("b", DataType::Boolean, false),
        ("f", DataType::Float64, false),
        ("l", list_i32(), true),
    ];
    let pq = batches_of(&mut rng, &pq_cols, &[5, 3]);
    let pq2_cols = [("k", DataType::Int64, false), ("s", DataType::Utf8, true), ("x", DataType::FixedSizeBinary(4), true), ("bin", DataType::Binary, true)];
    let pq2 = batches_of(&mut rng, &pq2_cols, &[5, 3]);
    // the "encoding zoo": every value encoding that has its own decoder, for byte-array and fixed-width
    // columns, in small uncompressed files with required columns (no levels: a page body starts with the
    // encoding's own header / length block)
    let zoo_cols = [
        ("i", DataType::Int32, false),
        ("k", DataType::Int64, false),
        ("s", DataType::Utf8, false),
        ("bin", DataType::Binary, false),
        ("b", DataType::Boolean, false),
        ("f", DataType::Float64, false),
        ("x", DataType::FixedSizeBinary(4), false),
    ];
    let zoo = batches_of(&mut rng, &zoo_cols, &[5]);
    let o = |dict, v2, comp, enc, stats_page, bloom| PqOpts { dict, v2, comp, enc, stats_page, bloom, page_rows: 4 };
    let z = |dict, v2, enc| PqOpts { dict, v2, comp: PC::UNCOMPRESSED, enc, stats_page: false, bloom: false, page_rows: 64 };
    let mut pqs: Vec<(&str, &Vec<RecordBatch>, PqOpts, bool)> = vec![
        ("plain", &pq, o(false, false, PC::UNCOMPRESSED, None, false, false), true),
        ("dict_snappy_v2", &pq2, o(true, true, PC::SNAPPY, None, true, false), false),
        ("zoo_dict", &zoo, z(true, false, None), true),
        ("zoo_delta", &zoo, z(false, true, Some("delta")), true),
        ("zoo_bss", &zoo, z(false, false, Some("bss")), true),
    ];
    if thorough {
        pqs.push(("delta_zstd", &pq, o(false, true, PC::ZSTD(Default::default()), Some("delta"), true, false), false));
        pqs.push(("bss_gzip", &pq2, o(false, false, PC::GZIP(Default::default()), Some("bss"), false, true), false));
        pqs.push(("dict_brotli", &pq, o(true, false, PC::BROTLI(Default::default()), None, true, true), false));
        pqs.push(("delta_lz4", &pq2, o(false, true, PC::LZ4, Some("delta"), false, false), false));
        pqs.push(("dict_lz4raw", &pq2, o(true, false, PC::LZ4_RAW, None, false, false), false));
        pqs.push(("bss_plain", &pq, o(false, true, PC::UNCOMPRESSED, Some("bss"), true, false), false));
    }
    for (name, bs, opts, gq) in pqs {
        if let Some(b) = parquet_write(bs, &opts) {
            out.push(base("parquet", name, b, Extra::None, gq));
        }
    }

    // ---- Avro
    let (asch, ab) = avro_batches(&mut rng);
    if let Some(b) = avro_ocf_write(&asch, &ab, None) {
        out.push(base("avro_ocf", "mixed", b, Extra::None, true));
    }
    let (nsch, nb) = avro_nested(&mut rng);
    if let Some(b) = avro_ocf_write(&nsch, &nb, Some(arrow_avro::compression::CompressionCodec::Deflate)) {
        out.push(base("avro_ocf", "nested_deflate", b, Extra::None, false));
    }
    if thorough {
        use arrow_avro::compression::CompressionCodec as CC;
        for (n, cdc) in [("snappy", CC::Snappy), ("zstd", CC::ZStandard), ("bzip2", CC::Bzip2), ("xz", CC::Xz)] {
            if let Some(b) = avro_ocf_write(&asch, &ab, Some(cdc)) {
                out.push(base("avro_ocf", n, b, Extra::None, false));
            }
        }
    }
    if let Some((bytes, regions, store)) = avro_soe(&asch, &ab) {
        out.push(BaseFile { fmt: "avro_soe", name: "mixed".into(), bytes, regions, extra: Extra::Soe(store), gen_quick: true, focus: "" });
    }

    // ---- text
    let (t, s) = csv_text(&mut rng);
    out.push(base("csv", "mixed", t, Extra::Schema(s), true));
    let (t, s) = json_text(&mut rng);
    out.push(base("json", "mixed", t, Extra::Schema(s), true));
    out
}
