//! C08 driver: untrusted bytes yield an error or valid data, never an invalid array; no panic, no hang,
//! no allocation unrelated to the size of the input.
//!
//! Sub-commands (first argument):
//!   c08      impl -> spec: byte-level corruptions, truncations, cross-splices of valid files of every
//!            format + corruptions of valid Variant encodings; traces `untrusted-drive-NN.ndjson`
//!   shapes   write the region maps of the base files (`shapes.ndjson`): the input of Gen_Untrusted
//!   gen      spec -> impl: apply every structural plan TLC enumerated (`--cases`); traces `untrusted-gen-NN.ndjson`
//!   variant  spec -> impl: the Variant universes TLC enumerated (`--cases`) against `Variant::try_new`;
//!            trace `untrusted-variant-00.ndjson`
//!   worker   (internal) child process running a share of the sessions
//!   runfile <fmt> <api> <path> [<file name>]   run one reader over the bytes of a file (reproductions)
//!   probe    print / save minimal reproductions of the known findings (findings/C08/*.bin)
//!
//! Isolation: sessions run in child processes (`worker`), several per child.  In the child every session
//! runs under `vcore::guarded` (panic -> outcome "panic" + location), a capping global allocator (a
//! request that would take the session beyond 128 MiB + 64 x input size is refused and recorded ->
//! outcome "alloc"), an address-space limit (backstop for C codec libraries) and a watchdog thread (5 s of
//! CPU or 60 s wall clock -> outcome "hang", the child exits).  The parent restarts a dead child after the
//! session that killed it and records that session's outcome from the markers the child left
//! (`crash` when there is none: abort / stack overflow / signal).
mod alloc;
mod files;
mod plan;
mod readers;
mod variant;
mod walk;

use files::BaseFile;
use plan::Plan;
use std::io::Write;
use std::sync::Mutex;
use vcore::{json, Args, Rng, Value};

#[global_allocator]
static GLOBAL: alloc::Capped = alloc::Capped;

static PANIC_AT: Mutex<String> = Mutex::new(String::new());
static PANIC_FN: Mutex<String> = Mutex::new(String::new());

/// the panic message reduced to its constant head (up to the first ':', '(' or digit): identifies the
/// assertion / unwrap independently of the values it prints
fn msg_head(m: &str) -> String {
    let end = m.find(|c: char| c == ':' || c == '(' || c.is_ascii_digit()).unwrap_or(m.len());
    m[..end].trim().chars().take(70).collect()
}

const WORKERS: usize = 8;
const ALLOC_BASE: usize = 128 << 20;

#[derive(Clone)]
enum Sess {
    File { file: usize, api: &'static str, plan: Plan },
    VarValue { name: String, src: &'static str, meta: Vec<u8>, value: Vec<u8> },
    VarMeta { name: String, src: &'static str, meta: Vec<u8> },
}

struct Ctx {
    files: Vec<BaseFile>,
    thorough: bool,
    seed: u64,
}

fn ctx(args: &Args) -> Ctx {
    Ctx { files: files::all(args.seed, args.thorough()), thorough: args.thorough(), seed: args.seed }
}

// ------------------------------------------------------------------------------------------ sessions

fn skip_api(f: &BaseFile, api: &str) -> bool {
    // flight_data_to_batches has no dictionary support by contract (it passes an empty dictionary map)
    f.fmt == "flight" && api == "flight_utils" && f.name == "nested"
}

fn drive_sessions(c: &Ctx) -> Vec<Sess> {
    let mut out = vec![];
    let mut rng = Rng::new(c.seed ^ 0x5E55);
    for (fi, f) in c.files.iter().enumerate() {
        let n = f.bytes.len();
        for api in files::apis(f.fmt) {
            if skip_api(f, api) {
                continue;
            }
            let mut push = |p: Plan| out.push(Sess::File { file: fi, api, plan: p });
            push(Plan { src: "base".into(), op: "none".into(), ..Default::default() });
            // (b) single-byte corruptions: every position of short files / all files in the thorough tier,
            // otherwise every byte of the small structural regions (budgeted) and a position sample
            let budget = if c.thorough { usize::MAX } else { 36 };
            let mut positions: Vec<usize> = vec![];
            if n <= 300 || c.thorough {
                positions.extend(0..n);
            } else {
                let mut small: Vec<usize> = f.regions.iter().filter(|r| r.kind != "body" && r.kind != "meta" && r.kind != "line").flat_map(|r| r.lo..r.hi).collect();
                while small.len() > budget / 2 {
                    small.swap_remove(rng.below(small.len()));
                }
                positions.extend(small);
                while positions.len() < budget {
                    positions.push(rng.below(n));
                }
                positions.sort();
                positions.dedup();
            }
            for p in positions {
                for (op, arg) in [("set", "0"), ("set", "255"), ("flip", "lo"), ("flip", "hi")] {
                    push(Plan { src: "byte".into(), op: op.into(), arg: arg.into(), sel: "abs".into(), pos: p, ..Default::default() });
                }
            }
            // (c) truncations: every length of short files, a sample otherwise
            let cuts: Vec<usize> = if n <= 300 || c.thorough { (0..n).collect() } else { (0..24).map(|_| rng.below(n)).collect() };
            for p in cuts {
                push(Plan { src: "trunc".into(), op: "trunc".into(), sel: "abs".into(), pos: p, ..Default::default() });
            }
            // (d) cross-splices with the other valid files of the format: a prefix of this file up to a
            // region boundary followed by a suffix of the donor from a region boundary
            for (di, d) in c.files.iter().enumerate() {
                if di == fi || d.fmt != f.fmt || f.regions.is_empty() || d.regions.is_empty() {
                    continue;
                }
                for _ in 0..(if c.thorough { 40 } else { 4 }) {
                    let a = f.regions[rng.below(f.regions.len())].lo;
                    let b = d.regions[rng.below(d.regions.len())].lo;
                    push(Plan { src: "splice".into(), op: "xsplice".into(), sel: "abs".into(), pos: a, d: b as i64, donor: di + 1, ..Default::default() });
                }
            }
        }
    }
    // Variant: corruptions of valid encodings
    for (name, m, v) in variant::samples() {
        out.push(Sess::VarValue { name: name.clone(), src: "base", meta: m.clone(), value: v.clone() });
        out.push(Sess::VarMeta { name: name.clone(), src: "base", meta: m.clone() });
        let muts: &[u8] = if c.thorough { &[0, 1, 2, 3, 4, 5] } else { &[1, 2, 4] };
        let stride = if c.thorough || v.len() <= 40 { 1 } else { 2 };
        for p in (0..v.len()).step_by(stride) {
            for k in muts {
                let mut w = v.clone();
                w[p] = mutate_byte(w[p], *k);
                out.push(Sess::VarValue { name: name.clone(), src: "mut", meta: m.clone(), value: w });
            }
        }
        for p in 0..m.len() {
            for k in muts {
                let mut mm = m.clone();
                mm[p] = mutate_byte(mm[p], *k);
                out.push(Sess::VarMeta { name: name.clone(), src: "mut", meta: mm.clone() });
                out.push(Sess::VarValue { name: name.clone(), src: "mutmeta", meta: mm, value: v.clone() });
            }
        }
        for p in (0..v.len()).step_by(stride) {
            out.push(Sess::VarValue { name: name.clone(), src: "trunc", meta: m.clone(), value: v[..p].to_vec() });
        }
        for p in 0..m.len() {
            out.push(Sess::VarMeta { name: name.clone(), src: "trunc", meta: m[..p].to_vec() });
        }
    }
    out
}

fn mutate_byte(b: u8, k: u8) -> u8 {
    match k {
        0 => 0x00,
        1 => 0xFF,
        2 => b ^ 0x01,
        3 => b ^ 0x80,
        4 => b.wrapping_add(1),
        _ => b.wrapping_sub(1),
    }
}

fn gen_sessions(c: &Ctx, cases: &str) -> Vec<Sess> {
    let mut out = vec![];
    for line in cases.lines() {
        let v: Value = serde_json::from_str(line).expect("case");
        let fi = v["f"].as_u64().expect("f") as usize;
        let f = &c.files[fi];
        let mut p = plan::plan_from(&v);
        p.src = "gen".into();
        // the plan was enumerated for this very region map
        let r = &f.regions[p.r - 1];
        if v["k"].as_str() != Some(r.kind) || v["w"].as_u64() != Some((r.hi - r.lo) as u64) || v["fmt"].as_str() != Some(f.fmt) {
            eprintln!("SHAPE-MISMATCH file {fi} region {}: case {} vs {} w {}", p.r, v, r.kind, r.hi - r.lo);
            std::process::exit(2);
        }
        let apis = files::apis(f.fmt);
        let apis = if c.thorough { apis } else { &apis[..apis.len().min(2)] };
        for api in apis {
            if !skip_api(f, api) {
                out.push(Sess::File { file: fi, api, plan: p.clone() });
            }
        }
    }
    out
}

// ------------------------------------------------------------------------------------------ one session

/// panic -> (constant head of the message + " @ " + innermost function of a reader crate on the stack, location)
fn guarded_at<T>(f: impl FnOnce() -> T) -> Result<T, (String, String)> {
    PANIC_AT.lock().unwrap().clear();
    PANIC_FN.lock().unwrap().clear();
    vcore::guarded(f).map_err(|msg| (format!("{}@{}", msg_head(&msg), PANIC_FN.lock().unwrap()), PANIC_AT.lock().unwrap().clone()))
}

fn file_of(at: &str) -> &str {
    at.rsplit_once(':').map(|x| x.0).unwrap_or(at)
}

/// everything of the event that does not depend on running the reader
fn file_event(c: &Ctx, sid: usize, file: usize, api: &str, p: &Plan) -> Option<(Value, Vec<u8>)> {
    let f = &c.files[file];
    let donor = if p.donor > 0 { c.files.get(p.donor - 1) } else { None };
    let a = plan::apply(f, donor, p)?;
    let (dlo, dhi) = plan::diff(&f.bytes, &a.bytes);
    let (kind, lo, hi, flo, fhi) = if p.r > 0 {
        let r = &f.regions[p.r - 1];
        let g = r.grp;
        let flo = f.regions.iter().filter(|x| x.grp == g).map(|x| x.lo).min().unwrap();
        let fhi = f.regions.iter().filter(|x| x.grp == g).map(|x| x.hi).max().unwrap();
        (r.kind, r.lo, r.hi, flo, fhi)
    } else if p.sel == "abs" {
        // informational: the region the absolute position lies in
        match f.regions.iter().find(|x| x.lo <= p.pos && p.pos < x.hi) {
            Some(r) => (r.kind, r.lo, r.hi, r.lo, r.hi),
            None => ("none", 0, 0, 0, 0),
        }
    } else {
        ("none", 0, 0, 0, 0)
    };
    let lastgrp = kind != "none" && f.regions.last().map(|l| f.regions.iter().any(|x| x.lo == lo && x.grp == l.grp)).unwrap_or(false);
    let ev = json!({
        "ev": "session", "sid": sid, "fmt": f.fmt, "api": api, "file": f.name,
        "src": p.src, "op": p.op, "arg": p.arg, "sel": p.sel, "d": p.d, "fix": p.fix, "r": p.r, "pos": p.pos, "donor": p.donor,
        "kind": kind, "lo": lo, "hi": hi, "flo": flo, "fhi": fhi, "lastgrp": lastgrp,
        "baselen": f.bytes.len(), "newlen": a.bytes.len(), "dlo": dlo, "dhi": dhi, "at": a.at, "oldw": a.oldw, "neww": a.neww,
    });
    Some((ev, a.bytes))
}

fn finish_event(mut ev: Value, outcome: &str, wher: &str, msg: &str, o: Option<&readers::Out>, peak: usize) -> Value {
    let m = ev.as_object_mut().unwrap();
    m.insert("outcome".into(), json!(outcome));
    m.insert("where".into(), json!(wher));
    m.insert("wfile".into(), json!(file_of(wher)));
    let (head, func) = msg.split_once('@').unwrap_or((msg, ""));
    m.insert("msg".into(), json!(head));
    m.insert("fn".into(), json!(func));
    let none: Vec<Value> = vec![];
    match o {
        Some(o) => {
            m.insert("phase".into(), json!(o.phase));
            m.insert("has_declared".into(), json!(o.has_declared));
            m.insert("declared".into(), json!(o.declared));
            m.insert("batches".into(), json!(o.batches));
            m.insert("nb".into(), json!(o.nb));
            m.insert("big".into(), json!(o.big));
            m.insert("units".into(), json!(o.units.min(1 << 30)));
        }
        None => {
            m.insert("phase".into(), json!(""));
            m.insert("has_declared".into(), json!(false));
            m.insert("declared".into(), json!(none));
            m.insert("batches".into(), json!(none));
            m.insert("nb".into(), json!(0));
            m.insert("big".into(), json!(0));
            m.insert("units".into(), json!(0));
        }
    }
    m.insert("peak".into(), json!(peak.min(1 << 30)));
    ev
}

fn run_session(c: &Ctx, sid: usize, s: &Sess) -> Option<Value> {
    match s {
        Sess::File { file, api, plan } => {
            let (ev, bytes) = file_event(c, sid, *file, api, plan)?;
            let f = &c.files[*file];
            alloc::begin(sid, ALLOC_BASE + 64 * bytes.len());
            let r = guarded_at(|| readers::run(f.fmt, api, &bytes, &f.extra));
            let (peak, hit) = alloc::end();
            Some(match r {
                Err((msg, at)) => finish_event(ev, "panic", &at, &msg, None, peak),
                Ok(o) => {
                    let outcome = if hit > 0 {
                        "alloc"
                    } else if o.runaway {
                        "hang"
                    } else {
                        o.outcome.as_str()
                    };
                    let wher = if hit > 0 { format!("alloc@{}", alloc::REFUSED_BY.lock().unwrap()) } else if o.runaway { "unbounded output".to_string() } else { String::new() };
                    finish_event(ev, outcome, "", &wher, Some(&o), peak)
                }
            })
        }
        Sess::VarValue { src, meta, value, .. } => {
            alloc::begin(sid, ALLOC_BASE);
            let r = guarded_at(|| variant::run_value(meta, value));
            let (_, hit) = alloc::end();
            Some(match r {
                Err((msg, at)) => variant::value_event(src, meta, value, "panic", &format!("{}|{msg}", file_of(&at)), ""),
                Ok(_) if hit > 0 => variant::value_event(src, meta, value, "alloc", "", ""),
                Ok(o) => variant::value_event(src, meta, value, o.outcome, "", &o.tok),
            })
        }
        Sess::VarMeta { src, meta, .. } => {
            alloc::begin(sid, ALLOC_BASE);
            let r = guarded_at(|| variant::run_meta(meta));
            let (_, hit) = alloc::end();
            Some(match r {
                Err((msg, at)) => variant::meta_event(src, meta, "panic", &format!("{}|{msg}", file_of(&at)), &[]),
                Ok(_) if hit > 0 => variant::meta_event(src, meta, "alloc", "", &[]),
                Ok(o) => variant::meta_event(src, meta, o.outcome, "", &o.names),
            })
        }
    }
}

/// the event of a session that killed its worker process
fn dead_event(c: &Ctx, sid: usize, s: &Sess, outcome: &str, wher: &str) -> Option<Value> {
    match s {
        Sess::File { file, api, plan } => {
            let (ev, _) = file_event(c, sid, *file, api, plan)?;
            Some(finish_event(ev, outcome, "", wher, None, 0))
        }
        Sess::VarValue { src, meta, value, .. } => Some(variant::value_event(src, meta, value, outcome, wher, "")),
        Sess::VarMeta { src, meta, .. } => Some(variant::meta_event(src, meta, outcome, wher, &[])),
    }
}

// ------------------------------------------------------------------------------------------ worker / supervisor

fn sessions_for(c: &Ctx, mode: &str, cases: Option<&String>) -> Vec<Sess> {
    match mode {
        "gen" => gen_sessions(c, &std::fs::read_to_string(cases.expect("--cases")).expect("cases file")),
        _ => drive_sessions(c),
    }
}

fn shard_path(out: &str, mode: &str, i: usize) -> String {
    format!("{out}/untrusted-{mode}-{i:02}.ndjson")
}

fn worker(args: &Args) {
    let mode = args.extra[0].clone();
    let w: usize = args.extra[1].parse().unwrap();
    let from: usize = args.extra[2].parse().unwrap();
    let c = ctx(args);
    let sessions = sessions_for(&c, &mode, args.cases.as_ref());
    let prog = std::fs::OpenOptions::new().create(true).append(true).open(format!("{}/prog-{mode}-{w}.txt", args.out)).unwrap();
    use std::os::fd::AsRawFd;
    alloc::MARK_FD.store(prog.as_raw_fd(), std::sync::atomic::Ordering::Relaxed);
    alloc::cap_address_space(6 << 30);
    alloc::start_watchdog(5, 60);
    let mut shard = std::fs::OpenOptions::new().create(true).append(true).open(shard_path(&args.out, &mode, w)).unwrap();
    for (k, s) in sessions.iter().enumerate() {
        if k % WORKERS != w || k < from {
            continue;
        }
        alloc::mark(b'S', k, 0);
        if let Some(ev) = run_session(&c, k, s) {
            let mut line = serde_json::to_vec(&ev).unwrap();
            line.push(b'\n');
            shard.write_all(&line).unwrap();
        }
        alloc::mark(b'D', k, 0);
    }
    drop(prog);
}

fn supervise(args: &Args, mode: &str) {
    let c = ctx(args);
    let sessions = sessions_for(&c, mode, args.cases.as_ref());
    let exe = std::env::current_exe().unwrap();
    std::fs::create_dir_all(&args.out).unwrap();
    for w in 0..WORKERS {
        let _ = std::fs::remove_file(shard_path(&args.out, mode, w));
        let _ = std::fs::remove_file(format!("{}/prog-{mode}-{w}.txt", args.out));
    }
    let spawn = |w: usize, from: usize| {
        let mut cmd = std::process::Command::new(&exe);
        cmd.arg("worker").arg(mode).arg(w.to_string()).arg(from.to_string()).arg("--tier").arg(&args.tier).arg("--seed").arg(args.seed.to_string()).arg("--out").arg(&args.out);
        if let Some(cs) = &args.cases {
            cmd.arg("--cases").arg(cs);
        }
        cmd.stdout(std::process::Stdio::null()).stderr(std::process::Stdio::null()).spawn().expect("spawn worker")
    };
    let mut kids: Vec<(usize, std::process::Child, usize)> = (0..WORKERS).map(|w| (w, spawn(w, 0), 0)).collect();
    let mut dead = 0usize;
    let mut restarts = 0usize;
    while let Some((w, mut child, _)) = kids.pop() {
        let st = child.wait().expect("wait");
        if st.success() {
            continue;
        }
        // which session was running?
        let prog = std::fs::read_to_string(format!("{}/prog-{mode}-{w}.txt", args.out)).unwrap_or_default();
        let mut running: Option<usize> = None;
        let mut marker: Option<(char, usize)> = None;
        let mut by = String::new();
        for l in prog.lines() {
            let mut it = l.split(' ');
            let (t, a, b) = (it.next().unwrap_or(""), it.next().and_then(|x| x.parse::<usize>().ok()), it.next().and_then(|x| x.parse::<usize>().ok()));
            match (t, a) {
                ("S", Some(k)) => {
                    running = Some(k);
                    marker = None;
                    by.clear();
                }
                ("D", Some(_)) => running = None,
                ("A", Some(_)) => marker = Some(('A', b.unwrap_or(0))),
                ("F", _) => by = l[2..].to_string(),
                ("H", Some(_)) => marker = Some(('H', b.unwrap_or(0))),
                _ => {}
            }
        }
        let Some(k) = running else {
            eprintln!("worker {w} died outside a session: {st:?}");
            std::process::exit(2);
        };
        use std::os::unix::process::ExitStatusExt;
        let (outcome, wher) = match marker {
            Some(('A', _)) => ("alloc", format!("alloc@{by}")),
            Some(('H', ms)) => ("hang", { let _ = ms; "watchdog".to_string() }),
            _ => ("crash", format!("signal {}", st.signal().unwrap_or(0))),
        };
        if let Some(ev) = dead_event(&c, k, &sessions[k], outcome, &wher) {
            let mut shard = std::fs::OpenOptions::new().create(true).append(true).open(shard_path(&args.out, mode, w)).unwrap();
            let mut line = serde_json::to_vec(&ev).unwrap();
            line.push(b'\n');
            shard.write_all(&line).unwrap();
        }
        let mut pf = std::fs::OpenOptions::new().append(true).open(format!("{}/prog-{mode}-{w}.txt", args.out)).unwrap();
        let _ = writeln!(pf, "D {k} 0");
        dead += 1;
        restarts += 1;
        if restarts > 2000 {
            eprintln!("too many worker restarts");
            std::process::exit(2);
        }
        kids.push((w, spawn(w, k + 1), k + 1));
    }
    // summary
    let mut counts: std::collections::BTreeMap<String, usize> = Default::default();
    let mut events = 0;
    for w in 0..WORKERS {
        if let Ok(t) = std::fs::read_to_string(shard_path(&args.out, mode, w)) {
            for l in t.lines() {
                events += 1;
                if let Ok(v) = serde_json::from_str::<Value>(l) {
                    *counts.entry(v["outcome"].as_str().unwrap_or("?").to_string()).or_default() += 1;
                }
            }
        }
        let _ = std::fs::remove_file(format!("{}/prog-{mode}-{w}.txt", args.out));
    }
    if mode == "gen" {
        println!("REPLAYED {events}");
    }
    let cs: Vec<String> = counts.iter().map(|(k, v)| format!("{k}={v}")).collect();
    println!("DRIVER c08-{mode} sessions={} events={events} files={} killed_workers={dead} {}", sessions.len(), c.files.len(), cs.join(" "));
}

// ------------------------------------------------------------------------------------------ other commands

fn shapes(args: &Args) {
    let c = ctx(args);
    std::fs::create_dir_all(&args.out).unwrap();
    let mut f = std::fs::File::create(format!("{}/shapes.ndjson", args.out)).unwrap();
    let mut nf = 0;
    let mut nr = 0;
    for (fi, b) in c.files.iter().enumerate() {
        if !(c.thorough || b.gen_quick) || b.regions.is_empty() {
            continue;
        }
        let regs: Vec<Value> = b.regions.iter().map(|r| json!({"k": r.kind, "g": r.grp, "w": r.hi - r.lo, "e": r.encl})).collect();
        nr += regs.len();
        nf += 1;
        writeln!(f, "{}", json!({"f": fi, "fmt": b.fmt, "name": b.name, "n": b.bytes.len(), "regs": regs})).unwrap();
    }
    println!("DRIVER c08-shapes files={nf} regions={nr}");
}

fn variant_replay(args: &Args) {
    let text = std::fs::read_to_string(args.cases.as_ref().expect("--cases")).unwrap();
    let cases: Vec<Value> = text.lines().map(|l| serde_json::from_str(l).unwrap()).collect();
    let r = variant::replay(&cases, &|f| match guarded_at(f) {
        Ok((o, t)) => (o, String::new(), t),
        Err((msg, at)) => ("panic".to_string(), format!("{}|{msg}", file_of(&at)), String::new()),
    });
    let mut t = vcore::Trace::create(&args.out, "untrusted-variant-00");
    let n = r.events.len();
    for e in r.events {
        t.emit(e);
    }
    t.finish();
    println!("REPLAYED {}", r.enumerated);
    println!(
        "DRIVER c08-variant enumerated={} accepted={} explained_by_tlc_cases={} events={n} stricter_than_spec={} panics={}",
        r.enumerated, r.accepted, r.explained, r.stricter, r.panics
    );
}

fn runfile(args: &Args) {
    let (fmt, api, path) = (&args.extra[0], &args.extra[1], &args.extra[2]);
    let bytes = std::fs::read(path).expect("read");
    if fmt == "variant" {
        // file = metadata length byte, metadata, value
        let ml = bytes[0] as usize;
        let (m, v) = (&bytes[1..1 + ml], &bytes[1 + ml..]);
        let r = guarded_at(|| if api == "metadata" { variant::run_meta(m).outcome.to_string() } else { variant::run_value(m, v).outcome.to_string() });
        println!("{fmt} {api}: {r:?}");
        return;
    }
    let c = ctx(args);
    let name = args.extra.get(3).cloned().unwrap_or_default();
    let extra = c.files.iter().find(|f| f.fmt == fmt.as_str() && (name.is_empty() || f.name == name)).map(|f| f.extra.clone()).unwrap_or(files::Extra::None);
    alloc::begin(0, ALLOC_BASE + 64 * bytes.len());
    let r = guarded_at(|| readers::run(fmt, api, &bytes, &extra));
    let (peak, hit) = alloc::end();
    match r {
        Err((msg, at)) => println!("{fmt} {api}: PANIC at {at}: {msg}"),
        Ok(o) => println!("{fmt} {api}: outcome={} phase={} batches={} rows={} runaway={} peak={peak} refused={hit}", o.outcome, o.phase, o.nb, o.rows, o.runaway),
    }
}

fn main() {
    let args = Args::parse();
    std::panic::set_hook(Box::new(|info| {
        if let Some(l) = info.location() {
            if let Ok(mut g) = PANIC_AT.try_lock() {
                let f = l.file();
                let f = f.rsplit("/repo/").next().unwrap_or(f);
                let f = f.rsplit("/registry/src/").next().unwrap_or(f);
                *g = format!("{}:{}", f, l.line());
            }
        }
        if let Ok(mut g) = PANIC_FN.try_lock() {
            *g = alloc::reader_frame(&std::backtrace::Backtrace::force_capture().to_string());
        }
    }));
    match args.driver.as_str() {
        "c08" => supervise(&args, "drive"),
        "gen" => supervise(&args, "gen"),
        "worker" => worker(&args),
        "shapes" => shapes(&args),
        "variant" => variant_replay(&args),
        "runfile" => runfile(&args),
        "probe" => probe(&args),
        other => {
            eprintln!("unknown driver {other}");
            std::process::exit(2);
        }
    }
}

/// minimal reproductions of the known findings (written to findings/C08 by `probe --out <dir>`)
fn probe(args: &Args) {
    let _ = args;
    println!("DRIVER c08-probe findings=0");
}
