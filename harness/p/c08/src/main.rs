//! C08 driver: untrusted bytes yield an error or valid data, never an invalid array; no panic, no hang,
//! no allocation unrelated to the size of the input.
//!
//! Sub-commands (first argument):
//!   c08      impl -> spec: byte-level corruptions, truncations, cross-splices of valid files of every
//!            format + corruptions of valid Variant encodings; traces `untrusted-drive-NN.ndjson`
//!   shapes   write the region maps of the base files (`shapes.ndjson`): the input of Gen_Untrusted
//!   gen      spec -> impl: apply every structural plan TLC enumerated (`--cases`); traces `untrusted-gen-NN.ndjson`
//!   variant  spec -> impl: the Variant universes TLC enumerated (`--cases`) against `Variant::try_new`;
//!            trace `untrusted-variant-00.ndjson`
//!   worker   (internal) child process running a share of the sessions
//!   runfile <fmt> <api> <path> [<file name>]   run one reader over the bytes of a file (reproductions)
//!   probe    print / save minimal reproductions of the known findings (findings/C08/*.bin)
//!
//! Isolation: sessions run in child processes (`worker`), several per child.  In the child every session
//! runs under `vcore::guarded` (panic -> outcome "panic" + location), a capping global allocator (a
//! request that would take the session beyond 16 MiB + 64 x input size is refused and recorded ->
//! outcome "alloc"), an address-space limit (backstop for C codec libraries) and a watchdog thread (4 s of
//! CPU or 90 s wall clock -> outcome "hang", the child exits).  The parent restarts a dead child after the
//! session that killed it and records that session's outcome from the markers the child left
//! (`crash` when there is none: abort / stack overflow / signal).
mod alloc;
mod files;
mod plan;
mod readers;
mod variant;
mod walk;

use files::BaseFile;
use plan::Plan;
use std::io::Write;
use std::sync::Mutex;
use vcore::{json, Args, Rng, Value};

#[global_allocator]
static GLOBAL: alloc::Capped = alloc::Capped;

static PANIC_AT: Mutex<String> = Mutex::new(String::new());
static PANIC_FN: Mutex<String> = Mutex::new(String::new());

/// the panic message reduced to its constant head (up to the first ':', '(' or digit): identifies the
/// assertion / unwrap independently of the values it prints
fn msg_head(m: &str) -> String {
    let end = m.find(|c: char| c == ':' || c == '(' || c.is_ascii_digit()).unwrap_or(m.len());
    m[..end].trim().chars().take(70).collect()
}

const WORKERS: usize = 12;
const ALLOC_BASE: usize = 16 << 20;

#[derive(Clone)]
enum Sess {
    File { file: usize, api: &'static str, plan: Plan },
    VarValue { name: String, src: &'static str, meta: Vec<u8>, value: Vec<u8> },
    VarMeta { name: String, src: &'static str, meta: Vec<u8> },
}

struct Ctx {
    files: Vec<BaseFile>,
    thorough: bool,
    seed: u64,
}

fn ctx(args: &Args) -> Ctx {
    let t0 = std::time::Instant::now();
    let r = ctx0(args);
    if std::env::var("C08_TIMING").is_ok() {
        eprintln!("ctx: {:?}", t0.elapsed());
    }
    r
}

fn ctx0(args: &Args) -> Ctx {
    Ctx { files: files::all(args.seed, args.thorough()), thorough: args.thorough(), seed: args.seed }
}

// ------------------------------------------------------------------------------------------ sessions

fn skip_api(c: &Ctx, f: &BaseFile, api: &str) -> bool {
    // flight_data_to_batches has no dictionary support by contract (it passes an empty dictionary map)
    (f.fmt == "flight" && api == "flight_utils" && f.name == "nested")
        // quick tier: the encoding-zoo files are read by the two APIs that decode values
        || (!c.thorough && f.focus == "enc" && api != "arrow_reader" && api != "rows")
}

fn drive_sessions(c: &Ctx) -> Vec<Sess> {
    let mut out = vec![];
    let mut rng = Rng::new(c.seed ^ 0x5E55);
    for (fi, f) in c.files.iter().enumerate() {
        let n = f.bytes.len();
        for (ai, api) in files::apis(f.fmt).iter().enumerate() {
            if skip_api(c, f, api) {
                continue;
            }
            let mut push = |p: Plan| out.push(Sess::File { file: fi, api, plan: p });
            // (b) single-byte corruptions.  quick: every position of short files, otherwise the bytes of the
            // small structural regions (budgeted) and a position sample.  thorough: every position for the
            // primary API of the main files, every 4th position for the other APIs, a larger sample for the
            // one-column-per-type IPC files
            // "typed": files that only get a sample in the thorough tier (one-column-per-type IPC files, the
            // second half of the Parquet encoding / codec grid)
            let typed = (f.name.starts_with('t') && f.name[1..].chars().all(|c| c.is_ascii_digit()))
                || (f.fmt == "parquet" && ["dict_brotli", "delta_lz4", "dict_lz4raw", "bss_plain"].contains(&f.name.as_str()));
            let primary = *api == files::apis(f.fmt)[0] || (f.fmt == "parquet" && *api == "metadata");
            let budget = if c.thorough { 100 } else { 20 };
            let mut positions: Vec<usize> = vec![];
            if (n <= 300 && primary) || (c.thorough && !typed && primary) {
                positions.extend(0..n);
            } else if c.thorough && !typed {
                positions.extend((ai % 4..n).step_by(4));
            } else {
                let mut small: Vec<usize> = f.regions.iter().filter(|r| r.kind != "body" && r.kind != "meta" && r.kind != "line").flat_map(|r| r.lo..r.hi).collect();
                while small.len() > budget / 2 {
                    small.swap_remove(rng.below(small.len()));
                }
                positions.extend(small);
                while positions.len() < budget {
                    positions.push(rng.below(n));
                }
                positions.sort();
                positions.dedup();
            }
            for p in positions {
                for (op, arg) in [("set", "0"), ("set", "255"), ("flip", "lo"), ("flip", "hi")] {
                    push(Plan { src: "byte", op, arg, sel: "abs", pos: p, ..Default::default() });
                }
            }
            // (c) truncations: every length of short files (thorough: of the main files for the primary API), a sample otherwise
            let cuts: Vec<usize> = if (n <= 300 && primary) || (c.thorough && !typed && primary) { (0..n).collect() } else { (0..(if c.thorough { 60 } else { 12 })).map(|_| rng.below(n)).collect() };
            for p in cuts {
                push(Plan { src: "trunc", op: "trunc", sel: "abs", pos: p, ..Default::default() });
            }
            // (d) cross-splices with other valid files of the format (at most 3 donors): a prefix of this file up
            // to a region boundary followed by a suffix of the donor from a region boundary
            let donors: Vec<usize> = (0..c.files.len()).filter(|di| *di != fi && c.files[*di].fmt == f.fmt && !c.files[*di].regions.is_empty()).collect();
            for k in 0..donors.len().min(3) {
                let di = donors[(fi + k * 7) % donors.len()];
                let d = &c.files[di];
                if f.regions.is_empty() {
                    continue;
                }
                for _ in 0..(if c.thorough { 25 } else { 4 }) {
                    let a = f.regions[rng.below(f.regions.len())].lo;
                    let b = d.regions[rng.below(d.regions.len())].lo;
                    push(Plan { src: "splice", op: "xsplice", sel: "abs", pos: a, d: b as i64, donor: di + 1, ..Default::default() });
                }
            }
        }
    }
    // Variant: corruptions of valid encodings
    for (name, m, v) in variant::samples() {
        out.push(Sess::VarValue { name: name.clone(), src: "base", meta: m.clone(), value: v.clone() });
        out.push(Sess::VarMeta { name: name.clone(), src: "base", meta: m.clone() });
        let muts: &[u8] = if c.thorough { &[0, 1, 2, 3, 4, 5] } else { &[1, 2, 4] };
        let stride = if c.thorough || v.len() <= 40 { 1 } else { 2 };
        for p in (0..v.len()).step_by(stride) {
            for k in muts {
                let mut w = v.clone();
                w[p] = mutate_byte(w[p], *k);
                out.push(Sess::VarValue { name: name.clone(), src: "mut", meta: m.clone(), value: w });
            }
        }
        for p in 0..m.len() {
            for k in muts {
                let mut mm = m.clone();
                mm[p] = mutate_byte(mm[p], *k);
                out.push(Sess::VarMeta { name: name.clone(), src: "mut", meta: mm.clone() });
                out.push(Sess::VarValue { name: name.clone(), src: "mutmeta", meta: mm, value: v.clone() });
            }
        }
        for p in (0..v.len()).step_by(stride) {
            out.push(Sess::VarValue { name: name.clone(), src: "trunc", meta: m.clone(), value: v[..p].to_vec() });
        }
        for p in 0..m.len() {
            out.push(Sess::VarMeta { name: name.clone(), src: "trunc", meta: m[..p].to_vec() });
        }
    }
    out
}

fn mutate_byte(b: u8, k: u8) -> u8 {
    match k {
        0 => 0x00,
        1 => 0xFF,
        2 => b ^ 0x01,
        3 => b ^ 0x80,
        4 => b.wrapping_add(1),
        _ => b.wrapping_sub(1),
    }
}

fn gen_sessions(c: &Ctx, cases: &str) -> Vec<Sess> {
    let mut out = vec![];
    for line in cases.lines() {
        let v: Value = serde_json::from_str(line).expect("case");
        let fi = v["f"].as_u64().expect("f") as usize;
        let f = &c.files[fi];
        let mut p = plan::plan_from(&v);
        p.src = "gen";
        // the plan was enumerated for this very region map
        let r = &f.regions[p.r - 1];
        if v["k"].as_str() != Some(r.kind) || v["w"].as_u64() != Some((r.hi - r.lo) as u64) || v["fmt"].as_str() != Some(f.fmt) {
            eprintln!("SHAPE-MISMATCH file {fi} region {}: case {} vs {} w {}", p.r, v, r.kind, r.hi - r.lo);
            std::process::exit(2);
        }
        let apis = files::apis(f.fmt);
        let apis = if c.thorough { apis } else { &apis[..apis.len().min(2)] };
        for (ai, api) in apis.iter().enumerate() {
            if !skip_api(c, f, api) {
                out.push((fi, ai, Sess::File { file: fi, api, plan: p }));
            }
        }
    }
    // grouped by (file, api): see `worker`
    out.sort_by_key(|x| (x.0, x.1));
    out.into_iter().map(|x| x.2).collect()
}

// ------------------------------------------------------------------------------------------ one session

/// innermost reader-crate function on the current stack.  Symbolising a backtrace is slow (tens of ms), so
/// the result is cached under the raw return addresses of the stack (cheap to collect).
fn frame_cached() -> String {
    static CACHE: Mutex<Vec<(Vec<usize>, String)>> = Mutex::new(Vec::new());
    let mut ips = [std::ptr::null_mut::<libc::c_void>(); 48];
    let n = unsafe { libc::backtrace(ips.as_mut_ptr(), 48) }.max(0) as usize;
    let key: Vec<usize> = ips[..n].iter().map(|p| *p as usize).collect();
    if let Ok(c) = CACHE.try_lock() {
        if let Some((_, f)) = c.iter().find(|(k, _)| *k == key) {
            return f.clone();
        }
    }
    let f = alloc::reader_frame(&std::backtrace::Backtrace::force_capture().to_string());
    if let Ok(mut c) = CACHE.try_lock() {
        c.push((key, f.clone()));
    }
    f
}

/// panic -> (constant head of the message + " @ " + innermost function of a reader crate on the stack, location)
fn guarded_at<T>(f: impl FnOnce() -> T) -> Result<T, (String, String)> {
    PANIC_AT.lock().unwrap().clear();
    PANIC_FN.lock().unwrap().clear();
    vcore::guarded(f).map_err(|msg| (format!("{}@{}", msg_head(&msg), PANIC_FN.lock().unwrap()), PANIC_AT.lock().unwrap().clone()))
}

fn file_of(at: &str) -> &str {
    at.rsplit_once(':').map(|x| x.0).unwrap_or(at)
}

/// everything of the event that does not depend on running the reader
fn file_event(c: &Ctx, sid: usize, file: usize, api: &str, p: &Plan) -> Option<(Value, Vec<u8>)> {
    let f = &c.files[file];
    let donor = if p.donor > 0 { c.files.get(p.donor - 1) } else { None };
    let a = plan::apply(f, donor, p)?;
    let (dlo, dhi) = plan::diff(&f.bytes, &a.bytes);
    let (kind, lo, hi, flo, fhi) = if p.r > 0 {
        let r = &f.regions[p.r - 1];
        let g = r.grp;
        let flo = f.regions.iter().filter(|x| x.grp == g).map(|x| x.lo).min().unwrap();
        let fhi = f.regions.iter().filter(|x| x.grp == g).map(|x| x.hi).max().unwrap();
        (r.kind, r.lo, r.hi, flo, fhi)
    } else if p.sel == "abs" {
        // informational: the region the absolute position lies in
        match f.regions.iter().find(|x| x.lo <= p.pos && p.pos < x.hi) {
            Some(r) => (r.kind, r.lo, r.hi, r.lo, r.hi),
            None => ("none", 0, 0, 0, 0),
        }
    } else {
        ("none", 0, 0, 0, 0)
    };
    let lastgrp = kind != "none" && f.regions.last().map(|l| f.regions.iter().any(|x| x.lo == lo && x.grp == l.grp)).unwrap_or(false);
    let ev = json!({
        "ev": "session", "sid": sid, "fmt": f.fmt, "api": api, "file": f.name,
        "src": p.src, "op": p.op, "arg": p.arg, "sel": p.sel, "d": p.d, "fix": p.fix, "r": p.r, "pos": p.pos, "donor": p.donor,
        "kind": kind, "lo": lo, "hi": hi, "flo": flo, "fhi": fhi, "lastgrp": lastgrp,
        "baselen": f.bytes.len(), "newlen": a.bytes.len(), "dlo": dlo, "dhi": dhi, "at": a.at, "oldw": a.oldw, "neww": a.neww,
    });
    Some((ev, a.bytes))
}

fn finish_event(mut ev: Value, outcome: &str, wher: &str, msg: &str, o: Option<&readers::Out>, peak: usize, base: &[String]) -> Value {
    let m = ev.as_object_mut().unwrap();
    m.insert("outcome".into(), json!(outcome));
    m.insert("where".into(), json!(wher));
    m.insert("wfile".into(), json!(file_of(wher)));
    let (head, func) = msg.split_once('@').unwrap_or((msg, ""));
    m.insert("msg".into(), json!(head));
    m.insert("fn".into(), json!(func));
    m.insert("fmod".into(), json!(alloc::fn_module(func)));
    let none: Vec<Value> = vec![];
    match o {
        Some(o) => {
            m.insert("phase".into(), json!(o.phase));
            m.insert("has_declared".into(), json!(o.has_declared));
            m.insert("declared".into(), json!(o.declared));
            // a batch identical (as a dump) to batch k of the group's uncorrupted session is recorded as `ref: k`
            let bs: Vec<Value> = o
                .batches
                .iter()
                .map(|b| {
                    let mut b = b.clone();
                    let key = serde_json::to_string(&b).unwrap();
                    let r = base.iter().position(|x| *x == key).map(|i| i + 1).unwrap_or(0);
                    let m = b.as_object_mut().unwrap();
                    if r > 0 {
                        let none: Vec<Value> = vec![];
                        let nos: Vec<String> = vec![];
                        m.insert("cols".into(), json!(none));
                        m.insert("schema".into(), json!(none));
                        m.insert("decl".into(), json!(none));
                        m.insert("lens".into(), json!(none));
                        m.insert("types".into(), json!(nos));
                    }
                    m.insert("ref".into(), json!(r));
                    b
                })
                .collect();
            m.insert("batches".into(), json!(bs));
            m.insert("nb".into(), json!(o.nb));
            m.insert("big".into(), json!(o.big));
            m.insert("units".into(), json!(o.units.min(1 << 30)));
        }
        None => {
            m.insert("phase".into(), json!(""));
            m.insert("has_declared".into(), json!(false));
            m.insert("declared".into(), json!(none));
            m.insert("batches".into(), json!(none));
            m.insert("nb".into(), json!(0));
            m.insert("big".into(), json!(0));
            m.insert("units".into(), json!(0));
        }
    }
    m.insert("peak".into(), json!(peak.min(1 << 30)));
    ev
}

fn run_session(c: &Ctx, sid: usize, s: &Sess, base: &[String]) -> Option<Value> {
    match s {
        Sess::File { file, api, plan } => {
            let (ev, bytes) = file_event(c, sid, *file, api, plan)?;
            let f = &c.files[*file];
            alloc::begin(sid, ALLOC_BASE + 64 * bytes.len());
            let r = guarded_at(|| readers::run(f.fmt, api, &bytes, &f.extra));
            let ms = (alloc::cpu_ns().saturating_sub(alloc::CPU0.load(std::sync::atomic::Ordering::Relaxed)) / 1_000_000) as usize;
            let (peak, hit) = alloc::end();
            let mut ev = ev;
            ev.as_object_mut().unwrap().insert("ms".into(), json!(ms.min(1 << 30)));
            Some(match r {
                Err((msg, at)) => finish_event(ev, "panic", &at, &msg, None, peak, base),
                Ok(o) => {
                    let outcome = if hit > 0 {
                        "alloc"
                    } else if o.runaway {
                        "hang"
                    } else {
                        o.outcome.as_str()
                    };
                    let wher = if hit > 0 { format!("alloc@{}", alloc::REFUSED_BY.lock().unwrap()) } else if o.runaway { "unbounded output".to_string() } else { String::new() };
                    finish_event(ev, outcome, "", &wher, Some(&o), peak, base)
                }
            })
        }
        Sess::VarValue { src, meta, value, .. } => {
            alloc::begin(sid, ALLOC_BASE);
            let r = guarded_at(|| variant::run_value(meta, value));
            let (_, hit) = alloc::end();
            Some(match r {
                Err((msg, at)) => variant::value_event(src, meta, value, "panic", &format!("{}|{msg}", file_of(&at)), ""),
                Ok(_) if hit > 0 => variant::value_event(src, meta, value, "alloc", "", ""),
                Ok(o) => variant::value_event(src, meta, value, o.outcome, "", &o.tok),
            })
        }
        Sess::VarMeta { src, meta, .. } => {
            alloc::begin(sid, ALLOC_BASE);
            let r = guarded_at(|| variant::run_meta(meta));
            let (_, hit) = alloc::end();
            Some(match r {
                Err((msg, at)) => variant::meta_event(src, meta, "panic", &format!("{}|{msg}", file_of(&at)), &[]),
                Ok(_) if hit > 0 => variant::meta_event(src, meta, "alloc", "", &[]),
                Ok(o) => variant::meta_event(src, meta, o.outcome, "", &o.names),
            })
        }
    }
}

/// the event of a session that killed its worker process
fn dead_event(c: &Ctx, sid: usize, s: &Sess, outcome: &str, wher: &str) -> Option<Value> {
    match s {
        Sess::File { file, api, plan } => {
            let (ev, _) = file_event(c, sid, *file, api, plan)?;
            let mut ev = ev;
            ev.as_object_mut().unwrap().insert("ms".into(), json!(0));
            Some(finish_event(ev, outcome, "", wher, None, 0, &[]))
        }
        Sess::VarValue { src, meta, value, .. } => Some(variant::value_event(src, meta, value, outcome, wher, "")),
        Sess::VarMeta { src, meta, .. } => Some(variant::meta_event(src, meta, outcome, wher, &[])),
    }
}

// ------------------------------------------------------------------------------------------ worker / supervisor

fn sessions_for(c: &Ctx, mode: &str, cases: Option<&String>) -> Vec<Sess> {
    match mode {
        "gen" => gen_sessions(c, &std::fs::read_to_string(cases.expect("--cases")).expect("cases file")),
        _ => drive_sessions(c),
    }
}

/// the session list is computed once by the supervising process and handed to the workers as a text file
/// (a worker is restarted after every session that kills it: its start-up must be cheap)
fn write_sessions(path: &str, sessions: &[Sess]) {
    let hex = |b: &[u8]| b.iter().map(|x| format!("{x:02x}")).collect::<String>();
    let dash = |s: &str| if s.is_empty() { "-".to_string() } else { s.to_string() };
    let mut o = String::new();
    for s in sessions {
        match s {
            Sess::File { file, api, plan: p } => {
                o.push_str(&format!("F {file} {api} {} {} {} {} {} {} {} {} {}\n", p.src, p.op, dash(p.arg), dash(p.sel), p.d, p.fix as u8, p.r, p.pos, p.donor));
            }
            Sess::VarValue { name, src, meta, value } => o.push_str(&format!("V {name} {src} {} {}.\n", hex(meta), hex(value))),
            Sess::VarMeta { name, src, meta } => o.push_str(&format!("M {name} {src} {}.\n", hex(meta))),
        }
    }
    std::fs::write(path, o).expect("write sessions");
}

fn read_sessions(path: &str) -> Vec<Sess> {
    let unhex = |s: &str| -> Vec<u8> { let s = s.trim_end_matches('.'); (0..s.len() / 2).map(|i| u8::from_str_radix(&s[2 * i..2 * i + 2], 16).unwrap()).collect() };
    let undash = |s: &str| plan::intern(if s == "-" { "" } else { s });
    let text = std::fs::read_to_string(path).expect("sessions file");
    let mut out = Vec::new();
    for l in text.lines() {
        let f: Vec<&str> = l.split(' ').collect();
        match f[0] {
            "F" => out.push(Sess::File {
                file: f[1].parse().unwrap(),
                api: plan::intern(f[2]),
                plan: Plan {
                    src: plan::intern(f[3]),
                    op: plan::intern(f[4]),
                    arg: undash(f[5]),
                    sel: undash(f[6]),
                    d: f[7].parse().unwrap(),
                    fix: f[8] == "1",
                    r: f[9].parse().unwrap(),
                    pos: f[10].parse().unwrap(),
                    donor: f[11].parse().unwrap(),
                },
            }),
            "V" => out.push(Sess::VarValue { name: f[1].to_string(), src: plan::intern(f[2]), meta: unhex(f[3]), value: unhex(f[4]) }),
            _ => out.push(Sess::VarMeta { name: f[1].to_string(), src: plan::intern(f[2]), meta: unhex(f[3]) }),
        }
    }
    out
}

/// trace files: `untrusted-<mode>-<worker>-<chunk>.ndjson`; a worker starts a new chunk every CHUNK events so
/// that one TLC process never has to load a huge trace (every chunk starts with a base session)
const CHUNK: usize = 6000;

fn shard_path(out: &str, mode: &str, i: usize, chunk: usize) -> String {
    format!("{out}/untrusted-{mode}-{i:02}-{chunk:03}.ndjson")
}

/// (index, number of lines) of the last chunk worker `i` has written
fn last_chunk(out: &str, mode: &str, i: usize) -> (usize, usize) {
    let mut c = 0;
    while std::path::Path::new(&shard_path(out, mode, i, c + 1)).exists() {
        c += 1;
    }
    let n = std::fs::read(shard_path(out, mode, i, c)).map(|b| b.iter().filter(|x| **x == b'\n').count()).unwrap_or(0);
    (c, n)
}

fn worker(args: &Args) {
    let mode = args.extra[0].clone();
    let w: usize = args.extra[1].parse().unwrap();
    let from: usize = args.extra[2].parse().unwrap();
    let c = ctx(args);
    let sessions = read_sessions(&format!("{}/sessions-{mode}.txt", args.out));
    let prog = std::fs::OpenOptions::new().create(true).append(true).open(format!("{}/prog-{mode}-{w}.txt", args.out)).unwrap();
    use std::os::fd::AsRawFd;
    alloc::MARK_FD.store(prog.as_raw_fd(), std::sync::atomic::Ordering::Relaxed);
    alloc::cap_address_space(6 << 30);
    alloc::start_watchdog(4, 90);
    let (mut chunk, mut written) = last_chunk(&args.out, &mode, w);
    let open = |chunk: usize| std::fs::OpenOptions::new().create(true).append(true).open(shard_path(&args.out, &mode, w, chunk)).unwrap();
    let mut shard = open(chunk);
    // sessions are grouped by (file, api): at the start of its share of a group the worker runs the
    // uncorrupted session itself and records it (src = "base"); batches of the following sessions that are
    // identical to a base batch are recorded as references to it
    let mut group: Option<(usize, &'static str)> = None;
    let mut base: Vec<String> = vec![];
    for (k, s) in sessions.iter().enumerate() {
        if k % WORKERS != w || k < from {
            continue;
        }
        if written >= CHUNK {
            chunk += 1;
            written = 0;
            shard = open(chunk);
            group = None;
        }
        if let Sess::File { file, api, .. } = s {
            if group != Some((*file, *api)) {
                group = Some((*file, *api));
                base.clear();
                let b = Sess::File { file: *file, api, plan: Plan { src: "base", op: "none", ..Default::default() } };
                if let Some(ev) = run_session(&c, k, &b, &[]) {
                    base = ev["batches"].as_array().map(|a| a.iter().map(|x| { let mut x = x.clone(); x.as_object_mut().unwrap().remove("ref"); serde_json::to_string(&x).unwrap() }).collect()).unwrap_or_default();
                    let mut line = serde_json::to_vec(&ev).unwrap();
                    line.push(b'\n');
                    shard.write_all(&line).unwrap();
                    written += 1;
                }
            }
        }
        alloc::mark(b'S', k, 0);
        if let Some(ev) = run_session(&c, k, s, &base) {
            let mut line = serde_json::to_vec(&ev).unwrap();
            line.push(b'\n');
            shard.write_all(&line).unwrap();
            written += 1;
        }
        alloc::mark(b'D', k, 0);
    }
    drop(prog);
}

fn supervise(args: &Args, mode: &str) {
    let c = ctx(args);
    let sessions = sessions_for(&c, mode, args.cases.as_ref());
    let exe = std::env::current_exe().unwrap();
    std::fs::create_dir_all(&args.out).unwrap();
    write_sessions(&format!("{}/sessions-{mode}.txt", args.out), &sessions);
    for w in 0..WORKERS {
        for c in 0..10_000 {
            if std::fs::remove_file(shard_path(&args.out, mode, w, c)).is_err() {
                break;
            }
        }
        let _ = std::fs::remove_file(format!("{}/prog-{mode}-{w}.txt", args.out));
    }
    let spawn = |w: usize, from: usize| {
        let mut cmd = std::process::Command::new(&exe);
        cmd.arg("worker").arg(mode).arg(w.to_string()).arg(from.to_string()).arg("--tier").arg(&args.tier).arg("--seed").arg(args.seed.to_string()).arg("--out").arg(&args.out);
        if let Some(cs) = &args.cases {
            cmd.arg("--cases").arg(cs);
        }
        cmd.stdout(std::process::Stdio::null()).stderr(std::process::Stdio::null()).spawn().expect("spawn worker")
    };
    let mut kids: Vec<(usize, std::process::Child, usize)> = (0..WORKERS).map(|w| (w, spawn(w, 0), 0)).collect();
    let mut dead = 0usize;
    let mut restarts = 0usize;
    loop {
        // poll every worker: a dead one is restarted at once, whatever the others are doing
        let mut finished: Option<(usize, std::process::ExitStatus)> = None;
        for (i, (_, child, _)) in kids.iter_mut().enumerate() {
            if let Some(st) = child.try_wait().expect("wait") {
                finished = Some((i, st));
                break;
            }
        }
        let Some((i, st)) = finished else {
            if kids.is_empty() {
                break;
            }
            std::thread::sleep(std::time::Duration::from_millis(15));
            continue;
        };
        let (w, _, _) = kids.swap_remove(i);
        if st.success() {
            continue;
        }
        // which session was running?
        let prog = std::fs::read_to_string(format!("{}/prog-{mode}-{w}.txt", args.out)).unwrap_or_default();
        let mut running: Option<usize> = None;
        let mut marker: Option<(char, usize)> = None;
        let mut by = String::new();
        for l in prog.lines() {
            let mut it = l.split(' ');
            let (t, a, b) = (it.next().unwrap_or(""), it.next().and_then(|x| x.parse::<usize>().ok()), it.next().and_then(|x| x.parse::<usize>().ok()));
            match (t, a) {
                ("S", Some(k)) => {
                    running = Some(k);
                    marker = None;
                    by.clear();
                }
                ("D", Some(_)) => running = None,
                ("A", Some(_)) => marker = Some(('A', b.unwrap_or(0))),
                ("F", _) => by = l[2..].to_string(),
                ("H", Some(_)) => marker = Some(('H', b.unwrap_or(0))),
                _ => {}
            }
        }
        let Some(k) = running else {
            eprintln!("worker {w} died outside a session: {st:?}");
            std::process::exit(2);
        };
        use std::os::unix::process::ExitStatusExt;
        let (outcome, wher) = match marker {
            Some(('A', _)) => ("alloc", format!("alloc@{by}")),
            Some(('H', ms)) => ("hang", { let _ = ms; "watchdog".to_string() }),
            _ => ("crash", format!("signal {}", st.signal().unwrap_or(0))),
        };
        if let Some(ev) = dead_event(&c, k, &sessions[k], outcome, &wher) {
            let (chunk, _) = last_chunk(&args.out, mode, w);
            let mut shard = std::fs::OpenOptions::new().create(true).append(true).open(shard_path(&args.out, mode, w, chunk)).unwrap();
            let mut line = serde_json::to_vec(&ev).unwrap();
            line.push(b'\n');
            shard.write_all(&line).unwrap();
        }
        let mut pf = std::fs::OpenOptions::new().append(true).open(format!("{}/prog-{mode}-{w}.txt", args.out)).unwrap();
        let _ = writeln!(pf, "D {k} 0");
        dead += 1;
        restarts += 1;
        if restarts > 2000 {
            eprintln!("too many worker restarts");
            std::process::exit(2);
        }
        kids.push((w, spawn(w, k + 1), k + 1));
    }
    // summary
    let mut counts: std::collections::BTreeMap<String, usize> = Default::default();
    let mut events = 0;
    for w in 0..WORKERS {
        for c in 0..=last_chunk(&args.out, mode, w).0 {
            let Ok(t) = std::fs::read_to_string(shard_path(&args.out, mode, w, c)) else { continue };
            for l in t.lines() {
                events += 1;
                if let Some(i) = l.find("\"outcome\":\"") {
                    let r = &l[i + 11..];
                    *counts.entry(r[..r.find('"').unwrap_or(0)].to_string()).or_default() += 1;
                }
            }
        }
        let _ = std::fs::remove_file(format!("{}/prog-{mode}-{w}.txt", args.out));
    }
    let _ = std::fs::remove_file(format!("{}/sessions-{mode}.txt", args.out));
    if mode == "gen" {
        println!("REPLAYED {events}");
    }
    let cs: Vec<String> = counts.iter().map(|(k, v)| format!("{k}={v}")).collect();
    println!("DRIVER c08-{mode} sessions={} events={events} files={} killed_workers={dead} {}", sessions.len(), c.files.len(), cs.join(" "));
}

// ------------------------------------------------------------------------------------------ other commands

fn shapes(args: &Args) {
    let c = ctx(args);
    std::fs::create_dir_all(&args.out).unwrap();
    let mut f = std::fs::File::create(format!("{}/shapes.ndjson", args.out)).unwrap();
    let mut nf = 0;
    let mut nr = 0;
    for (fi, b) in c.files.iter().enumerate() {
        let typed = b.name.starts_with('t') && b.name[1..].chars().all(|c| c.is_ascii_digit());
        if !((c.thorough && !typed) || b.gen_quick) || b.regions.is_empty() {
            continue;
        }
        let regs: Vec<Value> = b.regions.iter().map(|r| json!({"k": r.kind, "g": r.grp, "w": r.hi - r.lo, "e": r.encl})).collect();
        nr += regs.len();
        nf += 1;
        let focus = if c.thorough { "" } else { b.focus };
        writeln!(f, "{}", json!({"f": fi, "fmt": b.fmt, "name": b.name, "n": b.bytes.len(), "focus": focus, "regs": regs})).unwrap();
    }
    println!("DRIVER c08-shapes files={nf} regions={nr}");
}

fn variant_replay(args: &Args) {
    let text = std::fs::read_to_string(args.cases.as_ref().expect("--cases")).unwrap();
    let cases: Vec<Value> = text.lines().map(|l| serde_json::from_str(l).unwrap()).collect();
    let r = variant::replay(&cases, &|f| match guarded_at(f) {
        Ok((o, t)) => (o, String::new(), t),
        Err((msg, at)) => ("panic".to_string(), format!("{}|{msg}", file_of(&at)), String::new()),
    });
    let mut t = vcore::Trace::create(&args.out, "untrusted-gen-v0");
    let n = r.events.len();
    for e in r.events {
        t.emit(e);
    }
    t.finish();
    println!("REPLAYED {}", r.enumerated);
    println!(
        "DRIVER c08-variant enumerated={} accepted={} explained_by_tlc_cases={} events={n} stricter_than_spec={} panics={}",
        r.enumerated, r.accepted, r.explained, r.stricter, r.panics
    );
}

fn runfile(args: &Args) {
    let (fmt, api, path) = (&args.extra[0], &args.extra[1], &args.extra[2]);
    alloc::MARK_FD.store(2, std::sync::atomic::Ordering::Relaxed); // markers (A / F / H lines) go to stderr
    alloc::start_watchdog(std::env::var("C08_CPU_S").ok().and_then(|x| x.parse().ok()).unwrap_or(5), 600);
    let bytes = std::fs::read(path).expect("read");
    if fmt == "variant" {
        // file = metadata length byte, metadata, value
        let ml = bytes[0] as usize;
        let (m, v) = (&bytes[1..1 + ml], &bytes[1 + ml..]);
        let r = guarded_at(|| if api == "metadata" { variant::run_meta(m).outcome.to_string() } else { variant::run_value(m, v).outcome.to_string() });
        println!("{fmt} {api}: {r:?}");
        return;
    }
    let c = ctx(args);
    let name = args.extra.get(3).cloned().unwrap_or_default();
    let extra = c.files.iter().find(|f| f.fmt == fmt.as_str() && (name.is_empty() || f.name == name)).map(|f| f.extra.clone()).unwrap_or(files::Extra::None);
    alloc::begin(0, ALLOC_BASE + 64 * bytes.len());
    let r = guarded_at(|| readers::run(fmt, api, &bytes, &extra));
    let (peak, hit) = alloc::end();
    match r {
        Err((msg, at)) => println!("{fmt} {api}: PANIC at {at}: {msg}"),
        Ok(o) => println!("{fmt} {api}: outcome={} phase={} batches={} rows={} runaway={} peak={peak} refused={hit}", o.outcome, o.phase, o.nb, o.rows, o.runaway),
    }
}

fn main() {
    let args = Args::parse();
    std::panic::set_hook(Box::new(|info| {
        if let Some(l) = info.location() {
            if let Ok(mut g) = PANIC_AT.try_lock() {
                let f = l.file();
                let f = f.rsplit("/repo/").next().unwrap_or(f);
                // crates of the registry: drop the index directory, keep `<crate>-<version>/src/..`
                let f = match f.rsplit_once("/registry/src/") {
                    Some((_, t)) => t.split_once('/').map(|x| x.1).unwrap_or(t),
                    None => f,
                };
                *g = format!("{}:{}", f, l.line());
            }
        }
        if let Ok(mut g) = PANIC_FN.try_lock() {
            // symbolising the stack is the harness's time, not the reader's
            let saved = alloc::suspend();
            *g = frame_cached();
            alloc::resume(saved);
        }
    }));
    match args.driver.as_str() {
        "c08" => supervise(&args, "drive"),
        "gen" => supervise(&args, "gen"),
        "worker" => worker(&args),
        "shapes" => shapes(&args),
        "variant" => variant_replay(&args),
        "runfile" => runfile(&args),
        "probe" => probe(&args),
        "save" => save(&args),
        "count" => {
            let c = ctx(&args);
            let mut m: std::collections::BTreeMap<String, usize> = Default::default();
            for s in drive_sessions(&c) {
                let k = match &s {
                    Sess::File { file, plan, .. } => format!("{}:{}", c.files[*file].fmt, plan.src),
                    Sess::VarValue { src, .. } => format!("variant:{src}"),
                    Sess::VarMeta { src, .. } => format!("vmeta:{src}"),
                };
                *m.entry(k).or_default() += 1;
            }
            println!("{m:?} total={}", m.values().sum::<usize>());
            for f in &c.files {
                let enc = f.regions.iter().filter(|r| r.kind == "enc").count();
                let mut encs = String::new();
                if f.fmt == "parquet" {
                    if let Ok(md) = parquet::file::metadata::ParquetMetaDataReader::new().parse_and_finish(&bytes::Bytes::from(f.bytes.clone())) {
                        for col in md.row_group(0).columns() {
                            encs.push_str(&format!(" {}:{:?}", col.column_path(), col.encodings().collect::<Vec<_>>()));
                        }
                    }
                }
                println!("{} {} {} bytes {} regions {enc} enc{encs}", f.fmt, f.name, f.bytes.len(), f.regions.len());
            }
        }
        other => {
            eprintln!("unknown driver {other}");
            std::process::exit(2);
        }
    }
}

/// `save <event.json> <out path>`: rebuild the corrupted input of a recorded session (same --tier / --seed
/// as the run that recorded it) and write it to a file; Variant events are written as
/// [metadata length byte, metadata, value]
fn save(args: &Args) {
    let ev: Value = serde_json::from_str(&std::fs::read_to_string(&args.extra[0]).expect("event file")).expect("json");
    let bytes_of = |v: &Value| -> Vec<u8> { v.as_array().map(|a| a.iter().map(|x| x.as_u64().unwrap_or(0) as u8).collect()).unwrap_or_default() };
    let out: Vec<u8> = if ev["ev"] == "session" {
        let c = ctx(args);
        let fi = c.files.iter().position(|f| f.fmt == ev["fmt"].as_str().unwrap_or("") && f.name == ev["file"].as_str().unwrap_or("")).expect("base file");
        let p = plan::plan_from(&ev);
        let donor = if p.donor > 0 { c.files.get(p.donor - 1) } else { None };
        plan::apply(&c.files[fi], donor, &p).expect("plan applies").bytes
    } else {
        let m = bytes_of(&ev["meta"]);
        let mut o = vec![m.len() as u8];
        o.extend_from_slice(&m);
        o.extend_from_slice(&bytes_of(&ev["value"]));
        o
    };
    std::fs::write(&args.extra[1], &out).expect("write");
    println!("saved {} bytes to {}", out.len(), args.extra[1]);
}

fn probe(args: &Args) {
    // the reproductions are files: findings/C08/<id>.bin, replayed with `c08 runfile <fmt> <api> <path> [<base file name>]`
    let dir = args.extra.first().cloned().unwrap_or_else(|| "/verif/findings/C08".to_string());
    let Ok(idx) = std::fs::read_to_string(format!("{dir}/INDEX.txt")) else {
        println!("DRIVER c08-probe findings=0");
        return;
    };
    let exe = std::env::current_exe().unwrap();
    let mut n = 0;
    for line in idx.lines() {
        let f: Vec<&str> = line.split_whitespace().collect();
        if f.len() < 4 {
            continue;
        }
        // id fmt api file [base name]; each reproduction runs in a child process (it may abort)
        let mut cmd = std::process::Command::new(&exe);
        cmd.arg("runfile").arg(f[1]).arg(f[2]).arg(format!("{dir}/{}", f[3]));
        if let Some(b) = f.get(4) {
            cmd.arg(b);
        }
        let o = cmd.arg("--tier").arg(&args.tier).arg("--seed").arg(args.seed.to_string()).output().expect("run");
        let txt = String::from_utf8_lossy(&o.stdout);
        let res = txt.lines().last().unwrap_or("").to_string();
        let err = String::from_utf8_lossy(&o.stderr);
        let by = err.lines().find(|l| l.starts_with("F ")).map(|l| format!(" alloc@{}", &l[2..])).unwrap_or_default();
        let hang = if err.lines().any(|l| l.starts_with("H ")) { " hang@" } else { "" };
        println!("{}: {}{by}{hang}", f[0], if o.status.success() { res } else { format!("process died: {:?}", o.status) });
        n += 1;
    }
    println!("DRIVER c08-probe findings={n}");
}
