//! Capping, counting global allocator + per-session watchdog state.
//!
//! The allocator counts live bytes.  While a session is running (`begin` .. `end`) a request that would
//! make the bytes allocated *since the session began* exceed the session limit is refused (null) and
//! recorded: a marker line `A <session> <bytes>` is written with `write(2)` to the progress file (no
//! allocation, async-signal safe) and `HIT` is set.  A refused request usually aborts the process
//! (`handle_alloc_error`); the supervising parent process reads the marker and records the outcome
//! `alloc` for that session.  When the reader handles the refusal gracefully (`try_reserve`) the worker
//! itself reports `alloc`.
use std::alloc::{GlobalAlloc, Layout, System};
use std::sync::atomic::{AtomicI32, AtomicU64, AtomicUsize, Ordering::Relaxed};

pub struct Capped;

static LIVE: AtomicUsize = AtomicUsize::new(0);
static BASE: AtomicUsize = AtomicUsize::new(0);
static PEAK: AtomicUsize = AtomicUsize::new(0);
static LIMIT: AtomicUsize = AtomicUsize::new(usize::MAX);
static HIT: AtomicUsize = AtomicUsize::new(0);
pub static MARK_FD: AtomicI32 = AtomicI32::new(-1);
/// index of the running session (usize::MAX: none), CPU time (ns) and wall time (ms) at its start
pub static CUR: AtomicUsize = AtomicUsize::new(usize::MAX);
pub static CPU0: AtomicU64 = AtomicU64::new(0);
pub static WALL0: AtomicU64 = AtomicU64::new(0);

fn itoa(mut v: usize, out: &mut [u8; 24]) -> usize {
    let mut tmp = [0u8; 24];
    let mut n = 0;
    if v == 0 {
        tmp[0] = b'0';
        n = 1;
    }
    while v > 0 {
        tmp[n] = b'0' + (v % 10) as u8;
        v /= 10;
        n += 1;
    }
    for i in 0..n {
        out[i] = tmp[n - 1 - i];
    }
    n
}

/// write `<tag> <a> <b>\n` to the marker fd without allocating
pub fn mark(tag: u8, a: usize, b: usize) {
    let fd = MARK_FD.load(Relaxed);
    if fd < 0 {
        return;
    }
    let mut line = [0u8; 64];
    let mut n = 0;
    line[n] = tag;
    n += 1;
    line[n] = b' ';
    n += 1;
    let mut t = [0u8; 24];
    let k = itoa(a, &mut t);
    line[n..n + k].copy_from_slice(&t[..k]);
    n += k;
    line[n] = b' ';
    n += 1;
    let k = itoa(b, &mut t);
    line[n..n + k].copy_from_slice(&t[..k]);
    n += k;
    line[n] = b'\n';
    n += 1;
    unsafe {
        libc::write(fd, line.as_ptr() as *const libc::c_void, n);
    }
}

/// the innermost stack frame that belongs to one of the reader crates (identifies the call site of a
/// panic / a refused allocation independently of line numbers)
pub fn reader_frame(bt: &str) -> String {
    const CRATES: [&str; 8] = ["arrow_ipc::", "arrow_flight::", "parquet::", "parquet_variant::", "arrow_avro::", "arrow_csv::", "arrow_json::", "arrow_cast::"];
    for line in bt.lines() {
        let t = line.trim_start();
        let Some((n, sym)) = t.split_once(": ") else { continue };
        if n.is_empty() || !n.bytes().all(|b| b.is_ascii_digit()) {
            continue;
        }
        if CRATES.iter().any(|c| sym.contains(c)) {
            let sym = match sym.rfind("::h") {
                Some(i) if sym.len() - i == 19 => &sym[..i],
                _ => sym,
            };
            return sym.chars().filter(|c| *c != '"' && *c != '\\').take(200).collect();
        }
    }
    String::new()
}

/// `crate::module` of a symbol name (`<a::b::T as ..>::f` -> `a::b`)
pub fn fn_module(f: &str) -> String {
    let f = f.trim_start_matches('<');
    let mut it = f.split("::");
    match (it.next(), it.next()) {
        (Some(a), Some(b)) if !a.is_empty() => format!("{a}::{b}"),
        _ => String::new(),
    }
}

thread_local! {
    static IN_REFUSAL: std::cell::Cell<bool> = const { std::cell::Cell::new(false) };
}

/// write the `A` marker of a refused request, with the reader function that asked for the memory
fn refused(sz: usize) {
    if IN_REFUSAL.with(|g| g.replace(true)) {
        return;
    }
    let saved = suspend(); // the backtrace itself allocates
    let f = reader_frame(&std::backtrace::Backtrace::force_capture().to_string());
    mark(b'A', CUR.load(Relaxed), sz);
    let fd = MARK_FD.load(Relaxed);
    if fd >= 0 {
        let line = format!("F {f}\n");
        unsafe {
            libc::write(fd, line.as_ptr() as *const libc::c_void, line.len());
        }
    }
    if let Ok(mut g) = REFUSED_BY.try_lock() {
        *g = f;
    }
    resume(saved);
    IN_REFUSAL.with(|g| g.set(false));
}

pub static REFUSED_BY: std::sync::Mutex<String> = std::sync::Mutex::new(String::new());

#[inline]
fn admit(sz: usize) -> bool {
    let lim = LIMIT.load(Relaxed);
    if lim == usize::MAX {
        return true;
    }
    let grown = LIVE.load(Relaxed).saturating_sub(BASE.load(Relaxed)).saturating_add(sz);
    if grown > lim {
        if HIT.swap(sz.max(1), Relaxed) == 0 {
            refused(sz);
        }
        false
    } else {
        true
    }
}

#[inline]
fn grew(sz: usize) {
    let l = LIVE.fetch_add(sz, Relaxed) + sz;
    if l > PEAK.load(Relaxed) {
        PEAK.store(l, Relaxed);
    }
}

unsafe impl GlobalAlloc for Capped {
    unsafe fn alloc(&self, l: Layout) -> *mut u8 {
        if !admit(l.size()) {
            return std::ptr::null_mut();
        }
        let p = unsafe { System.alloc(l) };
        if !p.is_null() {
            grew(l.size());
        }
        p
    }
    unsafe fn alloc_zeroed(&self, l: Layout) -> *mut u8 {
        if !admit(l.size()) {
            return std::ptr::null_mut();
        }
        let p = unsafe { System.alloc_zeroed(l) };
        if !p.is_null() {
            grew(l.size());
        }
        p
    }
    unsafe fn dealloc(&self, p: *mut u8, l: Layout) {
        unsafe { System.dealloc(p, l) };
        LIVE.fetch_sub(l.size(), Relaxed);
    }
    unsafe fn realloc(&self, p: *mut u8, l: Layout, new: usize) -> *mut u8 {
        if new > l.size() && !admit(new - l.size()) {
            return std::ptr::null_mut();
        }
        let q = unsafe { System.realloc(p, l, new) };
        if !q.is_null() {
            if new >= l.size() {
                grew(new - l.size());
            } else {
                LIVE.fetch_sub(l.size() - new, Relaxed);
            }
        }
        q
    }
}

pub fn cpu_ns() -> u64 {
    let mut ts = libc::timespec { tv_sec: 0, tv_nsec: 0 };
    unsafe {
        libc::clock_gettime(libc::CLOCK_PROCESS_CPUTIME_ID, &mut ts);
    }
    ts.tv_sec as u64 * 1_000_000_000 + ts.tv_nsec as u64
}

pub fn wall_ms() -> u64 {
    let mut ts = libc::timespec { tv_sec: 0, tv_nsec: 0 };
    unsafe {
        libc::clock_gettime(libc::CLOCK_MONOTONIC, &mut ts);
    }
    ts.tv_sec as u64 * 1000 + ts.tv_nsec as u64 / 1_000_000
}

/// Harness work inside a session (symbolising a stack): `suspend` lifts the session limit, `resume` restores
/// it and discounts what the harness allocated meanwhile (symbol tables stay cached).
/// While set the watchdog does not look at the clock: the time belongs to the harness, not to the reader.
static PAUSED: std::sync::atomic::AtomicBool = std::sync::atomic::AtomicBool::new(false);

pub fn suspend() -> (usize, usize, u64, u64) {
    PAUSED.store(true, Relaxed);
    (LIMIT.swap(usize::MAX, Relaxed), LIVE.load(Relaxed), cpu_ns(), wall_ms())
}

pub fn resume(saved: (usize, usize, u64, u64)) {
    let grown = LIVE.load(Relaxed).saturating_sub(saved.1);
    BASE.fetch_add(grown, Relaxed);
    LIMIT.store(saved.0, Relaxed);
    // the session clock does not run while the harness works
    CPU0.fetch_add(cpu_ns().saturating_sub(saved.2), Relaxed);
    WALL0.fetch_add(wall_ms().saturating_sub(saved.3), Relaxed);
    PAUSED.store(false, Relaxed);
}

/// start of a session: allocation of more than `limit` bytes beyond what is live now is refused
pub fn begin(session: usize, limit: usize) {
    HIT.store(0, Relaxed);
    BASE.store(LIVE.load(Relaxed), Relaxed);
    PEAK.store(LIVE.load(Relaxed), Relaxed);
    CPU0.store(cpu_ns(), Relaxed);
    WALL0.store(wall_ms(), Relaxed);
    CUR.store(session, Relaxed);
    LIMIT.store(limit, Relaxed);
}

/// end of a session: (peak bytes allocated beyond the start, size of the first refused request or 0)
pub fn end() -> (usize, usize) {
    LIMIT.store(usize::MAX, Relaxed);
    CUR.store(usize::MAX, Relaxed);
    (PEAK.load(Relaxed).saturating_sub(BASE.load(Relaxed)), HIT.load(Relaxed))
}

/// address-space cap as a backstop for allocations that bypass the Rust allocator (C codec libraries)
pub fn cap_address_space(bytes: u64) {
    let lim = libc::rlimit { rlim_cur: bytes, rlim_max: bytes };
    unsafe {
        libc::setrlimit(libc::RLIMIT_AS, &lim);
    }
}

/// Watchdog thread: a session that has used more than `cpu_s` seconds of CPU (or `wall_s` of wall clock)
/// is reported (`H <session> <ms>`) and the process exits with status 3.
pub fn start_watchdog(cpu_s: u64, wall_s: u64) {
    std::thread::spawn(move || loop {
        std::thread::sleep(std::time::Duration::from_millis(100));
        let cur = CUR.load(Relaxed);
        if cur == usize::MAX || PAUSED.load(Relaxed) {
            continue;
        }
        let used = cpu_ns().saturating_sub(CPU0.load(Relaxed));
        let wall = wall_ms().saturating_sub(WALL0.load(Relaxed));
        if (used > cpu_s * 1_000_000_000 || wall > wall_s * 1000) && CUR.load(Relaxed) == cur && !PAUSED.load(Relaxed) {
            LIMIT.store(usize::MAX, Relaxed);
            mark(b'H', cur, wall as usize);
            unsafe { libc::_exit(3) };
        }
    });
}
