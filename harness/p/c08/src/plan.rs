//! Corruption plans and their application to the bytes of a base file.
//!
//! A plan names a region of the file's region map (1-based index `r`, 0 = none), an operation, and its
//! arguments; the semantics (what the bytes look like afterwards) is fixed by spec/Untrusted.tla
//! (`NewLen`, `DiffLo`, `DiffHi`): the trace reports the observed effect (`newlen`, first / last differing
//! byte) and TLC checks it, so a harness that applied a plan wrongly is rejected.
//!
//!   flip    arg lo|hi (lowest / highest bit), sel first|last (byte of the region)
//!   set     arg 0|255|127|128, sel first|mid|last
//!   trunc   sel lo|hi (region boundary), d in -1..1: the file is cut at boundary + d
//!   bump    (kind enc) the byte read as a one-byte varint (sel uv | zz) becomes value+1 | +5 | x2 | page length |
//!           page length - 1 (arg p1|p5|x2|len|lenm1), in place
//!   inflate arg x2|p1|i31|u32|neg|zero on a length-like region; fix = adjust the enclosing length field
//!   dup / drop          the region is duplicated / removed
//!   dupframe / dropframe   the same for the whole frame (all regions of the same `grp`)
//!   splice / spliceframe   the region (frame) is replaced by the corresponding one of the donor file
//! Harness-generated plans (not region based): `byte` sessions use set / flip at an absolute position
//! (sel = "abs"), `trunc` sessions cut at `pos` (sel = "abs"), `xsplice` joins base[..pos] ++ donor[d..].
use crate::files::{BaseFile, Region};
use crate::walk;
use vcore::{json, Value};

/// intern a (rare, parsed) string: plans are enumerated by the hundred thousand, their string fields are static
pub fn intern(s: &str) -> &'static str {
    static TABLE: std::sync::Mutex<Vec<&'static str>> = std::sync::Mutex::new(Vec::new());
    let mut t = TABLE.lock().unwrap();
    if let Some(x) = t.iter().find(|x| **x == s) {
        return x;
    }
    let l: &'static str = Box::leak(s.to_string().into_boxed_str());
    t.push(l);
    l
}

#[derive(Clone, Copy, Debug, Default)]
pub struct Plan {
    pub src: &'static str,
    pub op: &'static str,
    pub arg: &'static str,
    pub sel: &'static str,
    pub d: i64,
    pub fix: bool,
    pub r: usize,
    pub pos: usize,
    pub donor: usize, // index of the donor file + 1, 0 = none
}

pub struct Applied {
    pub bytes: Vec<u8>,
    /// width of the replacement (inflate / splice), 0 otherwise
    pub neww: usize,
    /// width of what was replaced / duplicated / dropped
    pub oldw: usize,
    /// first byte the plan addresses
    pub at: usize,
}

fn frame(regs: &[Region], r: usize) -> (usize, usize) {
    let g = regs[r].grp;
    let mut a = r;
    while a > 0 && regs[a - 1].grp == g {
        a -= 1;
    }
    let mut b = r;
    while b + 1 < regs.len() && regs[b + 1].grp == g {
        b += 1;
    }
    (regs[a].lo, regs[b].hi)
}

/// the k-th (cyclically) region of `kind` of the donor, k = ordinal of region `r` among the base's regions of that kind
fn donor_region(base: &[Region], r: usize, donor: &[Region]) -> Option<usize> {
    let kind = base[r].kind;
    let k = base[..r].iter().filter(|x| x.kind == kind).count();
    let cands: Vec<usize> = donor.iter().enumerate().filter(|(_, x)| x.kind == kind).map(|(i, _)| i).collect();
    if cands.is_empty() { None } else { Some(cands[k % cands.len()]) }
}

fn donor_frame(base: &[Region], r: usize, donor: &[Region]) -> Option<(usize, usize)> {
    let mut groups: Vec<usize> = vec![];
    for x in base {
        if groups.last() != Some(&x.grp) {
            groups.push(x.grp);
        }
    }
    let k = groups.iter().position(|g| *g == base[r].grp)?;
    let mut dg: Vec<usize> = vec![];
    for x in donor {
        if dg.last() != Some(&x.grp) {
            dg.push(x.grp);
        }
    }
    if dg.is_empty() {
        return None;
    }
    let g = dg[k % dg.len()];
    let i = donor.iter().position(|x| x.grp == g)?;
    Some(frame(donor, i))
}

fn inflate_int(v: i128, mode: &str) -> i128 {
    match mode {
        "x2" => v.wrapping_mul(2),
        "p1" => v + 1,
        "i31" => (1i128 << 31) - 1,
        "u32" => (1i128 << 32) - 1,
        "neg" => -1,
        _ => 0,
    }
}

pub fn apply(base: &BaseFile, donor: Option<&BaseFile>, p: &Plan) -> Option<Applied> {
    let b = &base.bytes;
    let n = b.len();
    let mut out = b.clone();
    let reg = if p.r > 0 { Some(base.regions.get(p.r - 1)?) } else { None };
    let byte_at = |reg: Option<&Region>| -> Option<usize> {
        match (p.sel, reg) {
            ("abs", _) => (p.pos < n).then_some(p.pos),
            ("first", Some(r)) => Some(r.lo),
            ("last", Some(r)) => Some(r.hi - 1),
            ("mid", Some(r)) => Some(r.lo + (r.hi - r.lo) / 2),
            _ => None,
        }
    };
    match p.op {
        "none" => Some(Applied { bytes: out, neww: 0, oldw: 0, at: 0 }),
        "flip" => {
            let at = byte_at(reg)?;
            out[at] ^= if p.arg == "lo" { 0x01 } else { 0x80 };
            Some(Applied { bytes: out, neww: 1, oldw: 1, at })
        }
        "set" => {
            let at = byte_at(reg)?;
            out[at] = p.arg.parse::<u8>().ok()?;
            Some(Applied { bytes: out, neww: 1, oldw: 1, at })
        }
        "bump" => {
            // one byte of an encoding header read as a single-byte varint (sel uv: unsigned, zz: zig-zag) and
            // moved to a nearby / page-sized value, re-encoded in place
            let r = reg?;
            let old = b[r.lo];
            if old >= 0x80 {
                return None;
            }
            let page_len: i64 = base.regions.iter().filter(|x| x.grp == r.grp && (x.kind == "body" || x.kind == "enc")).map(|x| (x.hi - x.lo) as i64).sum();
            let v: i64 = if p.sel == "zz" { walk::unzigzag(old as u64) } else { old as i64 };
            let nv = match p.arg {
                "p1" => v + 1,
                "p5" => v + 5,
                "x2" => v * 2,
                "len" => page_len,
                "lenm1" => page_len - 1,
                _ => return None,
            };
            let enc: u64 = if p.sel == "zz" { walk::zigzag(nv) } else if nv < 0 { return None } else { nv as u64 };
            if enc >= 0x80 || enc as u8 == old {
                return None;
            }
            out[r.lo] = enc as u8;
            Some(Applied { bytes: out, neww: 1, oldw: 1, at: r.lo })
        }
        "trunc" => {
            let cut = match (p.sel, reg) {
                ("abs", _) => p.pos as i64,
                ("lo", Some(r)) => r.lo as i64 + p.d,
                ("hi", Some(r)) => r.hi as i64 + p.d,
                _ => return None,
            };
            let cut = cut.clamp(0, n as i64) as usize;
            out.truncate(cut);
            Some(Applied { bytes: out, neww: 0, oldw: 0, at: cut })
        }
        "inflate" => {
            let r = reg?;
            let w = r.hi - r.lo;
            let new: Vec<u8> = match r.kind {
                "len4" | "len8" => {
                    let mut raw = [0u8; 16];
                    raw[..w].copy_from_slice(&b[r.lo..r.hi]);
                    if b[r.hi - 1] & 0x80 != 0 {
                        raw[w..].iter_mut().for_each(|x| *x = 0xFF);
                    }
                    let v = i128::from_le_bytes(raw);
                    inflate_int(v, p.arg).to_le_bytes()[..w].to_vec()
                }
                "zigzag" => {
                    let (u, _) = walk::uvarint(b, r.lo)?;
                    let v = inflate_int(walk::unzigzag(u) as i128, p.arg);
                    let v = v.clamp(i64::MIN as i128, i64::MAX as i128) as i64;
                    let mut o = vec![];
                    walk::put_uvarint(walk::zigzag(v), &mut o);
                    o
                }
                "uvarint" => {
                    let (u, _) = walk::uvarint(b, r.lo)?;
                    let v = inflate_int(u as i128, p.arg);
                    let v = if v < 0 { u64::MAX } else { v.min(u64::MAX as i128) as u64 };
                    let mut o = vec![];
                    walk::put_uvarint(v, &mut o);
                    o
                }
                _ => return None,
            };
            let neww = new.len();
            out.splice(r.lo..r.hi, new);
            if p.fix {
                if r.encl == 0 || neww == w {
                    return None;
                }
                let e = &base.regions[r.encl - 1];
                // the enclosing length field lies after the edited region in every container that has one
                let shift = neww as i64 - w as i64;
                let (elo, ehi) = ((e.lo as i64 + shift) as usize, (e.hi as i64 + shift) as usize);
                let ew = ehi - elo;
                let mut raw = [0u8; 8];
                raw[..ew].copy_from_slice(&out[elo..ehi]);
                let v = (i64::from_le_bytes(raw) + shift).to_le_bytes();
                out[elo..ehi].copy_from_slice(&v[..ew]);
            }
            Some(Applied { bytes: out, neww, oldw: w, at: r.lo })
        }
        "dup" | "drop" | "dupframe" | "dropframe" => {
            let r = reg?;
            let (lo, hi) = if p.op.ends_with("frame") { frame(&base.regions, p.r - 1) } else { (r.lo, r.hi) };
            if p.op.starts_with("dup") {
                let copy = b[lo..hi].to_vec();
                out.splice(hi..hi, copy);
            } else {
                out.drain(lo..hi);
            }
            Some(Applied { bytes: out, neww: 0, oldw: hi - lo, at: lo })
        }
        "splice" | "spliceframe" => {
            let d = donor?;
            let r = reg?;
            let ((lo, hi), (dlo, dhi)) = if p.op == "splice" {
                let dr = &d.regions[donor_region(&base.regions, p.r - 1, &d.regions)?];
                ((r.lo, r.hi), (dr.lo, dr.hi))
            } else {
                (frame(&base.regions, p.r - 1), donor_frame(&base.regions, p.r - 1, &d.regions)?)
            };
            out.splice(lo..hi, d.bytes[dlo..dhi].to_vec());
            Some(Applied { bytes: out, neww: dhi - dlo, oldw: hi - lo, at: lo })
        }
        "xsplice" => {
            let d = donor?;
            let cut = p.pos.min(n);
            let from = (p.d.max(0) as usize).min(d.bytes.len());
            out.truncate(cut);
            out.extend_from_slice(&d.bytes[from..]);
            Some(Applied { bytes: out, neww: d.bytes.len() - from, oldw: n - cut, at: cut })
        }
        _ => None,
    }
}

/// first and one-past-last differing byte position of two byte strings (0, 0 when equal)
pub fn diff(a: &[u8], b: &[u8]) -> (usize, usize) {
    let m = a.len().min(b.len());
    let lo = (0..m).find(|i| a[*i] != b[*i]).unwrap_or(m);
    if lo == m && a.len() == b.len() {
        return (0, 0);
    }
    // last differing position, comparing position-wise (not aligned from the end)
    let mx = a.len().max(b.len());
    let hi = (lo..mx).rev().find(|i| a.get(*i) != b.get(*i)).map(|i| i + 1).unwrap_or(lo);
    (lo, hi)
}

pub fn plan_json(p: &Plan) -> Value {
    json!({"src": p.src, "op": p.op, "arg": p.arg, "sel": p.sel, "d": p.d, "fix": p.fix, "r": p.r, "pos": p.pos, "donor": p.donor})
}

pub fn plan_from(v: &Value) -> Plan {
    let s = |k: &str| intern(v[k].as_str().unwrap_or(""));
    Plan {
        src: s("src"),
        op: s("op"),
        arg: s("arg"),
        sel: s("sel"),
        d: v["d"].as_i64().unwrap_or(0),
        fix: v["fix"].as_bool().unwrap_or(false),
        r: v["r"].as_u64().unwrap_or(0) as usize,
        pos: v["pos"].as_u64().unwrap_or(0) as usize,
        donor: v["donor"].as_u64().unwrap_or(0) as usize,
    }
}
