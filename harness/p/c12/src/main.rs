//! C12 driver: records calls of the arithmetic, aggregation and boolean kernels.
//! No expectations are computed here: Trace_Arith.tla (Arith.tla, BigNum.tla) decides.
//!
//! The only arithmetic done on this side is the computation of *witnesses* for the
//! relational forms of the specification (the quotient that goes with a logged
//! remainder, the multiple of 2^w that goes with a wrapped product or sum).  A witness
//! is never trusted: TLC re-checks the defining equation, which has a unique solution.
mod val;

use arrow_arith::{aggregate, arity, boolean, numeric};
use arrow_array::types::*;
use arrow_array::*;
use arrow_array::{ArrowNativeTypeOp, cast::AsArray};
use arrow_buffer::i256;
use arrow_schema::{ArrowError, DataType, IntervalUnit, TimeUnit};
use num_bigint::BigInt;
use num_traits::{One, ToPrimitive, Zero};
use std::sync::Arc;
use val::{Col, Row};
use vcore::mk::{self, Cfg};
use vcore::trace::Shards;
use vcore::{big, guarded, json, mutate, tok, Args, Rng, Value};

// ------------------------------------------------------------------ values
fn pow2(k: u32) -> BigInt {
    BigInt::one() << (k as usize)
}

fn range(w: u32, signed: bool) -> (BigInt, BigInt) {
    if signed { (-pow2(w - 1), pow2(w - 1) - 1) } else { (BigInt::zero(), pow2(w) - 1) }
}

/// boundary neighbourhoods of a w-bit type: MIN, MAX, 0, +-2^(w/2), powers of ten, limb carries
fn boundary(w: u32, signed: bool) -> Vec<BigInt> {
    let (lo, hi) = range(w, signed);
    let mut v: Vec<BigInt> = vec![];
    let mut around = |c: BigInt, d: i64| {
        for k in -d..=d {
            v.push(&c + k);
        }
    };
    around(lo.clone(), 2);
    around(hi.clone(), 2);
    around(BigInt::zero(), 3);
    around(pow2(w / 2), 1);
    around(-pow2(w / 2), 1);
    around(pow2(w / 2 - 1), 1);
    around(&hi / 2, 1);
    around(&lo / 2, 1);
    around(&hi / 3, 0);
    around(&hi / 10, 1);
    for k in [1u32, 2, 4, 8, 9, 10, 12, 18, 19, 20, 37, 38, 39, 40, 75, 76, 77] {
        let p = BigInt::from(10).pow(k);
        if p <= hi {
            around(p.clone(), 1);
            around(-p, 0);
        }
    }
    v.retain(|x| *x >= lo && *x <= hi);
    v.sort();
    v.dedup();
    v
}

fn rand_big(rng: &mut Rng, bits: u32) -> BigInt {
    let mut x = BigInt::zero();
    let mut left = bits;
    while left > 0 {
        let take = left.min(32);
        x = (x << (take as usize)) + BigInt::from(rng.next() & ((1u64 << take) - 1));
        left -= take;
    }
    x
}

#[derive(Clone, Copy, PartialEq)]
enum Style {
    Wild,
    Tame,
    Half,
}

fn pick(rng: &mut Rng, w: u32, signed: bool, style: Style, bnd: &[BigInt]) -> BigInt {
    let (lo, hi) = range(w, signed);
    let x = match style {
        Style::Tame => BigInt::from(rng.range(-60, 60)),
        Style::Half => {
            let b = rand_big(rng, w / 2 - 1);
            if rng.chance(50) { -b } else { b }
        }
        Style::Wild => match rng.below(4) {
            0 | 1 => return rng.pick(bnd).clone(),
            2 => BigInt::from(rng.range(-20, 20)),
            _ => {
                let bits = 1 + rng.below(w as usize) as u32;
                let b = rand_big(rng, bits);
                if rng.chance(50) { -b } else { b }
            }
        },
    };
    if x < lo { if signed { lo } else { -x % (&hi + 1) } } else if x > hi { hi } else { x }
}

fn pick_fields(rng: &mut Rng, dt: &DataType, style: Style) -> Vec<BigInt> {
    val::fields(dt).unwrap().iter().map(|(w, s)| pick(rng, *w, *s, style, &boundary(*w, *s))).collect()
}

/// null pattern classes
fn null_at(rng: &mut Rng, pat: usize, i: usize, n: usize) -> bool {
    match pat {
        0 | 1 => false,
        2 => rng.chance(10),
        3 => rng.chance(70),
        4 => true,
        5 => i % 2 == 1,
        _ => i == 0 || i + 1 == n,
    }
}

/// a column of `n` rows; null slots carry adversarial garbage (extreme values, zero, -1)
fn gen_col(rng: &mut Rng, dt: &DataType, n: usize, style: Style, pat: usize) -> Col {
    let fs = val::fields(dt).unwrap();
    let bnds: Vec<Vec<BigInt>> = fs.iter().map(|(w, s)| boundary(*w, *s)).collect();
    let mut rows: Vec<Row> = vec![];
    let mut under = vec![];
    for i in 0..n {
        let f: Vec<BigInt> = fs.iter().zip(&bnds).map(|((w, s), b)| pick(rng, *w, *s, style, b)).collect();
        let g: Vec<BigInt> = fs
            .iter()
            .map(|(w, s)| {
                let (lo, hi) = range(*w, *s);
                match rng.below(5) {
                    0 => lo,
                    1 => hi,
                    2 => BigInt::zero(),
                    3 => if *s { BigInt::from(-1) } else { hi },
                    _ => pick(rng, *w, *s, Style::Wild, &[BigInt::zero()]),
                }
            })
            .collect();
        rows.push(if null_at(rng, pat, i, n) { None } else { Some(f) });
        under.push(g);
    }
    Col { dt: dt.clone(), rows, under, keep_validity: pat == 1 }
}

/// a different physical layout of the same column (offset, random bytes under nulls)
fn realise(rng: &mut Rng, a: ArrayRef) -> (ArrayRef, &'static str) {
    match rng.below(4) {
        0 => match mutate::pad_slice(rng, &a) {
            Some(x) if x.data_type() == a.data_type() => (x, "pad_slice"),
            _ => (a, "orig"),
        },
        1 => match mutate::garbage_under_nulls(rng, &a) {
            Some(x) if x.data_type() == a.data_type() => (x, "garbage_under_nulls"),
            _ => (a, "orig"),
        },
        _ => (a, "orig"),
    }
}

// ----------------------------------------------------------------- outcomes
fn ecls(e: &ArrowError) -> &'static str {
    match e {
        ArrowError::ArithmeticOverflow(_) => "overflow",
        ArrowError::DivideByZero => "divzero",
        ArrowError::InvalidArgumentError(_) => "invalid",
        ArrowError::ComputeError(_) => "compute",
        ArrowError::NotYetImplemented(_) => "invalid",
        _ => "other",
    }
}

fn is_int_like(dt: &DataType) -> bool {
    val::fields(dt).is_some()
}

/// project any kernel output: (values, validity)
fn project(a: &dyn Array) -> (Value, Value) {
    if is_int_like(a.data_type()) {
        let rows = val::big_rows(a);
        (val::rows_json(a.data_type(), &rows), val::valid_json(&rows))
    } else {
        let r = tok::rows(a);
        let valid: Vec<Value> = r.iter().map(|x| json!((x != tok::NULL) as i64)).collect();
        (tok::strs(&r), Value::Array(valid))
    }
}

fn op_fn(op: &str) -> fn(&dyn Datum, &dyn Datum) -> Result<ArrayRef, ArrowError> {
    match op {
        "add" => numeric::add,
        "add_w" => numeric::add_wrapping,
        "sub" => numeric::sub,
        "sub_w" => numeric::sub_wrapping,
        "mul" => numeric::mul,
        "mul_w" => numeric::mul_wrapping,
        "div" => numeric::div,
        "rem" => numeric::rem,
        _ => unreachable!(),
    }
}

const BIN_OPS: [&str; 8] = ["add", "add_w", "sub", "sub_w", "mul", "mul_w", "div", "rem"];

fn dec_scale(dt: &DataType) -> Option<i64> {
    match dt {
        DataType::Decimal32(_, s) | DataType::Decimal64(_, s) | DataType::Decimal128(_, s) | DataType::Decimal256(_, s) => Some(*s as i64),
        _ => None,
    }
}

/// witnesses for the relational forms: quotient for `rem`, multiple of 2^w for `mul_w`
fn bin_witness(op: &str, lt: &DataType, rt: &DataType, a: &Row, b: &Row, out: &Row) -> BigInt {
    let (Some(a), Some(b), Some(o)) = (a, b, out) else { return BigInt::zero() };
    if a.len() != 1 || b.len() != 1 || o.len() != 1 {
        return BigInt::zero();
    }
    let (mut a, mut b, o) = (a[0].clone(), b[0].clone(), o[0].clone());
    match op {
        "rem" => {
            if let (Some(s1), Some(s2)) = (dec_scale(lt), dec_scale(rt)) {
                let s = s1.max(s2);
                a *= BigInt::from(10).pow((s - s1) as u32);
                b *= BigInt::from(10).pow((s - s2) as u32);
            }
            if b.is_zero() { BigInt::zero() } else { (a - o) / b }
        }
        "mul_w" => {
            let w = val::fields(lt).unwrap()[0].0;
            (a * b - o) >> (w as usize)
        }
        _ => BigInt::zero(),
    }
}

struct Operand {
    col: Col,
    scalar: bool,
}

fn datum_call(op: &str, l: &ArrayRef, ls: bool, r: &ArrayRef, rs: bool) -> Result<Result<ArrayRef, ArrowError>, String> {
    let f = op_fn(op);
    guarded(|| match (ls, rs) {
        (false, false) => f(l, r),
        (true, false) => f(&Scalar::new(l.clone()), r),
        (false, true) => f(l, &Scalar::new(r.clone())),
        (true, true) => f(&Scalar::new(l.clone()), &Scalar::new(r.clone())),
    })
}

/// one call of a binary kernel, recorded
fn emit_bin(t: &mut Shards, rng: &mut Rng, op: &str, l: &Operand, r: &Operand, tag: &str) -> bool {
    let (la, lvia) = if l.scalar { (l.col.build(), "orig") } else { realise(rng, l.col.build()) };
    let (ra, rvia) = if r.scalar { (r.col.build(), "orig") } else { realise(rng, r.col.build()) };
    let res = datum_call(op, &la, l.scalar, &ra, r.scalar);
    let mut ev = json!({
        "k":"bin","op":op,"lt":val::tdesc(&l.col.dt),"rt":val::tdesc(&r.col.dt),
        "a":l.col.values_json(),"av":l.col.valid(),"as":l.scalar,
        "b":r.col.values_json(),"bv":r.col.valid(),"bs":r.scalar,
        "via":format!("{tag}/{lvia}/{rvia}"),
    });
    let m = ev.as_object_mut().unwrap();
    let mut ok = false;
    match res {
        Ok(Ok(out)) => {
            ok = true;
            let (vals, valid) = project(out.as_ref());
            let mut wit: Vec<Value> = vec![];
            if matches!(op, "rem" | "mul_w") && is_int_like(out.data_type()) && val::fields(&l.col.dt).map(|f| f.len()) == Some(1) {
                let orows = val::big_rows(out.as_ref());
                for (i, o) in orows.iter().enumerate() {
                    let a = if l.scalar { &l.col.rows[0] } else { &l.col.rows[i] };
                    let b = if r.scalar { &r.col.rows[0] } else { &r.col.rows[i] };
                    wit.push(big::wire(bin_witness(op, &l.col.dt, &r.col.dt, a, b, o)));
                }
            }
            m.insert("err".into(), json!(false));
            m.insert("ecls".into(), json!(""));
            m.insert("ot".into(), val::tdesc(out.data_type()));
            m.insert("out".into(), vals);
            m.insert("ov".into(), valid);
            m.insert("wit".into(), Value::Array(wit));
        }
        Ok(Err(e)) => {
            m.insert("err".into(), json!(true));
            m.insert("ecls".into(), json!(ecls(&e)));
            m.insert("note".into(), json!(e.to_string().chars().take(120).collect::<String>()));
            m.insert("ot".into(), val::tdesc(&l.col.dt));
            m.insert("out".into(), json!([]));
            m.insert("ov".into(), json!([]));
            m.insert("wit".into(), json!([]));
        }
        Err(p) => {
            m.insert("err".into(), json!(true));
            m.insert("ecls".into(), json!("panic"));
            m.insert("note".into(), json!(p.chars().take(120).collect::<String>()));
            m.insert("ot".into(), val::tdesc(&l.col.dt));
            m.insert("out".into(), json!([]));
            m.insert("ov".into(), json!([]));
            m.insert("wit".into(), json!([]));
        }
    }
    t.emit(ev);
    t.next_episode();
    ok
}

/// array (x) array, array (x) scalar, scalar (x) array over the same value material, then the
/// "masked" form: the rows on which the kernel fails *when called on that row alone* are made
/// null (the failing values stay in place as garbage): the call must now succeed
fn bin_forms(t: &mut Shards, rng: &mut Rng, op: &str, l: &Col, r: &Col, masked: bool) {
    let lo = Operand { col: l.clone(), scalar: false };
    let ro = Operand { col: r.clone(), scalar: false };
    let ok = emit_bin(t, rng, op, &lo, &ro, "aa");
    if r.len() > 0 {
        let k = rng.below(r.len());
        emit_bin(t, rng, op, &lo, &Operand { col: r.slice(k, 1), scalar: true }, "as");
    }
    if l.len() > 0 {
        let k = rng.below(l.len());
        emit_bin(t, rng, op, &Operand { col: l.slice(k, 1), scalar: true }, &ro, "sa");
    }
    if masked && !ok && l.len() == r.len() && l.len() <= 24 {
        let mut l2 = l.clone();
        let mut r2 = r.clone();
        for i in 0..l.len() {
            if l.rows[i].is_none() || r.rows[i].is_none() {
                continue;
            }
            let a1 = Operand { col: l.slice(i, 1), scalar: false };
            let b1 = Operand { col: r.slice(i, 1), scalar: false };
            if !emit_bin(t, rng, op, &a1, &b1, "row") {
                // null one side, keep the failing value under the null slot
                if rng.chance(50) {
                    l2.under[i] = l.rows[i].clone().unwrap();
                    l2.rows[i] = None;
                } else {
                    r2.under[i] = r.rows[i].clone().unwrap();
                    r2.rows[i] = None;
                }
            }
        }
        emit_bin(t, rng, op, &Operand { col: l2, scalar: false }, &Operand { col: r2, scalar: false }, "masked");
    }
}

const LENS: [usize; 17] = [0, 1, 2, 3, 7, 8, 9, 31, 32, 33, 63, 64, 65, 127, 128, 129, 130];

fn some_len(rng: &mut Rng, max: usize) -> usize {
    loop {
        let n = *rng.pick(&LENS);
        if n <= max {
            return n;
        }
    }
}

// ------------------------------------------------- native level (ArrowNativeTypeOp)
const NAT_BIN: [&str; 12] = ["add", "sub", "mul", "add_w", "sub_w", "mul_w", "div_c", "rem_c", "div_w", "rem_w", "div", "rem"];

fn nat_row<T: ArrowNativeTypeOp>(op: &str, a: T, b: T) -> Option<T> {
    match op {
        "add" => a.add_checked(b).ok(),
        "sub" => a.sub_checked(b).ok(),
        "mul" => a.mul_checked(b).ok(),
        "neg" => a.neg_checked().ok(),
        "add_w" => Some(a.add_wrapping(b)),
        "sub_w" => Some(a.sub_wrapping(b)),
        "mul_w" => Some(a.mul_wrapping(b)),
        "neg_w" => Some(a.neg_wrapping()),
        "div_c" | "div" => a.div_checked(b).ok(),
        "rem_c" => a.mod_checked(b).ok(),
        "div_w" => guarded(|| a.div_wrapping(b)).ok(),
        "rem_w" => guarded(|| a.mod_wrapping(b)).ok(),
        // the kernel's `rem` on integers: zero divisor refused, otherwise mod_wrapping
        "rem" => if b.is_zero() { None } else { Some(a.mod_wrapping(b)) },
        _ => unreachable!(),
    }
}

fn nat_event<T: ArrowNativeTypeOp + std::fmt::Display>(t: &mut Shards, op: &str, w: u32, signed: bool, a: &[T], b: &[T]) {
    let small = w <= 16;
    let enc = |x: &T| if small { json!(x.to_string().parse::<i64>().unwrap()) } else { big::wire(x) };
    let big_of = |x: &T| x.to_string().parse::<BigInt>().unwrap();
    let mut err = vec![];
    let mut out = vec![];
    let mut wit = vec![];
    for (x, y) in a.iter().zip(b) {
        match nat_row(op, *x, *y) {
            Some(v) => {
                err.push(0);
                out.push(enc(&v));
                if !small {
                    let (x, y, v) = (big_of(x), big_of(y), big_of(&v));
                    wit.push(big::wire(match op {
                        "rem" | "rem_c" | "rem_w" => if y.is_zero() { BigInt::zero() } else { (x - v) / y },
                        "mul_w" => (x * y - v) >> (w as usize),
                        _ => BigInt::zero(),
                    }));
                }
            }
            None => {
                err.push(1);
                out.push(if small { json!(0) } else { big::wire(0) });
                if !small {
                    wit.push(big::wire(0));
                }
            }
        }
    }
    let av: Vec<Value> = a.iter().map(enc).collect();
    let bv: Vec<Value> = b.iter().map(enc).collect();
    t.emit(json!({"k":"nat","op":op,"w":w,"sg":signed as u32,"a":av,"b":bv,"err":err,"out":out,"wit":wit}));
    t.next_episode();
}

trait FromBig: Sized {
    fn from_big(x: &BigInt) -> Self;
}
macro_rules! from_big {
    ($($t:ty => $m:ident),*) => { $(impl FromBig for $t { fn from_big(x: &BigInt) -> Self { x.$m().unwrap() } })* };
}
from_big!(i8 => to_i8, i16 => to_i16, i32 => to_i32, i64 => to_i64, i128 => to_i128, u8 => to_u8, u16 => to_u16, u32 => to_u32, u64 => to_u64);
impl FromBig for i256 {
    fn from_big(x: &BigInt) -> Self {
        i256::from_string(&x.to_string()).unwrap()
    }
}

fn nat_type<T: ArrowNativeTypeOp + std::fmt::Display + FromBig>(t: &mut Shards, rng: &mut Rng, args: &Args, w: u32, signed: bool) {
    let (lo, hi) = range(w, signed);
    let conv = |v: &[BigInt]| v.iter().map(T::from_big).collect::<Vec<T>>();
    if w == 8 {
        // the whole 8-bit universe: every operand pair, every operation
        let all: Vec<BigInt> = (0..256).map(|i| &lo + i).collect();
        let allt = conv(&all);
        for op in NAT_BIN {
            if !args.thorough() && matches!(op, "div" | "rem") {
                continue; // div = div_c; rem differs from rem_w on a zero divisor only (kept in the thorough tier)
            }
            for a in &allt {
                nat_event(t, op, w, signed, &vec![*a; 256], &allt);
            }
        }
        for op in ["neg", "neg_w"] {
            nat_event(t, op, w, signed, &allt, &vec![T::ZERO; 256]);
        }
        return;
    }
    let bnd = boundary(w, signed);
    if w == 16 {
        // every value for the unary operations
        for op in ["neg", "neg_w"] {
            for c in 0..256 {
                let chunk: Vec<BigInt> = (0..256).map(|i| &lo + (c * 256 + i)).collect();
                nat_event(t, op, w, signed, &conv(&chunk), &vec![T::ZERO; 256]);
            }
        }
        // binary: every left operand against a boundary set (thorough), boundary x boundary (quick)
        let right: Vec<BigInt> = {
            let mut r: Vec<BigInt> =
                [lo.clone(), BigInt::from(-1), BigInt::zero(), BigInt::one(), BigInt::from(2), BigInt::from(255), BigInt::from(257), &hi / 2, hi.clone()]
                    .into_iter()
                    .filter(|x| *x >= lo && *x <= hi)
                    .collect();
            r.sort();
            r.dedup();
            r
        };
        if args.thorough() {
            for op in NAT_BIN {
                for b in &right {
                    for c in 0..256 {
                        let chunk: Vec<BigInt> = (0..256).map(|i| &lo + (c * 256 + i)).collect();
                        nat_event(t, op, w, signed, &conv(&chunk), &vec![T::from_big(b); 256]);
                    }
                }
            }
        }
    }
    // boundary x (boundary + random), both operand orders
    let _ = hi;
    let mut set = bnd.clone();
    let extra = args.scale(4, 60);
    for _ in 0..extra {
        set.push(pick(rng, w, signed, Style::Wild, &bnd));
        set.push(pick(rng, w, signed, Style::Half, &bnd));
    }
    let sett = conv(&set);
    let lefts: Vec<BigInt> = if args.thorough() || w == 16 { set.clone() } else { (0..10).map(|_| rng.pick(&set).clone()).collect() };
    for op in NAT_BIN {
        for a in &lefts {
            nat_event(t, op, w, signed, &vec![T::from_big(a); sett.len()], &sett);
        }
    }
    for op in ["neg", "neg_w"] {
        nat_event(t, op, w, signed, &sett, &vec![T::ZERO; sett.len()]);
    }
}

fn nat_all(t: &mut Shards, rng: &mut Rng, args: &Args) {
    nat_type::<i8>(t, rng, args, 8, true);
    nat_type::<u8>(t, rng, args, 8, false);
    nat_type::<i16>(t, rng, args, 16, true);
    nat_type::<u16>(t, rng, args, 16, false);
    nat_type::<i32>(t, rng, args, 32, true);
    nat_type::<u32>(t, rng, args, 32, false);
    nat_type::<i64>(t, rng, args, 64, true);
    nat_type::<u64>(t, rng, args, 64, false);
    nat_type::<i128>(t, rng, args, 128, true);
    nat_type::<i256>(t, rng, args, 256, true);
}

// ------------------------------------------------------------ kernel level
fn int_types() -> Vec<DataType> {
    use DataType::*;
    vec![Int8, UInt8, Int16, UInt16, Int32, UInt32, Int64, UInt64]
}

/// 8-bit kernels over the whole universe: all 256 values against a scalar, both orders, plus the
/// form in which the rows that fail on their own are placed under nulls
fn bin_small_exhaustive(t: &mut Shards, rng: &mut Rng, args: &Args, dt: &DataType) {
    let (w, s) = val::fields(dt).unwrap()[0];
    let (lo, _) = range(w, s);
    let all: Vec<BigInt> = (0..256).map(|i| &lo + i).collect();
    let col = Col::new(dt, all.iter().map(|x| Some(vec![x.clone()])).collect());
    let lefts: Vec<BigInt> = if args.thorough() {
        all.clone()
    } else {
        let b = boundary(w, s);
        let mut v: Vec<BigInt> = b.iter().step_by(3).cloned().collect();
        v.push(b[0].clone());
        v.push(b[b.len() - 1].clone());
        for _ in 0..4 {
            v.push(rng.pick(&all).clone());
        }
        v
    };
    for op in BIN_OPS {
        for a in &lefts {
            let sc = Col::new(dt, vec![Some(vec![a.clone()])]);
            for order in 0..2 {
                let (l, r) = if order == 0 {
                    (Operand { col: col.clone(), scalar: false }, Operand { col: sc.clone(), scalar: true })
                } else {
                    (Operand { col: sc.clone(), scalar: true }, Operand { col: col.clone(), scalar: false })
                };
                let ok = emit_bin(t, rng, op, &l, &r, "x8");
                if !ok {
                    // null exactly the rows that fail alone (each is a recorded one-row call in the native events);
                    // here the per-row outcome is taken from the kernel itself on one-row arrays
                    let mut masked = col.clone();
                    for i in 0..256 {
                        let one = Col::new(dt, vec![col.rows[i].clone()]);
                        let (l1, r1) = if order == 0 { (one.build(), sc.build()) } else { (sc.build(), one.build()) };
                        let fails = !matches!(datum_call(op, &l1, false, &r1, false), Ok(Ok(_)));
                        if fails {
                            masked.under[i] = col.rows[i].clone().unwrap();
                            masked.rows[i] = None;
                        }
                    }
                    let (l, r) = if order == 0 {
                        (Operand { col: masked, scalar: false }, Operand { col: sc.clone(), scalar: true })
                    } else {
                        (Operand { col: sc.clone(), scalar: true }, Operand { col: masked, scalar: false })
                    };
                    emit_bin(t, rng, op, &l, &r, "x8masked");
                }
            }
        }
    }
}

fn bin_random(t: &mut Shards, rng: &mut Rng, lt: &DataType, rt: &DataType, ops: &[&str], rounds: usize, max_len: usize) {
    for _ in 0..rounds {
        for op in ops {
            let n = some_len(rng, max_len);
            let style = *rng.pick(&[Style::Wild, Style::Tame, Style::Tame, Style::Half]);
            let lp = rng.below(7);
            let rp = rng.below(7);
            let l = gen_col(rng, lt, n, style, lp);
            let mut r = gen_col(rng, rt, n, style, rp);
            if matches!(*op, "div" | "rem") && style != Style::Wild {
                // keep some calls free of zero divisors
                for row in r.rows.iter_mut().flatten() {
                    if row[0].is_zero() {
                        row[0] = BigInt::one();
                    }
                }
            }
            bin_forms(t, rng, op, &l, &r, true);
        }
    }
}

fn decimal_types(w: u32) -> Vec<DataType> {
    use DataType::*;
    let mk = |p: u8, s: i8| match w {
        32 => Decimal32(p, s),
        64 => Decimal64(p, s),
        128 => Decimal128(p, s),
        _ => Decimal256(p, s),
    };
    let maxp: u8 = match w { 32 => 9, 64 => 18, 128 => 38, _ => 76 };
    vec![mk(maxp, 0), mk(maxp, 1), mk(maxp, (maxp / 2) as i8), mk(maxp, maxp as i8), mk(5, 2), mk(1, 0), mk(3, -2), mk(maxp - 4, -3), mk(maxp - 1, (maxp - 4) as i8)]
}

/// decimal values: boundaries of the physical type and of the declared precision, small, random
fn gen_dec_col(rng: &mut Rng, dt: &DataType, n: usize, style: Style, pat: usize) -> Col {
    let mut c = gen_col(rng, dt, n, style, pat);
    let p = match dt {
        DataType::Decimal32(p, _) | DataType::Decimal64(p, _) | DataType::Decimal128(p, _) | DataType::Decimal256(p, _) => *p as u32,
        _ => unreachable!(),
    };
    let top = BigInt::from(10).pow(p) - 1;
    for row in c.rows.iter_mut().flatten() {
        if rng.chance(35) {
            // a value at the edge of the declared precision
            let d = BigInt::from(rng.range(0, 2));
            row[0] = if rng.chance(50) { &top - d } else { d - &top };
        } else if rng.chance(20) {
            let k = rng.below(p as usize + 1) as u32;
            row[0] = BigInt::from(10).pow(k) * rng.range(-9, 9);
        }
        let (lo, hi) = range(val::fields(dt).unwrap()[0].0, true);
        if row[0] < lo {
            row[0] = lo;
        } else if row[0] > hi {
            row[0] = hi;
        }
    }
    c
}

fn temporal_pairs() -> Vec<(DataType, DataType)> {
    use DataType::*;
    let mut v = vec![];
    let tzs: [Option<Arc<str>>; 3] = [None, Some("+00:00".into()), Some("-05:30".into())];
    for (i, u) in [TimeUnit::Second, TimeUnit::Millisecond, TimeUnit::Microsecond, TimeUnit::Nanosecond].into_iter().enumerate() {
        let tz = tzs[i % 3].clone();
        v.push((Timestamp(u, tz.clone()), Duration(u)));
        v.push((Duration(u), Timestamp(u, tz.clone())));
        v.push((Timestamp(u, tz.clone()), Timestamp(u, tzs[(i + 1) % 3].clone())));
        v.push((Duration(u), Duration(u)));
    }
    // date / timestamp +- day-time interval: linear (whole days, milliseconds); the month-based forms are calendar dependent
    v.push((Date32, Interval(IntervalUnit::DayTime)));
    v.push((Date64, Interval(IntervalUnit::DayTime)));
    for (i, u) in [TimeUnit::Second, TimeUnit::Millisecond, TimeUnit::Microsecond, TimeUnit::Nanosecond].into_iter().enumerate() {
        v.push((Timestamp(u, tzs[(i + 2) % 3].clone()), Interval(IntervalUnit::DayTime)));
    }
    v.push((Timestamp(TimeUnit::Second, None), Duration(TimeUnit::Millisecond))); // unit mismatch: refused
    v.push((Date32, Date32));
    v.push((Date64, Date64));
    v.push((Date32, Duration(TimeUnit::Second))); // not supported
    for iu in [IntervalUnit::YearMonth, IntervalUnit::DayTime, IntervalUnit::MonthDayNano] {
        v.push((Interval(iu), Interval(iu)));
        v.push((Interval(iu), Int64));
        v.push((Int64, Interval(iu)));
    }
    v.push((Int32, Int64)); // mixed widths: refused
    v
}

fn bin_kernels(t: &mut Shards, rng: &mut Rng, args: &Args) {
    use DataType::*;
    // integers of every width
    for dt in int_types() {
        let (w, _) = val::fields(&dt).unwrap()[0];
        if w == 8 {
            bin_small_exhaustive(t, rng, args, &dt);
        }
        bin_random(t, rng, &dt, &dt, &BIN_OPS, args.scale(4, 40), if w <= 16 { 130 } else { 65 });
    }
    // decimals: equal and different scales, every width
    for w in [32u32, 64, 128, 256] {
        let types = decimal_types(w);
        let rounds = args.scale(1, 3);
        for lt in &types {
            for rt in &types {
                if !args.thorough() && !rng.chance(45) && lt != rt {
                    continue;
                }
                for _ in 0..rounds {
                    for op in BIN_OPS {
                        if !args.thorough() && matches!(op, "add_w" | "sub_w" | "mul_w") && !rng.chance(25) {
                            continue;
                        }
                        let n = some_len(rng, if w >= 128 { 16 } else { 33 });
                        let style = *rng.pick(&[Style::Wild, Style::Tame, Style::Half]);
                        let lp = rng.below(7);
                        let rp = rng.below(7);
                        let l = gen_dec_col(rng, lt, n, style, lp);
                        let r = gen_dec_col(rng, rt, n, style, rp);
                        bin_forms(t, rng, op, &l, &r, true);
                    }
                }
            }
        }
    }
    // temporal and interval combinations the kernels support linearly, and a few they refuse
    for (lt, rt) in temporal_pairs() {
        let ops: Vec<&str> = BIN_OPS.to_vec();
        bin_random(t, rng, &lt, &rt, &ops, args.scale(2, 10), 33);
    }
    // floats: only null propagation and error freedom are specified
    for dt in [Float16, Float32, Float64] {
        for _ in 0..args.scale(2, 10) {
            for op in BIN_OPS {
                let n = some_len(rng, 130);
                let (pa, pb) = (*rng.pick(&[0usize, 10, 60]), *rng.pick(&[0usize, 10, 60]));
                let a = mk::array(rng, &dt, n, Cfg::wild(pa));
                let b = mk::array(rng, &dt, n, Cfg::wild(pb));
                float_bin(t, op, &a, &b);
            }
        }
    }
}

fn float_bin(t: &mut Shards, op: &str, a: &ArrayRef, b: &ArrayRef) {
    let res = datum_call(op, a, false, b, false);
    let (av, avd) = project(a.as_ref());
    let (bv, bvd) = project(b.as_ref());
    let mut ev = json!({"k":"bin","op":op,"lt":val::tdesc(a.data_type()),"rt":val::tdesc(b.data_type()),"a":av,"av":avd,"as":false,"b":bv,"bv":bvd,"bs":false,"via":"float","wit":[]});
    let m = ev.as_object_mut().unwrap();
    match res {
        Ok(Ok(out)) => {
            let (vals, valid) = project(out.as_ref());
            m.insert("err".into(), json!(false));
            m.insert("ecls".into(), json!(""));
            m.insert("ot".into(), val::tdesc(out.data_type()));
            m.insert("out".into(), vals);
            m.insert("ov".into(), valid);
        }
        other => {
            let cls = match &other { Ok(Err(e)) => ecls(e), _ => "panic" };
            m.insert("err".into(), json!(true));
            m.insert("ecls".into(), json!(cls));
            m.insert("ot".into(), val::tdesc(a.data_type()));
            m.insert("out".into(), json!([]));
            m.insert("ov".into(), json!([]));
        }
    }
    t.emit(ev);
    t.next_episode();
}

// ------------------------------------------------------------------- unary
fn emit_un(t: &mut Shards, rng: &mut Rng, op: &str, c: &Col) -> bool {
    let (a, via) = realise(rng, c.build());
    let res = guarded(|| if op == "neg" { numeric::neg(a.as_ref()) } else { numeric::neg_wrapping(a.as_ref()) });
    let mut ev = json!({"k":"un","op":op,"lt":val::tdesc(&c.dt),"a":c.values_json(),"av":c.valid(),"via":via});
    let m = ev.as_object_mut().unwrap();
    let mut ok = false;
    match res {
        Ok(Ok(out)) => {
            ok = true;
            let (vals, valid) = project(out.as_ref());
            m.insert("err".into(), json!(false));
            m.insert("ecls".into(), json!(""));
            m.insert("ot".into(), val::tdesc(out.data_type()));
            m.insert("out".into(), vals);
            m.insert("ov".into(), valid);
        }
        other => {
            let cls = match &other { Ok(Err(e)) => ecls(e), _ => "panic" };
            m.insert("err".into(), json!(true));
            m.insert("ecls".into(), json!(cls));
            m.insert("ot".into(), val::tdesc(&c.dt));
            m.insert("out".into(), json!([]));
            m.insert("ov".into(), json!([]));
        }
    }
    t.emit(ev);
    t.next_episode();
    ok
}

fn un_kernels(t: &mut Shards, rng: &mut Rng, args: &Args) {
    use DataType::*;
    let mut types = int_types();
    types.extend([Decimal32(9, 2), Decimal64(18, 0), Decimal128(38, 10), Decimal256(76, 5)]);
    types.extend([Duration(TimeUnit::Second), Duration(TimeUnit::Nanosecond)]);
    types.extend([Interval(IntervalUnit::YearMonth), Interval(IntervalUnit::DayTime), Interval(IntervalUnit::MonthDayNano)]);
    for dt in &types {
        let (w, s) = val::fields(dt).unwrap()[0];
        for op in ["neg", "neg_w"] {
            if w <= 16 && matches!(dt, Int8 | UInt8 | Int16 | UInt16) {
                // every value of the type, in runs of 256; then with the failing rows under nulls
                let (lo, _) = range(w, s);
                let chunks = if w == 8 { 1 } else { 256 };
                for c in 0..chunks {
                    let rows: Vec<Row> = (0..256).map(|i| Some(vec![&lo + (c * 256 + i)])).collect();
                    let col = Col::new(dt, rows);
                    if !emit_un(t, rng, op, &col) && *dt != UInt8 && *dt != UInt16 {
                        let mut masked = col.clone();
                        for i in 0..256 {
                            let one = Col::new(dt, vec![col.rows[i].clone()]).build();
                            let fails = !matches!(guarded(|| numeric::neg(one.as_ref())), Ok(Ok(_)));
                            if fails {
                                masked.under[i] = col.rows[i].clone().unwrap();
                                masked.rows[i] = None;
                            }
                        }
                        emit_un(t, rng, op, &masked);
                    }
                }
            }
            for _ in 0..args.scale(3, 20) {
                let n = some_len(rng, 65);
                let style = *rng.pick(&[Style::Wild, Style::Tame]);
                let pat = rng.below(7);
                let col = gen_col(rng, dt, n, style, pat);
                emit_un(t, rng, op, &col);
            }
        }
    }
    for dt in [Float16, Float32, Float64] {
        for op in ["neg", "neg_w"] {
            let n = some_len(rng, 130);
            let a = mk::array(rng, &dt, n, Cfg::wild(20));
            let res = guarded(|| if op == "neg" { numeric::neg(a.as_ref()) } else { numeric::neg_wrapping(a.as_ref()) });
            let (av, avd) = project(a.as_ref());
            if let Ok(Ok(out)) = res {
                let (vals, valid) = project(out.as_ref());
                t.emit(json!({"k":"un","op":op,"lt":val::tdesc(&dt),"a":av,"av":avd,"via":"float","err":false,"ecls":"","ot":val::tdesc(out.data_type()),"out":vals,"ov":valid}));
            } else {
                t.emit(json!({"k":"un","op":op,"lt":val::tdesc(&dt),"a":av,"av":avd,"via":"float","err":true,"ecls":"other","ot":val::tdesc(&dt),"out":[],"ov":[]}));
            }
            t.next_episode();
        }
    }
}

// -------------------------------------------------------------- aggregates
fn agg_int<T: ArrowNumericType>(t: &mut Shards, rng: &mut Rng, c: &Col)
where
    T::Native: std::fmt::Display,
{
    let (arr, via) = realise(rng, c.build());
    let a = arr.as_primitive::<T>();
    let (w, s) = val::fields(&c.dt).unwrap()[0];
    let vals = val::wires_json(&c.rows);
    let base = |op: &str| json!({"k":"agg","op":op,"lt":val::tdesc(&c.dt),"a":vals.clone(),"av":c.valid(),"via":via,"wit":0});
    let big_of = |x: &T::Native| x.to_string().parse::<BigInt>().unwrap();
    let finish = |t: &mut Shards, mut ev: Value, r: Result<Result<Option<T::Native>, ArrowError>, String>, wit: Option<BigInt>| {
        let m = ev.as_object_mut().unwrap();
        match r {
            Ok(Ok(Some(v))) => {
                m.insert("err".into(), json!(false));
                m.insert("ecls".into(), json!(""));
                m.insert("some".into(), json!(true));
                m.insert("out".into(), json!([big::wire(&v)]));
                if let Some(total) = wit {
                    let k = (total - big_of(&v)) >> (w as usize);
                    m.insert("wit".into(), json!(k.to_i64().unwrap_or(0)));
                }
            }
            Ok(Ok(None)) => {
                m.insert("err".into(), json!(false));
                m.insert("ecls".into(), json!(""));
                m.insert("some".into(), json!(false));
                m.insert("out".into(), json!([]));
            }
            other => {
                let cls = match &other { Ok(Err(e)) => ecls(e), _ => "panic" };
                m.insert("err".into(), json!(true));
                m.insert("ecls".into(), json!(cls));
                m.insert("some".into(), json!(false));
                m.insert("out".into(), json!([]));
            }
        }
        t.emit(ev);
        t.next_episode();
    };
    let _ = s;
    // witness for the wrapping sum: the exact total (TLC recomputes it and checks total = out + wit * 2^w)
    let total: BigInt = c.rows.iter().flatten().map(|r| r[0].clone()).sum();
    finish(t, base("sum"), guarded(|| Ok(aggregate::sum(a))), Some(total));
    finish(t, base("sum_checked"), guarded(|| aggregate::sum_checked(a)), None);
    finish(t, base("min"), guarded(|| Ok(aggregate::min(a))), None);
    finish(t, base("max"), guarded(|| Ok(aggregate::max(a))), None);
    if c.len() <= 33 {
        finish(t, base("product_checked"), guarded(|| aggregate::product_checked(a)), None);
    }
}

fn chunks16(x: &BigInt, w: u32) -> Value {
    // two's complement bit pattern in 16-bit chunks, least significant first
    let m = pow2(w);
    let u = ((x % &m) + &m) % &m;
    let mut v = vec![];
    for k in 0..(w / 16).max(1) {
        v.push(json!(((&u >> (16 * k as usize)) % 65536u32).to_u32().unwrap()));
    }
    Value::Array(v)
}

fn agg_bits<T: ArrowNumericType>(t: &mut Shards, rng: &mut Rng, c: &Col)
where
    T::Native: std::ops::BitAnd<Output = T::Native> + std::ops::BitOr<Output = T::Native> + std::ops::BitXor<Output = T::Native> + ArrowNativeTypeOp + std::fmt::Display,
{
    let (arr, via) = realise(rng, c.build());
    let a = arr.as_primitive::<T>();
    let (w, _) = val::fields(&c.dt).unwrap()[0];
    let w16 = w.max(16);
    let rows: Vec<Value> = c.rows.iter().map(|r| match r { Some(f) => chunks16(&f[0], w16), None => chunks16(&BigInt::zero(), w16) }).collect();
    for (op, r) in [
        ("bit_and", guarded(|| aggregate::bit_and(a))),
        ("bit_or", guarded(|| aggregate::bit_or(a))),
        ("bit_xor", guarded(|| aggregate::bit_xor(a))),
    ] {
        let (err, some, out) = match r {
            Ok(Some(v)) => (false, true, vec![chunks16(&v.to_string().parse::<BigInt>().unwrap(), w16)]),
            Ok(None) => (false, false, vec![]),
            Err(_) => (true, false, vec![]),
        };
        t.emit(json!({"k":"agg2","op":op,"lt":val::tdesc(&c.dt),"a":rows.clone(),"av":c.valid(),"via":via,"err":err,"ecls":if err {"panic"} else {""},"some":some,"out":out}));
        t.next_episode();
    }
}

/// totalOrder key of a float bit pattern: [sign, 16-bit limbs of the magnitude, most significant first]
fn float_key(bits: u64, w: u32) -> Value {
    let sign = (bits >> (w - 1)) & 1;
    let mag = bits & ((1u64 << (w - 1)) - 1);
    let mut v = vec![json!(sign)];
    for k in (0..w / 16).rev() {
        v.push(json!((mag >> (16 * k)) & 0xffff));
    }
    Value::Array(v)
}

fn special_floats(rng: &mut Rng, w: u32) -> u64 {
    // NaNs of both signs and several payloads, infinities, zeros, subnormals, ordinary values
    let (eb, mb) = match w { 16 => (5u32, 10u32), 32 => (8, 23), _ => (11, 52) };
    let sign = (rng.below(2) as u64) << (w - 1);
    let emax = (1u64 << eb) - 1;
    let mant_mask = (1u64 << mb) - 1;
    let (e, m) = match rng.below(8) {
        0 => (emax, 1 + rng.next() % mant_mask),             // NaN
        1 => (emax, 1u64 << (mb - 1)),                        // canonical quiet NaN
        2 => (emax, 0),                                       // infinity
        3 => (0, 0),                                          // zero
        4 => (0, 1 + rng.next() % mant_mask),                 // subnormal
        5 => (emax - 1, mant_mask),                           // largest finite
        _ => (rng.next() % emax, rng.next() & mant_mask),
    };
    sign | (e << mb) | m
}

fn agg_float(t: &mut Shards, rng: &mut Rng, w: u32, n: usize, pat: usize) {
    let bits: Vec<u64> = (0..n).map(|_| special_floats(rng, w)).collect();
    let valid: Vec<bool> = (0..n).map(|i| !null_at(rng, pat, i, n)).collect();
    let any_null = valid.iter().any(|v| !v);
    let nulls = if any_null || pat == 1 { Some(arrow_buffer::NullBuffer::from(valid.clone())) } else { None };
    let arr: ArrayRef = match w {
        16 => Arc::new(Float16Array::new(bits.iter().map(|b| half::f16::from_bits(*b as u16)).collect::<Vec<_>>().into(), nulls)),
        32 => Arc::new(Float32Array::new(bits.iter().map(|b| f32::from_bits(*b as u32)).collect::<Vec<_>>().into(), nulls)),
        _ => Arc::new(Float64Array::new(bits.iter().map(|b| f64::from_bits(*b)).collect::<Vec<_>>().into(), nulls)),
    };
    let (arr, via) = realise(rng, arr);
    let keys: Vec<Value> = (0..n).map(|i| if valid[i] { float_key(bits[i], w) } else { float_key(0, w) }).collect();
    let av: Vec<i64> = valid.iter().map(|v| *v as i64).collect();
    let dt = arr.data_type().clone();
    let (mn, mx): (Result<Option<u64>, String>, Result<Option<u64>, String>) = match w {
        16 => {
            let a = arr.as_primitive::<Float16Type>();
            (guarded(|| aggregate::min(a).map(|v| v.to_bits() as u64)), guarded(|| aggregate::max(a).map(|v| v.to_bits() as u64)))
        }
        32 => {
            let a = arr.as_primitive::<Float32Type>();
            (guarded(|| aggregate::min(a).map(|v| v.to_bits() as u64)), guarded(|| aggregate::max(a).map(|v| v.to_bits() as u64)))
        }
        _ => {
            let a = arr.as_primitive::<Float64Type>();
            (guarded(|| aggregate::min(a).map(|v| v.to_bits())), guarded(|| aggregate::max(a).map(|v| v.to_bits())))
        }
    };
    for (op, r) in [("fmin", mn), ("fmax", mx)] {
        let (err, some, out) = match r {
            Ok(Some(b)) => (false, true, vec![float_key(b, w)]),
            Ok(None) => (false, false, vec![]),
            Err(_) => (true, false, vec![]),
        };
        t.emit(json!({"k":"agg2","op":op,"lt":val::tdesc(&dt),"a":keys.clone(),"av":av.clone(),"via":via,"err":err,"ecls":if err {"panic"} else {""},"some":some,"out":out}));
        t.next_episode();
    }
}

fn bool_array(rng: &mut Rng, n: usize, pat: usize) -> (BooleanArray, Vec<i64>) {
    let v: Vec<Option<bool>> = (0..n).map(|i| if null_at(rng, pat, i, n) { None } else { Some(rng.chance(if pat == 6 { 95 } else { 50 })) }).collect();
    let model = v.iter().map(|x| match x { Some(true) => 1, Some(false) => 0, None => 2 }).collect();
    let arr = BooleanArray::from(v);
    // garbage under nulls and a bit offset now and then
    let arr: ArrayRef = Arc::new(arr);
    let arr = match rng.below(3) {
        0 => mutate::pad_slice(rng, &arr).unwrap_or(arr),
        1 => mutate::garbage_under_nulls(rng, &arr).unwrap_or(arr),
        _ => arr,
    };
    (arr.as_boolean().clone(), model)
}

fn agg_bool(t: &mut Shards, rng: &mut Rng, n: usize, pat: usize) {
    let (a, model) = bool_array(rng, n, pat);
    let av: Vec<i64> = model.iter().map(|x| (*x != 2) as i64).collect();
    let vals: Vec<i64> = model.iter().map(|x| if *x == 1 { 1 } else { 0 }).collect();
    for (op, r) in [
        ("bool_and", guarded(|| aggregate::bool_and(&a))),
        ("bool_or", guarded(|| aggregate::bool_or(&a))),
        ("min_boolean", guarded(|| aggregate::min_boolean(&a))),
        ("max_boolean", guarded(|| aggregate::max_boolean(&a))),
    ] {
        let (err, some, out) = match r {
            Ok(Some(b)) => (false, true, vec![b as i64]),
            Ok(None) => (false, false, vec![]),
            Err(_) => (true, false, vec![]),
        };
        t.emit(json!({"k":"agg2","op":op,"lt":val::tdesc(&DataType::Boolean),"a":vals.clone(),"av":av.clone(),"via":"","err":err,"ecls":if err {"panic"} else {""},"some":some,"out":out}));
        t.next_episode();
    }
}

fn aggregates(t: &mut Shards, rng: &mut Rng, args: &Args) {
    use DataType::*;
    let lens: Vec<usize> = if args.thorough() { (0..=130).collect() } else { LENS.to_vec() };
    macro_rules! ints {
        ($T:ty, $dt:expr, $bits:expr) => {{
            for &n in &lens {
                for pat in 0..7 {
                    if !rng.chance(if args.thorough() { 60 } else { 25 }) {
                        continue;
                    }
                    let style = *rng.pick(&[Style::Wild, Style::Tame, Style::Half]);
                    let c = gen_col(rng, &$dt, n, style, pat);
                    agg_int::<$T>(t, rng, &c);
                    if $bits && rng.chance(50) {
                        agg_bits::<$T>(t, rng, &c);
                    }
                }
            }
        }};
    }
    ints!(Int8Type, Int8, true);
    ints!(UInt8Type, UInt8, true);
    ints!(Int16Type, Int16, true);
    ints!(UInt16Type, UInt16, true);
    ints!(Int32Type, Int32, true);
    ints!(UInt32Type, UInt32, true);
    ints!(Int64Type, Int64, true);
    ints!(UInt64Type, UInt64, true);
    let short: Vec<usize> = lens.iter().copied().filter(|n| *n <= 65).collect();
    for &n in &short {
        for pat in 0..7 {
            if !rng.chance(if args.thorough() { 60 } else { 20 }) {
                continue;
            }
            let style = *rng.pick(&[Style::Wild, Style::Tame, Style::Half]);
            let c = gen_col(rng, &Decimal128(38, 10), n, style, pat);
            agg_int::<Decimal128Type>(t, rng, &c);
            let c = gen_col(rng, &Decimal256(76, 5), n.min(33), style, pat);
            agg_int::<Decimal256Type>(t, rng, &c);
            let c = gen_col(rng, &Duration(TimeUnit::Nanosecond), n, style, pat);
            agg_int::<DurationNanosecondType>(t, rng, &c);
        }
    }
    for &n in &lens {
        for pat in 0..7 {
            if !args.thorough() && !rng.chance(40) {
                continue;
            }
            for w in [16, 32, 64] {
                agg_float(t, rng, w, n, pat);
            }
            agg_bool(t, rng, n, pat);
        }
    }
}

// ----------------------------------------------------------------- boolean
fn bool_event(t: &mut Shards, op: &str, a: &BooleanArray, am: &[i64], b: &BooleanArray, bm: &[i64]) {
    let r = guarded(|| match op {
        "and_kleene" => boolean::and_kleene(a, b),
        "or_kleene" => boolean::or_kleene(a, b),
        "and" => boolean::and(a, b),
        "or" => boolean::or(a, b),
        "and_not" => boolean::and_not(a, b),
        "not" => boolean::not(a),
        "is_null" => boolean::is_null(a),
        "is_not_null" => boolean::is_not_null(a),
        _ => unreachable!(),
    });
    let (err, cls, out): (bool, &str, Vec<i64>) = match r {
        Ok(Ok(o)) => (false, "", (0..o.len()).map(|i| if o.is_null(i) { 2 } else { o.value(i) as i64 }).collect()),
        Ok(Err(e)) => (true, ecls(&e), vec![]),
        Err(_) => (true, "panic", vec![]),
    };
    t.emit(json!({"k":"bool","op":op,"a":am,"b":bm,"err":err,"ecls":cls,"out":out}));
    t.next_episode();
}

fn tri_array(m: &[i64]) -> BooleanArray {
    BooleanArray::from(m.iter().map(|x| match x { 0 => Some(false), 1 => Some(true), _ => None }).collect::<Vec<_>>())
}

fn booleans(t: &mut Shards, rng: &mut Rng, args: &Args) {
    const BIN: [&str; 5] = ["and_kleene", "or_kleene", "and", "or", "and_not"];
    const UN: [&str; 3] = ["not", "is_null", "is_not_null"];
    // every pair of columns of length <= 3 over {false, true, null}
    for n in 0..=3usize {
        let count = 3usize.pow(n as u32);
        for x in 0..count {
            let am: Vec<i64> = (0..n).map(|i| ((x / 3usize.pow(i as u32)) % 3) as i64).collect();
            let a = tri_array(&am);
            for op in UN {
                bool_event(t, op, &a, &am, &a, &am);
            }
            for y in 0..count {
                let bm: Vec<i64> = (0..n).map(|i| ((y / 3usize.pow(i as u32)) % 3) as i64).collect();
                let b = tri_array(&bm);
                for op in BIN {
                    bool_event(t, op, &a, &am, &b, &bm);
                }
            }
        }
    }
    // around the 64-bit chunk boundaries, with bit offsets and garbage under nulls
    for _ in 0..args.scale(6, 60) {
        let n = some_len(rng, 130);
        let (p1, p2) = (rng.below(7), rng.below(7));
        let (a, am) = bool_array(rng, n, p1);
        let (b, bm) = bool_array(rng, n, p2);
        for op in BIN {
            bool_event(t, op, &a, &am, &b, &bm);
        }
        for op in UN {
            bool_event(t, op, &a, &am, &a, &am);
        }
    }
    // different lengths are refused
    let (a, am) = bool_array(rng, 5, 2);
    let (b, bm) = bool_array(rng, 6, 2);
    for op in BIN {
        bool_event(t, op, &a, &am, &b, &bm);
    }
}

// ------------------------------------------------------------------- arity
fn arities(t: &mut Shards, rng: &mut Rng, args: &Args) {
    use std::cell::RefCell;
    for _ in 0..args.scale(40, 400) {
        let n = some_len(rng, 130);
        let pa = rng.below(7);
        let pb = rng.below(7);
        let a: Vec<Option<i32>> = (0..n).map(|i| if null_at(rng, pa, i, n) { None } else { Some(rng.range(-1000, 1000) as i32) }).collect();
        let b: Vec<Option<i32>> = (0..n).map(|i| if null_at(rng, pb, i, n) { None } else { Some(rng.range(-1000, 1000) as i32) }).collect();
        let fail_pct = *rng.pick(&[0usize, 0, 3, 50]);
        let fail: Vec<i64> = (0..n).map(|_| rng.chance(fail_pct) as i64).collect();
        for f in ["try_unary", "unary", "try_binary", "binary"] {
            let unary = f.ends_with("unary");
            // arrays whose values are the row numbers; garbage under nulls = row numbers too, so that a call on a null slot is seen
            let idx_a: ArrayRef = {
                let vals: Vec<i32> = (0..n as i32).collect();
                let nulls = arrow_buffer::NullBuffer::from(a.iter().map(|x| x.is_some()).collect::<Vec<bool>>());
                Arc::new(Int32Array::new(vals.into(), Some(nulls)))
            };
            let idx_b: ArrayRef = {
                let vals: Vec<i32> = (0..n as i32).collect();
                let nulls = arrow_buffer::NullBuffer::from(b.iter().map(|x| x.is_some()).collect::<Vec<bool>>());
                Arc::new(Int32Array::new(vals.into(), Some(nulls)))
            };
            let (idx_a, via_a) = realise(rng, idx_a);
            let (idx_b, _) = realise(rng, idx_b);
            let pa = idx_a.as_primitive::<Int32Type>();
            let pb = idx_b.as_primitive::<Int32Type>();
            let calls: RefCell<Vec<i64>> = RefCell::new(vec![]);
            let av: Vec<i64> = a.iter().map(|x| x.is_some() as i64).collect();
            let bv: Vec<i64> = if unary { vec![1; n] } else { b.iter().map(|x| x.is_some() as i64).collect() };
            let am: Vec<i64> = a.iter().map(|x| x.unwrap_or(0) as i64).collect();
            let bm: Vec<i64> = if unary { vec![0; n] } else { b.iter().map(|x| x.unwrap_or(0) as i64).collect() };
            // the closure: records the row it is invoked on, returns a[row] + b[row] of the *model* columns
            // (total: a call on a null slot sees whatever lies under it, e.g. random bytes)
            let val_at = |i: usize| -> i32 { if i >= n { 0 } else { a[i].unwrap_or(7777) + if unary { 0 } else { b[i].unwrap_or(7777) } } };
            let failing = |i: i32| -> bool { i >= 0 && (i as usize) < n && fail[i as usize] == 1 };
            let rec = |i: i32| -> i64 { if i >= 0 && (i as usize) < n { i as i64 + 1 } else { 0 } };
            let res: Result<Result<Int32Array, ArrowError>, String> = guarded(|| match f {
                "try_unary" => arity::try_unary::<Int32Type, _, Int32Type>(pa, |i| {
                    calls.borrow_mut().push(rec(i));
                    if failing(i) { Err(ArrowError::ComputeError("marked".into())) } else { Ok(val_at(i as usize)) }
                }),
                "unary" => Ok(arity::unary::<Int32Type, _, Int32Type>(pa, |i| {
                    calls.borrow_mut().push(rec(i));
                    val_at(i as usize)
                })),
                "try_binary" => arity::try_binary::<_, _, _, Int32Type>(pa, pb, |i, j| {
                    calls.borrow_mut().push(rec(i));
                    if i != j { return Err(ArrowError::ComputeError("rows differ".into())); }
                    if failing(i) { Err(ArrowError::ComputeError("marked".into())) } else { Ok(val_at(i as usize)) }
                }),
                _ => arity::binary::<Int32Type, Int32Type, _, Int32Type>(pa, pb, |i, j| {
                    calls.borrow_mut().push(rec(i));
                    if i == j { val_at(i as usize) } else { -1 }
                }),
            });
            let mut cl = calls.borrow().clone();
            cl.sort();
            cl.dedup();
            let (err, cls, out, ov): (bool, &str, Vec<i64>, Vec<i64>) = match &res {
                Ok(Ok(o)) => (false, "", (0..o.len()).map(|i| if o.is_null(i) { 0 } else { o.value(i) as i64 }).collect(), (0..o.len()).map(|i| o.is_valid(i) as i64).collect()),
                Ok(Err(e)) => (true, ecls(e), vec![], vec![]),
                Err(_) => (true, "panic", vec![], vec![]),
            };
            t.emit(json!({"k":"arity","fn":f,"a":am,"av":av,"b":bm,"bv":bv,"fail":fail,"calls":cl,"err":err,"ecls":cls,"out":out,"ov":ov,"via":via_a}));
            t.next_episode();
        }
    }
}

// ------------------------------------------------- fixed point multiplication
fn fixed_point(t: &mut Shards, rng: &mut Rng, args: &Args) {
    use arrow_arith::arithmetic::{multiply_fixed_point, multiply_fixed_point_checked};
    let types = [DataType::Decimal128(38, 10), DataType::Decimal128(20, 0), DataType::Decimal128(10, 3), DataType::Decimal128(38, 38), DataType::Decimal128(5, -2)];
    for lt in &types {
        for rt in &types {
            let (s1, s2) = (dec_scale(lt).unwrap(), dec_scale(rt).unwrap());
            for _ in 0..args.scale(1, 6) {
                let req = (s1 + s2 - rng.range(-1, 12)).clamp(-20, 38) as i8;
                let n = some_len(rng, 33);
                let style = *rng.pick(&[Style::Wild, Style::Tame, Style::Half]);
                let (lp, rp) = (rng.below(7), rng.below(7));
                let l = gen_dec_col(rng, lt, n, style, lp);
                let r = gen_dec_col(rng, rt, n, style, rp);
                let (la, _) = realise(rng, l.build());
                let (ra, _) = realise(rng, r.build());
                for op in ["checked", "wrapping"] {
                    let (lp, rp) = (la.as_primitive::<Decimal128Type>(), ra.as_primitive::<Decimal128Type>());
                    let res = guarded(|| if op == "checked" { multiply_fixed_point_checked(lp, rp, req) } else { multiply_fixed_point(lp, rp, req) });
                    let mut ev = json!({"k":"mfp","op":op,"lt":val::tdesc(lt),"rt":val::tdesc(rt),"req":req,"a":l.values_json(),"av":l.valid(),"b":r.values_json(),"bv":r.valid()});
                    let m = ev.as_object_mut().unwrap();
                    match res {
                        Ok(Ok(out)) => {
                            let orows = val::big_rows(&out);
                            // witness of the wrapping form: rounded exact product = out + wit * 2^128
                            let mut wit = vec![];
                            if op == "wrapping" {
                                let k = (s1 + s2 - req as i64) as u32;
                                let div = BigInt::from(10).pow(k);
                                for i in 0..orows.len() {
                                    let w = match (&l.rows[i], &r.rows[i], &orows[i]) {
                                        (Some(a), Some(b), Some(o)) => {
                                            let p: BigInt = &a[0] * &b[0];
                                            let half = &div / 2;
                                            let rounded = if k == 0 { p.clone() } else if p >= BigInt::zero() { (&p + &half) / &div } else { (&p - &half) / &div };
                                            (rounded - &o[0]) >> 128usize
                                        }
                                        _ => BigInt::zero(),
                                    };
                                    wit.push(big::wire(w));
                                }
                            }
                            m.insert("err".into(), json!(false));
                            m.insert("ecls".into(), json!(""));
                            m.insert("ot".into(), val::tdesc(out.data_type()));
                            m.insert("out".into(), val::rows_json(out.data_type(), &orows));
                            m.insert("ov".into(), val::valid_json(&orows));
                            m.insert("wit".into(), Value::Array(wit));
                        }
                        other => {
                            let cls = match &other { Ok(Err(e)) => ecls(e), _ => "panic" };
                            m.insert("err".into(), json!(true));
                            m.insert("ecls".into(), json!(cls));
                            m.insert("ot".into(), val::tdesc(lt));
                            m.insert("out".into(), json!([]));
                            m.insert("ov".into(), json!([]));
                            m.insert("wit".into(), json!([]));
                        }
                    }
                    t.emit(ev);
                    t.next_episode();
                }
            }
        }
    }
}

// --------------------------------------------------------- bitwise kernels
fn bitwise_kernels(t: &mut Shards, rng: &mut Rng, args: &Args) {
    use arrow_arith::bitwise::*;
    macro_rules! go {
        ($T:ty, $dt:expr) => {{
            let dt: DataType = $dt;
            let (w, s) = val::fields(&dt).unwrap()[0];
            for _ in 0..args.scale(6, 60) {
                let n = some_len(rng, 130);
                let (p1, p2) = (rng.below(7), rng.below(7));
                let l = gen_col(rng, &dt, n, Style::Wild, p1);
                let mut r = gen_col(rng, &dt, n, Style::Wild, p2);
                if rng.chance(50) {
                    // small shift amounts too
                    for row in r.rows.iter_mut().flatten() {
                        row[0] = BigInt::from(rng.below(2 * w as usize));
                    }
                }
                let (la, _) = realise(rng, l.build());
                let (ra, _) = realise(rng, r.build());
                let (lp, rp) = (la.as_primitive::<$T>(), ra.as_primitive::<$T>());
                for op in ["and", "or", "xor", "and_not", "not", "shl", "shr"] {
                    let res = guarded(|| match op {
                        "and" => bitwise_and(lp, rp),
                        "or" => bitwise_or(lp, rp),
                        "xor" => bitwise_xor(lp, rp),
                        "and_not" => bitwise_and_not(lp, rp),
                        "not" => bitwise_not(lp),
                        "shl" => bitwise_shift_left(lp, rp),
                        _ => bitwise_shift_right(lp, rp),
                    });
                    let bv: Vec<i64> = if op == "not" { vec![1; n] } else { r.valid() };
                    let mut ev = json!({"k":"bitw","op":op,"w":w,"sg":s as u32,"a":l.values_json(),"av":l.valid(),"b":r.values_json(),"bv":bv});
                    let m = ev.as_object_mut().unwrap();
                    match res {
                        Ok(Ok(out)) => {
                            let orows = val::big_rows(&out);
                            m.insert("err".into(), json!(false));
                            m.insert("ecls".into(), json!(""));
                            m.insert("out".into(), val::rows_json(&dt, &orows));
                            m.insert("ov".into(), val::valid_json(&orows));
                        }
                        other => {
                            let cls = match &other { Ok(Err(e)) => ecls(e), _ => "panic" };
                            m.insert("err".into(), json!(true));
                            m.insert("ecls".into(), json!(cls));
                            m.insert("out".into(), json!([]));
                            m.insert("ov".into(), json!([]));
                        }
                    }
                    t.emit(ev);
                    t.next_episode();
                }
            }
        }};
    }
    go!(Int8Type, DataType::Int8);
    go!(UInt8Type, DataType::UInt8);
    go!(Int16Type, DataType::Int16);
    go!(UInt16Type, DataType::UInt16);
}

/// deterministic corner cases (among them the minimal reproductions of the known findings)
fn corners(t: &mut Shards, rng: &mut Rng) {
    use DataType::*;
    let one = |dt: &DataType, v: &str| Col::new(dt, vec![Some(vec![v.parse::<BigInt>().unwrap()])]);
    let arr = |c: Col| Operand { col: c, scalar: false };
    let mut case = |op: &str, lt: DataType, l: &str, rt: DataType, r: &str| {
        emit_bin(t, rng, op, &arr(one(&lt, l)), &arr(one(&rt, r)), "corner");
    };
    // DESIGN.md 5.2: the exact sum fits i128 and 38 digits, the rescaled left operand does not
    case("add", Decimal128(38, 0), "17014118346046923173168730371588410573", Decimal128(38, 1), "-99999999999999999999999999999999999999");
    case("sub", Decimal128(38, 0), "17014118346046923173168730371588410573", Decimal128(38, 1), "99999999999999999999999999999999999999");
    // 1000000.00 / 1000000.00 = 1.000000: the quotient fits, the rescaled dividend does not
    case("div", Decimal32(9, 2), "100000000", Decimal32(9, 2), "100000000");
    // 0.999999999 % 1000: the power of ten 10^12 wraps in i32
    case("rem", Decimal32(9, 9), "999999999", Decimal32(9, -3), "1");
    // -2147483648 % -1 = 0
    case("rem", Decimal32(9, 0), "-2147483648", Decimal32(9, 0), "-1");
    case("div", Decimal32(9, 0), "-2147483648", Decimal32(9, 0), "-1");
    // integers: MIN / -1, MIN % -1, zero divisors, and the same values under a null slot
    for dt in int_types() {
        let (w, s) = val::fields(&dt).unwrap()[0];
        let (lo, hi) = range(w, s);
        let m1 = if s { "-1".to_string() } else { hi.to_string() };
        for op in ["div", "rem"] {
            case(op, dt.clone(), &lo.to_string(), dt.clone(), &m1);
            case(op, dt.clone(), &hi.to_string(), dt.clone(), "0");
        }
    }
    for dt in int_types() {
        let (w, s) = val::fields(&dt).unwrap()[0];
        let (lo, hi) = range(w, s);
        for op in BIN_OPS {
            // row 1 is null on the right with a zero / extreme value underneath, row 0 is harmless
            let l = Col::new(&dt, vec![Some(vec![BigInt::from(6)]), Some(vec![hi.clone()])]);
            let mut r = Col::new(&dt, vec![Some(vec![BigInt::from(3)]), None]);
            r.under[1] = vec![if matches!(op, "div" | "rem") { BigInt::zero() } else if op.starts_with("sub") { lo.clone() - if s { 0 } else { -1 } } else { hi.clone() }];
            if r.under[1][0] < lo { r.under[1][0] = lo.clone(); }
            emit_bin(t, rng, op, &arr(l), &arr(r), "corner-null");
        }
    }
}

fn main() {
    let args = Args::parse();
    vcore::quiet_panics();
    let mut rng = Rng::new(args.seed);
    let mut t = Shards::create(&args.out, "arith", if args.thorough() { 28 } else { 14 });
    let part = args.extra.first().cloned().unwrap_or_default();
    let want = |p: &str| part.is_empty() || part == p;
    if want("nat") { nat_all(&mut t, &mut rng, &args); }
    let n_nat = t.shards.iter().map(|s| s.events).sum::<usize>();
    if want("bin") { corners(&mut t, &mut rng); bin_kernels(&mut t, &mut rng, &args); }
    if want("un") { un_kernels(&mut t, &mut rng, &args); }
    let n_kernel = t.shards.iter().map(|s| s.events).sum::<usize>() - n_nat;
    if want("agg") { aggregates(&mut t, &mut rng, &args); }
    if want("bool") { booleans(&mut t, &mut rng, &args); }
    if want("arity") { arities(&mut t, &mut rng, &args); }
    if want("mfp") { fixed_point(&mut t, &mut rng, &args); }
    if want("bitw") { bitwise_kernels(&mut t, &mut rng, &args); }
    let total = t.finish();
    println!("DRIVER c12 native_events={n_nat} kernel_events={n_kernel} other_events={} events={total}", total - n_nat - n_kernel);
}
