fn main(){ println!("stub"); }
