fn main(){ println!("stub"); }
