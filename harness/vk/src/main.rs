//! vk: conformance drivers for the in-memory kernels (arrow-select/arith/ord/cast/string/row/buffer).
//! `vk <driver> --tier quick|thorough --seed N --out DIR`
mod c03;
mod c03replay;

fn main() {
    let args = vcore::Args::parse();
    vcore::quiet_panics();
    match args.driver.as_str() {
        "c03" => c03::run(&args),
        "c03replay" => c03replay::run(&args),
        other => {
            eprintln!("unknown driver {other}");
            std::process::exit(2);
        }
    }
}
