//! C03 driver: records calls of the selection kernels and histories of the
//! BatchCoalescer.  No expectations are computed here: Trace_Select.tla and
//! Trace_Coalescer.tla decide.
use arrow_array::*;
use arrow_schema::{DataType, Field, Schema};
use arrow_select::coalesce::BatchCoalescer;
use arrow_select::filter::FilterBuilder;
use arrow_select::take::TakeOptions;
use std::sync::Arc;
use vcore::mk::{self, Cfg};
use vcore::trace::Shards;
use vcore::{guarded, json, mutate, tok, Args, Rng, Value};

/// outcome of a guarded kernel call
pub enum Out {
    Rows(Vec<String>),
    Err(String),
    Unsupported,
}

pub fn unsupported(msg: &str) -> bool {
    let m = msg.to_ascii_lowercase();
    m.contains("not supported") || m.contains("not yet implemented") || m.contains("not implemented") || m.contains("unsupported")
        || m.contains("notyetimplemented")
}

pub fn call(f: impl FnOnce() -> Result<ArrayRef, arrow_schema::ArrowError>) -> Out {
    match guarded(f) {
        Ok(Ok(a)) => match guarded(|| tok::rows(a.as_ref())) {
            Ok(r) => Out::Rows(r),
            Err(p) => Out::Err(format!("panic reading result: {p}")),
        },
        Ok(Err(e)) => {
            let s = e.to_string();
            if unsupported(&s) { Out::Unsupported } else { Out::Err(s) }
        }
        Err(p) => {
            if unsupported(&p) { Out::Unsupported } else { Out::Err(format!("panic: {p}")) }
        }
    }
}

fn finish(mut ev: Value, o: Out, t: &mut Shards) {
    let m = ev.as_object_mut().unwrap();
    match o {
        Out::Unsupported => return,
        Out::Rows(r) => {
            m.insert("err".into(), json!(false));
            m.insert("out".into(), tok::strs(&r));
        }
        Out::Err(e) => {
            m.insert("err".into(), json!(true));
            m.insert("out".into(), json!([]));
            m.insert("note".into(), json!(e));
        }
    }
    t.emit(ev);
}

/// a random boolean mask of `n` entries as (array, model) where model is 0/1/2
pub fn mask(rng: &mut Rng, n: usize, allow_null: bool) -> (BooleanArray, Vec<i64>) {
    let style = rng.below(7);
    let mut v: Vec<Option<bool>> = Vec::with_capacity(n);
    let mut run = rng.chance(50);
    for i in 0..n {
        let b = match style {
            0 => true,
            1 => false,
            2 => rng.chance(6),  // sparse
            3 => rng.chance(94), // dense
            4 => {
                if rng.chance(15) { run = !run }
                run
            }
            5 => i % 2 == 0,
            _ => rng.chance(50),
        };
        if allow_null && style >= 2 && rng.chance(10) { v.push(None) } else { v.push(Some(b)) }
    }
    let model = v.iter().map(|x| match x { Some(true) => 1, Some(false) => 0, None => 2 }).collect();
    let arr = BooleanArray::from(v);
    // give the mask itself a non-zero bit offset now and then
    let arr = if rng.chance(40) {
        let pre = 1 + rng.below(9);
        let pad = BooleanArray::from(vec![true; pre]);
        let both = arrow_select::concat::concat(&[&pad, &arr]).unwrap();
        both.slice(pre, n).as_any().downcast_ref::<BooleanArray>().unwrap().clone()
    } else {
        arr
    };
    (arr, model)
}

fn indices(rng: &mut Rng, k: usize, n: usize, allow_null: bool, oob: bool) -> (ArrayRef, Vec<i64>) {
    let k = if n == 0 && !allow_null { 0 } else { k };
    let mut model: Vec<i64> = (0..k)
        .map(|_| if allow_null && rng.chance(12) { -1 } else if n == 0 { -1 } else { rng.below(n) as i64 })
        .collect();
    if oob && k > 0 {
        let j = rng.below(k);
        model[j] = (n + rng.below(3)) as i64;
    }
    macro_rules! mk {
        ($t:ty, $n:ty) => {{
            let v: Vec<Option<$n>> = model.iter().map(|x| if *x < 0 { None } else { Some(*x as $n) }).collect();
            Arc::new(PrimitiveArray::<$t>::from(v)) as ArrayRef
        }};
    }
    use arrow_array::types::*;
    // an index type wide enough for every index in the model
    let maxv = model.iter().copied().max().unwrap_or(0);
    let lo = if maxv > 255 { 2 } else if maxv > 127 { 1 } else { 0 };
    let arr = match lo + rng.below(8 - lo) {
        0 => mk!(Int8Type, i8),
        1 => mk!(UInt8Type, u8),
        2 => mk!(Int16Type, i16),
        3 => mk!(UInt16Type, u16),
        4 => mk!(Int32Type, i32),
        5 => mk!(UInt32Type, u32),
        6 => mk!(Int64Type, i64),
        _ => mk!(UInt64Type, u64),
    };
    (arr, model)
}

fn kernels_on(rng: &mut Rng, t: &mut Shards, dt: &DataType, max_len: usize) {
    let n = mk::rand_len(rng, max_len);
    let null_pct = *rng.pick(&[0usize, 0, 10, 30, 90]);
    let base = mk::array(rng, dt, n, Cfg::wild(null_pct));
    let Ok(rows) = guarded(|| tok::rows(base.as_ref())) else { return };
    let ty = tok::type_str(dt);
    let fam = tok::family(dt);
    let nulltoks = tok::null_tokens(dt);
    let zw = matches!(dt, DataType::FixedSizeBinary(0) | DataType::FixedSizeList(_, 0));
    for (mname, a) in mutate::realisations(rng, &base, 4) {
        // binding of the mutator
        let r2 = guarded(|| tok::rows(a.as_ref())).unwrap_or_default();
        t.emit(json!({"op":"realise","type":ty,"fam":fam,"zw":zw,"nulltoks":nulltoks,"via":mname,"rows":tok::strs(&rows),"err":false,"out":tok::strs(&r2)}));

        // filter
        let mlen = if rng.chance(15) && n > 0 { rng.below(n) } else { n };
        let (m, mm) = mask(rng, mlen, true);
        let opt = rng.chance(50);
        let o = call(|| {
            let mut b = FilterBuilder::new(&m);
            if opt { b = b.optimize() }
            b.build().filter(a.as_ref())
        });
        finish(json!({"op":"filter","type":ty,"fam":fam,"zw":zw,"nulltoks":nulltoks,"via":mname,"rows":tok::strs(&rows),"mask":mm,"optimize":opt}), o, t);
        if rng.chance(30) {
            let o = call(|| arrow_select::filter::filter(a.as_ref(), &m));
            finish(json!({"op":"filter","type":ty,"fam":fam,"zw":zw,"nulltoks":nulltoks,"via":mname,"rows":tok::strs(&rows),"mask":mm,"optimize":false}), o, t);
        }
        if rng.chance(10) {
            // too long a predicate must be refused
            let extra = 1 + rng.below(3);
            let (m, mm) = mask(rng, n + extra, false);
            let o = call(|| arrow_select::filter::filter(a.as_ref(), &m));
            finish(json!({"op":"filter","type":ty,"fam":fam,"zw":zw,"nulltoks":nulltoks,"via":mname,"rows":tok::strs(&rows),"mask":mm,"optimize":false}), o, t);
        }

        // take
        let k = mk::rand_len(rng, 40);
        let oob = rng.chance(10);
        let (idx, im) = indices(rng, k, n, true, oob);
        let o = call(|| arrow_select::take::take(a.as_ref(), idx.as_ref(), Some(TakeOptions { check_bounds: true })));
        finish(json!({"op":"take","type":ty,"fam":fam,"zw":zw,"nulltoks":nulltoks,"via":mname,"rows":tok::strs(&rows),"idx":im,"itype":tok::type_str(idx.data_type())}), o, t);
        if !oob {
            let o = call(|| arrow_select::take::take(a.as_ref(), idx.as_ref(), None));
            finish(json!({"op":"take","type":ty,"fam":fam,"zw":zw,"nulltoks":nulltoks,"via":mname,"rows":tok::strs(&rows),"idx":im,"itype":tok::type_str(idx.data_type())}), o, t);
        }

        // nullif
        let (m, mm) = mask(rng, n, true);
        let o = call(|| arrow_select::nullif::nullif(a.as_ref(), &m));
        finish(json!({"op":"nullif","type":ty,"fam":fam,"zw":zw,"nulltoks":nulltoks,"via":mname,"rows":tok::strs(&rows),"mask":mm}), o, t);

        // shift
        let k = rng.range(-(n as i64) - 2, n as i64 + 2);
        let o = call(|| arrow_select::window::shift(a.as_ref(), k));
        finish(json!({"op":"shift","type":ty,"fam":fam,"zw":zw,"nulltoks":nulltoks,"via":mname,"rows":tok::strs(&rows),"k":k}), o, t);

        // slice
        let o0 = rng.below(n + 1);
        let n0 = rng.below(n - o0 + 1);
        let o = call(|| Ok(a.slice(o0, n0)));
        finish(json!({"op":"slice","type":ty,"fam":fam,"zw":zw,"nulltoks":nulltoks,"via":mname,"rows":tok::strs(&rows),"o":o0,"n":n0}), o, t);

        // dictionary garbage collection
        if matches!(dt, DataType::Dictionary(_, _)) {
            let o = call(|| { use arrow_array::cast::AsArray; arrow_select::dictionary::garbage_collect_any_dictionary(a.as_any_dictionary()) });
            finish(json!({"op":"dictgc","type":ty,"fam":fam,"zw":zw,"nulltoks":nulltoks,"via":mname,"rows":tok::strs(&rows)}), o, t);
        }
    }

    // multi-array kernels over independent arrays of the same type (each in a random realisation)
    let narr = 1 + rng.below(4);
    let mut arrs: Vec<ArrayRef> = vec![];
    let mut cols: Vec<Vec<String>> = vec![];
    for _ in 0..narr {
        let n = mk::rand_len(rng, max_len.min(40));
        let null_pct = *rng.pick(&[0usize, 0, 20, 60]);
        let b = mk::array(rng, dt, n, Cfg::wild(null_pct));
        let Ok(r) = guarded(|| tok::rows(b.as_ref())) else { return };
        let rs = mutate::realisations(rng, &b, 4);
        // realisations with non-zero offsets (index 1.. : pad_slice, list_child_offset) are preferred
        let pick = if rs.len() > 1 && rng.chance(70) { 1 + rng.below(rs.len() - 1) } else { rng.below(rs.len()) };
        let chosen = rs[pick].1.clone();
        if guarded(|| tok::rows(chosen.as_ref())).ok().as_ref() != Some(&r) {
            t.emit(json!({"op":"realise","type":ty,"fam":fam,"zw":zw,"nulltoks":nulltoks,"via":rs[pick].0,"rows":tok::strs(&r),"err":false,
                          "out":tok::strs(&guarded(|| tok::rows(chosen.as_ref())).unwrap_or_default())}));
            return;
        }
        arrs.push(chosen);
        cols.push(r);
    }
    let refs: Vec<&dyn Array> = arrs.iter().map(|a| a.as_ref()).collect();
    let colsj = Value::Array(cols.iter().map(|c| tok::strs(c)).collect());
    let o = call(|| arrow_select::concat::concat(&refs));
    finish(json!({"op":"concat","type":ty,"fam":fam,"zw":zw,"nulltoks":nulltoks,"cols":colsj}), o, t);

    // interleave
    let nonempty: Vec<usize> = (0..narr).filter(|i| !cols[*i].is_empty()).collect();
    // (list-like / view types choose between strategies by comparing the selected sizes with the
    //  backing length: few rows, many repeated rows, rows from one source only)
    let il_reps = if matches!(fam, "listview" | "list" | "view" | "dict") { 8 } else { 1 };
    for rep in 0..il_reps {
        if nonempty.is_empty() {
            break;
        }
        let k = match rep % 4 {
            0 => mk::rand_len(rng, 40),
            1 => 60 + rng.below(120), // many repeated rows
            2 => 1 + rng.below(3),
            _ => mk::rand_len(rng, 20),
        };
        let only = if rep % 4 == 3 { Some(*rng.pick(&nonempty)) } else { None };
        let pairs: Vec<(usize, usize)> = (0..k)
            .map(|_| {
                let a = only.unwrap_or_else(|| *rng.pick(&nonempty));
                (a, rng.below(cols[a].len()))
            })
            .collect();
        let pj: Vec<Value> = pairs.iter().map(|(a, b)| json!([a, b])).collect();
        let o = call(|| arrow_select::interleave::interleave(&refs, &pairs));
        finish(json!({"op":"interleave","type":ty,"fam":fam,"zw":zw,"nulltoks":nulltoks,"cols":colsj,"pairs":pj}), o, t);
    }

    // zip (array/array, scalar combinations); the view types have dedicated scalar code paths
    let zip_reps = if fam == "view" { 12 } else { 1 };
    for rep in 0..zip_reps {
        let n = mk::rand_len(rng, max_len.min(70));
        let (m, mm) = mask(rng, n, true);
        let a_scalar = if zip_reps > 1 { rep % 4 >= 2 || rep >= 8 } else { rng.chance(30) };
        let b_scalar = if zip_reps > 1 { rep % 2 == 1 || rep >= 8 } else { rng.chance(30) };
        // a scalar is a one-row array; taken as a one-row slice of a longer array it still
        // carries the buffers / children of its neighbours
        let mut operand = |rng: &mut Rng, scalar: bool| -> ArrayRef {
            let np = *rng.pick(&[0usize, 30]);
            if scalar && fam == "view" && rng.chance(40) {
                // several long (> 12 byte) values, each in its own data buffer: a one-row slice
                // past the first row references a data buffer other than the first
                let m = 3 + rng.below(4);
                let vals: Vec<String> = (0..m).map(|i| format!("long-value-{i}-{}", "x".repeat(rng.below(20)))).collect();
                let big: ArrayRef = if matches!(dt, DataType::Utf8View) {
                    Arc::new(StringViewArray::from_iter_values(vals))
                } else {
                    Arc::new(BinaryViewArray::from_iter_values(vals.iter().map(|v| v.as_bytes())))
                };
                let big = mutate::view_repartition(&big).unwrap_or(big);
                big.slice(1 + rng.below(m - 1), 1)
            } else if scalar && rng.chance(60) {
                let m = 2 + rng.below(5);
                let big = mk::array(rng, dt, m, Cfg::wild(np));
                // view arrays: spread the long values over several data buffers first, so that a
                // one-row slice may reference a buffer other than the first
                let big = if rng.chance(60) { mutate::view_repartition(&big).unwrap_or(big) } else { big };
                big.slice(rng.below(m), 1)
            } else {
                mk::array(rng, dt, if scalar { 1 } else { n }, Cfg::wild(np))
            }
        };
        let a = operand(rng, a_scalar);
        let b = operand(rng, b_scalar);
        let (Ok(ar), Ok(br)) = (guarded(|| tok::rows(a.as_ref())), guarded(|| tok::rows(b.as_ref()))) else { continue };
        let o = call(|| {
            let sa;
            let sb;
            let da: &dyn Datum = if a_scalar { sa = Scalar::new(a.clone()); &sa } else { &a };
            let db: &dyn Datum = if b_scalar { sb = Scalar::new(b.clone()); &sb } else { &b };
            arrow_select::zip::zip(&m, da, db)
        });
        // physical facts about view scalars (used only to scope a known finding): is the value
        // stored out of line (> 12 bytes) or inline
        let first_len = |x: &ArrayRef| -> i64 {
            use arrow_array::cast::AsArray;
            if x.is_empty() || x.is_null(0) { return -1 }
            match x.data_type() {
                DataType::Utf8View => x.as_string_view().value(0).len() as i64,
                DataType::BinaryView => x.as_binary_view().value(0).len() as i64,
                _ => -1,
            }
        };
        let (al, bl) = (first_len(&a), first_len(&b));
        finish(json!({"op":"zip","type":ty,"fam":fam,"zw":zw,"nulltoks":nulltoks,"mask":mm,"a":tok::strs(&ar),"as":a_scalar,"b":tok::strs(&br),"bs":b_scalar,
                      "a_long": al > 12, "b_inline": (0..=12).contains(&bl),
                      "a_nbuf": a.to_data().buffers().len().saturating_sub(1), "b_nbuf": b.to_data().buffers().len().saturating_sub(1)}), o, t);
    }

    // merge_n: indices say which array the next row comes from
    {
        let mut order: Vec<i64> = vec![];
        for (i, c) in cols.iter().enumerate() {
            for _ in 0..c.len() {
                order.push(i as i64);
            }
        }
        for i in (1..order.len()).rev() {
            order.swap(i, rng.below(i + 1));
        }
        // drop a suffix (spurious values are ignored) and sprinkle nulls
        let keep = order.len() - rng.below(order.len().min(3) + 1);
        order.truncate(keep);
        let mut idx: Vec<i64> = vec![];
        for x in order {
            if rng.chance(10) { idx.push(-1) }
            idx.push(x);
        }
        let oi: Vec<Option<usize>> = idx.iter().map(|x| if *x < 0 { None } else { Some(*x as usize) }).collect();
        let o = call(|| arrow_select::merge::merge_n(&refs, &oi));
        finish(json!({"op":"merge","type":ty,"fam":fam,"zw":zw,"nulltoks":nulltoks,"cols":colsj,"idx":idx}), o, t);
    }
}

fn batch_of(rng: &mut Rng, schema: &Arc<Schema>, n: usize) -> RecordBatch {
    let cols: Vec<ArrayRef> = schema
        .fields()
        .iter()
        .map(|f| {
            let np = *rng.pick(&[0usize, 20]);
            let a = mk::array(rng, f.data_type(), n, Cfg::wild(np));
            let rs = mutate::realisations(rng, &a, 3);
            let r = tok::rows(a.as_ref());
            let c = rs[rng.below(rs.len())].1.clone();
            if tok::rows(c.as_ref()) == r { c } else { a }
        })
        .collect();
    for (c, f) in cols.iter().zip(schema.fields()) {
        assert_eq!(c.len(), n, "generated column of {:?} has wrong length", f.data_type());
    }
    RecordBatch::try_new_with_options(schema.clone(), cols, &RecordBatchOptions::new().with_row_count(Some(n))).unwrap()
}

fn coalescer_history(rng: &mut Rng, t: &mut Shards, types: &[DataType], steps: usize) {
    let ncols = 1 + rng.below(3);
    // half of the histories use only the types with a specialised in-progress array
    // (primitive, Utf8View, BinaryView: arrow-select/src/coalesce/{primitive,byte_view}.rs)
    let specialised = [DataType::Utf8View, DataType::BinaryView, DataType::Int32, DataType::Utf8View, DataType::Float64, DataType::BinaryView];
    let focus = rng.chance(50);
    let fields: Vec<Field> = (0..ncols)
        .map(|i| Field::new(format!("c{i}"), if focus { rng.pick(&specialised).clone() } else { rng.pick(types).clone() }, true))
        .collect();
    // known finding C03-take-ree-null-index is decided on the kernel itself; here null indices are
    // only used when no run-end column would hit it
    let has_ree = fields.iter().any(|f| matches!(f.data_type(), DataType::RunEndEncoded(_, _) | DataType::Union(_, _)));
    let special = fields.iter().all(|f| f.data_type().is_primitive() || matches!(f.data_type(), DataType::Utf8View | DataType::BinaryView));
    let schema = Arc::new(Schema::new(fields));
    let target = *rng.pick(&[1usize, 2, 3, 4, 5, 8, 16, 17, 64]);
    let limit: i64 = if rng.chance(35) { rng.range(0, target as i64 + 2) } else { -1 };
    let mut c = BatchCoalescer::new(schema.clone(), target)
        .with_biggest_coalesce_batch_size(if limit < 0 { None } else { Some(limit as usize) });
    t.emit(json!({"op":"new","ncols":ncols,"target":target,"special":special,"limit":limit,"schema":tok::schema_str(&schema)}));
    let maxn = (target * 3).max(4).min(200);
    for _ in 0..steps {
        let op = rng.below(100);
        let mut ev;
        let res: Result<Result<(), arrow_schema::ArrowError>, String>;
        if op < 30 {
            let n = if rng.chance(10) { 0 } else { rng.below(maxn + 1) };
            let b = batch_of(rng, &schema, n);
            ev = json!({"op":"push","rows":tok::strs(&tok::batch_rows(&b))});
            res = guarded(|| c.push_batch(b));
        } else if op < 60 {
            // filtered push; big sparse filters exercise the sparse copy path
            let n = if rng.chance(40) { 16 * (1 + rng.below(6)) + rng.below(3) } else { rng.below(maxn + 1) };
            let b = batch_of(rng, &schema, n);
            let flen = if rng.chance(10) { n + 1 } else if rng.chance(15) && n > 0 { rng.below(n) } else { n };
            let (m, mm) = mask(rng, flen, true);
            ev = json!({"op":"filter","rows":tok::strs(&tok::batch_rows(&b)),"mask":mm});
            res = guarded(|| c.push_batch_with_filter(b, &m));
        } else if op < 72 {
            let n = rng.below(maxn + 1);
            let b = batch_of(rng, &schema, n);
            let k = rng.below(maxn + 1);
            let (idx, im) = indices(rng, k, n, !has_ree, false);
            ev = json!({"op":"indices","rows":tok::strs(&tok::batch_rows(&b)),"idx":im});
            res = guarded(|| c.push_batch_with_indices(b, idx.as_ref()));
        } else if op < 80 {
            ev = json!({"op":"finish"});
            res = guarded(|| c.finish_buffered_batch());
        } else if op < 84 {
            let l: i64 = if rng.chance(30) { -1 } else { rng.range(0, target as i64 + 2) };
            c.set_biggest_coalesce_batch_size(if l < 0 { None } else { Some(l as usize) });
            t.emit(json!({"op":"set_limit","limit":l}));
            continue;
        } else {
            let b = guarded(|| c.next_completed_batch());
            match b {
                Ok(Some(b)) => t.emit(json!({"op":"pop","some":true,"out":tok::strs(&tok::batch_rows(&b)),"schema_ok": b.schema() == schema})),
                Ok(None) => t.emit(json!({"op":"pop","some":false,"out":[]})),
                Err(p) => t.emit(json!({"op":"pop","some":false,"out":[],"note":p,"panicked":true})),
            }
            continue;
        }
        let m = ev.as_object_mut().unwrap();
        match &res {
            Ok(Ok(())) => { m.insert("err".into(), json!(false)); }
            Ok(Err(e)) => { m.insert("err".into(), json!(true)); m.insert("note".into(), json!(e.to_string())); }
            Err(p) => { m.insert("err".into(), json!(true)); m.insert("note".into(), json!(format!("panic: {p}"))); }
        }
        m.insert("buffered".into(), json!(c.get_buffered_rows()));
        m.insert("has".into(), json!(c.has_completed_batch()));
        t.emit(ev);
        if res.is_err() {
            // after a panic the object is in an unspecified state: start a new episode
            return;
        }
    }
    // drain
    let _ = c.finish_buffered_batch();
    t.emit(json!({"op":"finish","err":false,"buffered":c.get_buffered_rows(),"has":c.has_completed_batch()}));
    loop {
        match c.next_completed_batch() {
            Some(b) => t.emit(json!({"op":"pop","some":true,"out":tok::strs(&tok::batch_rows(&b))})),
            None => {
                t.emit(json!({"op":"pop","some":false,"out":[]}));
                break;
            }
        }
    }
}

pub fn run(args: &Args) {
    let mut rng = Rng::new(args.seed);
    let shards = 14;
    let types = mk::all_types();
    // selection kernels
    let mut t = Shards::create(&args.out, "select", shards);
    let rounds = args.scale(3, 30);
    for _ in 0..rounds {
        for dt in &types {
            kernels_on(&mut rng, &mut t, dt, if args.thorough() { 130 } else { 70 });
            t.next_episode();
        }
    }
    let n1 = t.finish();
    // coalescer histories
    let mut t = Shards::create(&args.out, "coalescer", shards);
    let hist = args.scale(150, 3000);
    let coalescable: Vec<DataType> = types
        .iter()
        .filter(|t| !matches!(t, DataType::Null | DataType::FixedSizeBinary(0) | DataType::FixedSizeList(_, 0))) // zero-width types: known finding C03-zero-width-length-lost
        .cloned()
        .collect();
    for _ in 0..hist {
        let steps = 5 + rng.below(25);
        coalescer_history(&mut rng, &mut t, &coalescable, steps);
        t.next_episode();
    }
    let n2 = t.finish();
    println!("DRIVER c03 select_events={n1} coalescer_events={n2}");
}
