#!/usr/bin/env python3
"""regenerate MANIFEST.json from plans/*.py (properties without a plan go to not_applicable)"""
import glob, importlib.util, json, os
ROOT = os.path.dirname(os.path.abspath(__file__))
ids = [json.loads(l)["id"] for l in open(os.path.join(ROOT, "properties.jsonl"))]
plans = {}
for pf in sorted(glob.glob(os.path.join(ROOT, "plans", "C*.py"))):
    spec = importlib.util.spec_from_file_location("p", pf)
    mod = importlib.util.module_from_spec(spec); spec.loader.exec_module(mod)
    plans[mod.PLAN["id"]] = mod.PLAN
ready = [l.strip() for l in open(os.path.join(ROOT, "plans", "ready.txt")) if l.strip() and not l.startswith("#")]
plans = {k: v for k, v in plans.items() if k in ready}
NA = {}
naf = os.path.join(ROOT, "plans", "not_applicable.json")
if os.path.exists(naf):
    NA = json.load(open(naf))
hooks_commits = []
hf = os.path.join(ROOT, "plans", "hook_commits.txt")
if os.path.exists(hf):
    hooks_commits = [l.strip() for l in open(hf) if l.strip()]
checks = []
for i in ids:
    if i not in plans:
        continue
    p = plans[i]
    checks.append(dict(
        property_id=i,
        quick_cmd=f"./check {i} --tier quick",
        thorough_cmd=f"./check {i} --tier thorough",
        evidence_file=f"/verif/evidence/{i}.json",
        replay_cmd_template=f"./check {i} --replay {{path}}",
        engine="tlc+harness",
        level_claimed=dict(category=p["level"], text=p.get("level_text", ""), design_ref=p.get("design_ref", f"DESIGN.md section 3, {i}")),
        level_note=p.get("level_note", "; ".join(p.get("assumptions", []))),
        technique=p.get("technique", "TLA+ specification checked by TLC; implementation traces validated against it by TLC (trace validation)"),
    ))
m = dict(
    version=1,
    setup_cmd="./setup.sh",
    hooks=dict(guard="apache_arrow_rs_verif",
               enable="rustflags --cfg apache_arrow_rs_verif in /verif/harness/.cargo/config.toml (the harness builds /repo's crates as path dependencies with the cfg on)",
               baseline_off_cmd="cd /repo && cargo test --workspace --no-fail-fast --offline",
               source_commits=hooks_commits, add_only=True),
    engines=[dict(name="tlc+harness", path="/verif/check", serves_properties=[c["property_id"] for c in checks],
                  kind_free_text="TLA+ specifications in /verif/spec model-checked by TLC; Rust conformance harness in /verif/harness records traces of the real arrow-rs code (built from /repo's working tree) that TLC validates against the specifications, and replays TLC-generated behaviours into the code")],
    checks=checks,
    notes="See DESIGN.md. known_findings.txt lists genuine defects the checks re-derive (printed as KNOWN-FINDING).",
    not_applicable=[dict(property_id=i, reason=NA.get(i, "check not built yet (work in progress; design in DESIGN.md)")) for i in ids if i not in plans],
)
json.dump(m, open(os.path.join(ROOT, "MANIFEST.json"), "w"), indent=1)
print("checks:", [c["property_id"] for c in checks])
