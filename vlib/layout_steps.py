"""Extra plan steps shared by C01 / C09 (layout dumps are nested records, which the generic
binding self-test of core.py cannot perturb): a nested-field binding self-test and the
collection of the report-only INFO counters printed by Trace_Layout.tla."""
import glob
import json
import os
import re
from concurrent.futures import ThreadPoolExecutor

from vlib.core import ToolError, log


def nested_selftest(tv_glob, module, cfg, mutators):
    """mutators: [(name, fn(event) -> bool)]; fn mutates the event in place and returns True when it applied.
    The mutated trace must be rejected by TLC at (at least) that event."""
    def step(check):
        files = sorted(f for f in glob.glob(os.path.join(check.work, tv_glob)) if os.path.getsize(f) > 0)
        if not files or check.violations:
            return
        lines = open(files[0]).read().splitlines()
        tv = dict(module=module, cfg=cfg)
        jobs = []
        for name, fn in mutators:
            done = False
            for i, ln in enumerate(lines):
                ev = json.loads(ln)
                if fn(ev):
                    p = os.path.join(check.work, f"corrupt_{module}_{name}.ndjson")
                    # keep the trace short: the corrupted event plus a few neighbours
                    lo = max(0, i - 2)
                    with open(p, "w") as f:
                        f.write("\n".join(lines[lo:i] + [json.dumps(ev)] + lines[i + 1:i + 3]) + "\n")
                    jobs.append((name, i, lo, p))
                    done = True
                    break
            if not done:
                check.notes.append(f"binding self-test: no event for mutation {name}")
        with ThreadPoolExecutor(max_workers=8) as ex:
            results = list(ex.map(lambda j: check._tv_one(tv, j[3], "_n"), jobs))
        for (name, i, lo, p), (_, res) in zip(jobs, results):
            rej, kn = check._parse_tv(tv, p, res, [])
            check.binding["mutations"] += 1
            if any(idx == i - lo + 1 for idx, _ in rej) or any(idx == i - lo + 1 for idx, _ in kn):
                check.binding["rejected"] += 1
            else:
                raise ToolError(f"binding self-test: {module} accepted a trace whose event {i + 1} was corrupted ({name})")
            os.remove(p)
        log(f"[bind] {module}: nested mutations {check.binding['rejected']}/{check.binding['mutations']} rejected")
    return step


def info_stats(tv_glob, module, cfg, max_files=1):
    """re-validate up to max_files shards and record the <<"INFO", name, n>> counters (report only)"""
    def step(check):
        files = sorted(f for f in glob.glob(os.path.join(check.work, tv_glob)) if os.path.getsize(f) > 0)[:max_files]
        tv = dict(module=module, cfg=cfg)
        tot = {}
        nev = 0
        for p in files:
            _, res = check._tv_one(tv, p, "_i")
            nev += len(open(p).read().splitlines())
            for m in re.finditer(r'<<"INFO", "(\w+)", (\d+)>>', res["out"]):
                tot[m.group(1)] = tot.get(m.group(1), 0) + int(m.group(2))
        for k, v in tot.items():
            check.extra_cov["sampled_" + k] = v
        check.extra_cov["sampled_events_for_info"] = nev
        log(f"[info] {module}: over {nev} sampled events: {tot}")
    return step
