"""Orchestration shared by every property check (python3, stdlib only).

A check = build harness -> TLC model checking of the property's modules (MC)
-> TLC-generated cases replayed into the implementation (GEN, spec -> impl)
-> implementation traces validated by TLC (TV, impl -> spec) -> binding
self-test (a corrupted trace must be rejected) -> evidence file.

Exit codes: 0 property held on everything explored; 1 violation (a line
"VIOLATION property=<id> replay=<path>" is printed); 2 tool error / timeout.
"""
import glob
import hashlib
import json
import os
import re
import shutil
import subprocess
import sys
import time
from concurrent.futures import ThreadPoolExecutor

ROOT = os.path.dirname(os.path.dirname(os.path.abspath(__file__)))
SPEC = os.path.join(ROOT, "spec")
HARNESS = os.path.join(ROOT, "harness")
WORK = os.path.join(ROOT, "work")
EVID = os.path.join(ROOT, "evidence")
REPLAYS = os.path.join(ROOT, "replays")
KNOWN = os.path.join(ROOT, "known_findings.txt")

TV_JAVA_OPTS = "-Xss1g -Dtlc2.tool.queue.IStateQueue=StateDeque"


class ToolError(Exception):
    pass


def log(*a):
    print(*a, flush=True)


def known_findings():
    """ids of findings listed in known_findings.txt: {id: (property, text)}"""
    out = {}
    if not os.path.exists(KNOWN):
        return out
    for line in open(KNOWN):
        line = line.strip()
        m = re.match(r"finding:\s+property=(\S+)\s+id=(\S+)\s+(.*)", line)
        if m:
            out[m.group(2)] = (m.group(1), m.group(3))
    return out


def cargo_build(packages):
    env = dict(os.environ, CARGO_NET_OFFLINE="true")
    for p in packages:
        t0 = time.time()
        r = subprocess.run(["cargo", "build", "--release", "--offline", "-p", p], cwd=HARNESS, env=env,
                           stdout=subprocess.PIPE, stderr=subprocess.STDOUT, text=True)
        if r.returncode != 0:
            log(r.stdout[-6000:])
            raise ToolError(f"cargo build -p {p} failed")
        log(f"[build] {p} ok ({time.time() - t0:.0f}s)")


def run_tlc(module, cfg, metadir, workers=1, timeout=600, env_extra=None, java_opts=None, extra_args=None, xmx="4g"):
    """run TLC; returns dict(out, rc, states, distinct, timeout)"""
    env = dict(os.environ)
    if java_opts:
        env["JAVA_TOOL_OPTIONS"] = java_opts
    if env_extra:
        env.update(env_extra)
    os.makedirs(metadir, exist_ok=True)
    gc = ["-XX:+UseSerialGC"] if workers == 1 else ["-XX:+UseParallelGC", f"-XX:ParallelGCThreads={max(2, min(int(workers), 8))}"]
    cmd = ["timeout", str(timeout), "java"] + gc + ["-XX:TieredStopAtLevel=4", f"-Xmx{xmx}", "-cp",
           "/opt/veriftools/tla/tla2tools.jar:/opt/veriftools/tla/CommunityModules-deps.jar", "tlc2.TLC",
           "-workers", str(workers), "-metadir", metadir, "-noGenerateSpecTE", "-config", cfg] + (extra_args or []) + [module + ".tla"]
    r = subprocess.run(cmd, cwd=SPEC, env=env, stdout=subprocess.PIPE, stderr=subprocess.STDOUT, text=True)
    out = r.stdout
    res = dict(out=out, rc=r.returncode, timeout=(r.returncode == 124), states=0, distinct=0)
    m = re.findall(r"(\d+) states generated, (\d+) distinct states found", out)
    if m:
        res["states"], res["distinct"] = int(m[-1][0]), int(m[-1][1])
    shutil.rmtree(metadir, ignore_errors=True)
    return res


def tlc_failed(res):
    """TLC reported an error other than what we parse ourselves"""
    return ("Error:" in res["out"]) or (res["rc"] not in (0,))


def coverage_zero_actions(out):
    """actions never taken according to `-coverage 1` output"""
    zero = []
    for m in re.finditer(r"<(\w+) line [^>]*>: (\d+):(\d+)", out):
        if int(m.group(3)) == 0 and int(m.group(2)) == 0:
            zero.append(m.group(1))
    return sorted(set(zero))


class Check:
    def __init__(self, plan, tier, seed):
        self.plan = plan
        self.pid = plan["id"]
        self.tier = tier
        self.seed = seed
        self.t0 = time.time()
        self.work = os.path.join(WORK, self.pid)
        self.violations = []     # (description, replay path)
        self.known_hit = {}      # id -> count
        self.mc_states = 0
        self.mc_distinct = 0
        self.mc_runs = []
        self.tv_events = 0
        self.tv_traces = 0
        self.gen_cases = 0
        self.samples = []
        self.binding = dict(mutations=0, rejected=0)
        self.notes = []
        self.distinct_hashes = set()
        self.extra_cov = {}

    # ------------------------------------------------------------------ utils
    def violation(self, what, replay_obj):
        os.makedirs(os.path.join(REPLAYS, self.pid), exist_ok=True)
        h = hashlib.sha1(json.dumps(replay_obj, sort_keys=True).encode()).hexdigest()[:12]
        path = os.path.join(REPLAYS, self.pid, f"{h}.json")
        with open(path, "w") as f:
            json.dump(replay_obj, f, indent=1)
        self.violations.append((what, path))
        log(f"VIOLATION property={self.pid} replay={path}")
        log(f"  ({what})")

    def tier_val(self, d, key, default=None):
        """plan value that may be given per tier: key_quick / key_thorough / key"""
        return d.get(f"{key}_{self.tier}", d.get(key, default))

    # --------------------------------------------------------------------- MC
    def model_check(self):
        for mc in self.plan.get("mc", []):
            if self.tier not in mc.get("tiers", ("quick", "thorough")):
                continue
            cfg = self.tier_val(mc, "cfg")
            workers = self.tier_val(mc, "workers", 6)
            timeout = self.tier_val(mc, "timeout", 900)
            extra = ["-coverage", "600"] + list(self.tier_val(mc, "args", []))   # interval long enough that only the final report is printed
            t0 = time.time()
            res = run_tlc(mc["module"], cfg, os.path.join(self.work, "md_" + mc["module"]), workers=workers,
                          timeout=timeout, extra_args=extra, xmx=mc.get("xmx", "8g"),
                          java_opts=mc.get("java_opts", "-Xss256m"))
            dt = time.time() - t0
            out = res["out"]
            simulate = any(a.startswith("-simulate") for a in extra)
            if res["timeout"] and not simulate and not mc.get("timeout_ok"):
                raise ToolError(f"TLC {mc['module']} timed out after {timeout}s")
            bad = re.search(r"Error: (Invariant (\w+) is violated|Action property (\w+) is violated|Temporal properties were violated|Deadlock reached)", out)
            if bad:
                tail = out[out.find("Error:"):][:6000]
                self.violation(f"TLC model {mc['module']}: {bad.group(1)}",
                               dict(kind="model", module=mc["module"], cfg=cfg, tlc_output=tail))
                continue
            if "Error:" in out and not (res["timeout"] and simulate):
                log(out[-4000:])
                raise ToolError(f"TLC {mc['module']} failed")
            # a run that was killed (out of memory, signal) must not count as a pass
            finished = ("Model checking completed" in out) or (simulate and (res["timeout"] or "states checked" in out or "The number of states generated" in out))
            if not finished and not (res["timeout"] and mc.get("timeout_ok")):
                log(out[-2000:])
                raise ToolError(f"TLC {mc['module']} did not complete (rc={res['rc']})")
            if simulate:
                m = re.search(r"(\d+) states checked", out.replace(",", ""))
                st = int(m.group(1)) if m else 0
                res["states"], res["distinct"] = st, st
            zero = [a for a in coverage_zero_actions(out) if a not in mc.get("may_be_unused", [])]
            if zero and not simulate:
                self.notes.append(f"{mc['module']}: actions never taken: {zero}")
                if mc.get("require_all_actions", True):
                    raise ToolError(f"vacuity: actions never taken in {mc['module']}: {zero}")
            self.mc_states += res["states"]
            self.mc_distinct += res["distinct"]
            self.mc_runs.append(dict(module=mc["module"], cfg=cfg, states=res["states"], distinct=res["distinct"],
                                     wall_s=round(dt, 1), mode="simulate" if simulate else "exhaustive"))
            log(f"[mc] {mc['module']} {cfg}: {res['states']} states, {res['distinct']} distinct ({dt:.0f}s)")

    # -------------------------------------------------------------------- GEN
    def generate_and_replay(self):
        """spec -> impl: TLC prints CASE lines; the harness replays them and prints MISMATCH lines"""
        for g in self.plan.get("gen", []):
            if self.tier not in g.get("tiers", ("quick", "thorough")):
                continue
            cfg = self.tier_val(g, "cfg")
            res = run_tlc(g["module"], cfg, os.path.join(self.work, "md_" + g["module"]),
                          workers=self.tier_val(g, "workers", 4), timeout=self.tier_val(g, "timeout", 900),
                          extra_args=list(self.tier_val(g, "args", [])), xmx="8g", java_opts="-Xss256m")
            out = res["out"]
            if "Error:" in out and not g.get("errors_ok"):
                log(out[-4000:])
                raise ToolError(f"TLC GEN {g['module']} failed")
            cases = []
            for line in out.splitlines():
                m = re.match(r'\s*<<"CASE", (".*")>>\s*$', line)     # PrintT(<<"CASE", ToJson(x)>>)
                if m:
                    cases.append(json.loads(m.group(1)))
                    continue
                i = line.find("CASE ")
                if i >= 0:
                    s = line[i + 5:].strip()
                    if s.startswith('"') and s.endswith('"'):
                        s = json.loads(s)      # PrintT of a string value prints it quoted
                    cases.append(s)
            cases = sorted(set(cases))
            if not cases:
                raise ToolError(f"GEN {g['module']} produced no cases")
            path = os.path.join(self.work, f"cases_{g['module']}.ndjson")
            with open(path, "w") as f:
                f.write("\n".join(cases) + "\n")
            self.mc_states += res["states"]
            self.mc_distinct += res["distinct"]
            self.mc_runs.append(dict(module=g["module"], cfg=cfg, states=res["states"], distinct=res["distinct"], mode="generate", cases=len(cases)))
            binp = os.path.join(HARNESS, "target", "release", g["bin"])
            r = subprocess.run([binp] + g["args"] + ["--tier", self.tier, "--seed", str(self.seed), "--out", self.work, "--cases", path],
                               stdout=subprocess.PIPE, stderr=subprocess.STDOUT, text=True, timeout=self.tier_val(g, "replay_timeout", 1800))
            if r.returncode != 0:
                log(r.stdout[-4000:])
                raise ToolError(f"replay driver {g['bin']} {g['args']} failed rc={r.returncode}")
            n_mis = 0
            for line in r.stdout.splitlines():
                if line.startswith("MISMATCH "):
                    n_mis += 1
                    if n_mis <= 5:
                        obj = json.loads(line[9:])
                        self.violation(f"replay of TLC behaviour diverges ({g['module']})", dict(kind="gen", module=g["module"], case=obj))
                m = re.match(r"REPLAYED (\d+)", line)
                if m:
                    self.gen_cases += int(m.group(1))
            self.samples.append(dict(kind="tlc_generated_case", module=g["module"], case=json.loads(cases[len(cases) // 2])))
            log(f"[gen] {g['module']}: {len(cases)} cases from TLC replayed into the implementation, {n_mis} mismatches")

    # ------------------------------------------------------------------ drive
    def drive(self):
        for d in self.plan.get("drive", []):
            if self.tier not in d.get("tiers", ("quick", "thorough")):
                continue
            binp = os.path.join(HARNESS, "target", "release", d["bin"])
            t0 = time.time()
            try:
                r = subprocess.run([binp] + d["args"] + ["--tier", self.tier, "--seed", str(self.seed), "--out", self.work],
                                   stdout=subprocess.PIPE, stderr=subprocess.STDOUT, text=True,
                                   timeout=self.tier_val(d, "timeout", 3600))
            except subprocess.TimeoutExpired:
                raise ToolError(f"driver {d['bin']} {d['args']} timed out")
            if r.returncode != 0:
                log(r.stdout[-4000:])
                raise ToolError(f"driver {d['bin']} {d['args']} failed rc={r.returncode}")
            for line in r.stdout.splitlines():
                if line.startswith("DRIVER"):
                    log("[drive] " + line + f" ({time.time() - t0:.0f}s)")
                    for kv in line.split()[2:]:
                        if "=" in kv:
                            k, v = kv.split("=", 1)
                            if v.isdigit():
                                self.extra_cov["driver_" + k] = self.extra_cov.get("driver_" + k, 0) + int(v)

    # --------------------------------------------------------------------- TV
    def _tv_one(self, tv, path, tag=""):
        md = os.path.join(self.work, "md_tv_" + os.path.basename(path) + tag)
        res = run_tlc(tv["module"], tv["cfg"], md, workers=1, timeout=self.tier_val(tv, "timeout", 1200),
                      env_extra={"TRACE": path}, java_opts=TV_JAVA_OPTS, xmx=tv.get("xmx", "3g"))
        return path, res

    def _parse_tv(self, tv, path, res, lines):
        """returns (rejects [(idx, what)], knowns [(idx, id)])"""
        out = res["out"]
        rejects, knowns = [], []
        # TLC's pretty printer wraps a tuple that does not fit in 80 columns over several lines
        # (`<< "REJECT",\n   12,\n   ...`), so white space (incl. newlines) is allowed between the elements
        for m in re.finditer(r'<<\s*"REJECT",\s*(\d+),\s*(.*)', out):
            what = m.group(2).strip()
            rejects.append((int(m.group(1)), what[:-2] if what.endswith(">>") else what))
        for m in re.finditer(r'<<\s*"KNOWN",\s*(\d+),\s*"([^"]+)"', out):
            knowns.append((int(m.group(1)), m.group(2)))
        inv = re.search(r"Error: Invariant (\w+) is violated", out)
        if inv:
            # the state index is the trace position
            m = re.findall(r"\bl = (\d+)", out)
            idx = int(m[-1]) - 1 if m else 0
            rejects.append((idx, f"invariant {inv.group(1)} violated"))
        elif res["timeout"]:
            raise ToolError(f"TLC trace validation timed out on {path}")
        elif "UNCONSUMED" in out or "Error:" in out or res["rc"] != 0:
            # evaluation error: TLC could not interpret an event (malformed output is a finding candidate)
            m = re.search(r'<<"UNCONSUMED", (\d+), (\d+)>>', out)
            idx = int(m.group(1)) if m else 0
            err = out[out.find("Error:"):][:1500] if "Error:" in out else out[-1500:]
            rejects.append((idx, "TLC could not evaluate the event: " + err.replace("\n", " ")[:600]))
        return rejects, knowns

    def validate_traces(self):
        known = known_findings()
        for tv in self.plan.get("tv", []):
            files = sorted(glob.glob(os.path.join(self.work, tv["glob"])))
            files = [f for f in files if os.path.getsize(f) > 0]
            if not files:
                raise ToolError(f"no traces match {tv['glob']}")
            t0 = time.time()
            with ThreadPoolExecutor(max_workers=tv.get("parallel", 14)) as ex:
                results = list(ex.map(lambda p: self._tv_one(tv, p), files))
            nrej = 0
            for path, res in results:
                lines = open(path).read().splitlines()
                self.tv_traces += 1
                self.tv_events += len(lines)
                for ln in lines:
                    self.distinct_hashes.add(hashlib.md5(ln.encode()).digest()[:8])
                rejects, knowns = self._parse_tv(tv, path, res, lines)
                for idx, kid in knowns:
                    if kid in known and known[kid][0] == self.pid:
                        self.known_hit[kid] = self.known_hit.get(kid, 0) + 1
                    else:
                        rejects.append((idx, f"finding id {kid} is not listed in known_findings.txt"))
                for idx, what in rejects:
                    nrej += 1
                    if nrej > 8:
                        continue
                    ev = json.loads(lines[idx - 1]) if 0 < idx <= len(lines) else {}
                    # include the episode prefix for stateful traces
                    ctx = []
                    if tv.get("stateful"):
                        j = idx - 1
                        while j > 0 and json.loads(lines[j]).get("op") not in tv.get("reset_ops", ["new", "reset"]):
                            j -= 1
                        ctx = [json.loads(x) for x in lines[j:idx]]
                    self.violation(f"{tv['module']} rejects event {idx} of {os.path.basename(path)}: {what[:300]}",
                                   dict(kind="trace", module=tv["module"], cfg=tv["cfg"], seed=self.seed, tier=self.tier,
                                        event=ev, episode=ctx))
            if nrej > 8:
                log(f"  ... {nrej - 8} further rejected events not listed")
            # samples
            mid = open(files[0]).read().splitlines()
            if mid:
                s = mid[min(len(mid) - 1, 3)]
                self.samples.append(dict(kind="validated_event", module=tv["module"], event=json.loads(s) if len(s) < 3000 else s[:3000]))
            log(f"[tv] {tv['module']}: {len(files)} traces, {sum(len(open(p).read().splitlines()) for p in files)} events validated, {nrej} rejected ({time.time() - t0:.0f}s)")
            if not self.violations:
                self.binding_selftest(tv, files)

    # ------------------------------------------------------- binding self-test
    def binding_selftest(self, tv, files):
        """corrupt recorded fields; TLC must reject (a spec that accepts a corrupted trace is a broken check)"""
        fields = tv.get("corrupt", ["out"])
        src = files[0]
        lines = open(src).read().splitlines()
        jobs = []
        for fld in fields:
            for i, ln in enumerate(lines):
                ev = json.loads(ln)
                v = ev.get(fld)
                ok = False
                if isinstance(v, list) and len(v) > 0:
                    if isinstance(v[0], str):
                        v[0] = v[0] + "#"
                        ok = True
                    elif isinstance(v[0], int) and not isinstance(v[0], bool):
                        v[0] = v[0] + 1
                        ok = True
                    elif isinstance(v[0], list) and v[0]:
                        if isinstance(v[0][0], str):
                            v[0][0] += "#"
                            ok = True
                        elif isinstance(v[0][0], int):
                            v[0][0] += 1
                            ok = True
                elif isinstance(v, bool):
                    ev[fld] = not v
                    ok = True
                elif isinstance(v, int):
                    ev[fld] = v + 1
                    ok = True
                elif isinstance(v, str):
                    ev[fld] = v + "#"
                    ok = True
                if ok and tv.get("corrupt_filter", lambda e: True)(ev):
                    mutated = lines[:i] + [json.dumps(ev)] + lines[i + 1:]
                    p = os.path.join(self.work, f"corrupt_{tv['module']}_{fld}.ndjson")
                    with open(p, "w") as f:
                        f.write("\n".join(mutated) + "\n")
                    jobs.append((fld, i + 1, p))
                    break
        if not jobs:
            self.notes.append(f"binding self-test: nothing to corrupt in {os.path.basename(src)}")
            return
        with ThreadPoolExecutor(max_workers=8) as ex:
            results = list(ex.map(lambda j: self._tv_one(tv, j[2], "_c"), jobs))
        for (fld, idx, p), (_, res) in zip(jobs, results):
            self.binding["mutations"] += 1
            rej, kn = self._parse_tv(tv, p, res, [])
            if rej or kn:
                self.binding["rejected"] += 1
            else:
                raise ToolError(f"binding self-test: {tv['module']} accepted a trace whose field '{fld}' of event {idx} was corrupted")
            os.remove(p)
        log(f"[bind] {tv['module']}: {self.binding['rejected']}/{self.binding['mutations']} corrupted traces rejected")

    # --------------------------------------------------------------- evidence
    def write_evidence(self):
        os.makedirs(EVID, exist_ok=True)
        level = self.plan["level"]
        evals = self.tv_events + self.gen_cases
        cov = dict(
            evaluations=max(evals, 0),
            distinct_nontrivial=len(self.distinct_hashes) + self.gen_cases,
            rule=self.plan.get("rule", "events recorded from the implementation and validated by TLC against the TLA+ specification; distinct = distinct event records"),
            samples=self.samples[:6] or [dict(note="no samples")],
            states=self.mc_distinct,
            transitions=self.mc_states,
            traces_validated_against_impl=self.tv_traces + self.gen_cases,
            events_validated=self.tv_events,
            tlc_generated_cases_replayed=self.gen_cases,
            tlc_runs=self.mc_runs,
            binding_mutations=self.binding["mutations"],
            binding_mutations_rejected=self.binding["rejected"],
            known_findings_hit=self.known_hit,
            notes=self.notes,
            exhaustive=False,
        )
        cov.update(self.extra_cov)
        ev = dict(property_id=self.pid, tier=self.tier, seed=self.seed, level=level, coverage=cov,
                  assumptions=self.plan.get("assumptions", []), wall_s=round(time.time() - self.t0, 1),
                  violations=len(self.violations))
        with open(os.path.join(EVID, f"{self.pid}.json"), "w") as f:
            json.dump(ev, f, indent=1)

    # -------------------------------------------------------------------- run
    def run(self):
        shutil.rmtree(self.work, ignore_errors=True)
        os.makedirs(self.work, exist_ok=True)
        cargo_build(self.plan.get("build", []))
        self.model_check()
        self.generate_and_replay()
        self.drive()
        self.validate_traces()
        for extra in self.plan.get("extra_steps", []):
            extra(self)
        self.write_evidence()
        known = known_findings()
        for kid, n in sorted(self.known_hit.items()):
            log(f"KNOWN-FINDING: property={self.pid} {kid}: {known[kid][1]} (met {n}x)")
        if not self.plan.get("keep_work"):
            shutil.rmtree(self.work, ignore_errors=True)
        return 1 if self.violations else 0


def replay(plan, path):
    """re-validate a recorded failing event / episode (or re-print a model counterexample)"""
    obj = json.load(open(path))
    pid = plan["id"]
    if obj.get("kind") == "trace":
        work = os.path.join(WORK, pid + "_replay")
        os.makedirs(work, exist_ok=True)
        p = os.path.join(work, "replay.ndjson")
        evs = obj.get("episode") or [obj["event"]]
        with open(p, "w") as f:
            for e in evs:
                f.write(json.dumps(e) + "\n")
        res = run_tlc(obj["module"], obj["cfg"], os.path.join(work, "md"), workers=1, timeout=600,
                      env_extra={"TRACE": p}, java_opts=TV_JAVA_OPTS)
        bad = re.findall(r'<<\s*"REJECT".*|Error:.*', res["out"])
        shutil.rmtree(work, ignore_errors=True)
        if bad:
            log("\n".join(bad[:10]))
            log(f"VIOLATION property={pid} replay={path}")
            return 1
        log("replay: trace accepted")
        return 0
    log(json.dumps(obj, indent=1)[:8000])
    log(f"VIOLATION property={pid} replay={path}")
    return 1


def main(argv):
    import importlib.util
    if len(argv) < 2:
        log("usage: check <id> [--tier quick|thorough] [--seed N] [--replay PATH]")
        return 2
    pid = argv[1]
    tier = os.environ.get("VERIF_TIER", "quick")
    seed = int(os.environ.get("VERIF_SEED", "1") or 1)
    rp = None
    i = 2
    while i < len(argv):
        if argv[i] == "--tier":
            tier = argv[i + 1]; i += 2
        elif argv[i] == "--seed":
            seed = int(argv[i + 1]); i += 2
        elif argv[i] == "--replay":
            rp = argv[i + 1]; i += 2
        else:
            i += 1
    pf = os.path.join(ROOT, "plans", f"{pid}.py")
    if not os.path.exists(pf):
        log(f"no plan for {pid}")
        return 2
    spec = importlib.util.spec_from_file_location("plan_" + pid, pf)
    mod = importlib.util.module_from_spec(spec)
    spec.loader.exec_module(mod)
    plan = mod.PLAN
    try:
        if rp:
            return replay(plan, rp)
        return Check(plan, tier, seed).run()
    except ToolError as e:
        log(f"TOOL-ERROR property={pid}: {e}")
        return 2
    except subprocess.TimeoutExpired as e:
        log(f"TOOL-ERROR property={pid}: timeout {e}")
        return 2
