#!/usr/bin/env python3
"""(re)generate DESIGN.md section 5.4 from known_findings.txt"""
import re
ROOT='/verif/'
lines=[l.strip() for l in open(ROOT+'known_findings.txt') if l.startswith(('finding:','fixed:'))]
out=["### 5.4 Findings produced by the checks (generated from known_findings.txt)\n",
     "Every entry was reproduced against the real code (the drivers' `repro` / `probe` subcommands print minimal reproductions); each `finding` is matched at run time by a narrow predicate (`KF`) in the named trace specification, each `fixed` entry was repaired by a `fix:` commit in /repo (the existing test suite still passes: all 5890 baseline tests) and suppresses nothing.\n"]
by={}
for l in lines:
    m=re.match(r'(finding|fixed): property=(\S+) (.*)', l)
    by.setdefault(m.group(2),[]).append((m.group(1),m.group(3)))
for pid in sorted(by):
    out.append(f"\n**{pid}**\n")
    for kind,txt in by[pid]:
        if kind=='finding':
            m=re.match(r'id=(\S+) (.*)',txt); out.append(f"* `{m.group(1)}` - {m.group(2)}")
        else:
            m=re.match(r'(\S+) \(was finding id=(\S+)\) (.*)',txt)
            if m: out.append(f"* FIXED in /repo commit `{m.group(1)}` (was `{m.group(2)}`) - {m.group(3)}")
            else: out.append(f"* FIXED {txt}")
md="\n".join(out)+"\n"
s=open(ROOT+'DESIGN.md').read()
start=s.find('### 5.4 Findings produced by the checks')
if start>=0:
    end=s.find('\n## 6. Layout', start)
    s=s[:start]+md+s[end:]
else:
    i=s.find('\n## 6. Layout')
    s=s[:i]+"\n"+md+s[i:]
open(ROOT+'DESIGN.md','w').write(s)
print(len(lines),'entries')
