#!/bin/sh
# Build the conformance harness (offline, path dependencies on /repo) and parse every TLA+ module.
set -e
cd "$(dirname "$0")"
export CARGO_NET_OFFLINE=true
(cd harness && cargo build --release --offline --workspace 2>&1 | tail -3)
cd spec
for m in *.tla; do
  tla-sany "$m" > /tmp/sany.$$ 2>&1 || { cat /tmp/sany.$$; rm -f /tmp/sany.$$; echo "SANY failed on $m"; exit 1; }
done
rm -f /tmp/sany.$$
echo setup ok
