#!/bin/sh
# usage: mutcheck.sh <name> <patch.diff> <check id>... [-- extra check args]
# Runs checks against a MUTATED copy of arrow-rs without touching /repo or /verif:
#   a persistent worktree of /repo at /tmp/mutw/repo (reset, then the patch applied) and a copy of
#   /verif at /tmp/mutw/verif whose harness path dependencies point at the mutated worktree (its
#   target dir is kept between runs so that only the mutated crate and its dependents rebuild).
# One run at a time.  `mutcheck.sh --clean` removes everything.
# Exit 0 if some check reported a VIOLATION (mutation detected), 1 if none did, 2 on errors.
set -u
root=/tmp/mutw
if [ "$1" = "--clean" ]; then
  [ -d $root/repo ] && git -C /repo worktree remove --force $root/repo
  rm -rf $root; exit 0
fi
name=$1; patch=$2; shift 2
ids=""; extra=""
while [ $# -gt 0 ]; do
  if [ "$1" = "--" ]; then shift; extra="$*"; break; fi
  ids="$ids $1"; shift
done
mkdir -p $root
if [ ! -d $root/repo ]; then git -C /repo worktree add -q --detach $root/repo HEAD || exit 2; fi
git -C $root/repo checkout -q -- . && git -C $root/repo clean -fdq -e target
git -C $root/repo checkout -q --detach "$(git -C /repo rev-parse HEAD)"   # follow /repo (fix: commits)
if ! git -C $root/repo apply "$patch"; then echo "patch does not apply"; exit 2; fi
mkdir -p $root/verif
rsync -a --delete --exclude target --exclude work --exclude .git --exclude replays /verif/ $root/verif/
rm -rf $root/verif/replays
for d in $root/verif/harness/p/*/; do   # packages another builder is still creating would break the workspace
  if [ ! -f $d/Cargo.toml ] || { [ ! -f $d/src/main.rs ] && [ ! -f $d/src/lib.rs ]; }; then rm -rf $d; fi
done
find $root/verif/harness -name Cargo.toml | xargs sed -i "s|\"/repo/|\"$root/repo/|g"
found=1
for id in $ids; do
  echo "=== $name: check $id $extra"
  (cd $root/verif && ./check $id $extra 2>&1 | grep -E 'VIOLATION|rejects|TOOL-ERROR|\[gen\]|\[tv\]|\[mc\]|diverges|model' | cut -c1-300 | head -40)
  if ls $root/verif/replays/$id/*.json >/dev/null 2>&1; then found=0; mkdir -p /verif/work/mut_$name; cp $root/verif/replays/$id/*.json /verif/work/mut_$name/ 2>/dev/null; fi
done
git -C $root/repo checkout -q -- .
exit $found
