SPECIFICATION MCSpec
CONSTANTS
  NoDict = NoDict
  Kinds = {"file"}
  Handlings = {"delta"}
  NDs = {2}
  Vals = {"a", "b"}
  MaxLen = 3
  MaxWrites = 3
  ContinueAfterError = TRUE
INVARIANTS R1_Unconditional
CHECK_DEADLOCK FALSE
