SPECIFICATION MCSpec
CONSTANTS
  NoDict = NoDict
  Kinds = {"file"}
  Handlings = {"delta"}
  NDs = {2}
  Vals = {"a", "b"}
  MaxLen = 2
  MaxWrites = 3
  ContinueAfterError = TRUE
  Rich = FALSE
INVARIANTS R1_Unconditional
CHECK_DEADLOCK FALSE
