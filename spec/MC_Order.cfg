SPECIFICATION Spec
CONSTANTS
  MaxCol = 4
INVARIANTS OrderLaws SortLaws RankLaws PartitionLaws LexLaws KernelLaws
CHECK_DEADLOCK FALSE
