--------------------------- MODULE MC_JsonGrammar ---------------------------
(* Design-level check of JsonGrammar.tla (C17).  TLC evaluates                  *)
(*   * Parse(Write(v)) = v for EVERY value of depth <= 2 over a leaf set with   *)
(*     all literal kinds, numbers with fraction / exponent, strings with quote, *)
(*     backslash, control, non-BMP characters, and objects whose keys need      *)
(*     escapes ("value" mode), and for every string up to a length over an      *)
(*     alphabet of such characters ("string" mode);                             *)
(*   * for EVERY token string up to a length: Parse is total, and an accepted   *)
(*     text denotes a well-formed value that is a fixed point of Write / Parse  *)
(*     ("text" mode);                                                           *)
(*   * the number recogniser against a declarative definition of the RFC's      *)
(*     number production, and \uXXXX escapes (BMP and surrogate pairs) against  *)
(*     the writer-independent reading, for every lexeme up to a length          *)
(*     ("number" / "escape" modes).                                             *)
EXTENDS JsonGrammar, TLC, FiniteSets

CONSTANTS MaxKids,      \* elements / members per array / object
          MaxStr,       \* length of the strings in "string" mode
          MaxTokens,    \* tokens per text in "text" mode
          MaxNum,       \* length of the number lexemes
          BigLeaves,    \* TRUE: the larger leaf set
          Modes         \* which universes are explored

SeqsUpTo(S, n) == UNION {[1..k -> S] : k \in 0..n}

Leaves ==
  {Lit("null"), Lit("true"), Num(<<48>>), Str(<<34, 92>>)}
  \cup (IF BigLeaves THEN {Lit("false"), Num(<<45, 49, 46, 53, 101, 43, 50>>), Str(<<>>), Str(<<10, 1, 128512>>)} ELSE {})
Keys == IF BigLeaves THEN {<<97>>, <<34, 10>>} ELSE {<<34, 10>>}
Level(S) ==
  S \cup {Arr(kids) : kids \in SeqsUpTo(S, MaxKids)}
    \cup UNION {{Obj(ks, vs) : ks \in [1..n -> Keys], vs \in [1..n -> S]} : n \in 0..MaxKids}
U1 == Level(Leaves)

StrAlpha == {97, 34, 92, 47, 8, 9, 10, 12, 13, 0, 31, 127, 233, 8232, 65535, 65536, 128512, 1114111}
Tokens == <<  <<LBRACK>>, <<RBRACK>>, <<LBRACE>>, <<RBRACE>>, <<COMMA>>, <<COLON>>, <<32>>,
              <<QUOTE, 97, QUOTE>>, <<QUOTE, BSL, 110, QUOTE>>, <<49>>, <<45, 48, 46, 53, 101, 49>>,
              <<116, 114, 117, 101>>, <<110, 117, 108, 108>> >>
NumAlpha == {45, 43, 48, 49, 46, 101}

RECURSIVE Flatten(_)
Flatten(ts) == IF ts = <<>> THEN <<>> ELSE Tokens[Head(ts)] \o Flatten(Tail(ts))

VARIABLES mode, v, txt
vars == <<mode, v, txt>>

Init ==
  \/ /\ "value" \in Modes /\ mode = "value" /\ txt = <<>>
     /\ \/ v \in U1
        \/ \E n \in 1..MaxKids : \E kids \in [1..n -> U1] : v = Arr(kids)
        \/ \E n \in 1..MaxKids : \E ks \in [1..n -> Keys] : \E vs \in [1..n -> U1] : v = Obj(ks, vs)
  \/ /\ "string" \in Modes /\ mode = "string" /\ txt = <<>> /\ \E s \in SeqsUpTo(StrAlpha, MaxStr) : v = Str(s)
  \/ /\ "text" \in Modes /\ mode = "text" /\ v = Lit("null") /\ \E ts \in SeqsUpTo(1..Len(Tokens), MaxTokens) : txt = Flatten(ts)
  \/ /\ "number" \in Modes /\ mode = "number" /\ v = Lit("null") /\ txt \in SeqsUpTo(NumAlpha, MaxNum)
  \/ /\ "escape" \in Modes /\ mode = "escape" /\ v = Lit("null")
     /\ \E a \in {0, 9, 13, 15} : \E b \in {0, 8, 11, 12, 15} : \E c \in {0, 15} : \E d \in {0, 10, 15} :
          \E up \in BOOLEAN :
            LET H(n) == IF n < 10 THEN 48 + n ELSE IF up THEN 55 + n ELSE 87 + n IN
            txt = <<H(a), H(b), H(c), H(d)>>
Next == UNCHANGED vars
Spec == Init /\ [][Next]_vars

T_RoundTrip == mode \in {"value", "string"} => (WF(v) /\ RoundTrip(v))
T_Total == mode = "text" => Parse(txt).ok \in BOOLEAN
T_FixedPoint == mode = "text" => LET p == Parse(txt) IN p.ok => (WF(p.v) /\ RoundTrip(p.v))
(* the stream reading of a single document is the document *)
T_Stream == mode = "text" => LET p == Parse(txt) IN p.ok => ParseStream(txt) = [ok |-> TRUE, vs |-> <<p.v>>]

(* number = [ - ] int [ frac ] [ exp ], stated by decomposition *)
IsDigits(s) == s # <<>> /\ \A i \in 1..Len(s) : IsDigit(s[i])
IsInt(s) == IsDigits(s) /\ (s[1] = 48 => Len(s) = 1)
IsFrac(s) == s = <<>> \/ (s[1] = DOT /\ IsDigits(Tail(s)))
IsExp(s) == s = <<>> \/ (s[1] \in {101, 69} /\ (IsDigits(Tail(s)) \/ (Len(s) >= 2 /\ s[2] \in {PLUS, MINUS} /\ IsDigits(Tail(Tail(s))))))
IsNumber(s) ==
  LET u == IF s # <<>> /\ s[1] = MINUS THEN Tail(s) ELSE s IN
  \E i \in 0..Len(u) : \E j \in i..Len(u) :
     IsInt(SubSeq(u, 1, i)) /\ IsFrac(SubSeq(u, i + 1, j)) /\ IsExp(SubSeq(u, j + 1, Len(u)))
T_Number == mode = "number" => (Parse(txt) = [ok |-> TRUE, v |-> Num(txt)]) = IsNumber(txt)

(* "\uXXXX" denotes the code unit XXXX; a surrogate alone denotes nothing; a pair denotes the supplementary character *)
T_Escape ==
  mode = "escape" =>
    LET u == Hex4(txt, 1)
        one == Parse(<<QUOTE, BSL, 117>> \o txt \o <<QUOTE>>)
        pair == Parse(<<QUOTE, BSL, 117, 100, 56, 51, 100, BSL, 117>> \o txt \o <<QUOTE>>)      \* \ud83d + this one
    IN /\ u < 65536
       /\ one = IF IsHigh(u) \/ IsLow(u) THEN [ok |-> FALSE, v |-> Lit("null")] ELSE [ok |-> TRUE, v |-> Str(<<u>>)]
       /\ pair = IF IsLow(u) THEN [ok |-> TRUE, v |-> Str(<<65536 + 61 * 1024 + (u - 56320)>>)]
                 ELSE [ok |-> FALSE, v |-> Lit("null")]
=============================================================================
