------------------------------- MODULE Dremel -------------------------------
(***************************************************************************)
(* Dremel record shredding (property C05): nested values <-> per-leaf       *)
(* streams of (repetition level, definition level, value) triples, as the   *)
(* Parquet format defines them for the schemas the Arrow writer produces.   *)
(*                                                                         *)
(* Schema nodes (uniform shape, so that they can come from JSON):           *)
(*   [k |-> "leaf",   opt |-> nullable, c |-> <<>>]                         *)
(*   [k |-> "struct", opt |-> nullable, c |-> <<field, ...>>]               *)
(*   [k |-> "list",   opt |-> nullable, c |-> <<element>>]                  *)
(* An Arrow List / LargeList / ListView / FixedSizeList of field e is the   *)
(* three-level Parquet list  `opt group (LIST) { repeated group { e } }`;   *)
(* an Arrow Map is `List(opt, Struct(FALSE, <<key, value>>))` (the entries  *)
(* group is the repeated group itself, the key is required).  `opt` of the  *)
(* node is the nullability of the Arrow field.                              *)
(*                                                                         *)
(* Values (the order-key / token tree shape used across the project):       *)
(*   [k |-> "~"]                  null                                      *)
(*   [k |-> "v", x |-> token]     leaf value (an opaque token)              *)
(*   [k |-> "r", c |-> <<..>>]    struct: one value per field               *)
(*   [k |-> "l", c |-> <<..>>]    list: the elements                        *)
(*                                                                         *)
(* A leaf stream is a sequence of triples [r, d, x]; x = None when the      *)
(* definition level says that no leaf value is stored.                      *)
(*                                                                         *)
(* Shred is written from the format definition: every optional ancestor     *)
(* that is defined adds 1 to d, every repeated ancestor that has at least   *)
(* one element adds 1 to d; r is the depth of the innermost repeated        *)
(* ancestor in which the entry continues an existing list (0 = new row).    *)
(* Assemble is written independently (record assembly by splitting the      *)
(* streams at repetition levels and reading nullness off the first          *)
(* definition level); MC_Dremel checks Assemble(Shred(v)) = v.              *)
(***************************************************************************)
EXTENDS Naturals, Sequences, FiniteSets

None == "~"
Null == [k |-> "~"]
Val(x) == [k |-> "v", x |-> x]
Rcd(c) == [k |-> "r", c |-> c]
Lst(c) == [k |-> "l", c |-> c]

Leaf(o) == [k |-> "leaf", opt |-> o, c |-> <<>>]
Struct(o, fs) == [k |-> "struct", opt |-> o, c |-> fs]
List(o, e) == [k |-> "list", opt |-> o, c |-> <<e>>]
Map(o, key, val) == List(o, Struct(FALSE, <<key, val>>))

O(s) == IF s.opt THEN 1 ELSE 0
T(r, d, x) == [r |-> r, d |-> d, x |-> x]

RECURSIVE Flat(_)
Flat(ss) == IF ss = <<>> THEN <<>> ELSE Head(ss) \o Flat(Tail(ss))

RECURSIVE NLeaves(_)
NLeaves(s) == IF s.k = "leaf" THEN 1 ELSE Len(Flat([i \in 1..Len(s.c) |-> [j \in 1..NLeaves(s.c[i]) |-> 0]]))

(* is v a value of schema s ?                                               *)
RECURSIVE WellTyped(_, _)
WellTyped(s, v) ==
  IF v.k = "~" THEN s.opt
  ELSE CASE s.k = "leaf"   -> v.k = "v"
         [] s.k = "struct" -> v.k = "r" /\ Len(v.c) = Len(s.c) /\ \A i \in 1..Len(s.c) : WellTyped(s.c[i], v.c[i])
         [] s.k = "list"   -> v.k = "l" /\ \A i \in 1..Len(v.c) : WellTyped(s.c[1], v.c[i])
         [] OTHER -> FALSE

(* maximum definition and repetition level of every leaf, in schema order   *)
RECURSIVE MaxLevelsN(_, _, _)
MaxLevelsN(s, d, r) ==
  CASE s.k = "leaf"   -> << [d |-> d + O(s), r |-> r] >>
    [] s.k = "struct" -> Flat([i \in 1..Len(s.c) |-> MaxLevelsN(s.c[i], d + O(s), r)])
    [] s.k = "list"   -> MaxLevelsN(s.c[1], d + O(s) + 1, r + 1)
MaxLevels(s) == MaxLevelsN(s, 0, 0)

(***************************************************************************)
(* Shred                                                                    *)
(***************************************************************************)
(* one entry (r, d, no value) in every leaf below s                         *)
Absent(s, r, d) == [i \in 1..NLeaves(s) |-> <<T(r, d, None)>>]

(* leaf-wise concatenation of two vectors of streams                        *)
Zip(a, b) == [i \in 1..Len(a) |-> a[i] \o b[i]]

RECURSIVE ShredN(_, _, _, _, _), ShredElems(_, _, _, _, _, _)
(* s: node, v: its value, r: repetition level of the first entry produced,  *)
(* d: definition level reached by the ancestors, depth: number of repeated  *)
(* ancestors.  Result: one stream per leaf below s.                         *)
ShredN(s, v, r, d, depth) ==
  IF v.k = "~" THEN Absent(s, r, d)
  ELSE CASE s.k = "leaf"   -> << <<T(r, d + O(s), v.x)>> >>
         [] s.k = "struct" -> Flat([i \in 1..Len(s.c) |-> ShredN(s.c[i], v.c[i], r, d + O(s), depth)])
         [] s.k = "list"   ->
              IF v.c = <<>> THEN Absent(s, r, d + O(s))
              ELSE ShredElems(s.c[1], v.c, 1, r, d + O(s) + 1, depth + 1)
(* elements i.. of a non-empty list; depth is the depth *inside* the list   *)
ShredElems(e, vs, i, r, d, depth) ==
  LET h == ShredN(e, vs[i], IF i = 1 THEN r ELSE depth, d, depth) IN
  IF i = Len(vs) THEN h ELSE Zip(h, ShredElems(e, vs, i + 1, r, d, depth))

RECURSIVE ShredFrom(_, _, _)
ShredFrom(s, rows, i) ==
  IF i > Len(rows) THEN [j \in 1..NLeaves(s) |-> <<>>]
  ELSE Zip(ShredN(s, rows[i], 0, 0, 0), ShredFrom(s, rows, i + 1))

(* a column (sequence of rows of schema s) as one stream per leaf           *)
Shred(s, rows) == ShredFrom(s, rows, 1)

(***************************************************************************)
(* Assemble                                                                 *)
(***************************************************************************)
(* index of the next entry after the first that starts a new piece at       *)
(* repetition level <= lvl (Len + 1 if none)                                *)
NextStart(st, lvl) ==
  IF \E j \in 2..Len(st) : st[j].r <= lvl
  THEN CHOOSE j \in 2..Len(st) : st[j].r <= lvl /\ \A i \in 2..(j - 1) : st[i].r > lvl
  ELSE Len(st) + 1

RECURSIVE Pieces(_, _)
Pieces(st, lvl) ==
  IF st = <<>> THEN <<>>
  ELSE LET n == NextStart(st, lvl) IN <<SubSeq(st, 1, n - 1)>> \o Pieces(SubSeq(st, n, Len(st)), lvl)

(* first leaf index (1-based) of the i-th child of s within the leaves of s *)
LeafLo(s, i) == 1 + Len(Flat([j \in 1..(i - 1) |-> [q \in 1..NLeaves(s.c[j]) |-> 0]]))

RECURSIVE AssembleN(_, _, _, _)
(* ss: for every leaf below s the entries of *one* occurrence of s          *)
AssembleN(s, ss, d, depth) ==
  LET d1 == ss[1][1].d IN
  CASE s.k = "leaf" -> IF d1 = d + O(s) THEN Val(ss[1][1].x) ELSE Null
    [] s.k = "struct" ->
         IF s.opt /\ d1 <= d THEN Null
         ELSE Rcd([i \in 1..Len(s.c) |->
                    AssembleN(s.c[i], SubSeq(ss, LeafLo(s, i), LeafLo(s, i) + NLeaves(s.c[i]) - 1), d + O(s), depth)])
    [] s.k = "list" ->
         IF s.opt /\ d1 <= d THEN Null
         ELSE IF d1 <= d + O(s) THEN Lst(<<>>)
         ELSE LET ps == [j \in 1..Len(ss) |-> Pieces(ss[j], depth + 1)] IN
              Lst([e \in 1..Len(ps[1]) |->
                    AssembleN(s.c[1], [j \in 1..Len(ss) |-> ps[j][e]], d + O(s) + 1, depth + 1)])

Assemble(s, ss) ==
  LET ps == [j \in 1..Len(ss) |-> Pieces(ss[j], 0)] IN
  [e \in 1..Len(ps[1]) |-> AssembleN(s, [j \in 1..Len(ss) |-> ps[j][e]], 0, 0)]

(***************************************************************************)
(* Theorems (checked exhaustively over a bounded universe by MC_Dremel)     *)
(***************************************************************************)
RoundTrip(s, rows) == Assemble(s, Shred(s, rows)) = rows

(* levels within the schema's maxima; a value is stored iff d is maximal;   *)
(* every row starts exactly one record (r = 0) in every leaf                *)
LevelsSound(s, rows) ==
  LET ss == Shred(s, rows)
      mx == MaxLevels(s)
  IN /\ Len(ss) = NLeaves(s) /\ Len(mx) = NLeaves(s)
     /\ \A j \in 1..Len(ss) :
          /\ \A i \in 1..Len(ss[j]) :
               /\ ss[j][i].d <= mx[j].d /\ ss[j][i].r <= mx[j].r
               /\ (ss[j][i].x # None) <=> (ss[j][i].d = mx[j].d)
          /\ Cardinality({i \in 1..Len(ss[j]) : ss[j][i].r = 0}) = Len(rows)
          /\ (rows # <<>>) => ss[j][1].r = 0

(* a stream given as three parallel sequences (the trace encoding)          *)
Triples(rep, def, val) == [i \in 1..Len(rep) |-> T(rep[i], def[i], val[i])]
=============================================================================
