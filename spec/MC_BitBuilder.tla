---------------------------- MODULE MC_BitBuilder ----------------------------
(***************************************************************************)
(* BooleanBufferBuilder (C19) as a *physical* machine -- packed bytes and  *)
(* length, every call transcribed from arrow-buffer/src/builder/boolean.rs *)
(* -- run in lock step with the abstract effect BuilderEff of BitOps.tla.  *)
(* Invariants: the packed bytes denote the abstract bits, the byte length  *)
(* is ceil(len / 8), and the padding bits of the last byte are zero (the   *)
(* representation invariant append_n / advance / append_word rely on).     *)
(* Every call with every argument is explored for contents <= MaxBits.     *)
(***************************************************************************)
EXTENDS BitOps, TLC

CONSTANTS MaxBits,     \* longest builder content
          MaxArg       \* largest count argument of a builder call

VARIABLES buf, blen, abs       \* physical bytes (as bits), physical length, abstract bits

vars == <<buf, blen, abs>>

BitSeqs(n) == UNION {[1..k -> Bit] : k \in 0..n}

---------------------------------------------------------------------------
(* Physical BooleanBufferBuilder (builder/boolean.rs); buf is the packed    *)
(* MutableBuffer as a bit sequence, blen the builder's `len`                *)
Ceil8(n) == ((n + 7) \div 8) * 8

(* MutableBuffer::resize(new_len_bytes, value) seen at bit level             *)
PResize(bf, nbits, v) == IF nbits >= Len(bf) THEN bf \o Fill(nbits - Len(bf), v) ELSE Sub(bf, 0, nbits)

(* the last byte with its bits from `from` upward (0..7) set to v            *)
LastByteFrom(bf, from, v) ==
  [i \in 1..Len(bf) |-> IF i > Len(bf) - 8 + from THEN v ELSE bf[i]]

PAdvance(bf, ln, k) ==
  LET nl == ln + k IN
  [buf |-> IF Ceil8(nl) > Len(bf) THEN PResize(bf, Ceil8(nl), 0) ELSE bf, len |-> nl]

PSet(bf, i, v) == [bf EXCEPT ![i + 1] = v]

RECURSIVE PSetAll(_, _, _, _)
PSetAll(bf, at, s, i) ==     \* set_bit_raw for every true of s (append / append_slice)
  IF i > Len(s) THEN bf ELSE PSetAll(IF s[i] = 1 THEN PSet(bf, at + i - 1, 1) ELSE bf, at, s, i + 1)

PAppendSlice(bf, ln, s) ==
  LET st == PAdvance(bf, ln, Len(s)) IN [buf |-> PSetAll(st.buf, ln, s, 1), len |-> st.len]

PAppendNTrue(bf, ln, k) ==
  LET nl == ln + k
      b1 == IF ln % 8 # 0 THEN LastByteFrom(bf, ln % 8, 1) ELSE bf     \* pad last byte with 1s
      b2 == PResize(b1, Ceil8(nl), 1)                                   \* resize(.., 0xFF)
      b3 == IF nl % 8 # 0 THEN LastByteFrom(b2, nl % 8, 0) ELSE b2     \* clear remaining bits
  IN [buf |-> b3, len |-> nl]

PTruncate(bf, ln, k) ==
  IF k > ln THEN [buf |-> bf, len |-> ln]
  ELSE LET b1 == Sub(bf, 0, Ceil8(k))
           b2 == IF k % 8 # 0 THEN LastByteFrom(b1, k % 8, 0) ELSE b1
       IN [buf |-> b2, len |-> k]

(* append_packed_range: advance, then apply |_a, b| b over the new range     *)
PAppendPacked(bf, ln, s) ==
  LET st == PAdvance(bf, ln, Len(s)) IN [buf |-> ApplyBin(st.buf, ln, s, Len(s), TRight), len |-> st.len]

(* append_word(word, count): resize with zeros, OR the shifted word in      *)
PAppendWord(bf, ln, w, c) ==
  LET nl == ln + c
      b1 == IF Ceil8(nl) > Len(bf) THEN PResize(bf, Ceil8(nl), 0) ELSE bf
  IN [buf |-> [i \in 1..Len(b1) |-> IF i > ln /\ i <= nl /\ w[i - ln] = 1 THEN 1 ELSE b1[i]], len |-> nl]

Step(st, eff) == buf' = st.buf /\ blen' = st.len /\ abs' = eff

Fits(k) == Len(abs) + k <= MaxBits

A_Append      == \E v \in Bit : Fits(1) /\ Step(PAppendSlice(buf, blen, <<v>>), BuilderEff(abs, "append", 0, v, <<>>))
A_AppendN     == \E k \in 0..MaxArg : \E v \in Bit : Fits(k) /\
                 Step(IF v = 1 THEN PAppendNTrue(buf, blen, k) ELSE PAdvance(buf, blen, k), BuilderEff(abs, "append_n", k, v, <<>>))
A_AppendSlice == \E s \in BitSeqs(MaxArg) : Fits(Len(s)) /\ Step(PAppendSlice(buf, blen, s), BuilderEff(abs, "append_slice", 0, 0, s))
A_AppendPacked == \E s \in BitSeqs(MaxArg) : Fits(Len(s)) /\ Step(PAppendPacked(buf, blen, s), BuilderEff(abs, "append_packed", 0, 0, s))
A_AppendWord  == \E w \in [1..MaxArg -> Bit] : \E c \in 0..MaxArg : Fits(c) /\
                 Step(PAppendWord(buf, blen, w, c), BuilderEff(abs, "append_word", c, 0, w))
A_SetBit      == \E i \in 0..(blen - 1) : \E v \in Bit : Step([buf |-> PSet(buf, i, v), len |-> blen], BuilderEff(abs, "set_bit", i, v, <<>>))
A_Advance     == \E k \in 0..MaxArg : Fits(k) /\ Step(PAdvance(buf, blen, k), BuilderEff(abs, "advance", k, 0, <<>>))
A_Truncate    == \E k \in 0..(MaxBits + 1) : Step(PTruncate(buf, blen, k), BuilderEff(abs, "truncate", k, 0, <<>>))
A_Resize      == \E k \in 0..MaxBits :
                 Step(IF k >= blen THEN PAdvance(buf, blen, k - blen) ELSE PTruncate(buf, blen, k), BuilderEff(abs, "resize", k, 0, <<>>))
A_Finish      == Step([buf |-> <<>>, len |-> 0], BuilderEff(abs, "finish", 0, 0, <<>>))

(* the packed bytes denote the abstract bits                                *)
B_Refines  == blen = Len(abs) /\ Sub(buf, 0, blen) = abs
(* what finish / finish_cloned hand out: ceil(len / 8) bytes                *)
B_ByteLen  == Len(buf) = Ceil8(blen)
(* padding bits of the last byte are zero                                   *)
B_PadZero  == \A i \in (blen + 1)..Len(buf) : buf[i] = 0

---------------------------------------------------------------------------
Init == buf = <<>> /\ blen = 0 /\ abs = <<>>
Next == \/ A_Append \/ A_AppendN \/ A_AppendSlice \/ A_AppendPacked \/ A_AppendWord
        \/ A_SetBit \/ A_Advance \/ A_Truncate \/ A_Resize \/ A_Finish
Spec == Init /\ [][Next]_vars
=============================================================================
