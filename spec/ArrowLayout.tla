----------------------------- MODULE ArrowLayout -----------------------------
(***************************************************************************)
(* An independent validator of physical Arrow array layouts, written from  *)
(* the Arrow columnar format specification ("Columnar.rst", the comments   *)
(* of format/Schema.fbs and the C Data Interface), per type family         *)
(* (properties C01, C08, C09).                                             *)
(*                                                                         *)
(* A layout `d` is the record produced by harness/vcore/src/dump.rs (see   *)
(* its module comment for the exact shape):                                *)
(*                                                                         *)
(*   d.t       type descriptor [k, w, size, mode, ids, s, kt, cn, mk, ok]  *)
(*   d.len, d.offset           (clamped to Huge = 2^30), d.lo_ovf          *)
(*   d.nulls   [present, nbits, boff, bits, nc]                            *)
(*   d.bufs    sequence of [nbytes, amod, base, ints]                      *)
(*   d.views   sequence of [len, b, bi, off]        (view kinds only)      *)
(*   d.kids    sequence of layouts                                         *)
(*                                                                         *)
(* Soundness rule (DESIGN.md C01 "false-alarm guards"): every conjunct is  *)
(* either also enforced by `ArrayData::validate_full` of arrow-rs or is    *)
(* justified by the format rule cited next to it.  Where the crate is      *)
(* deliberately liberal we are too:                                        *)
(*   - values / bytes / keys under null slots are arbitrary, except what   *)
(*     the format or the crate's safe accessors need (offsets stay         *)
(*     monotone; string values and views stay valid because `value(i)` is  *)
(*     a safe accessor that does not look at validity);                    *)
(*   - dictionary values may be unused, duplicated or null;                *)
(*   - list-views may overlap and be out of order;                         *)
(*   - an empty buffer is never misaligned; an empty list-like array may   *)
(*     have an empty offsets buffer;                                       *)
(*   - nullability declared by child *fields* is not a layout rule (only   *)
(*     the two type-level rules of Schema.fbs for Map are), except for the *)
(*     top-level fields of a record batch (RecordBatch::try_new);          *)
(*   - an empty string value may sit anywhere (the crate's fast path also  *)
(*     wants it on a character boundary; the format does not).             *)
(*                                                                         *)
(* Integers: the dump clamps to +-Huge; arithmetic here saturates at Huge  *)
(* and a requirement of Huge or more bytes/bits is unsatisfiable (no       *)
(* buffer of the harness has 2^30 bytes), so verdicts equal those on the   *)
(* unclamped values.                                                       *)
(***************************************************************************)
EXTENDS Naturals, Integers, Sequences, FiniteSets, Utf8

Huge == 1073741824

Sat(x) == IF x >= Huge THEN Huge ELSE x
SatAdd(a, b) == IF a >= Huge \/ b >= Huge THEN Huge ELSE Sat(a + b)
SatMul(a, b) == IF a = 0 \/ b = 0 THEN 0
                ELSE IF a >= Huge \/ b >= Huge THEN Huge
                ELSE IF a > Huge \div b THEN Huge ELSE Sat(a * b)
CeilDiv8(n) == IF n >= Huge THEN Huge ELSE (n + 7) \div 8

(* one past the last addressed element *)
End(d) == SatAdd(d.offset, d.len)

(* `have` bytes (bits, elements) satisfy a requirement of `need`            *)
Enough(have, need) == need < Huge /\ have >= need

Zeros(bits) == Cardinality({i \in 1..Len(bits) : bits[i] = 0})

(***************************************************************************)
(* Buffers                                                                 *)
(***************************************************************************)
(* Format, "Buffer alignment and padding": buffers hold a whole number of  *)
(* elements of the prescribed width.  Alignment to the natural alignment   *)
(* of the element type is what arrow-rs requires (data.rs `layout()`,      *)
(* BufferSpec::FixedWidth.alignment) and what the dump measures; an empty  *)
(* buffer has no addressable element and cannot be misaligned.             *)
Aligned(b) == b.amod = 0 \/ b.nbytes = 0

(* a fixed-width buffer with room for n elements of w bytes                 *)
FixedBuf(b, n, w) == Enough(b.nbytes, SatMul(n, w)) /\ Aligned(b)

(* the dump decoded elements lo .. lo+n-1 of the buffer                     *)
Covers(b, lo, n) == b.base <= lo /\ lo - b.base + n <= Len(b.ints)
(* element k (absolute, 0-based) of a decoded buffer; needs Covers          *)
At(b, k) == b.ints[k - b.base + 1]

NBufs(d, n) == Len(d.bufs) = n
NoKids(d) == Len(d.kids) = 0 /\ Len(d.t.kt) = 0

(* the children are those the data type declares (count and types)         *)
KidTypesOK(d) ==
  /\ Len(d.kids) = Len(d.t.kt)
  /\ \A i \in 1..Len(d.kids) : d.kids[i].t.s = d.t.kt[i]

(***************************************************************************)
(* Validity bitmap.  Format, "Validity bitmaps": bit (offset + i) says     *)
(* whether slot i is valid; the bitmap must be large enough for            *)
(* offset + length bits; null_count is the number of zero bits among the   *)
(* addressed ones ("Null count", exact when given).  Arrays of type Null,  *)
(* Union and RunEndEncoded have no validity bitmap.                        *)
(***************************************************************************)
NullsOK(d, mayHave) ==
  LET n == d.nulls IN
  IF ~n.present THEN n.nc = 0
  ELSE /\ mayHave
       /\ Enough(n.nbits, SatAdd(n.boff, d.len))
       /\ Len(n.bits) = d.len
       /\ n.nc = Zeros(n.bits)

ValidSlot(d, i) == ~d.nulls.present \/ d.nulls.bits[i + 1] = 1      \* i is 0-based

(***************************************************************************)
(* Offsets of variable-size binary / list / map layouts.  Format,          *)
(* "Variable-size Binary Layout" / "List Layout": length + 1 offsets,      *)
(* monotonically non-decreasing (also under null slots), the first one     *)
(* >= 0, the last one within the data (values buffer size, resp. child     *)
(* length).  A zero-length array may have an empty offsets buffer          *)
(* (arrow-rs data.rs `typed_offsets`, Arrow C++ does the same).            *)
(***************************************************************************)
Off(d, i) == At(d.bufs[1], d.offset + i)         \* i in 0..len

OffsetsOK(d, limit) ==
  LET ob == d.bufs[1] IN
  IF d.len = 0 /\ ob.nbytes = 0 THEN TRUE
  ELSE /\ FixedBuf(ob, SatAdd(End(d), 1), d.t.w)
       /\ Covers(ob, d.offset, d.len + 1)
       /\ Off(d, 0) >= 0
       /\ \A i \in 0..(d.len - 1) : Off(d, i) <= Off(d, i + 1)
       /\ Off(d, d.len) <= limit

HasOffsets(d) == ~(d.len = 0 /\ d.bufs[1].nbytes = 0)

(* every value is valid UTF-8 (format: "Utf8: Unicode with UTF-8            *)
(* encoding").  Checked for every slot: GenericByteArray::value(i) is a     *)
(* safe accessor that returns &str without looking at validity, and        *)
(* validate_full (data.rs validate_utf8) checks every slot as well.        *)
Utf8ValuesOK(d) ==
  LET db == d.bufs[2] IN
  /\ Len(db.ints) = db.nbytes                          \* the dump carries the bytes
  /\ \A i \in 0..(d.len - 1) : ValidRange(db.ints, Off(d, i), Off(d, i + 1))

(***************************************************************************)
(* Views.  Format, "Variable-size Binary View Layout": 16-byte views;      *)
(* length <= 12: the bytes are inline and "the remaining bytes are padded  *)
(* with 0"; length > 12: 4-byte prefix (must equal the first 4 data bytes),*)
(* buffer index into the variadic data buffers, offset; the referenced     *)
(* range must lie within that buffer.  arrow-rs byte_view.rs checks the    *)
(* same for every slot, null or not.                                       *)
(***************************************************************************)
ViewOK(d, v, utf8) ==
  IF v.len <= 12 THEN
    /\ v.len >= 0
    /\ \A j \in (v.len + 1)..12 : v.b[j] = 0
    /\ utf8 => ValidFrom(v.b, 1, v.len)
  ELSE
    /\ v.len < Huge /\ v.bi < Huge /\ v.off < Huge
    /\ v.bi + 2 <= Len(d.bufs)
    /\ LET db == d.bufs[v.bi + 2] IN
       /\ v.off + v.len <= db.nbytes
       /\ Len(db.ints) = db.nbytes
       /\ \A j \in 1..4 : db.ints[v.off + j] = v.b[j]
       /\ utf8 => ValidRange(db.ints, v.off, v.off + v.len)

(***************************************************************************)
(* WellFormed                                                              *)
(***************************************************************************)
(* `rx` is a set of *relaxations*, used only to identify known findings      *)
(* narrowly (a layout that is well-formed except for exactly one rule the    *)
(* crate is known not to check); WellFormed(d) == WF(d, {}).                 *)
(*   "fsl-offset"    the fixed-size-list child only needs length*size values *)
(*   "struct-offset" struct children only need `length` slots                *)
(*   "ree-cover"     the last run end need not reach offset+length           *)
(*   "union-ids"     union type ids / dense offsets are not looked at        *)
(*   "union-kid-types" union children need not have the declared types       *)
RECURSIVE WF(_, _)

KidsWellFormed(d, rx) == \A i \in 1..Len(d.kids) : WF(d.kids[i], rx)

(* index of type id t among the declared ids (needs t \in ids)              *)
IdIndex(ids, t) == CHOOSE j \in 1..Len(ids) : ids[j] = t
IdDeclared(ids, t) == \E j \in 1..Len(ids) : ids[j] = t

WFNull(d) == NBufs(d, 0) /\ NoKids(d) /\ ~d.nulls.present

WFPrim(d) == NBufs(d, 1) /\ NoKids(d) /\ NullsOK(d, TRUE) /\ FixedBuf(d.bufs[1], End(d), d.t.w)

(* "Boolean: bit-packed values buffer" of at least offset+length bits        *)
WFBool(d) == NBufs(d, 1) /\ NoKids(d) /\ NullsOK(d, TRUE) /\ Enough(d.bufs[1].nbytes, CeilDiv8(End(d)))

(* "Fixed-size binary: byteWidth bytes per value"                            *)
WFFsb(d) == /\ d.t.size >= 0 /\ NBufs(d, 1) /\ NoKids(d) /\ NullsOK(d, TRUE)
            /\ Enough(d.bufs[1].nbytes, SatMul(End(d), d.t.size))

WFBin(d) == /\ NBufs(d, 2) /\ NoKids(d) /\ NullsOK(d, TRUE)
            /\ OffsetsOK(d, d.bufs[2].nbytes)

WFUtf8(d) == WFBin(d) /\ (HasOffsets(d) => Utf8ValuesOK(d))

WFView(d, utf8) ==
  /\ Len(d.bufs) >= 1 /\ NoKids(d) /\ NullsOK(d, TRUE)
  /\ FixedBuf(d.bufs[1], End(d), 16)
  /\ Len(d.views) = d.len
  /\ \A i \in 1..d.len : ViewOK(d, d.views[i], utf8)

(* List / LargeList / Map: one child; the last offset within the child.     *)
WFList(d, rx) ==
  /\ NBufs(d, 1) /\ NullsOK(d, TRUE) /\ KidTypesOK(d) /\ Len(d.kids) = 1
  /\ OffsetsOK(d, d.kids[1].len)
  /\ KidsWellFormed(d, rx)

(* Schema.fbs, table Map: "a child Struct field, which then has two         *)
(* children: key type and the second the value type"; "Neither the          *)
(* "entries" field nor the "key" field may be nullable."                    *)
WFMap(d, rx) ==
  /\ WFList(d, rx)
  /\ d.kids[1].t.k = "struct" /\ Len(d.kids[1].t.kt) = 2
  /\ d.t.cn = <<FALSE>> /\ ~d.t.mk

(* "ListView Layout": offsets and sizes buffers of `length` entries; "every *)
(* list-view value, including null values, has to guarantee                 *)
(* 0 <= offsets[i] <= length of the child array and                         *)
(* 0 <= offsets[i] + size[i] <= length of the child array".                 *)
WFListView(d, rx) ==
  /\ NBufs(d, 2) /\ NullsOK(d, TRUE) /\ KidTypesOK(d) /\ Len(d.kids) = 1
  /\ FixedBuf(d.bufs[1], End(d), d.t.w) /\ FixedBuf(d.bufs[2], End(d), d.t.w)
  /\ Covers(d.bufs[1], d.offset, d.len) /\ Covers(d.bufs[2], d.offset, d.len)
  /\ \A i \in 0..(d.len - 1) :
       LET o == At(d.bufs[1], d.offset + i)
           s == At(d.bufs[2], d.offset + i)
       IN o >= 0 /\ s >= 0 /\ SatAdd(o, s) <= d.kids[1].len
  /\ KidsWellFormed(d, rx)

(* "Fixed-Size List Layout": slot j of the array is the child range          *)
(* [j*size, (j+1)*size), so the child needs (offset+length)*size values.    *)
(* (arrow-rs validates only length*size: known finding C09-fsl-child-offset) *)
WFFsl(d, rx) ==
  /\ d.t.size >= 0 /\ NBufs(d, 0) /\ NullsOK(d, TRUE) /\ KidTypesOK(d) /\ Len(d.kids) = 1
  /\ LET n == IF "fsl-offset" \in rx THEN d.len ELSE End(d) IN
     d.kids[1].len >= SatMul(n, d.t.size) /\ SatMul(n, d.t.size) < Huge
  /\ KidsWellFormed(d, rx)

(* "Struct Layout": one child per field; the struct's slot j is slot j of    *)
(* every child, so (C Data Interface: ArrowArray.offset applies to the      *)
(* struct, children are addressed at offset + j) every child needs           *)
(* offset+length slots.  arrow-rs `From<ArrayData> for StructArray` reads    *)
(* the children exactly so (child.slice(parent_offset, parent_len)).         *)
WFStruct(d, rx) ==
  /\ NBufs(d, 0) /\ NullsOK(d, TRUE) /\ KidTypesOK(d)
  /\ \A i \in 1..Len(d.kids) : d.kids[i].len >= (IF "struct-offset" \in rx THEN d.len ELSE End(d))
  /\ "struct-offset" \in rx \/ End(d) < Huge \/ Len(d.kids) = 0
  /\ KidsWellFormed(d, rx)

(* "Dictionary-encoded Layout": integer indices into the dictionary; an      *)
(* index under a null slot is arbitrary.                                     *)
WFDict(d, rx) ==
  /\ d.t.ok /\ NBufs(d, 1) /\ NullsOK(d, TRUE) /\ KidTypesOK(d) /\ Len(d.kids) = 1
  /\ FixedBuf(d.bufs[1], End(d), d.t.w)
  /\ Covers(d.bufs[1], d.offset, d.len)
  /\ \A i \in 0..(d.len - 1) :
       ValidSlot(d, i) => (At(d.bufs[1], d.offset + i) >= 0 /\ At(d.bufs[1], d.offset + i) < d.kids[1].len)
  /\ KidsWellFormed(d, rx)

(* "Run-End Encoded Layout": no buffers and no validity bitmap of its own;   *)
(* two children of equal length, run_ends (Int16/32/64, no nulls) and        *)
(* values; run ends are strictly ascending, the first one >= 1, and the      *)
(* last one >= offset + length (Schema.fbs: "encodes the indices at which    *)
(* the run with the value in each corresponding index in the values child    *)
(* array ends").                                                            *)
RunEnd(d, r) == At(d.kids[1].bufs[1], d.kids[1].offset + r)        \* r in 0..nruns-1
WFRee(d, rx) ==
  /\ d.t.ok /\ NBufs(d, 0) /\ ~d.nulls.present /\ KidTypesOK(d) /\ Len(d.kids) = 2
  /\ KidsWellFormed(d, rx)
  /\ LET re == d.kids[1]
         nr == re.len
     IN /\ re.t.k = "prim" /\ re.t.w = d.t.w
        /\ ~re.nulls.present
        /\ re.len = d.kids[2].len
        /\ Covers(re.bufs[1], re.offset, nr)
        /\ \A r \in 0..(nr - 1) : RunEnd(d, r) >= 1
        /\ \A r \in 0..(nr - 2) : RunEnd(d, r) < RunEnd(d, r + 1)
        /\ ("ree-cover" \notin rx /\ End(d) > 0) => (nr >= 1 /\ RunEnd(d, nr - 1) >= End(d))

(* "Union Layout": no validity bitmap; a types buffer of 8-bit ids, each one  *)
(* of the declared type ids; sparse: every child as long as the union        *)
(* (offset + length, the union's offset addresses the children); dense: a    *)
(* 32-bit offsets buffer, offsets[i] a slot of the child selected by         *)
(* types[i].                                                                *)
WFUnion(d, rx) ==
  LET dense == d.t.mode = "dense" IN
  /\ ~d.nulls.present /\ d.nulls.nc = 0
  /\ NBufs(d, IF dense THEN 2 ELSE 1)
  /\ "union-kid-types" \in rx \/ KidTypesOK(d)
  /\ Len(d.kids) = Len(d.t.ids)
  /\ Enough(d.bufs[1].nbytes, End(d))
  /\ Covers(d.bufs[1], d.offset, d.len)
  /\ "union-ids" \notin rx => \A i \in 0..(d.len - 1) : IdDeclared(d.t.ids, At(d.bufs[1], d.offset + i))
  /\ IF dense THEN
       /\ FixedBuf(d.bufs[2], End(d), 4)
       /\ Covers(d.bufs[2], d.offset, d.len)
       /\ "union-ids" \notin rx => \A i \in 0..(d.len - 1) :
            LET o == At(d.bufs[2], d.offset + i)
                c == IdIndex(d.t.ids, At(d.bufs[1], d.offset + i))
            IN o >= 0 /\ o < d.kids[c].len
     ELSE \A c \in 1..Len(d.kids) : d.kids[c].len >= End(d)
  /\ KidsWellFormed(d, rx)

WF(d, rx) ==
  /\ ~d.lo_ovf                    \* length + offset must be representable (C Data Interface: int64 fields)
  /\ d.len >= 0 /\ d.offset >= 0
  /\ LET k == d.t.k IN
     CASE k = "null"     -> WFNull(d)
       [] k = "prim"     -> WFPrim(d)
       [] k = "bool"     -> WFBool(d)
       [] k = "fsb"      -> WFFsb(d)
       [] k = "bin"      -> WFBin(d)
       [] k = "utf8"     -> WFUtf8(d)
       [] k = "binview"  -> WFView(d, FALSE)
       [] k = "utf8view" -> WFView(d, TRUE)
       [] k = "list"     -> WFList(d, rx)
       [] k = "map"      -> WFMap(d, rx)
       [] k = "listview" -> WFListView(d, rx)
       [] k = "fsl"      -> WFFsl(d, rx)
       [] k = "struct"   -> WFStruct(d, rx)
       [] k = "dict"     -> WFDict(d, rx)
       [] k = "ree"      -> WFRee(d, rx)
       [] k = "union"    -> WFUnion(d, rx)
       [] OTHER          -> FALSE

WellFormed(d) == WF(d, {})

(* the same with the alignment rule switched off at every level (entry       *)
(* points that re-align buffers: ArrayDataBuilder::align_buffers, from_ffi)  *)
RECURSIVE Realigned(_)
Realigned(d) ==
  [d EXCEPT !.bufs = [i \in 1..Len(d.bufs) |-> [d.bufs[i] EXCEPT !.amod = 0]],
            !.kids = [i \in 1..Len(d.kids) |-> Realigned(d.kids[i])]]
WellFormedModAlign(d) == WellFormed(Realigned(d))

(***************************************************************************)
(* Record batches: as many columns as fields, column types equal to the    *)
(* field types, every column as long as the batch, a column of a           *)
(* non-nullable field has no nulls (RecordBatch::try_new enforces exactly  *)
(* these; Message.fbs RecordBatch.length / FieldNode.length).              *)
(***************************************************************************)
BatchAgrees(schema, cols, nrows) ==
  /\ Len(cols) = Len(schema)
  /\ \A i \in 1..Len(cols) :
       /\ cols[i].t.s = schema[i].s
       /\ cols[i].len = nrows
       /\ ~schema[i].nullable => cols[i].nulls.nc = 0

BatchWellFormed(schema, cols, nrows) ==
  /\ BatchAgrees(schema, cols, nrows)
  /\ \A i \in 1..Len(cols) : WellFormed(cols[i])

(***************************************************************************)
(* Slicing in the format's sense: only (offset, length) and the addressed  *)
(* part of the validity bitmap change; buffers and children are shared.    *)
(***************************************************************************)
Slice(d, o, n) ==
  [d EXCEPT !.offset = d.offset + o,
            !.len = n,
            !.nulls = IF ~d.nulls.present THEN d.nulls
                      ELSE LET b == SubSeq(d.nulls.bits, o + 1, o + n) IN
                           [d.nulls EXCEPT !.boff = d.nulls.boff + o, !.bits = b, !.nc = Zeros(b)],
            !.views = SubSeq(d.views, o + 1, o + n)]
SliceNV(d, o, n) ==       \* kinds without a `views` field
  [d EXCEPT !.offset = d.offset + o,
            !.len = n,
            !.nulls = IF ~d.nulls.present THEN d.nulls
                      ELSE LET b == SubSeq(d.nulls.bits, o + 1, o + n) IN
                           [d.nulls EXCEPT !.boff = d.nulls.boff + o, !.bits = b, !.nc = Zeros(b)]]
SliceOf(d, o, n) == IF d.t.k \in {"binview", "utf8view"} THEN Slice(d, o, n) ELSE SliceNV(d, o, n)

(***************************************************************************)
(* Logical(d): the denotation of a well-formed layout as a sequence of      *)
(* rows, written as the *reads* a consumer performs: <<"n">> for a null     *)
(* row, <<"v", x>> otherwise, where x names the physical cell(s) read       *)
(* (fixed-width: the absolute slot; strings: the bytes; nested: the child   *)
(* rows).  Every read is guarded by `Cell`, which fails (TLC evaluation     *)
(* error) when the cell lies outside its buffer: MC_ArrowLayout checks that *)
(* Logical is defined on every WellFormed layout, i.e. WellFormed implies   *)
(* that no read leaves a buffer.                                            *)
(***************************************************************************)
OutOfBounds == CHOOSE x \in {} : TRUE          \* evaluating this is a TLC error

(* read element k (0-based) of w bytes from a buffer of nbytes              *)
Cell(nbytes, k, w) == IF k >= 0 /\ (k + 1) * w <= nbytes THEN k ELSE OutOfBounds
(* read bytes [lo, hi) of a buffer                                           *)
Bytes(b, lo, hi) == IF 0 <= lo /\ lo <= hi /\ hi <= b.nbytes
                    THEN (IF Len(b.ints) = b.nbytes THEN SubSeq(b.ints, lo + 1, hi) ELSE <<lo, hi>>)
                    ELSE OutOfBounds
(* read row r (0-based) of the rows of a child                               *)
Row(rows, r) == IF r >= 0 /\ r < Len(rows) THEN rows[r + 1] ELSE OutOfBounds

RECURSIVE Logical(_)
RowValue(d, i, kidRows) ==       \* value of the valid slot i (0-based)
  LET k == d.t.k
      j == d.offset + i
  IN CASE k = "prim"  -> Cell(d.bufs[1].nbytes, j, d.t.w)
       [] k = "bool"  -> Cell(d.bufs[1].nbytes * 8, j, 1)
       [] k = "fsb"   -> IF d.t.size = 0 THEN j ELSE Cell(d.bufs[1].nbytes, j, d.t.size)
       [] k \in {"bin", "utf8"} -> Bytes(d.bufs[2], Off(d, i), Off(d, i + 1))
       [] k \in {"binview", "utf8view"} ->
            LET v == d.views[i + 1] IN
            IF v.len <= 12 THEN SubSeq(v.b, 1, v.len)
            ELSE Bytes(IF v.bi + 2 <= Len(d.bufs) THEN d.bufs[v.bi + 2] ELSE OutOfBounds, v.off, v.off + v.len)
       [] k \in {"list", "map"} ->
            [x \in 1..(Off(d, i + 1) - Off(d, i)) |-> Row(kidRows[1], Off(d, i) + x - 1)]
       [] k = "listview" ->
            [x \in 1..At(d.bufs[2], j) |-> Row(kidRows[1], At(d.bufs[1], j) + x - 1)]
       [] k = "fsl"   -> [x \in 1..d.t.size |-> Row(kidRows[1], j * d.t.size + x - 1)]
       [] k = "struct" -> [c \in 1..Len(d.kids) |-> Row(kidRows[c], j)]
       [] k = "dict"  -> Row(kidRows[1], At(d.bufs[1], j))
       [] k = "ree"   ->
            LET nr == d.kids[1].len
                p == CHOOSE r \in 0..nr : (r = nr \/ RunEnd(d, r) > j) /\ \A q \in 0..(r - 1) : RunEnd(d, q) <= j
            IN Row(kidRows[2], p)
       [] k = "union" ->
            LET c == IF IdDeclared(d.t.ids, At(d.bufs[1], j)) THEN IdIndex(d.t.ids, At(d.bufs[1], j)) ELSE OutOfBounds
            IN IF d.t.mode = "dense" THEN Row(kidRows[c], At(d.bufs[2], j)) ELSE Row(kidRows[c], j)

Logical(d) ==
  IF d.t.k = "null" THEN [i \in 1..d.len |-> <<"n">>]
  ELSE LET kidRows == [c \in 1..Len(d.kids) |-> Logical(d.kids[c])] IN
       [i \in 1..d.len |->
          IF d.t.k \in {"dict", "ree", "union"} /\ ValidSlot(d, i - 1)
            THEN RowValue(d, i - 1, kidRows)                   \* the value (or null) of the child row
          ELSE IF ValidSlot(d, i - 1) THEN <<"v", RowValue(d, i - 1, kidRows)>>
          ELSE <<"n">>]
=============================================================================
