----------------------------- MODULE Trace_Ipc -----------------------------
(***************************************************************************)
(* C14, impl -> spec at the level of single decode calls: recorded         *)
(* sessions of the real arrow-ipc StreamDecoder are replayed through the   *)
(* byte-level model IpcFraming.tla (W = 4).                                *)
(*                                                                         *)
(*   ipcinput    the framing of the input as the writer produced it,       *)
(*               parsed with the public flatbuffer API: per message        *)
(*               (metadata length, body length, kind), legacy / EOS / stray *)
(*               bytes, and the length n of the (possibly truncated) input  *)
(*   ipcsession  one session: cuts, and for every `decode` call the bytes   *)
(*               offered, the bytes consumed and whether a batch came back  *)
(* The model predicts every call: one call = the decode loop run until the *)
(* buffer is empty, a batch is returned or an error occurs.  Offered /     *)
(* consumed / returned-a-batch of every call, the number of batches and    *)
(* the outcome must be exactly the predicted ones - so the chunk-          *)
(* independence theorem model-checked on IpcFraming.tla is a statement     *)
(* about the state machine the implementation actually follows.            *)
(***************************************************************************)
EXTENDS IpcFraming, TraceBase

VARIABLES l,
          pred      \* the model's prediction for the session of the current event (computed once per event)

KindName(x) == IF x = 0 THEN "schema" ELSE IF x = 1 THEN "batch" ELSE "dict"

(* one decode call over inb[o+1..h]: <<decoder, offset, batch returned (0/1)>> *)
RECURSIVE CallF(_, _, _)
CallF(dd, o, h) ==
  IF o = h THEN <<dd, o, 0>>
  ELSE LET r == StepF(dd, o, h) IN
       IF r[1].err # "" THEN <<r[1], r[2], 0>>
       ELSE IF Len(r[1].out) > Len(dd.out) THEN <<r[1], r[2], 1>>
       ELSE CallF(r[1], r[2], h)

(* the driver loop `while !chunk.is_empty() { decode(&mut chunk) }` over all chunks; acc = calls so far *)
RECURSIVE SessionF(_, _, _, _, _)
SessionF(dd, o, c, kk, acc) ==
  LET h == ChunkHi(c, Len(inb), kk) IN
  IF dd.err # "" THEN [d |-> dd, calls |-> acc]
  ELSE IF o < h
       THEN LET r == CallF(dd, o, h) IN SessionF(r[1], r[2], c, kk, Append(acc, <<h - o, r[2] - o, r[3]>>))
       ELSE IF kk < NChunks(c) THEN SessionF(dd, o, c, kk + 1, acc)
       ELSE [d |-> dd, calls |-> acc]

ClassOf(o) == CASE o = "ok" -> "" [] o = "err:decode" -> "decode:IpcError" [] o = "err:finish" -> "finish:IpcError" [] OTHER -> "?"

Init == /\ l = 1 /\ pred = [d |-> Pristine, calls |-> <<>>]
        /\ stream = [msgs |-> <<>>, legacy |-> FALSE, eos |-> FALSE, extra |-> 0, cutoff |-> 0]
        /\ inb = <<>> /\ cuts = <<>> /\ k = 1 /\ hi = 0 /\ off = 0 /\ d = Pristine /\ phase = "done" /\ outcome = ""

Input(ev) ==
  LET st == [msgs |-> [j \in DOMAIN ev.msgs |-> [meta |-> ev.msgs[j][1], body |-> ev.msgs[j][2], kind |-> KindName(ev.msgs[j][3])]],
             legacy |-> ev.legacy, eos |-> ev.eos, extra |-> ev.extra, cutoff |-> ev.full - ev.n]
  IN /\ stream' = st
     /\ inb' = Layout(st)
     /\ Judge(Len(Layout(st)) = ev.n /\ Len(Layout([st EXCEPT !.cutoff = 0])) = ev.full, l, "framing map does not add up")
     /\ UNCHANGED <<cuts, k, hi, off, d, phase, outcome, pred>>

Session(ev) ==
  \* pred' is determined first, so that the prediction is evaluated once and then only looked up
  /\ pred' = IF ValidCuts(ev.cuts, Len(inb)) THEN SessionF(Pristine, 0, ev.cuts, 1, <<>>) ELSE [d |-> Pristine, calls |-> <<>>]
  /\ LET p == pred'
         o == Outcome(p.d)
         n == Len(p.calls)
     IN
     /\ Judge(ValidCuts(ev.cuts, Len(inb)) /\ ev.n = Len(inb), l, "session does not fit the input")
     /\ Judge(Len(ev.offered) = n /\ Len(ev.consumed) = n /\ Len(ev.gave) = n, l, <<"number of decode calls", n>>)
     /\ Judge(\A i \in 1..n : i \in DOMAIN ev.offered /\ i \in DOMAIN ev.consumed /\ i \in DOMAIN ev.gave =>
                 <<ev.offered[i], ev.consumed[i], ev.gave[i]>> = p.calls[i], l, "a decode call differs from the model")
     /\ Judge(ev.nb = Len(p.d.out), l, <<"batches", Len(p.d.out)>>)
     /\ Judge(ev.out \in {"ok", "err"} /\ (ev.out = "ok") = (o = "ok") /\ ev.cls = ClassOf(o), l, <<"outcome", o>>)
     /\ cuts' = ev.cuts /\ d' = p.d /\ outcome' = o
     /\ UNCHANGED <<stream, inb, k, hi, off, phase>>

Next == /\ l <= Len(Rec)
        /\ l' = l + 1
        /\ LET ev == Rec[l] IN
           CASE ev.op = "ipcinput" -> Input(ev)
             [] ev.op = "ipcsession" -> Session(ev)
             [] OTHER -> Judge(FALSE, l, "unknown event") /\ UNCHANGED <<ivars, pred>>

Spec == Init /\ [][Next]_<<ivars, l, pred>>
=============================================================================
