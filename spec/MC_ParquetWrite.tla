-------------------------- MODULE MC_ParquetWrite --------------------------
(* Bounded exhaustive model of the Arrow Parquet writer machine: every      *)
(* history of at most MaxOps write()/flush() calls (batches of 0..MaxBatch  *)
(* rows) followed by close(), every interleaving of the column writers'     *)
(* mini batches, every completion order when a row group is closed, every   *)
(* dictionary fallback point and -- in the configurations that allow them -- *)
(* every size-driven page break and row group decision.  Constants: cfg.    *)
EXTENDS ParquetWrite, TLC
=============================================================================
