---------------------------- MODULE Trace_Outputs ----------------------------
(***************************************************************************)
(* C01, impl -> spec: every array / record batch returned by a safe API is *)
(* judged by the independent validator of ArrowLayout.tla.                 *)
(*                                                                         *)
(* EVENT FORMAT (any driver may emit these; the layout record `d` is what  *)
(* `vcore::dump::to_layout(&ArrayData)` returns, `schema` what             *)
(* `vcore::dump::schema_desc(&Schema)` returns):                           *)
(*                                                                         *)
(*  [ev |-> "produced", api, pipe, stage, d]                               *)
(*      api    the safe call that returned the array ("filter", "cast:..") *)
(*      pipe   identifies the pipeline (string), stage its depth (1..)     *)
(*      d      the physical dump of the returned array                     *)
(*    required: WellFormed(d)   (includes the exact null count at every    *)
(*    nesting level)                                                       *)
(*                                                                         *)
(*  [ev |-> "batch", api, pipe, stage, schema, cols, nrows]                *)
(*      schema  sequence of [s |-> type string, nullable |-> BOOLEAN]      *)
(*      cols    sequence of layout records, nrows = RecordBatch::num_rows  *)
(*    required: BatchWellFormed(schema, cols, nrows)                       *)
(*                                                                         *)
(* JSON constraints: no null, integers clamped to +-2^30, no empty object. *)
(* Arrays should stay <= 64 rows / a few hundred data bytes.               *)
(***************************************************************************)
EXTENDS ArrowLayout, TraceBase

VARIABLE l

(* Known finding: ArrayData::slice of a Struct layout records the offset in *)
(* the parent *and* slices the children, so by the format (and by           *)
(* StructArray::from(ArrayData), which panics on it) the children are too   *)
(* short by `offset` slots.                                                 *)
KF(ev) ==
  IF ev.ev = "produced" /\ ev.api = "ArrayData::slice" /\ ~WellFormed(ev.d) /\ WF(ev.d, {"struct-offset"})
    THEN "C01-arraydata-slice-struct"
  ELSE ""

(* Known finding: filter_record_batch builds its result with                 *)
(* RecordBatch::new_unchecked; a zero-width column (FixedSizeBinary(0),       *)
(* FixedSizeList(_, 0)) comes back from `filter` with length 0 (C03 finding   *)
(* C03-zero-width-length-lost), so the batch's columns disagree with its row  *)
(* count.  Identified as: everything agrees except zero-width columns of      *)
(* length 0.                                                                 *)
ZeroWidth(c) == c.t.k \in {"fsb", "fsl"} /\ c.t.size = 0
KFBatch(ev) ==
  IF /\ ev.api = "filter_record_batch"
     /\ Len(ev.cols) = Len(ev.schema)
     /\ \E i \in 1..Len(ev.cols) : ZeroWidth(ev.cols[i]) /\ ev.cols[i].len # ev.nrows
     /\ \A i \in 1..Len(ev.cols) :
          /\ WellFormed(ev.cols[i])
          /\ ev.cols[i].t.s = ev.schema[i].s
          /\ (ev.cols[i].len = ev.nrows \/ (ZeroWidth(ev.cols[i]) /\ ev.cols[i].len = 0))
  THEN "C01-filter-batch-zero-width" ELSE ""

Init == l = 1
Next == /\ l <= Len(Rec)
        /\ l' = l + 1
        /\ LET ev == Rec[l] IN
           CASE ev.ev = "produced" -> JudgeKF(WellFormed(ev.d), l, ev.api, KF(ev))
             [] ev.ev = "batch"    -> JudgeKF(BatchWellFormed(ev.schema, ev.cols, ev.nrows), l, ev.api, KFBatch(ev))
             [] OTHER              -> Judge(FALSE, l, "unknown event kind")
Spec == Init /\ [][Next]_l
=============================================================================
