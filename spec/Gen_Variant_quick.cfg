SPECIFICATION Spec
CONSTANTS
  ValueUniverses <- VU_quick
  MetaUniverses <- MU_quick
  Metas <- MetasStd
INVARIANTS Emit
CHECK_DEADLOCK FALSE
