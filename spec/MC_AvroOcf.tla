----------------------------- MODULE MC_AvroOcf -----------------------------
(* Exhaustive model of reading an Avro object container file through a     *)
(* chunked BufRead: header with or without a metadata pair, up to MaxBlocks *)
(* blocks of up to MaxRows rows of 1..2 bytes, canonical or padded varints, *)
(* optionally a wrong sync marker, every prefix of the file (truncation),   *)
(* at most MaxBytes bytes, EVERY chunking, batch sizes BatchSizes.          *)
EXTENDS AvroFraming, TLC

CONSTANTS MaxBlocks, MaxRows, MaxBytes, BatchSizes

Magic == [x \in 1..G |-> Byte("g", x, 0)]
SyncBytes(id) == [x \in 1..S |-> Byte("s", x, id)]
HeaderBytes(meta, wide) ==
  Magic \o (IF meta THEN Enc(1, wide) \o Enc(1, FALSE) \o <<Byte("k", 1, 0)>> \o Enc(1, FALSE) \o <<Byte("u", 1, 0)>> ELSE <<>>)
        \o Enc(0, FALSE) \o SyncBytes(0)

RowBytes(id, len) == [x \in 1..len |-> Byte("p", id, IF x = len THEN 1 ELSE 0)]
RECURSIVE RowsBytes(_, _, _)
RowsBytes(lens, i, base) == IF i > Len(lens) THEN <<>> ELSE RowBytes(base + i, lens[i]) \o RowsBytes(lens, i + 1, base)
BlockBytes(blk, base) ==
  LET data == RowsBytes(blk.rows, 1, base) IN
  Enc(Len(blk.rows), blk.wide) \o Enc(Len(data), FALSE) \o data \o SyncBytes(IF blk.badsync THEN 1 ELSE 0)
RECURSIVE BlocksBytes(_, _, _)
BlocksBytes(blocks, j, base) ==
  IF j > Len(blocks) THEN <<>>
  ELSE BlockBytes(blocks[j], base) \o BlocksBytes(blocks, j + 1, base + Len(blocks[j].rows))
FileBytes(f) == HeaderBytes(f.meta, f.wide) \o BlocksBytes(f.blocks, 1, 0)

BlockSet == [rows : UNION {[1..r -> {1, 2}] : r \in 0..MaxRows}, wide : BOOLEAN, badsync : BOOLEAN]
Files == [meta : BOOLEAN, wide : BOOLEAN, blocks : UNION {[1..m -> BlockSet] : m \in 0..MaxBlocks}]
TotalRows(f) == LET T[j \in 0..Len(f.blocks)] == IF j = 0 THEN 0 ELSE T[j - 1] + Len(f.blocks[j].rows) IN T[Len(f.blocks)]

MCInit ==
  /\ \E f \in Files : \E cut \in 0..Len(FileBytes(f)) : \E b \in BatchSizes :
        /\ (f.wide => f.meta)
        /\ Len(FileBytes(f)) - cut <= MaxBytes
        /\ cfg = [kind |-> "ocf", bs |-> b, file |-> f, cutoff |-> cut]
        /\ inb = SubSeq(FileBytes(f), 1, Len(FileBytes(f)) - cut)
  /\ cuts \in Chunkings(Len(inb))
  /\ s = OcfInit

MCSpec == MCInit /\ [][ANext]_avars

(* a complete file with correct sync markers yields all its rows, in order, in batches of bs *)
I_OcfSemantics ==
  (s.ph = "done" /\ cfg.cutoff = 0 /\ \A j \in DOMAIN cfg.file.blocks : ~cfg.file.blocks[j].badsync) =>
     /\ s.outcome = "ok"
     /\ s.out = Group([i \in 1..TotalRows(cfg.file) |-> i], cfg.bs)
(* rows only ever come out in file order *)
I_Order == LET r == Flatten(s.out) \o s.cur IN \A i \in DOMAIN r : r[i] = i
=============================================================================
