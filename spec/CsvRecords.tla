----------------------------- MODULE CsvRecords -----------------------------
(***************************************************************************)
(* C14 refinement: the CSV record boundary machine across chunk            *)
(* boundaries.                                                             *)
(*                                                                         *)
(*  * the RFC 4180 lexer is the automaton of csv-core 0.1.13 (the crate    *)
(*    arrow-csv drives): `transition_nfa` transcribed for the default      *)
(*    arrow-csv format (quoting on, doubled quotes, no escape, no comment, *)
(*    terminator CRLF = any of CR / LF / CR LF), made deterministic the    *)
(*    way `build_dfa` does (epsilon moves are taken on the same byte), and *)
(*    `transition_final_dfa` for the empty input that signals the end;     *)
(*  * `RecordDecoder::decode(input, to_read)` (arrow-csv reader/           *)
(*    records.rs:94-180): records are collected until to_read are read or  *)
(*    the input is exhausted - the decoder never passes an empty remainder *)
(*    on, because that would signal the end of the file; a record with the *)
(*    wrong number of fields is an error;                                  *)
(*  * `Decoder::decode` / `flush` (reader/mod.rs:685-735) and the          *)
(*    documented driver loop: decode until it returns 0 (batch full, or    *)
(*    the empty buffer at the end of the input), then flush.               *)
(*                                                                         *)
(* Input bytes are classes: "d" delimiter, "q" quote, "r" CR, "n" LF,      *)
(* "o" any other byte.  A field is the sequence of input positions copied  *)
(* to the output, a record a sequence of fields.                           *)
(***************************************************************************)
EXTENDS ChunkOps

CONSTANT NCols           \* number of columns of the schema

VARIABLES inb,           \* the input (sequence of classes)
          bs,            \* batch size
          cuts,          \* the chunking
          s              \* the session state

cvars == <<inb, bs, cuts, s>>
IsTerm(c) == c \in {"r", "n"}

(* ---- csv_core::Reader::transition_nfa: <<next state, action>> ---- *)
Nfa(st, c) ==
  CASE st = "End"          -> <<"End", "eps">>
    [] st = "StartRecord"  -> IF IsTerm(c) THEN <<"StartRecord", "discard">> ELSE <<"StartField", "eps">>
    [] st = "EndRecord"    -> <<"StartRecord", "eps">>
    [] st = "StartField"   -> IF c = "q" THEN <<"InQuotedField", "discard">>
                              ELSE IF c = "d" THEN <<"EndFieldDelim", "discard">>
                              ELSE IF IsTerm(c) THEN <<"EndFieldTerm", "eps">>
                              ELSE <<"InField", "copy">>
    [] st = "EndFieldDelim" -> <<"StartField", "eps">>
    [] st = "EndFieldTerm" -> <<"InRecordTerm", "eps">>
    [] st = "InField"      -> IF c = "d" THEN <<"EndFieldDelim", "discard">>
                              ELSE IF IsTerm(c) THEN <<"EndFieldTerm", "eps">>
                              ELSE <<"InField", "copy">>
    [] st = "InQuotedField" -> IF c = "q" THEN <<"InDoubleEscapedQuote", "discard">> ELSE <<"InQuotedField", "copy">>
    [] st = "InDoubleEscapedQuote" ->
                              IF c = "q" THEN <<"InQuotedField", "copy">>
                              ELSE IF c = "d" THEN <<"EndFieldDelim", "discard">>
                              ELSE IF IsTerm(c) THEN <<"EndFieldTerm", "eps">>
                              ELSE <<"InField", "copy">>
    [] st = "InRecordTerm" -> IF c = "r" THEN <<"CRLF", "discard">> ELSE <<"EndRecord", "discard">>
    [] st = "CRLF"         -> IF c = "n" THEN <<"StartRecord", "discard">> ELSE <<"StartRecord", "eps">>
    [] OTHER               -> <<"End", "eps">>

(* build_dfa: follow epsilon moves on the same byte *)
RECURSIVE Dfa(_, _)
Dfa(st, c) == LET r == Nfa(st, c) IN IF r[2] = "eps" /\ r[1] # "End" THEN Dfa(r[1], c) ELSE r

RecordFinal(st) == st \in {"EndRecord", "CRLF", "End"}

(* ---- RecordDecoder ---- *)
(* lex: automaton state; field: output of the field in progress; rec: completed fields of the record *)
(* in progress (current_field = Len(rec)); rows: completed records not yet flushed                   *)
DecInit == [lex |-> "StartRecord", field |-> <<>>, rec |-> <<>>, rows |-> <<>>]

(* RecordDecoder::decode over t[i+1..h], at most `want` more records; returns [d, used, err] *)
RECURSIVE RecF(_, _, _, _, _)
RecF(t, d, i, h, want) ==
  IF i = h THEN [d |-> d, used |-> i, err |-> FALSE]                         \* InputEmpty
  ELSE LET r == Dfa(d.lex, t[i + 1])
           fld == IF r[2] = "copy" THEN Append(d.field, i + 1) ELSE d.field
       IN IF r[1] = "EndFieldDelim"
          THEN RecF(t, [d EXCEPT !.lex = r[1], !.field = <<>>, !.rec = Append(d.rec, fld)], i + 1, h, want)
          ELSE IF RecordFinal(r[1])
          THEN LET record == Append(d.rec, fld)
                   d1 == [d EXCEPT !.lex = r[1], !.field = <<>>, !.rec = <<>>, !.rows = Append(d.rows, record)]
               IN IF Len(record) # NCols THEN [d |-> d, used |-> i + 1, err |-> TRUE]   \* "incorrect number of fields"
                  ELSE IF want = 1 \/ i + 1 = h THEN [d |-> d1, used |-> i + 1, err |-> FALSE]
                  ELSE RecF(t, d1, i + 1, h, want - 1)
          ELSE RecF(t, [d EXCEPT !.lex = r[1], !.field = fld], i + 1, h, want)

(* the empty input: transition_final_dfa; a record in progress is completed *)
EofF(d) ==
  IF RecordFinal(d.lex) \/ d.lex = "StartRecord" THEN [d |-> [d EXCEPT !.lex = "End"], err |-> FALSE]
  ELSE LET record == Append(d.rec, d.field) IN
       IF Len(record) # NCols THEN [d |-> d, err |-> TRUE]
       ELSE [d |-> [d EXCEPT !.lex = "EndRecord", !.field = <<>>, !.rec = <<>>, !.rows = Append(d.rows, record)], err |-> FALSE]

(* ---- the session: the documented loop over a BufRead-like source ---- *)
RECURSIVE SkipTo(_, _, _, _)
SkipTo(c, n, kk, off) == IF off = ChunkHi(c, n, kk) /\ kk < NChunks(c) THEN SkipTo(c, n, kk + 1, off) ELSE kk

Init0 == [ph |-> "decode", k |-> 1, off |-> 0, d |-> DecInit, out |-> <<>>, outcome |-> ""]
Fail(st, what) == [st EXCEPT !.ph = "done", !.outcome = "err:" \o what]

(* t: the text, b: the batch size, c: the chunking *)
CsvF(st, t, b, c) ==
  CASE st.ph = "decode" ->
         LET kk == SkipTo(c, Len(t), st.k, st.off)
             hi == ChunkHi(c, Len(t), kk)
             want == b - Len(st.d.rows)
         IN IF want = 0 THEN [st EXCEPT !.ph = "flush"]                      \* decode returns 0: the batch is full
            ELSE IF st.off = hi
                 THEN \* the empty buffer: end of input
                      LET r == EofF(st.d) IN
                      IF r.err THEN Fail(st, "decode") ELSE [st EXCEPT !.d = r.d, !.ph = "flush"]
            ELSE LET r == RecF(t, st.d, st.off, hi, want) IN
                 IF r.err THEN Fail(st, "decode") ELSE [st EXCEPT !.k = kk, !.off = r.used, !.d = r.d]
    [] st.ph = "flush" ->
         IF st.d.rows = <<>> THEN [st EXCEPT !.ph = "done", !.outcome = "ok"]             \* flush returns None
         ELSE IF st.d.rec # <<>> THEN Fail(st, "flush")                      \* "Cannot flush part way through record"
         ELSE [st EXCEPT !.out = Append(st.out, st.d.rows), !.d.rows = <<>>, !.ph = "decode"]
    [] OTHER -> st

Step == s.ph # "done" /\ s' = CsvF(s, inb, bs, cuts) /\ UNCHANGED <<inb, bs, cuts>>
Done == s.ph = "done" /\ UNCHANGED cvars
CNext == Step \/ Done

(* the one-shot result of text t with batch size b: the same function on the single-chunk session *)
RECURSIVE RunCsv(_, _, _)
RunCsv(st, t, b) == IF st.ph = "done" THEN st ELSE RunCsv(CsvF(st, t, b, <<>>), t, b)

(* ---- properties ---- *)
(* C14: rows (fields, bytes of every field), their batches and the outcome do not depend on the chunking *)
I_ChunkIndependent ==
  s.ph = "done" => LET o == RunCsv(Init0, inb, bs) IN s.outcome = o.outcome /\ s.out = o.out

I_BatchBound == \A i \in DOMAIN s.out : Len(s.out[i]) \in 1..bs

(* what the lexer means on quote-free text, stated without the automaton: the records are the maximal *)
(* runs of non-terminator bytes (empty lines vanish), the fields are split at the delimiters           *)
N == Len(inb)
RECURSIVE PlainFields(_, _, _)
PlainFields(lo, hi, cur) ==      \* fields of the line inb[lo..hi]
  IF lo > hi THEN <<cur>>
  ELSE IF inb[lo] = "d" THEN <<cur>> \o PlainFields(lo + 1, hi, <<>>)
  ELSE PlainFields(lo + 1, hi, Append(cur, lo))
RECURSIVE PlainRecords(_)
PlainRecords(i) ==               \* records of inb[i..N]
  IF i > N THEN <<>>
  ELSE IF IsTerm(inb[i]) THEN PlainRecords(i + 1)
  ELSE LET E == {j \in i..N : IsTerm(inb[j])}
           e == IF E = {} THEN N + 1 ELSE CHOOSE j \in E : \A j2 \in E : j <= j2
       IN <<PlainFields(i, e - 1, <<>>)>> \o PlainRecords(e)
I_PlainText ==
  (s.ph = "done" /\ s.outcome = "ok" /\ \A i \in DOMAIN inb : inb[i] # "q") =>
     s.out = Group(PlainRecords(1), bs)
=============================================================================
