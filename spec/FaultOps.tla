------------------------------ MODULE FaultOps ------------------------------
(***************************************************************************)
(* C18 - truncation and I/O faults are reported, never turned into wrong   *)
(* rows.  Constant-level part: the fault-injecting device (sink / source), *)
(* the classification of a fault, and the properties W1-W4 (writers) and   *)
(* T1-T3 (readers, truncation) as predicates over a session summary.  The  *)
(* abstract machines (FaultIO.tla, model-checked) and the validation of    *)
(* recorded sessions of the real writers / readers (Trace_FaultIO.tla) use *)
(* the same operators.                                                      *)
(*                                                                         *)
(* A device sees a sequence of calls numbered 1, 2, ...  A fault plan is   *)
(* [k, kind]: call k is answered abnormally, if the kind applies to it:    *)
(*   error        the call fails and the device is dead: every later call  *)
(*                fails too                                                 *)
(*   error_once   the call fails, later calls work again                   *)
(*   short        a write / read transfers only part (>= 1 byte) of the    *)
(*                buffer and returns that count                             *)
(*   interrupted  the call fails once with ErrorKind::Interrupted          *)
(*   zero         a write of a non-empty buffer returns Ok(0)              *)
(***************************************************************************)
EXTENDS Integers, Sequences, FiniteSets

Kinds == {"none", "error", "error_once", "short", "interrupted", "zero"}

(* call kinds.  Sink: 0 write(len), 1 flush.  Source: 0 read(len), 1 seek,  *)
(* 2 ChunkReader::get_read, 3 ChunkReader::get_bytes(len)                   *)
OpXfer == 0
OpSync == 1
OpGetRead == 2
OpGetBytes == 3

RetErr == -1
RetIntr == -2

RECURSIVE Flatten(_)
Flatten(bs) == IF bs = <<>> THEN <<>> ELSE Head(bs) \o Flatten(Tail(bs))
IsPrefix(a, b) == Len(a) <= Len(b) /\ SubSeq(b, 1, Len(a)) = a
Front(s) == IF s = <<>> THEN <<>> ELSE SubSeq(s, 1, Len(s) - 1)

(* does a fault of this kind change the answer to a call (op, len)?         *)
Applies(kind, op, len) ==
  CASE kind \in {"error", "error_once"} -> TRUE
    [] kind = "interrupted" -> op \in {OpXfer, OpSync}
    [] kind = "short" -> op = OpXfer /\ len >= 2
    [] kind = "zero" -> op = OpXfer /\ len >= 1
    [] OTHER -> FALSE

(* ------------------------------------------------------------ the device *)
(* dead / fired: as named; acc: bytes transferred so far; dirty: bytes were  *)
(* accepted since the last successful flush; firedOp: the kind of call that  *)
(* consumed the fault; redundant: the fault hit a flush with nothing to      *)
(* flush (no byte accepted since the previous successful flush) or a write   *)
(* of zero bytes - failing such a call loses nothing.                        *)
DevInit == [dead |-> FALSE, fired |-> FALSE, acc |-> 0, dirty |-> FALSE,
            firedOp |-> -1, redundant |-> FALSE]

Hits(plan, dead, i, op, len) == ~dead /\ i = plan.k /\ Applies(plan.kind, op, len)

(* the answers the sink may give to its i-th call                            *)
SinkAnswers(plan, dead, i, op, len) ==
  IF dead THEN {RetErr}
  ELSE IF Hits(plan, dead, i, op, len) THEN
    CASE plan.kind \in {"error", "error_once"} -> {RetErr}
      [] plan.kind = "interrupted" -> {RetIntr}
      [] plan.kind = "short" -> 1..(len - 1)
      [] plan.kind = "zero" -> {0}
  ELSE IF op = OpXfer THEN {len} ELSE {0}

(* the answers a source with `avail` bytes left may give to a read of len    *)
(* bytes (a short read applies when there are two bytes to split)            *)
SrcAnswers(plan, dead, i, op, len, avail) ==
  LET n == IF len < avail THEN len ELSE avail IN
  IF dead THEN {RetErr}
  ELSE IF Hits(plan, dead, i, op, n) THEN
    CASE plan.kind \in {"error", "error_once"} -> {RetErr}
      [] plan.kind = "interrupted" -> {RetIntr}
      [] plan.kind = "short" -> 1..(n - 1)
      [] OTHER -> {n}
  ELSE IF op = OpXfer THEN {n} ELSE {0}

(* the device after answering ret to its i-th call (op, len)                 *)
DevStep(plan, st, i, op, len, ret) ==
  LET hit == Hits(plan, st.dead, i, op, len) IN
  [dead      |-> st.dead \/ (hit /\ plan.kind = "error"),
   fired     |-> st.fired \/ hit,
   acc       |-> st.acc + (IF op = OpXfer /\ ret > 0 THEN ret ELSE 0),
   dirty     |-> IF op = OpXfer THEN st.dirty \/ ret > 0
                 ELSE IF op = OpSync /\ ret = 0 THEN FALSE ELSE st.dirty,
   firedOp   |-> IF hit THEN op ELSE st.firedOp,
   redundant |-> IF hit THEN (op = OpSync /\ ~st.dirty) \/ (op = OpXfer /\ len = 0) ELSE st.redundant]

(* ---------------------------------------------- a recorded call log *)
(* The same device read off a complete call log (ops, lens, rets) in closed  *)
(* form - this is what the validation of recorded sessions evaluates; the    *)
(* model checker verifies that it agrees with the step function above        *)
(* (FaultIO!I_DevLog).  The fault is consumed by call k or never.            *)
LogHit(plan, ops, lens) ==
  plan.k \in 1..Len(ops) /\ Applies(plan.kind, ops[plan.k], lens[plan.k])

SinkLogLegal(plan, ops, lens, rets) ==
  LET hit == LogHit(plan, ops, lens)
      dead == hit /\ plan.kind = "error" IN
  \A i \in 1..Len(ops) :
    IF dead /\ i > plan.k THEN rets[i] = RetErr
    ELSE IF hit /\ i = plan.k THEN rets[i] \in SinkAnswers(plan, FALSE, i, ops[i], lens[i])
    ELSE rets[i] = (IF ops[i] = OpXfer THEN lens[i] ELSE 0)

(* a trace does not know how many bytes were left: a read may return fewer   *)
(* bytes than requested at any time (end of file); a planned short read      *)
(* returns fewer than requested and at least one                             *)
SrcLogLegal(plan, ops, lens, rets) ==
  LET hit == LogHit(plan, ops, lens)
      dead == hit /\ plan.kind = "error" IN
  \A i \in 1..Len(ops) :
    IF dead /\ i > plan.k THEN rets[i] = RetErr
    ELSE IF hit /\ i = plan.k THEN
      IF plan.kind = "short" THEN rets[i] \in 1..(lens[i] - 1)
      ELSE rets[i] \in SrcAnswers(plan, FALSE, i, ops[i], lens[i], lens[i])
    ELSE IF ops[i] \in {OpXfer, OpGetBytes} THEN rets[i] \in 0..lens[i]
    ELSE rets[i] = 0

RECURSIVE LogAccFrom(_, _, _)
LogAccFrom(ops, rets, i) ==
  IF i > Len(ops) THEN 0
  ELSE (IF ops[i] = OpXfer /\ rets[i] > 0 THEN rets[i] ELSE 0) + LogAccFrom(ops, rets, i + 1)
LogAcc(ops, rets) == LogAccFrom(ops, rets, 1)

(* bytes were accepted before call k and not flushed successfully since      *)
LogDirtyBefore(ops, rets, k) ==
  LET F == {m \in 1..(k - 1) : ops[m] = OpSync /\ rets[m] = 0}
      f == IF F = {} THEN 0 ELSE CHOOSE m \in F : \A x \in F : x <= m
  IN \E j \in (f + 1)..(k - 1) : ops[j] = OpXfer /\ rets[j] > 0

LogState(plan, ops, lens, rets) ==
  LET hit == LogHit(plan, ops, lens) IN
  [dead      |-> hit /\ plan.kind = "error",
   fired     |-> hit,
   acc       |-> LogAcc(ops, rets),
   dirty     |-> LogDirtyBefore(ops, rets, Len(ops) + 1),
   firedOp   |-> IF hit THEN ops[plan.k] ELSE -1,
   redundant |-> hit /\ \/ (ops[plan.k] = OpSync /\ ~LogDirtyBefore(ops, rets, plan.k))
                        \/ (ops[plan.k] = OpXfer /\ lens[plan.k] = 0)]

(* ------------------------------------------------------ fault classes *)
(* none         no fault was consumed                                        *)
(* dead         "error": the device failed for good                          *)
(* once         a one-shot failure the writer / reader has to report:        *)
(*              error_once, Ok(0) (write_all: ErrorKind::WriteZero)          *)
(* soft         Interrupted at a flush / seek: std gives no retry contract   *)
(*              there (BufWriter::flush and friends propagate it): the call  *)
(*              may be retried or reported                                   *)
(* transparent  short transfer, Interrupted at a write / read: absorbed by   *)
(*              write_all / read_exact / BufWriter / BufReader semantics      *)
FaultClass(plan, st) ==
  IF ~st.fired THEN "none"
  ELSE CASE plan.kind = "error" -> "dead"
         [] plan.kind \in {"error_once", "zero"} -> "once"
         [] plan.kind = "interrupted" /\ st.firedOp # OpXfer -> "soft"
         [] OTHER -> "transparent"

(* readers: std::io::Read::read documents Interrupted as "retry if there is  *)
(* nothing else to do"; read_exact retries, BufRead::fill_buf hands it to    *)
(* the caller: a reader may absorb it or report it (never anything else)     *)
ReaderClass(plan, st) ==
  IF ~st.fired THEN "none"
  ELSE CASE plan.kind = "error" -> "dead"
         [] plan.kind = "error_once" -> "once"
         [] plan.kind = "interrupted" -> "soft"
         [] OTHER -> "transparent"

(* ----------------------------------------------------- writer sessions *)
(* Summary of a writer session:                                              *)
(*   class, redundant, k   the fault (class as above), k its call index      *)
(*   res       results of the API calls in order: "ok" "err" "panic" "hang"  *)
(*   at        number of sink calls made when each API call returned         *)
(*   term      per API call: 0 data call (new / write / flush / sync),       *)
(*             1 terminating call that returns a Result (finish / close /    *)
(*             into_inner / the caller's final BufWriter flush),             *)
(*             2 terminating call that cannot report (into_inner -> W)       *)
(*   prefix    the accepted bytes are a prefix of the fault-free output      *)
(*   complete  the accepted bytes are the whole fault-free output            *)
(*   nomissing / rbnone / rbsame   see W7                                    *)
(* Driver protocol: after the first "err" no further data call, only the     *)
(* terminating call(s); so "an error was reported" = some result is "err".   *)
AnyErr(S) == \E i \in DOMAIN S.res : S.res[i] = "err"
AllOk(S) == \A i \in DOMAIN S.res : S.res[i] = "ok"
LastAt(S) == IF S.at = <<>> THEN 0 ELSE S.at[Len(S.at)]

(* no panic, no hang                                                         *)
W0(S) == \A i \in DOMAIN S.res : S.res[i] \in {"ok", "err"}

(* a failure of the sink is reported by the API call that issued the failed  *)
(* sink call or by a later one - unless nothing was at stake (a flush with   *)
(* nothing to flush) or no API call was left to report it (sink calls made   *)
(* while the writer is dropped); and no error is reported before the fault   *)
W1(S) ==
  /\ (S.class \in {"dead", "once"} /\ ~S.redundant /\ S.k <= LastAt(S)) => AnyErr(S)
  /\ \A i \in DOMAIN S.res : S.res[i] = "err" => (S.class # "none" /\ S.at[i] >= S.k)

(* a session in which every call - the terminating one included - reported   *)
(* success has delivered every byte                                          *)
W2(S) == AllOk(S) => S.complete

(* what the sink accepted is a prefix of the fault-free output (after a      *)
(* reported one-shot failure the writer is in an unspecified state and the   *)
(* terminating call may still emit bytes: not constrained then)              *)
W3(S) == (S.class \in {"none", "dead", "transparent"} \/ ~AnyErr(S)) => S.prefix

(* short writes and Interrupted writes are invisible; so is no fault at all  *)
W4(S) == S.class \in {"none", "transparent"} => (AllOk(S) /\ S.complete)

(* retrying a failed terminating call may only succeed by actually finishing: *)
(* when every failure of the session was reported by a terminating call and a *)
(* later terminating call reports success, then either the sink holds exactly *)
(* the complete fault-free output, or no byte is missing (nomissing: at least *)
(* as many bytes as the fault-free output) and - where the format has a       *)
(* reader (~rbnone) - reading the accepted bytes back succeeds and returns    *)
(* exactly the batches the fault-free output reads as (rbsame).  A data call  *)
(* that failed leaves the writer in an unspecified state: not constrained.    *)
(* (The second alternative is what the arrow-ipc writers do: finish sets      *)
(* `finished` last and starts over with write_eos when retried, so a retried  *)
(* finish leaves a second end-of-stream marker - file writer: and the first,  *)
(* possibly partial, footer copy - in an output that both readers still read  *)
(* completely.  The property does not forbid extra bytes emitted after the    *)
(* fault, only success with bytes missing.)                                   *)
W7(S) ==
  LET E == {i \in DOMAIN S.res : S.res[i] = "err"} IN
  ( /\ E # {} /\ \A i \in E : S.term[i] = 1
    /\ \E i \in E : \E j \in DOMAIN S.res : j > i /\ S.term[j] = 1 /\ S.res[j] = "ok" )
  => \/ S.complete
     \/ S.nomissing /\ (S.rbnone \/ S.rbsame)

WriterOk(S) == W0(S) /\ W1(S) /\ W2(S) /\ W3(S) /\ W4(S) /\ W7(S)

(* --------------------------------------------- reader sessions, truncation *)
(* format classes: "footer" (Parquet, IPC file): a cut file is rejected;     *)
(* "stream" (IPC stream): batches are frames, a cut yields a prefix of the   *)
(* batches; "rows" (Avro container, JSON lines): self-delimiting records,    *)
(* the reader re-batches, a cut yields a prefix of the rows; "csv": records  *)
(* are delimited by the line end only, so the last record of a cut text may  *)
(* be a shortened one - every row before it is an original row.             *)
RowsPrefix(got, orig) == IsPrefix(Flatten(got), Flatten(orig))

PrefixFor(cls, got, orig) ==
  CASE cls = "stream" -> IsPrefix(got, orig)
    [] cls = "csv" -> /\ IsPrefix(Front(Flatten(got)), Flatten(orig))
                      /\ Len(Flatten(got)) <= Len(Flatten(orig))
    [] OTHER -> RowsPrefix(got, orig)

(* T1 / T2: the file cut at n of len bytes                                   *)
CutOk(cls, n, len, outcome, got, orig) ==
  /\ outcome \in {"ok", "err"}
  /\ IF n >= len THEN outcome = "ok" /\ got = orig
     ELSE IF cls = "footer" THEN outcome = "err" /\ RowsPrefix(got, orig)
     ELSE PrefixFor(cls, got, orig)

(* T3: a source failing at call k                                            *)
ReadOk(class, outcome, got, orig) ==
  /\ outcome \in {"ok", "err"}
  /\ RowsPrefix(got, orig)
  /\ outcome = "ok" => got = orig
  /\ class \in {"dead", "once"} => outcome = "err"
  /\ class \in {"none", "transparent"} => outcome = "ok"
=============================================================================
