------------------------------ MODULE Ownership ------------------------------
(***************************************************************************)
(* C16 -- shared buffers are immutable and their memory is released        *)
(* exactly once.                                                           *)
(*                                                                         *)
(* Regions are reference counted memory areas (arrow-buffer `Bytes`):      *)
(*   kind "std"     allocated by MutableBuffer (Deallocation::Standard)    *)
(*        "vec"     taken over from a Vec (Standard, Vec layout)           *)
(*        "custom"  Buffer::from_custom_allocation with an owner object    *)
(*                  (its Drop is the release that is counted)              *)
(*        "ffi"     what an exported FFI_ArrowArray / an imported array    *)
(*                  owns: the C struct whose release callback is counted;  *)
(*                  it keeps the exported buffers (`back`) alive           *)
(* A region holds elements (`mem`): 32-bit values, or validity bits when   *)
(* `bits`.  Handles are the live Rust objects that hold strong references: *)
(*   "buffer"  a Buffer (clone / slice of one region)                      *)
(*   "array"   a PrimitiveArray over a values region and optionally a      *)
(*             validity region                                             *)
(*   "export"  an FFI_ArrowArray (+ FFI_ArrowSchema) that was not imported *)
(*             yet; it refers to its "ffi" region                          *)
(*   "stream"  an exported C stream with one pending batch ("drained" once *)
(*             the batch was fetched)                                      *)
(* A handle remembers what it showed when it was created (`snap`,          *)
(* `vsnap`): the property says this never changes while the handle lives.  *)
(*                                                                         *)
(* The operators below are *effects* on a state record                     *)
(* [rg |-> regions, hd |-> handles, pool |-> reserved bytes]; MC_Ownership *)
(* explores them exhaustively, Trace_Ownership replays recorded histories  *)
(* of the real objects through them.                                       *)
(***************************************************************************)
EXTENDS Naturals, Integers, Sequences, FiniteSets

CONSTANTS Regions, Handles

NoRegion == [kind |-> "free", bits |-> FALSE, mem |-> <<>>, size |-> 0, claimed |-> FALSE, back |-> <<>>,
             alive |-> FALSE, released |-> 0]
NoHandle == [kind |-> "none", refs |-> <<>>, off |-> 0, noff |-> 0, len |-> 0, snap |-> <<>>, vsnap |-> <<>>,
             nested |-> FALSE, rows |-> <<>>]
MaxRefs == 6        \* most regions one handle refers to

Sub(s, o, n) == [i \in 1..n |-> s[o + i]]
Range(s) == {s[i] : i \in DOMAIN s}

Live(hd) == {x \in Handles : hd[x].kind # "none"}

(* number of strong references to region r: one per reference held by a    *)
(* live handle, one per live "ffi" region that keeps r alive                *)
HandleRefs(hd, r) == LET P == {<<x, i>> \in Handles \X (1..MaxRefs) : hd[x].kind # "none" /\ i <= Len(hd[x].refs) /\ hd[x].refs[i] = r}
                     IN Cardinality(P)
BackRefs(rg, r) == Cardinality({q \in Regions : rg[q].alive /\ r \in Range(rg[q].back)})
RC(S, r) == HandleRefs(S.hd, r) + BackRefs(S.rg, r)

(* what a handle shows                                                      *)
(* A *nested* handle is an array of any type (validity, dictionary, struct,   *)
(* list ...) over several regions, one per buffer; what it shows is its      *)
(* logical rows (`rows`, canonical tokens), which nothing can change because *)
(* its regions are custom allocations                                        *)
View(rg, h)  == IF h.nested THEN Sub(h.rows, h.off, h.len) ELSE Sub(rg[h.refs[1]].mem, h.off, h.len)
VView(rg, h) == IF ~h.nested /\ Len(h.refs) = 2 THEN Sub(rg[h.refs[2]].mem, h.noff, h.len) ELSE <<>>

Snap(rg, h) == [h EXCEPT !.snap = View(rg, h), !.vsnap = VView(rg, h)]
MkHandle(rg, kind, refs, off, noff, len) ==
  Snap(rg, [kind |-> kind, refs |-> refs, off |-> off, noff |-> noff, len |-> len, snap |-> <<>>, vsnap |-> <<>>,
            nested |-> FALSE, rows |-> <<>>])

---------------------------------------------------------------------------
(* Releasing: a region without references is released (its owner dropped /  *)
(* its release callback invoked) -- once; an "ffi" region then lets go of    *)
(* the buffers it kept alive, which may release those in turn                *)
ReleaseOnce(S) ==
  LET dead == {r \in Regions : S.rg[r].alive /\ RC(S, r) = 0}
      freed == LET F[T \in SUBSET dead] ==
                     IF T = {} THEN 0
                     ELSE LET r == CHOOSE r \in T : TRUE
                          IN (IF S.rg[r].claimed THEN S.rg[r].size ELSE 0) + F[T \ {r}]
               IN F[dead]
  IN [S EXCEPT !.rg = [r \in Regions |-> IF r \in dead
                                         THEN [S.rg[r] EXCEPT !.alive = FALSE, !.released = @ + 1, !.claimed = FALSE]
                                         ELSE S.rg[r]],
               !.pool = @ - freed]

RECURSIVE Collect(_)
Collect(S) == LET S1 == ReleaseOnce(S) IN IF S1 = S THEN S ELSE Collect(S1)

---------------------------------------------------------------------------
(* Creating regions and handles                                             *)
FreshRegion(S, r) == S.rg[r].kind = "free"
FreshHandle(S, x) == S.hd[x].kind = "none"

(* a new region of `kind` with elements `mem` and reserved capacity `size`, *)
(* seen through a new buffer handle x                                       *)
New(S, r, kind, bits, mem, size, x) ==
  LET rg1 == [S.rg EXCEPT ![r] = [kind |-> kind, bits |-> bits, mem |-> mem, size |-> size, claimed |-> FALSE,
                                  back |-> <<>>, alive |-> TRUE, released |-> 0]]
  IN [S EXCEPT !.rg = rg1, !.hd = [S.hd EXCEPT ![x] = MkHandle(rg1, "buffer", <<r>>, 0, 0, Len(mem))]]

(* an array of a nested type over the new custom-owned regions rs (one per    *)
(* buffer: validity, offsets, keys, dictionary values, child values ...)      *)
NewNested(S, rs, x, rows) ==
  LET new == [kind |-> "custom", bits |-> FALSE, mem |-> <<>>, size |-> 0, claimed |-> FALSE, back |-> <<>>,
              alive |-> TRUE, released |-> 0]
      rg1 == [r \in Regions |-> IF r \in Range(rs) THEN new ELSE S.rg[r]]
      h == [kind |-> "array", refs |-> rs, off |-> 0, noff |-> 0, len |-> Len(rows), snap |-> rows, vsnap |-> <<>>,
            nested |-> TRUE, rows |-> rows]
  IN [S EXCEPT !.rg = rg1, !.hd = [S.hd EXCEPT ![x] = h]]

(* Buffer::clone / Array::clone                                             *)
Clone(S, x, y) == [S EXCEPT !.hd = [S.hd EXCEPT ![y] = S.hd[x]]]

(* Buffer::slice_with_length / Array::slice: elements [o, o + n) of x        *)
CanSlice(S, x, o, n) == S.hd[x].kind \in {"buffer", "array"} /\ o + n <= S.hd[x].len
Slice(S, x, y, o, n) ==
  LET h == S.hd[x]
  IN [S EXCEPT !.hd = [S.hd EXCEPT ![y] = Snap(S.rg, [h EXCEPT !.off = @ + o, !.noff = @ + o, !.len = n])]]

(* PrimitiveArray::new(values of buffer x, no nulls)                        *)
CanWrap(S, x) == S.hd[x].kind = "buffer" /\ ~S.rg[S.hd[x].refs[1]].bits
Wrap(S, x, y) ==
  LET h == S.hd[x] IN [S EXCEPT !.hd = [S.hd EXCEPT ![y] = MkHandle(S.rg, "array", h.refs, h.off, 0, h.len)]]

(* PrimitiveArray::new(values of buffer xv, validity = the first len bits    *)
(* of bitmap buffer xn)                                                      *)
CanWrapN(S, xv, xn) ==
  /\ CanWrap(S, xv) /\ S.hd[xn].kind = "buffer" /\ S.rg[S.hd[xn].refs[1]].bits
  /\ S.hd[xn].off = 0 /\ S.hd[xv].len <= S.hd[xn].len
WrapN(S, xv, xn, y) ==
  LET h == S.hd[xv]
  IN [S EXCEPT !.hd = [S.hd EXCEPT ![y] = MkHandle(S.rg, "array", <<h.refs[1], S.hd[xn].refs[1]>>, h.off, 0, h.len)]]

(* dropping a handle                                                        *)
Drop(S, x) == Collect([S EXCEPT !.hd = [S.hd EXCEPT ![x] = NoHandle]])

---------------------------------------------------------------------------
(* In-place mutation                                                        *)
Mutable(S, r) == S.rg[r].kind \in {"std", "vec"}

(* Buffer::into_mutable succeeds exactly when the buffer is the only         *)
(* reference, starts at the region's first byte and the region is a          *)
(* standard allocation                                                       *)
UniqueUnsliced(S, r, off) == RC(S, r) = 1 /\ off = 0 /\ Mutable(S, r)

BufferInPlaceOK(S, x) == S.hd[x].kind = "buffer" /\ UniqueUnsliced(S, S.hd[x].refs[1], S.hd[x].off)

(* PrimitiveArray::into_builder / unary_mut / try_unary_mut: the values      *)
(* buffer as above; the validity buffer, if it has a null, is first taken   *)
(* as `sliced()` -- a copy when its bit offset is not a multiple of 8, else  *)
(* a byte slice that must itself be unique and start at the first byte       *)
AllValid(S, h) == \A i \in 1..h.len : S.rg[h.refs[2]].mem[h.noff + i] = 1
NullsInPlaceOK(S, h) ==
  \/ Len(h.refs) = 1
  \/ AllValid(S, h)            \* into_data() already dropped a validity buffer without nulls
  \/ h.noff % 8 # 0
  \/ UniqueUnsliced(S, h.refs[2], h.noff)
ArrayInPlaceOK(S, x) ==
  LET h == S.hd[x] IN h.kind = "array" /\ ~h.nested /\ UniqueUnsliced(S, h.refs[1], h.off) /\ NullsInPlaceOK(S, h)

(* the write the drivers perform: v + 1 on values, 1 - b on bits             *)
Bump(v, bits) == IF bits THEN 1 - v ELSE v + 1

(* the first n elements of region r rewritten by `f` where `sel` holds       *)
Rewrite(S, r, n, f(_), sel(_)) ==
  [S.rg EXCEPT ![r].mem = [i \in 1..Len(@) |-> IF i <= n /\ sel(i) THEN f(@[i]) ELSE @[i]]]

(* the memory is handed to a Vec (into_vec): the region loses its reservation *)
Unclaim(S, r) == [S EXCEPT !.rg = [S.rg EXCEPT ![r].claimed = FALSE],
                           !.pool = @ - (IF S.rg[r].claimed THEN S.rg[r].size ELSE 0)]

(* a handle whose buffers were mutated in place sees the new content         *)
Resnap(S, x) == [S EXCEPT !.hd = [S.hd EXCEPT ![x] = Snap(S.rg, @)]]

(* into_mutable / into_vec succeeded and every visible element was bumped    *)
BufferMutate(S, x) ==
  LET h == S.hd[x] r == h.refs[1]
      rg1 == Rewrite(S, r, h.len, LAMBDA v : Bump(v, S.rg[r].bits), LAMBDA i : TRUE)
  IN Resnap([S EXCEPT !.rg = rg1], x)

(* Whether it mutates or declines, into_builder hands back an array built     *)
(* through ArrayData, which keeps a validity buffer only if it has a null:    *)
(* an all-valid validity buffer is dropped (same logical validity)            *)
NormNulls(S, x) ==
  LET h == S.hd[x] IN
  IF Len(h.refs) = 2 /\ AllValid(S, h)
  THEN Collect([S EXCEPT !.hd = [S.hd EXCEPT ![x] = MkHandle(S.rg, "array", <<h.refs[1]>>, h.off, 0, h.len)]])
  ELSE S

(* unary_mut / into_builder: every value slot; try_unary_mut: valid slots.    *)
(* The array goes through a PrimitiveBuilder whose values are a Vec: the      *)
(* uniquely owned values memory is taken over by (or copied into) that Vec,   *)
(* so afterwards it is Vec-owned, of capacity `size`, and holds no pool       *)
(* reservation; the validity buffer stays where it is                         *)
ArrayMutate(S, x, validOnly, size) ==
  LET h == S.hd[x] r == h.refs[1]
      valid(i) == Len(h.refs) = 1 \/ ~validOnly \/ S.rg[h.refs[2]].mem[h.noff + i] = 1
      rg1 == Rewrite(S, r, h.len, LAMBDA v : v + 1, valid)
      S1 == Unclaim([S EXCEPT !.rg = rg1], r)
  IN NormNulls(Resnap([S1 EXCEPT !.rg = [S1.rg EXCEPT ![r].kind = "vec", ![r].size = size]], x), x)

(* The attempt was declined: Err(array) is rebuilt from the values buffer and  *)
(* `nulls.inner().sliced()`.  An all-valid validity is dropped (as above); a    *)
(* validity at a bit offset that is not a multiple of 8 has been copied: the    *)
(* array now owns a new validity region nr, alone                               *)
NeedsNullCopy(S, x) == LET h == S.hd[x] IN Len(h.refs) = 2 /\ h.noff % 8 # 0 /\ ~AllValid(S, h)
ArrayDecline(S, x, nr, nsize) ==
  LET h == S.hd[x] IN
  IF NeedsNullCopy(S, x)
  THEN LET rg1 == [S.rg EXCEPT ![nr] = [kind |-> "std", bits |-> TRUE, mem |-> VView(S.rg, h), size |-> nsize,
                                        claimed |-> FALSE, back |-> <<>>, alive |-> TRUE, released |-> 0]]
       IN Collect([S EXCEPT !.rg = rg1,
                            !.hd = [S.hd EXCEPT ![x] = MkHandle(rg1, "array", <<h.refs[1], nr>>, h.off, 0, h.len)]])
  ELSE NormNulls(S, x)

(* BooleanBuffer ^= all-ones over buffer x (every value v becomes -v - 1):   *)
(* in place when unique, else the result is a copy in a new region nr        *)
XorInPlace(S, x) ==
  LET h == S.hd[x] r == h.refs[1]
      rg1 == Rewrite(S, r, h.len, LAMBDA v : IF S.rg[r].bits THEN 1 - v ELSE (0 - v) - 1, LAMBDA i : TRUE)
  IN Resnap([S EXCEPT !.rg = rg1], x)
XorCopy(S, x, nr, size) ==
  LET h == S.hd[x] r == h.refs[1]
      new == [v \in 1..h.len |-> LET o == View(S.rg, h)[v] IN IF S.rg[r].bits THEN 1 - o ELSE (0 - o) - 1]
      S1 == New(S, nr, "std", S.rg[r].bits, new, size, x)      \* x now refers to the copy
  IN Collect(S1)

---------------------------------------------------------------------------
(* Memory pool: claim replaces any earlier reservation of the same region    *)
Claim(S, x) ==
  LET rs == Range(S.hd[x].refs)
      add == LET F[T \in SUBSET rs] == IF T = {} THEN 0
                                       ELSE LET r == CHOOSE r \in T : TRUE
                                            IN (IF S.rg[r].claimed THEN 0 ELSE S.rg[r].size) + F[T \ {r}]
             IN F[rs]
  IN [S EXCEPT !.rg = [r \in Regions |-> IF r \in rs THEN [S.rg[r] EXCEPT !.claimed = TRUE] ELSE S.rg[r]],
               !.pool = @ + add]

(* Buffer::shrink_to_fit (immutable.rs:215, Bytes::try_realloc): the wanted   *)
(* capacity is everything up to the end of the buffer (offset + length, in    *)
(* bytes), or nothing at all for an empty buffer.  Only if that is less than  *)
(* the capacity, the buffer is the only reference (Arc::get_mut) and the      *)
(* region is a standard allocation, the region is reallocated (freed when the *)
(* wanted capacity is 0): its capacity -- and its pool reservation, if it has *)
(* one -- becomes exactly the wanted capacity, the tail is gone, and what the  *)
(* buffer shows is unchanged.  In every other case nothing changes.           *)
WantedBytes(S, h) ==
  IF h.len = 0 THEN 0
  ELSE IF S.rg[h.refs[1]].bits THEN (h.off + h.len + 7) \div 8 ELSE 4 * (h.off + h.len)
CanShrink(S, x) ==
  LET h == S.hd[x] r == h.refs[1] IN
  h.kind = "buffer" /\ WantedBytes(S, h) < S.rg[r].size /\ RC(S, r) = 1 /\ Mutable(S, r)
ShrinkToFit(S, x) ==
  LET h == S.hd[x] r == h.refs[1] want == WantedBytes(S, h) IN
  IF ~CanShrink(S, x) THEN S
  ELSE LET keep == IF h.len = 0 THEN 0 ELSE h.off + h.len
           rg1 == [S.rg EXCEPT ![r].size = want, ![r].mem = Sub(@, 0, keep)]
           h1 == IF h.len = 0 THEN [h EXCEPT !.off = 0] ELSE h
       IN [S EXCEPT !.rg = rg1, !.hd = [S.hd EXCEPT ![x] = Snap(rg1, h1)],
                    !.pool = @ - (IF S.rg[r].claimed THEN S.rg[r].size - want ELSE 0)]

PoolExpected(S) ==
  LET C == {r \in Regions : S.rg[r].alive /\ S.rg[r].claimed}
      F[T \in SUBSET C] == IF T = {} THEN 0 ELSE LET r == CHOOSE r \in T : TRUE IN S.rg[r].size + F[T \ {r}]
  IN F[C]

---------------------------------------------------------------------------
(* C Data Interface.  Exporting array x creates the C struct (with its       *)
(* children and dictionary): an "ffi" region nr that holds a reference to    *)
(* every buffer of x -- every region of x -- and shows what x shows; handle e stands for the not yet imported struct.  Importing turns  *)
(* e into an array over nr (from_ffi moves the struct into the Arc that owns *)
(* the imported buffers).  Release happens when nr loses its last reference. *)
(* An array without validity, or a nested array that starts at its first     *)
(* row (then every buffer is exported as it is, none is copied)              *)
CanExport(S, x) ==
  LET h == S.hd[x] IN
  h.kind \in {"array", "stream"} /\ (IF h.nested THEN h.off = 0 ELSE Len(h.refs) = 1)
Export(S, x, e, nr) ==
  LET h == S.hd[x]
      rg1 == [S.rg EXCEPT ![nr] = [kind |-> "ffi", bits |-> FALSE, mem |-> IF h.nested THEN <<>> ELSE View(S.rg, h),
                                    size |-> 4 * h.len, claimed |-> FALSE, back |-> h.refs, alive |-> TRUE,
                                    released |-> 0]]
      he == [kind |-> "export", refs |-> <<nr>>, off |-> 0, noff |-> 0, len |-> h.len, snap |-> <<>>, vsnap |-> <<>>,
             nested |-> h.nested, rows |-> IF h.nested THEN View(S.rg, h) ELSE <<>>]
  IN [S EXCEPT !.rg = rg1, !.hd = [S.hd EXCEPT ![e] = Snap(rg1, he)]]
CanImport(S, e) == S.hd[e].kind = "export"
Import(S, e) == [S EXCEPT !.hd = [S.hd EXCEPT ![e].kind = "array"]]

(* C Stream Interface.  A stream handle s (FFI_ArrowArrayStream inside an     *)
(* ArrowArrayStreamReader) owns one pending batch holding a clone of array   *)
(* x.  get_next exports that batch -- a new "ffi" region nr keeping the       *)
(* buffers alive -- and the reader imports it as array y; the stream is then  *)
(* drained and holds nothing.  Dropping s invokes its release callback once.  *)
CanStreamExport(S, x) == CanExport(S, x)
StreamExport(S, x, s) == [S EXCEPT !.hd = [S.hd EXCEPT ![s] = [S.hd[x] EXCEPT !.kind = "stream"]]]
CanStreamNext(S, s) == S.hd[s].kind = "stream"
StreamNext(S, s, y, nr) ==
  LET S1 == Import(Export(S, s, y, nr), y)
  IN Collect([S1 EXCEPT !.hd = [S1.hd EXCEPT ![s] = [NoHandle EXCEPT !.kind = "drained"]]])

---------------------------------------------------------------------------
(* Properties                                                               *)
Created(S) == {r \in Regions : S.rg[r].kind # "free"}

(* O1: no live handle (and no live C struct) refers to released memory       *)
NoDangling(S) ==
  /\ \A x \in Live(S.hd) : \A i \in 1..Len(S.hd[x].refs) : S.rg[S.hd[x].refs[i]].alive
  /\ \A q \in Regions : S.rg[q].alive => \A i \in 1..Len(S.rg[q].back) : S.rg[S.rg[q].back[i]].alive

(* O2: what a live handle shows never changes                                *)
Immutable(S) == \A x \in Live(S.hd) : View(S.rg, S.hd[x]) = S.hd[x].snap /\ VView(S.rg, S.hd[x]) = S.hd[x].vsnap

(* O3: released at most once; exactly when the last reference is gone        *)
ExactlyOnce(S) ==
  \A r \in Created(S) :
    /\ S.rg[r].released <= 1
    /\ S.rg[r].alive = (RC(S, r) > 0)
    /\ S.rg[r].alive = (S.rg[r].released = 0)

(* O4: the pool holds exactly the live claimed regions                       *)
PoolExact(S) == S.pool = PoolExpected(S) /\ (\A r \in Regions : S.rg[r].claimed => S.rg[r].alive)

(* O5: an exported / imported array shows what the exported array showed,    *)
(* for as long as it lives (its source cannot change: it is referenced)      *)
FfiMirror(S) ==
  \A q \in Regions : (S.rg[q].alive /\ S.rg[q].kind = "ffi") =>
     \E o \in 0..Len(S.rg[S.rg[q].back[1]].mem) :
        o + Len(S.rg[q].mem) <= Len(S.rg[S.rg[q].back[1]].mem) /\ S.rg[q].mem = Sub(S.rg[S.rg[q].back[1]].mem, o, Len(S.rg[q].mem))
=============================================================================
