SPECIFICATION IntsSpec
CONSTANTS
  LimbDigits = 1
  N = 130
INVARIANT IntsAgree
CHECK_DEADLOCK FALSE
