SPECIFICATION MCSpec
CONSTANTS
  Keys = {"k1", "k2", "k3"}
  Outs = {"a", "b", "e"}
  MaxLen = 5
INVARIANTS AcceptedIffFunctional MemoIsTheObservations
CHECK_DEADLOCK FALSE
