SPECIFICATION Spec
CONSTANTS
  Scripts <- MCScripts
  Caps <- MCCaps
  Files <- MCFiles
  MaxK = 12
  Lossy = FALSE
  Forgetful = FALSE
INVARIANTS TypeOK I_W3 I_Writer I_Buffer I_DevLog I_T1 I_T2 I_T3 I_Cut
CHECK_DEADLOCK TRUE
