SPECIFICATION Spec
CONSTANT LimbDigits = 4
INVARIANTS Defined Sound Inverse Rounding
CHECK_DEADLOCK FALSE
