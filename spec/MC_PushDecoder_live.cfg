SPECIFICATION FairSpec
CONSTANTS
  RgRows <- MCRgRows
  NCols = 2
  Firsts <- MCFirsts
  HasDict <- MCHasDict
  HasIndex = TRUE
  MaxOdd = 1
  BatchSizes = {2, 3}
  InitBatch = {2}
  RgLists <- RgListsQuick
  Sels <- SelsTiny
  PredMasks <- MasksQuick
  Offsets <- OffsetsQuick
  Limits <- LimitsQuick
  Projs <- ProjsQuick
  PredCols = {1}
  Modes = {"batch"}
  MaxPreds = 1
PROPERTIES Termination
CHECK_DEADLOCK FALSE
