-------------------------- MODULE MC_ChunkDecoder --------------------------
(* Exhaustive model of the generic push-decoder session: EVERY abstract    *)
(* input up to MaxLen bytes (at most one malformed byte), EVERY one of the  *)
(* 2^(n-1) chunkings of it (also with empty chunks in front, behind and at  *)
(* every cut), every batch size, both decoder granularities, both end-of-   *)
(* input rules, with and without early flushes.                             *)
EXTENDS ChunkDecoder, TLC

CONSTANTS MaxLen, BatchSizes

Inputs == {s \in UNION {[1..n -> {"b", "e", "x"}] : n \in 0..MaxLen} :
             Cardinality({i \in DOMAIN s : s[i] = "x"}) <= 1}

MCInit ==
  /\ inp \in Inputs
  /\ bs \in BatchSizes
  /\ gran \in {"byte", "record"}
  /\ eof \in {"strict", "lenient"}
  /\ early \in BOOLEAN
  /\ \E c \in Chunkings(Len(inp)) : \E e \in BOOLEAN :
        cuts = IF e THEN WithEmpties(c, Len(inp)) ELSE c
  /\ k = 1 /\ hi = ChunkHi(cuts, Len(inp), 1)
  /\ pos = 0 /\ part = 0 /\ buf = <<>> /\ out = <<>> /\ phase = "feed" /\ outcome = "run"

MCSpec == MCInit /\ [][DNext]_dvars
=============================================================================
