SPECIFICATION MCSpec
CONSTANTS
  MaxLen = 4
  BatchSizes = {1, 2}
INVARIANTS I_BatchBound I_Window I_ChunkIndependent I_Order
CHECK_DEADLOCK TRUE
