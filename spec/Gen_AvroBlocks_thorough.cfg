INIT GInit
NEXT GNext
CONSTANTS
  MaxItems = 3
CHECK_DEADLOCK FALSE
