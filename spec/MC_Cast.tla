------------------------------ MODULE MC_Cast -------------------------------
(***************************************************************************)
(* Design-level laws of Cast.tla, checked exhaustively by TLC on a small   *)
(* universe of type records and boundary values:                           *)
(*  - CastVal is defined (some arm applies) on every pair Exact accepts    *)
(*  - Lossless(a, b) => the cast is total and its inverse gives the value  *)
(*    back (K4 for the exact families)                                     *)
(*  - decimal rescaling rounds half away from zero; a rescaled value that  *)
(*    is accepted is within half a unit of the exact quotient              *)
(*  - the cast never yields a value outside the target's range/precision   *)
(***************************************************************************)
EXTENDS Cast, TLC

T8(f, w, sg, p, s, u, tz, tzo) == [f |-> f, w |-> w, sg |-> sg, p |-> p, s |-> s, u |-> u, tz |-> tz, tzo |-> tzo]
I(w, sg) == T8("int", w, sg, 0, 0, "", "", 0)
D(w, p, s) == T8("dec", w, 1, p, s, "", "", 0)
Types == { T8("bool", 1, 0, 0, 0, "", "", 0), I(8, 1), I(8, 0), I(16, 1), I(32, 1), I(32, 0), I(64, 1), I(64, 0),
           D(32, 5, 2), D(32, 9, 0), D(64, 18, 4), D(64, 10, -2), D(128, 38, 10), D(256, 76, 20),
           T8("date32", 32, 1, 0, 0, "", "", 0), T8("date64", 64, 1, 0, 0, "", "", 0),
           T8("time32", 32, 1, 0, 0, "s", "", 0), T8("time32", 32, 1, 0, 0, "ms", "", 0),
           T8("time64", 64, 1, 0, 0, "us", "", 0), T8("time64", 64, 1, 0, 0, "ns", "", 0),
           T8("ts", 64, 1, 0, 0, "s", "", 0), T8("ts", 64, 1, 0, 0, "ms", "+05:30", 19800), T8("ts", 64, 1, 0, 0, "ns", "", 0),
           T8("dur", 64, 1, 0, 0, "s", "", 0), T8("dur", 64, 1, 0, 0, "us", "", 0) }

Around(c, d) == {Add(c, FromInt(k)) : k \in -d..d}
Values(t) ==
  CASE t.f = "bool" -> {Zero, One}
    [] t.f = "dec" -> LET top == Sub(Pow10(t.p), One) IN
                      {x \in Around(Zero, 2) \cup Around(top, 0) \cup Around(Neg(top), 0) \cup
                             {MulPow10(FromInt(m), k) : m \in {-15, -5, 5, 15, 25}, k \in {0, 1, 3}} : FitsPrecision(x, t.p)}
    [] t.f \in {"time32", "time64"} -> {Zero, One, FromInt(999), FromInt(1000), FromInt(86399)}
    [] OTHER -> {x \in Around(Zero, 2) \cup Around(BMin(t.w, t.sg), 1) \cup Around(Sub(P2(IF t.sg = 1 THEN t.w - 1 ELSE t.w), One), 1)
                       \cup {FromInt(999), FromInt(-1001), FromInt(86400000), FromInt(-86400001)} : BIn(t.w, t.sg, x)}

(* ph = 0: the source type only (initial states); the Next action chooses the   *)
(* target type and the value, so that the laws are evaluated by the workers     *)
VARIABLES ph, a, b, v
vars == <<ph, a, b, v>>
Init == ph = 0 /\ a \in Types /\ b = a /\ v = Zero
Next == ph = 0 /\ ph' = 1 /\ b' \in Types \ {a} /\ v' \in Values(a) /\ UNCHANGED a
Spec == Init /\ [][Next]_vars

InTarget(t, x) == IF t.f = "dec" THEN FitsPrecision(x, t.p) ELSE IF t.f = "bool" THEN x \in {Zero, One} ELSE BIn(t.w, t.sg, x)

Defined == (ph = 1 /\ Exact(a, b)) => CastVal(a, b, v).ok \in BOOLEAN
Sound == (ph = 1 /\ Exact(a, b) /\ CastVal(a, b, v).ok) => IsBig(CastVal(a, b, v).v) /\ InTarget(b, CastVal(a, b, v).v)
Inverse ==
  (ph = 1 /\ Exact(a, b) /\ Exact(b, a) /\ Lossless(a, b)) =>
     LET r == CastVal(a, b, v) IN r.ok /\ CastVal(b, a, r.v) = Val(v)
Rounding ==
  (ph = 1 /\ a.f = "dec" /\ b.f = "dec" /\ b.s < a.s /\ CastVal(a, b, v).ok) =>
     LET q == CastVal(a, b, v).v
         k == a.s - b.s
         e == Sub(v, MulPow10(q, k))
     IN /\ Cmp(MulSmall(Abs(e), 2), Pow10(k)) <= 0
        /\ (MulSmall(Abs(e), 2) = Pow10(k) => MagCmp(MulPow10(q, k).d, v.d) > 0)
=============================================================================
