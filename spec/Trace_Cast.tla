----------------------------- MODULE Trace_Cast ------------------------------
(***************************************************************************)
(* impl -> spec (C13): recorded calls of arrow_cast::{can_cast_types,      *)
(* cast_with_options}, of the text round trips and of the DataType         *)
(* Display / FromStr pair, judged by the laws K1..K6 and, for the families *)
(* whose semantics is integer arithmetic, by CastVal of Cast.tla.          *)
(*                                                                         *)
(* Event kinds (field k):                                                  *)
(*  pair   one ordered pair of the type grid: can_cast_types and the       *)
(*         outcome class of the cast of an empty, an all-null and a sample *)
(*         array in both modes ("ok", "err", "unsupported", "panic")   K1  *)
(*  castx  an exact family: input values, strict and safe outcomes  K2 K3  *)
(*         + CastVal                                                       *)
(*  castg  any other flat family: per-row strict outcomes (the row cast    *)
(*         alone) against the strict and safe casts of the column   K2 K3  *)
(*  reenc  re-encoding (dictionary / run-end / view / offset width / list  *)
(*         kind) of the same logical type, there and back            K4    *)
(*  inv    a numeric cast followed by its inverse                    K4    *)
(*  text   values -> Utf8 -> values of the same type                 K5    *)
(*  dtype  DataType -> Display -> FromStr                            K6    *)
(*  text2v texts (code point sequences) -> integer / duration / decimal /  *)
(*         boolean / time of day: the cast from a string column in both    *)
(*         modes, or Parser::parse row by row, against TextVal      K2 K3  *)
(*                                                                         *)
(* Rows of the non-exact families are canonical tokens (vcore::tok), "~"   *)
(* is null.                                                                *)
(***************************************************************************)
EXTENDS Cast, TraceBase

VARIABLE l

NullTok == "~"
Classes == {"ok", "err", "unsupported", "panic"}

(* ---------------------------------- K1 ----------------------------------- *)
(* can_cast_types(a, b) => the cast is not refused as unsupported; an empty  *)
(* or all-null column has no value that could be unrepresentable: it casts,  *)
(* in both modes, to a column of type b and of the same length.  The         *)
(* all-null column casts to an all-null column unless b wraps the values     *)
(* into lists ("a list array with 1 value per slot is created") or is a      *)
(* union (no validity of its own)                                            *)
Wrapping == {"list", "listview", "fsl"}
PairOK(ev) ==
  /\ \A c \in {ev.e_safe, ev.e_strict, ev.n_safe, ev.n_strict, ev.s_safe, ev.s_strict} : c \in Classes /\ c # "panic"
  /\ (ev.can =>
        /\ ev.e_safe = "ok" /\ ev.e_strict = "ok" /\ ev.n_safe = "ok" /\ ev.n_strict = "ok"
        /\ ev.s_safe # "unsupported" /\ ev.s_strict # "unsupported"
        /\ ev.tyok
        /\ ((ev.bf \notin Wrapping \cup {"union"} \/ ev.af \in Wrapping) => ev.nullok))

AllClasses(ev, c) ==
  \A x \in {ev.e_safe, ev.e_strict, ev.n_safe, ev.n_strict, ev.s_safe, ev.s_strict} : x = c

(* can_cast_types accepts the pair, cast_with_options has no arm for it / refuses it          *)
PairKF(ev) ==
  CASE ev.can /\ ev.af = "interval" /\ ev.aleaf \in {"Interval(YearMonth)", "Interval(DayTime)"} /\ ev.bleaf = "Int64" /\
       AllClasses(ev, "unsupported")
         -> "C13-can-cast-interval-to-int64-unsupported"
    [] ev.can /\ ev.al = "utf8" /\ ev.bdecneg /\ AllClasses(ev, "err")
         -> "C13-string-to-negative-scale-decimal-refused"
    [] OTHER -> ""

(* ------------------------------ exact families --------------------------- *)
Exp(ev, i) == CastVal(ev.a, ev.b, FromWire(ev.in[i]))

(* E(i): expected [ok, v] of row i; Free(i): row i is not constrained (used   *)
(* only by the known findings below)                                          *)
StrictOKx(ev, E(_), Free(_)) ==
  LET n == Len(ev.in)
      mustErr == \E i \in 1..n : ev.iv[i] = 1 /\ ~Free(i) /\ ~E(i).ok
      anyFree == \E i \in 1..n : ev.iv[i] = 1 /\ Free(i)
  IN IF mustErr THEN ev.s_err
     ELSE \/ (ev.s_err /\ anyFree)
          \/ /\ ~ev.s_err /\ Len(ev.s_out) = n /\ Len(ev.s_ov) = n
             /\ \A i \in 1..n :
                  IF ev.iv[i] = 1 THEN Free(i) \/ (ev.s_ov[i] = 1 /\ ev.s_out[i] = ToWire(E(i).v))
                  ELSE ev.s_ov[i] = 0 /\ ev.s_out[i] = <<0>>

SafeOKx(ev, E(_), Free(_), errAllowed) ==
  LET n == Len(ev.in) IN
  IF ev.f_err THEN errAllowed
  ELSE /\ Len(ev.f_out) = n /\ Len(ev.f_ov) = n
       /\ \A i \in 1..n :
            IF ev.iv[i] = 1 /\ Free(i) THEN TRUE
            ELSE IF ev.iv[i] = 1 /\ E(i).ok THEN ev.f_ov[i] = 1 /\ ev.f_out[i] = ToWire(E(i).v)
            ELSE ev.f_ov[i] = 0 /\ ev.f_out[i] = <<0>>

NoFree(i) == FALSE
TypesOK(ev) == ((~ev.s_err) => ev.s_ot = ev.b) /\ ((~ev.f_err) => ev.f_ot = ev.b)

CastxOK(ev) ==
  /\ Exact(ev.a, ev.b)
  /\ ev.cls # "panic"
  /\ StrictOKx(ev, LAMBDA i : Exp(ev, i), NoFree)
  /\ SafeOKx(ev, LAMBDA i : Exp(ev, i), NoFree, FALSE)
  /\ TypesOK(ev)

(* Known findings of the exact families.  Each is identified by the type     *)
(* pair and a predicate on the values; the rest of the event must still be   *)
(* exactly right (rows outside the predicate, the other mode).               *)
CastxKF(ev) ==
  LET a == ev.a
      b == ev.b
      n == Len(ev.in)
      val(i) == FromWire(ev.in[i])
      some(P(_)) == \E i \in 1..n : ev.iv[i] = 1 /\ P(i)
      (* i256::to_i64: integer values beyond 64 bits                           *)
      wide(i) == ~BIn(64, 1, DecIntValue(a, val(i)))
      (* unchecked x * 1000 / x * 1000000                                      *)
      ovf(i) == ~BIn(64, 1, MulPow10(val(i), PerSecExp(b.u) - 3))
  IN IF ~Exact(a, b) \/ ev.cls = "panic" \/ ~TypesOK(ev) THEN ""
     ELSE IF a.f = "dec" /\ a.w = 256 /\ b.f = "int" /\ b.sg = 1 /\ some(wide) /\
             StrictOKx(ev, LAMBDA i : Exp(ev, i), wide) /\ SafeOKx(ev, LAMBDA i : Exp(ev, i), wide, FALSE)
          THEN "C13-i256-to-i64-truncates"
     ELSE IF a.f = "date64" /\ b.f = "ts" /\ b.u \in {"us", "ns"} /\ some(ovf) /\
             StrictOKx(ev, LAMBDA i : Exp(ev, i), ovf) /\ SafeOKx(ev, LAMBDA i : Exp(ev, i), ovf, FALSE)
          THEN "C13-date64-to-timestamp-unchecked-multiply"
     ELSE IF a.f = "ts" /\ b.f \in {"date32", "time32", "time64"} /\ ev.f_err /\ StrictOKx(ev, LAMBDA i : Exp(ev, i), NoFree) /\
             (\E i \in 1..n : ev.iv[i] = 1 /\ ~Exp(ev, i).ok)
          THEN "C13-timestamp-cast-safe-mode-errors"
     ELSE ""

(* ---------------------------- generic duality ---------------------------- *)
(* rowerr[i] / rowout[i]: outcome of the strict cast of row i alone (the row  *)
(* copied into a fresh one-row column)                                        *)
RowsSane(ev) ==
  LET n == Len(ev.in) IN
  /\ Len(ev.rowerr) = n /\ Len(ev.rowout) = n
  /\ \A i \in 1..n : ev.in[i] = NullTok => ev.rowerr[i] = 0 /\ ev.rowout[i] = NullTok
AnyRowErr(ev) == \E i \in 1..Len(ev.in) : ev.rowerr[i] = 1
(* K2: strict errs exactly when some row is not representable                *)
K2(ev) == ev.s_err = AnyRowErr(ev) /\ (~ev.s_err => ev.s_out = ev.rowout)
(* K3: safe succeeds, null exactly at those rows, identical elsewhere        *)
K3(ev) == ~ev.f_err /\
          ev.f_out = [i \in 1..Len(ev.in) |-> IF ev.rowerr[i] = 1 THEN NullTok ELSE ev.rowout[i]]

CastgOK(ev) == ev.cls # "panic" /\ RowsSane(ev) /\ K2(ev) /\ K3(ev)

CastgKF(ev) ==
  IF ev.cls = "panic" \/ ~RowsSane(ev) THEN ""
  (* safe mode reports the error of an unrepresentable timestamp / date        *)
  ELSE IF ev.ax = "ts" /\ ev.bx \in {"time32", "time64"} /\ K2(ev) /\ ev.f_err /\ AnyRowErr(ev)
       THEN "C13-timestamp-cast-safe-mode-errors"
  ELSE IF ev.ax \in {"ts", "date32", "date64"} /\ ev.bx = "utf8" /\ K2(ev) /\ ev.f_err /\ AnyRowErr(ev)
       THEN "C13-temporal-to-string-safe-mode-errors"
  (* strict fails although every row is fine: bytes outside the slice / under  *)
  (* nulls are validated, unreferenced dictionary values are cast              *)
  ELSE IF ev.ax = "binary" /\ ev.bx = "utf8" /\ ev.s_err /\ ~AnyRowErr(ev) /\ K3(ev)
       THEN "C13-binary-to-utf8-validates-hidden-bytes"
  ELSE IF ev.adict /\ ev.s_err /\ ~AnyRowErr(ev) /\ K3(ev)
       THEN "C13-dictionary-cast-fails-on-unreferenced-value"
  ELSE ""

(* ------------------------------ text -> value ---------------------------- *)
(* api = "cast": strict errs iff some non-null text is not in the language of *)
(* the target or denotes a value out of range, safe nulls exactly those rows; *)
(* api = "parse": Parser::parse row by row (None = null), no strict side      *)
TextExp(ev, i) == TextVal(ev.b, ev.in[i])
Text2vOK(ev) ==
  /\ ev.cls # "panic"
  /\ (ev.api = "cast" => StrictOKx(ev, LAMBDA i : TextExp(ev, i), NoFree) /\ TypesOK(ev))
  /\ SafeOKx(ev, LAMBDA i : TextExp(ev, i), NoFree, FALSE)

(* atoi 3.1.0 (the integer parser arrow-cast uses) takes the first five digits *)
(* of a negative i16 without overflow checks (NUM_SAFE_DIGITS_NON_POSITIVE = 5  *)
(* instead of 4): "-32769" parses as 32767.  Identified by: target Int16, the   *)
(* text is (whitespace) '-' digits with at least five digits whose first five   *)
(* exceed 32768; every other row must be exactly right                          *)
Int16Wraps(s) ==
  LET t == TrimBoth(s, AsciiWS) IN
  /\ Len(t) >= 6 /\ t[1] = 45 /\ AllDigits(Tail(t))
  /\ ~BIn(16, 1, Neg(DigitsVal(SubSeq(t, 2, 6))))
Text2vKF(ev) ==
  LET wraps(i) == Int16Wraps(ev.in[i]) IN
  IF ev.cls # "panic" /\ ev.b.f = "int" /\ ev.b.w = 16 /\ ev.b.sg = 1 /\
     (\E i \in 1..Len(ev.in) : ev.iv[i] = 1 /\ wraps(i)) /\
     (ev.api = "cast" => StrictOKx(ev, LAMBDA i : TextExp(ev, i), wraps) /\ TypesOK(ev)) /\
     SafeOKx(ev, LAMBDA i : TextExp(ev, i), wraps, FALSE)
  THEN "C13-string-to-int16-negative-wraps" ELSE ""

(* ---------------------------------- K4 ----------------------------------- *)
ReencOK(ev) ==
  /\ ev.f_cls # "panic" /\ ev.b_cls # "panic"
  /\ (ev.same => ev.f_cls = "ok" /\ ev.fwd = ev.in /\ ev.b_cls = "ok" /\ ev.back = ev.in)

InvOK(ev) ==
  Lossless(ev.a, ev.b) => ~ev.err /\ ev.back = ev.in /\ ev.bv = ev.iv

(* ---------------------------------- K5 ----------------------------------- *)
TextOK(ev) == ~ev.err /\ ev.back = ev.in

(* ---------------------------------- K6 ----------------------------------- *)
DtypeOK(ev) == ev.ok /\ ev.same
(* field names / time zones that are empty or contain a quote, a backslash   *)
(* or a control character are printed in a form FromStr does not read back   *)
DtypeKF(ev) == IF ev.special THEN "C13-datatype-text-special-names" ELSE ""

Init == l = 1
Next ==
  /\ l <= Len(Rec)
  /\ l' = l + 1
  /\ LET ev == Rec[l] IN
     CASE ev.k = "pair"  -> JudgeKF(PairOK(ev), l, "K1", PairKF(ev))
       [] ev.k = "castx" -> JudgeKF(CastxOK(ev), l, "castx", CastxKF(ev))
       [] ev.k = "castg" -> JudgeKF(CastgOK(ev), l, "castg", CastgKF(ev))
       [] ev.k = "reenc" -> Judge(ReencOK(ev), l, "K4")
       [] ev.k = "inv"   -> Judge(InvOK(ev), l, "K4inv")
       [] ev.k = "text"  -> Judge(TextOK(ev), l, "K5")
       [] ev.k = "dtype" -> JudgeKF(DtypeOK(ev), l, "K6", DtypeKF(ev))
       [] ev.k = "text2v" -> JudgeKF(Text2vOK(ev), l, "text2v", Text2vKF(ev))
Spec == Init /\ [][Next]_l
=============================================================================
