-------------------------------- MODULE Like --------------------------------
(***************************************************************************)
(* String predicates and functions of arrow-string on Unicode scalar      *)
(* values (C20).  A string is a sequence of code points (integers); a     *)
(* binary value is a sequence of bytes.  Definitions are the              *)
(* straightforward ones:                                                   *)
(*   LIKE: `%` any sequence (incl. newlines), `_` exactly one character,  *)
(*   backslash escapes the next character (a trailing backslash is a      *)
(*   literal backslash); ILIKE compares by Unicode simple case folding.   *)
(***************************************************************************)
EXTENDS Naturals, Integers, Sequences

PCT == 37   \* %
UND == 95   \* _
BSL == 92   \* backslash

(* Unicode simple case folding (CaseFolding.txt status C + S) restricted to *)
(* the alphabet the drivers use; every other code point folds to itself.    *)
Fold(c) ==
  IF c >= 65 /\ c <= 90 THEN c + 32          \* A-Z
  ELSE IF c = 201  THEN 233                  \* É -> é
  ELSE IF c = 7838 THEN 223                  \* ẞ -> ß
  ELSE IF c = 8490 THEN 107                  \* KELVIN SIGN -> k
  ELSE IF c = 383  THEN 115                  \* ſ -> s
  ELSE IF c = 931 \/ c = 962 THEN 963        \* Σ, ς -> σ
  ELSE c

EqC(a, b, ci) == IF ci THEN Fold(a) = Fold(b) ELSE a = b

(* pattern -> tokens                                                         *)
Lit(c) == [k |-> "lit", c |-> c]
AnyTok == [k |-> "any", c |-> 0]
OneTok == [k |-> "one", c |-> 0]

RECURSIVE ParseFrom(_, _)
ParseFrom(p, i) ==
  IF i > Len(p) THEN <<>>
  ELSE IF p[i] = BSL THEN
         (IF i = Len(p) THEN <<Lit(BSL)>> ELSE <<Lit(p[i + 1])>> \o ParseFrom(p, i + 2))
  ELSE IF p[i] = PCT THEN <<AnyTok>> \o ParseFrom(p, i + 1)
  ELSE IF p[i] = UND THEN <<OneTok>> \o ParseFrom(p, i + 1)
  ELSE <<Lit(p[i])>> \o ParseFrom(p, i + 1)
Parse(p) == ParseFrom(p, 1)

(* backtracking matcher: tokens t from i against string s from j             *)
RECURSIVE MatchFrom(_, _, _, _, _)
MatchFrom(t, i, s, j, ci) ==
  IF i > Len(t) THEN j > Len(s)
  ELSE IF t[i].k = "any" THEN
         \/ i = Len(t)                                   \* trailing % matches the rest
         \/ \E j2 \in j..(Len(s) + 1) : MatchFrom(t, i + 1, s, j2, ci)
  ELSE IF t[i].k = "one" THEN j <= Len(s) /\ MatchFrom(t, i + 1, s, j + 1, ci)
  ELSE j <= Len(s) /\ EqC(s[j], t[i].c, ci) /\ MatchFrom(t, i + 1, s, j + 1, ci)

LikeM(s, p, ci) == MatchFrom(Parse(p), 1, s, 1, ci)

(* the same relation as the set of reachable string positions (NFA          *)
(* simulation); MC_Like checks that both definitions agree                   *)
RECURSIVE Reach(_, _, _, _, _)
Reach(t, i, s, P, ci) ==      \* P: set of positions (1..Len(s)+1) reachable before token i
  IF i > Len(t) THEN P
  ELSE LET P2 == IF t[i].k = "any" THEN {j2 \in 1..(Len(s) + 1) : \E j \in P : j <= j2}
                 ELSE IF t[i].k = "one" THEN {j + 1 : j \in {x \in P : x <= Len(s)}}
                 ELSE {j + 1 : j \in {x \in P : x <= Len(s) /\ EqC(s[x], t[i].c, ci)}}
       IN Reach(t, i + 1, s, P2, ci)
LikeN(s, p, ci) == (Len(s) + 1) \in Reach(Parse(p), 1, s, {1}, ci)

IsPrefix(p, s) == Len(p) <= Len(s) /\ SubSeq(s, 1, Len(p)) = p
IsSuffix(p, s) == Len(p) <= Len(s) /\ SubSeq(s, Len(s) - Len(p) + 1, Len(s)) = p
Contains(s, p) == \E k \in 0..(Len(s) - Len(p)) : SubSeq(s, k + 1, k + Len(p)) = p
FoldSeq(s) == [i \in 1..Len(s) |-> Fold(s[i])]
EqAsciiCase(a, b) ==     \* eq_ignore_ascii_case: only A-Z / a-z are folded
  LET F(c) == IF c >= 65 /\ c <= 90 THEN c + 32 ELSE c IN
  Len(a) = Len(b) /\ \A i \in 1..Len(a) : F(a[i]) = F(b[i])

(* UTF-8                                                                     *)
Utf8Len(c) == IF c < 128 THEN 1 ELSE IF c < 2048 THEN 2 ELSE IF c < 65536 THEN 3 ELSE 4
RECURSIVE ByteLen(_)
ByteLen(s) == IF s = <<>> THEN 0 ELSE Utf8Len(Head(s)) + ByteLen(Tail(s))
IsCont(b) == b >= 128 /\ b <= 191
(* byte offset k (0..Len) of a valid UTF-8 byte sequence is a char boundary  *)
Boundary(bytes, k) == k = 0 \/ k = Len(bytes) \/ (k < Len(bytes) /\ ~IsCont(bytes[k + 1]))

(* substring(start, length) on a sequence (bytes or characters);            *)
(* hasLen = FALSE means "to the end"                                         *)
SubStart(n, start) == IF start >= 0 THEN (IF start < n THEN start ELSE n)
                      ELSE (IF n + start > 0 THEN n + start ELSE 0)
SubEnd(n, st, hasLen, len) == IF ~hasLen THEN n ELSE (IF st + len < n THEN st + len ELSE n)
SubstrOf(x, start, hasLen, len) ==
  LET st == SubStart(Len(x), start)
      en == SubEnd(Len(x), st, hasLen, len)
  IN SubSeq(x, st + 1, en)
SubstrCutsOk(bytes, start, hasLen, len) ==
  LET st == SubStart(Len(bytes), start)
      en == SubEnd(Len(bytes), st, hasLen, len)
  IN Boundary(bytes, st) /\ Boundary(bytes, en)
=============================================================================
