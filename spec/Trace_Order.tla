---------------------------- MODULE Trace_Order ----------------------------
(* impl -> spec (C10): every recorded call of make_comparator, sort*,       *)
(* lexsort*, rank, partition and the comparison kernels must return what    *)
(* Order.tla allows for the logged order keys.  An episode starts with a    *)
(* `new` event carrying the columns (sequences of order keys); the calls    *)
(* that follow name columns by 0-based position.                            *)
EXTENDS Order, TraceBase

VARIABLES l, cols

O(ev) == Opt(ev.desc, ev.nf)
Opts(ev) == [c \in 1..Len(ev.opts) |-> Opt(ev.opts[c][1], ev.opts[c][2])]
Col(c) == cols[c + 1]
Pick(cs) == [k \in 1..Len(cs) |-> cols[cs[k] + 1]]

SameLen(cs) == \A k \in 1..Len(cs) : Len(Col(cs[k])) = Len(Col(cs[1]))

(* does the specification explain the outcome of the call?                  *)
Explains(ev) ==
  CASE ev.op = "cmp" ->        \* make_comparator(left, right, opts)(i, j) on slot pairs
         /\ ~ev.err /\ Len(ev.out) = Len(ev.pairs)
         /\ \A k \in 1..Len(ev.pairs) :
              ev.out[k] = CmpV(Col(ev.a)[ev.pairs[k][1] + 1], Col(ev.b)[ev.pairs[k][2] + 1], O(ev))
    [] ev.op = "arreq" ->      \* array equality of one-row slices = the comparator says Equal
         /\ ~ev.err /\ Len(ev.out) = Len(ev.pairs)
         /\ \A k \in 1..Len(ev.pairs) :
              ev.out[k] = (CmpV(Col(ev.a)[ev.pairs[k][1] + 1], Col(ev.b)[ev.pairs[k][2] + 1], DefaultOpt) = 0)
    [] ev.op = "lexcmp" ->     \* LexicographicalComparator::compare(i, j)
         /\ ~ev.err /\ Len(ev.out) = Len(ev.pairs)
         /\ \A k \in 1..Len(ev.pairs) :
              ev.out[k] = RowCmp(Pick(ev.cs), Opts(ev), ev.pairs[k][1] + 1, ev.pairs[k][2] + 1)
    [] ev.op = "sort" ->       \* sort_to_indices(col, opts, limit)
         ~ev.err /\ IsSortedPrefix(ev.out, Col(ev.c), O(ev), ev.lim)
    [] ev.op = "sortv" ->      \* sort / sort_limit: the sorted values
         ~ev.err /\ IsSortedValues(ev.outk, Col(ev.c), O(ev), ev.lim)
    [] ev.op = "lexsort" ->    \* lexsort_to_indices(columns, limit)
         IF SameLen(ev.cs) THEN ~ev.err /\ IsLexSortedPrefix(ev.out, Pick(ev.cs), Opts(ev), ev.lim)
         ELSE ev.err
    [] ev.op = "lexsortv" ->   \* lexsort(columns, limit): the sorted columns
         IF SameLen(ev.cs) THEN ~ev.err /\ IsLexSortedValues(ev.outs, Pick(ev.cs), Opts(ev), ev.lim)
         ELSE ev.err
    [] ev.op = "rank" ->
         ~ev.err /\ ev.out = RankOf(Col(ev.c), O(ev))
    [] ev.op = "partition" ->  \* partition(columns).ranges()
         IF SameLen(ev.cs) THEN ~ev.err /\ IsPartition(ev.out, Pick(ev.cs), Len(Col(ev.cs[1])))
         ELSE ev.err
    [] ev.op = "kern" ->       \* cmp::{eq, neq, lt, lt_eq, gt, gt_eq, distinct, not_distinct}
         IF KernMustErr(Col(ev.a), ev.as, Col(ev.b), ev.bs) THEN ev.err
         ELSE ~ev.err /\ ev.out = KernRows(ev.f, Col(ev.a), ev.as, Col(ev.b), ev.bs)

(* kept short: TLC wraps a printed tuple that does not fit in 80 columns, and   *)
(* the REJECT / KNOWN lines are meant to be one line (the replay file holds    *)
(* the whole event and its episode)                                            *)
What(ev) == IF ev.op = "kern" THEN ev.f ELSE ev.op

(***************************************************************************)
(* Known findings (known_findings.txt), identified by call shape so that    *)
(* any other deviation of the same kernel is still rejected.                *)
(***************************************************************************)
KF(ev) ==
  CASE ev.op = "kern" /\ ev.as /\ ev.bs /\ ev.rt \in {"dict", "ree"}
         -> "C10-cmp-scalar-scalar-encoded-rhs"
    [] ev.op = "sortv" /\ ev.zw /\ ~ev.err /\ ev.outk = <<>>
         -> "C10-sort-zero-width-values"
    [] ev.op = "lexsortv" /\ ev.zw /\ ~ev.err /\ (\E c \in 1..Len(ev.outs) : ev.outs[c] = <<>>)
         -> "C10-sort-zero-width-values"
    (* list views: array equality ignores the validity of the child values (it panics *)
    (* or says "equal" too often); it never denies the equality of equal rows          *)
    [] ev.op = "arreq" /\ ev.fam = "listview" /\
       (ev.err \/ (Len(ev.out) = Len(ev.pairs) /\
                   \A k \in 1..Len(ev.pairs) :
                      (CmpV(Col(ev.a)[ev.pairs[k][1] + 1], Col(ev.b)[ev.pairs[k][2] + 1], DefaultOpt) = 0) => ev.out[k]))
         -> "C10-listview-array-equality"
    [] OTHER -> ""

Init == l = 1 /\ cols = <<>>
Next == /\ l <= Len(Rec)
        /\ l' = l + 1
        /\ LET ev == Rec[l] IN
           IF ev.op = "new" THEN cols' = ev.cols
           ELSE /\ JudgeKF(Explains(ev), l, What(ev), KF(ev))
                /\ UNCHANGED cols
Spec == Init /\ [][Next]_<<l, cols>>
=============================================================================
