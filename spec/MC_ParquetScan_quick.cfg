SPECIFICATION Spec
CONSTANTS
  RgRows <- RgQuick
  MaxPreds = 1
  Offsets <- OffQuick
  Limits <- LimAll
  BatchSizes = {1, 2}
  Policies = {"Selectors", "Mask", "Auto"}
  Threshold = 2
  NullPreds <- NullQuick
INVARIANTS S1_Prefix S1_Complete S2_Batches S2_Done S3_InBounds S4_ByGroup
CHECK_DEADLOCK FALSE
