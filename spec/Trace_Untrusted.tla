--------------------------- MODULE Trace_Untrusted ---------------------------
(***************************************************************************)
(* C08, impl -> spec: every recorded reader session on corrupted bytes is  *)
(* judged against Untrusted.tla (outcome protocol, plan semantics),        *)
(* ArrowLayout.tla (every returned batch is well formed) and               *)
(* VariantFormat.tla (what Variant::try_new accepts is valid and denotes   *)
(* the value the specification decodes).                                   *)
(*                                                                         *)
(* EVENTS (harness/p/c08)                                                  *)
(*  [ev |-> "session", fmt, api, file, src, op, arg, sel, d, fix, r, pos,  *)
(*   donor, kind, lo, hi, flo, fhi, lastgrp, baselen, newlen, dlo, dhi,    *)
(*   at, oldw, neww, outcome, where, wfile, msg, fn, phase, has_declared,  *)
(*   declared, batches, nb, big, units, peak]                              *)
(*     src    "base" (no corruption) | "gen" (plan enumerated by TLC from  *)
(*            Gen_Untrusted) | "byte" | "trunc" | "splice" (harness)       *)
(*     kind, lo, hi, flo, fhi   the addressed region and its frame         *)
(*     baselen, newlen, dlo, dhi   length before / after, first and        *)
(*            one-past-last byte position that differs from the base file  *)
(*     outcome  ok | err | panic | hang | alloc | crash;  wfile / msg / fn *)
(*            identify a panic (source file, constant head of the message, *)
(*            innermost function of a reader crate on the stack), fn also  *)
(*            the requester of a refused allocation                        *)
(*     declared   the schema the reader declared ([s, nullable] per field) *)
(*     batches    every batch returned before the end / the error:         *)
(*            [ref, big, decl, schema, cols (vcore::dump::to_layout),      *)
(*             nrows, vf, lens, types]; decl = the schema the reader       *)
(*            declared when it returned the batch (a Flight / IPC stream   *)
(*            may re-declare); `big` batches carry no dumps (too large for *)
(*            TLC), `vf` = the crate's own validate_full + RecordBatch     *)
(*            ::try_new accepted the batch (an observation).  Sessions are *)
(*            grouped by (file, api); each group starts with the session   *)
(*            on the uncorrupted file (src = "base"); a later batch whose  *)
(*            dump is identical to batch k of that base session is logged  *)
(*            as ref = k without the dump (the specification keeps the     *)
(*            base batches in its state and judged them there).            *)
(*  [ev |-> "variant", src, meta, value, outcome, where, tok]              *)
(*  [ev |-> "vmeta", src, meta, outcome, where, names]                     *)
(*                                                                         *)
(* REQUIRED of a session                                                   *)
(*  Effect    the harness applied the plan as Untrusted.tla defines it     *)
(*  Outcome   outcome \in SafeOutcomes; an uncorrupted file reads "ok"     *)
(*  Batches   BatchWellFormed(schema, cols, nrows) for every batch, the    *)
(*            batch's schema equals the declared one, vf holds             *)
(* REQUIRED of a variant event: outcome \in {ok, err}; ok => the           *)
(*  specification calls the bytes valid and decodes the same value.        *)
(*                                                                         *)
(* Known findings: KFTable below, one entry per defect site, identified by *)
(* outcome + format(s) + source file of the panic + constant head of its   *)
(* message (up to the first ':', '(' or digit: names the assertion and the *)
(* slice / index form) + the innermost reader *function(s)* on the stack   *)
(* it is reached from (exact symbol names; a panic with a listed message   *)
(* in a listed file but reached from another function is a new site and is *)
(* not masked); for a refused allocation the requesting function; a hang   *)
(* has neither and is identified by format + outcome.  A known id only explains the *outcome* of a       *)
(* session (and the absence of further batches); any other deviation, an   *)
(* unknown site, or an ill-formed batch is a REJECT.                       *)
(***************************************************************************)
EXTENDS Untrusted, ArrowLayout, TraceBase

V == INSTANCE VariantFormat

VARIABLES l,       \* index of the next event
          bkey,    \* <<fmt, file, api>> of the last base session
          bases    \* its batches

(* ------------------------------------------------------------ effect *)
EffectOK(e) ==
  LET at == PlanAt(e.op, e.sel, e.d, e.lo, e.hi, e.flo, e.fhi, e.baselen, e.pos)
      ft == PlanFirstTouched(e.op, e.sel, e.d, e.lo, e.hi, e.flo, e.fhi, e.baselen, e.pos)
      lt == PlanLastTouched(e.op, e.sel, e.d, e.lo, e.hi, e.flo, e.fhi, e.baselen, e.pos, e.kind, e.fix)
      same == e.dlo = 0 /\ e.dhi = 0
  IN /\ e.newlen = PlanNewLen(e.op, e.sel, e.d, e.lo, e.hi, e.flo, e.fhi, e.baselen, e.pos, e.neww)
     /\ e.op # "none" => e.at = at
     /\ e.op = "none" => same
     /\ e.op = "inflate" => InflatedWidthOK(e.kind, e.hi - e.lo, e.neww) /\ e.kind \in LenKinds
     /\ same \/ (e.dlo >= ft /\ e.dlo < e.dhi)
     /\ (lt # -1 /\ ~same /\ ~e.fix) => e.dhi <= lt
     /\ e.op = "trunc" => (IF e.newlen < e.baselen THEN e.dlo = e.newlen /\ e.dhi = e.baselen ELSE same)
     /\ e.src = "base" <=> e.op = "none"

(* ----------------------------------------------------------- batches *)
SchemaEq(a, b) == Len(a) = Len(b) /\ \A i \in 1..Len(a) : a[i].s = b[i].s /\ a[i].nullable = b[i].nullable

FullBatchOK(e, b) ==
  /\ b.vf
  /\ e.has_declared /\ SchemaEq(b.decl, b.schema)
  /\ Len(b.lens) = Len(b.schema) /\ Len(b.types) = Len(b.schema)
  /\ \A i \in 1..Len(b.schema) : b.lens[i] = b.nrows /\ b.types[i] = b.schema[i].s
  /\ b.big \/ BatchWellFormed(b.schema, b.cols, b.nrows)

(* a reference is to a batch of the base session of the same (file, api),    *)
(* which was judged in full when that session was read; what remains is the  *)
(* identity of the dump, which includes the schema declared at that moment   *)
BatchOK(e, b) ==
  IF b.ref = 0 THEN FullBatchOK(e, b)
  ELSE /\ e.src # "base" /\ bkey = <<e.fmt, e.file, e.api>>
       /\ b.ref >= 1 /\ b.ref <= Len(bases)
       /\ b.vf /\ b.nrows = bases[b.ref].nrows
       /\ e.has_declared /\ SchemaEq(bases[b.ref].decl, bases[b.ref].schema)

BatchesOK(e) == Len(e.batches) = e.nb /\ \A i \in 1..Len(e.batches) : BatchOK(e, e.batches[i])

OutcomeOK(e) == e.outcome \in SafeOutcomes /\ (e.src = "base" => e.outcome = "ok")

(* ------------------------------------------------------ known findings *)
Ipc == {"ipc_file", "ipc_stream", "flight"}

KFTable == {
  [id |-> "C08-variant-uuid-short-panic", outcome |-> "panic", fmts |-> {"variant"}, wfile |-> "parquet-variant/src/decoder.rs",
   msg |-> "range end index",
   fns |-> {"parquet_variant::decoder::decode_uuid"}],
  [id |-> "C08-variant-date-overflow-panic", outcome |-> "panic", fmts |-> {"variant"}, wfile |-> "parquet-variant/src/decoder.rs",
   msg |-> "`DateTime + TimeDelta` overflowed",
   fns |-> {"parquet_variant::decoder::decode_date"}],
  [id |-> "C08-variant-metadata-split-utf8", outcome |-> "panic", fmts |-> {"variant"}, wfile |-> "parquet-variant/src/variant/metadata.rs",
   msg |-> "Invalid metadata dictionary entry",
   fns |-> {""}],
  [id |-> "C08-ipc-buffer-misaligned", outcome |-> "panic", fmts |-> {"ipc_file", "ipc_stream", "flight"}, wfile |-> "arrow-buffer/src/buffer/scalar.rs",
   msg |-> "Memory pointer is not aligned with the specified scalar type",
   fns |-> {"arrow_ipc::reader::RecordBatchDecoder::create_array"}],
  [id |-> "C08-pq-record-reader-assert", outcome |-> "panic", fmts |-> {"parquet"}, wfile |-> "parquet/src/record/reader.rs",
   msg |-> "assertion `left == right` failed",
   fns |-> {"parquet::record::reader::TreeBuilder::reader_tree"}],
  [id |-> "C08-ipc-decompress-alloc", outcome |-> "alloc", fmts |-> {"ipc_file", "ipc_stream"}, wfile |-> "",
   msg |-> "alloc",
   fns |-> {"arrow_ipc::compression::CompressionCodec::decompress_to_buffer"}],
  [id |-> "C08-ipc-length-field-alloc", outcome |-> "alloc", fmts |-> {"ipc_file", "ipc_stream"}, wfile |-> "",
   msg |-> "alloc",
   fns |-> {"arrow_ipc::reader::FileReader<R>::try_new", "arrow_ipc::reader::read_block", "arrow_ipc::reader::read_body_bounded"}],
  [id |-> "C08-pq-arrow-value-decoder-alloc", outcome |-> "alloc", fmts |-> {"parquet"}, wfile |-> "",
   msg |-> "alloc",
   fns |-> {"<parquet::arrow::array_reader::fixed_len_byte_array::ValueDecoder as parquet::column::reader::decoder::ColumnValueDecoder>::read", "parquet::arrow::array_reader::byte_array::ByteArrayDecoderPlain::read"}],
  [id |-> "C08-pq-dict-decoder-alloc", outcome |-> "alloc", fmts |-> {"parquet"}, wfile |-> "",
   msg |-> "alloc",
   fns |-> {"parquet::encodings::decoding::DictDecoder<T>::set_dict"}],
  [id |-> "C08-pq-thrift-schema-alloc", outcome |-> "alloc", fmts |-> {"parquet"}, wfile |-> "",
   msg |-> "alloc",
   fns |-> {"parquet::schema::types::schema_from_array_helper"}],
  [id |-> "C08-avro-ocf-no-progress-loop", outcome |-> "hang", fmts |-> {"avro_ocf"}, wfile |-> "",
   msg |-> "watchdog",
   fns |-> {""}],
  [id |-> "C08-ipc-validity-bitmap-short", outcome |-> "panic", fmts |-> {"flight", "ipc_file", "ipc_stream"}, wfile |-> "arrow-buffer/src/buffer/boolean.rs",
   msg |-> "buffer not large enough",
   fns |-> {"arrow_ipc::reader::RecordBatchDecoder::create_dictionary_array", "arrow_ipc::reader::RecordBatchDecoder::create_list_array", "arrow_ipc::reader::RecordBatchDecoder::create_list_view_array", "arrow_ipc::reader::RecordBatchDecoder::create_primitive_array", "arrow_ipc::reader::RecordBatchDecoder::create_struct_array"}],
  [id |-> "C08-ipc-buffer-not-multiple-of-width", outcome |-> "panic", fmts |-> {"flight", "ipc_file", "ipc_stream"}, wfile |-> "arrow-buffer/src/buffer/immutable.rs",
   msg |-> "assertion failed",
   fns |-> {"arrow_ipc::reader::RecordBatchDecoder::create_dictionary_array", "arrow_ipc::reader::RecordBatchDecoder::create_list_array", "arrow_ipc::reader::RecordBatchDecoder::create_list_view_array", "arrow_ipc::reader::RecordBatchDecoder::create_primitive_array"}],
  [id |-> "C08-ipc-buffer-beyond-body", outcome |-> "panic", fmts |-> {"flight", "ipc_file", "ipc_stream"}, wfile |-> "arrow-buffer/src/buffer/immutable.rs",
   msg |-> "the offset of the new Buffer cannot exceed the existing length",
   fns |-> {"arrow_ipc::reader::RecordBatchDecoder::create_array", "arrow_ipc::reader::RecordBatchDecoder::next_buffer"}],
  [id |-> "C08-pq-def-levels-out-of-bounds", outcome |-> "panic", fmts |-> {"parquet"}, wfile |-> "arrow-buffer/src/util/bit_chunk_iterator.rs",
   msg |-> "offset + len out of bounds",
   fns |-> {"<parquet::arrow::record_reader::definition_levels::DefinitionLevelBufferDecoder as parquet::column::reader::decoder::DefinitionLevelDecoder>::read_def_levels"}],
  [id |-> "C08-pq-def-levels-bit-util-assert", outcome |-> "panic", fmts |-> {"parquet"}, wfile |-> "arrow-buffer/src/util/bit_util.rs",
   msg |-> "assertion `left != right` failed",
   fns |-> {"<parquet::arrow::record_reader::definition_levels::DefinitionLevelBufferDecoder as parquet::column::reader::decoder::DefinitionLevelDecoder>::read_def_levels"}],
  [id |-> "C08-ipc-arraydata-build-unwrap", outcome |-> "panic", fmts |-> {"ipc_file", "ipc_stream"}, wfile |-> "arrow-data/src/data.rs",
   msg |-> "called `Result",
   fns |-> {"arrow_ipc::reader::RecordBatchDecoder::create_primitive_array"}],
  [id |-> "C08-ipc-fixed-size-list-overflow", outcome |-> "panic", fmts |-> {"ipc_file", "ipc_stream"}, wfile |-> "arrow-data/src/data.rs",
   msg |-> "integer overflow computing expected number of expected values in Fixed",
   fns |-> {"arrow_ipc::reader::RecordBatchDecoder::create_list_array"}],
  [id |-> "C08-ipc-variadic-counts-assert", outcome |-> "panic", fmts |-> {"ipc_file", "ipc_stream"}, wfile |-> "arrow-ipc/src/reader.rs",
   msg |-> "assertion failed",
   fns |-> {"arrow_ipc::reader::RecordBatchDecoder::read_record_batch"}],
  [id |-> "C08-ipc-reader-unwrap-none", outcome |-> "panic", fmts |-> {"flight", "ipc_file", "ipc_stream"}, wfile |-> "arrow-ipc/src/reader.rs",
   msg |-> "called `Option",
   fns |-> {"arrow_ipc::reader::get_dictionary_values", "arrow_ipc::reader::read_block"}],
  [id |-> "C08-ipc-reader-index", outcome |-> "panic", fmts |-> {"ipc_file", "ipc_stream"}, wfile |-> "arrow-ipc/src/reader.rs",
   msg |-> "index out of bounds",
   fns |-> {"arrow_ipc::reader::RecordBatchDecoder::create_primitive_array"}],
  [id |-> "C08-pq-bytes-slice-out-of-bounds", outcome |-> "panic", fmts |-> {"parquet"}, wfile |-> "bytes-1.12.1/src/bytes.rs",
   msg |-> "range end out of bounds",
   fns |-> {"<parquet::encodings::decoding::DeltaLengthByteArrayDecoder<T> as parquet::encodings::decoding::Decoder<T>>::get", "parquet::column::reader::GenericColumnReader<R,D,V>::read_new_page", "parquet::column::reader::GenericColumnReader<R,D,V>::read_records"}],
  [id |-> "C08-pq-bytes-slice-start-after-end", outcome |-> "panic", fmts |-> {"parquet"}, wfile |-> "bytes-1.12.1/src/bytes.rs",
   msg |-> "range start must not be greater than end",
   fns |-> {"<parquet::encodings::decoding::DeltaByteArrayDecoder<T> as parquet::encodings::decoding::Decoder<T>>::set_data", "<parquet::encodings::decoding::DeltaLengthByteArrayDecoder<T> as parquet::encodings::decoding::Decoder<T>>::get", "<parquet::encodings::decoding::DeltaLengthByteArrayDecoder<T> as parquet::encodings::decoding::Decoder<T>>::set_data", "parquet::arrow::decoder::delta_byte_array::DeltaByteArrayDecoder::new"}],
  [id |-> "C08-pq-byte-array-divide-by-zero", outcome |-> "panic", fmts |-> {"parquet"}, wfile |-> "parquet/src/arrow/array_reader/byte_array.rs",
   msg |-> "attempt to divide by zero",
   fns |-> {"parquet::arrow::array_reader::byte_array::ByteArrayDecoderPlain::read"}],
  [id |-> "C08-pq-flba-divide-by-zero", outcome |-> "panic", fmts |-> {"parquet"}, wfile |-> "parquet/src/arrow/array_reader/fixed_len_byte_array.rs",
   msg |-> "attempt to divide by zero",
   fns |-> {"<parquet::arrow::array_reader::fixed_len_byte_array::ValueDecoder as parquet::column::reader::decoder::ColumnValueDecoder>::read"}],
  [id |-> "C08-pq-flba-unwrap-none", outcome |-> "panic", fmts |-> {"parquet"}, wfile |-> "parquet/src/arrow/array_reader/fixed_len_byte_array.rs",
   msg |-> "called `Option",
   fns |-> {"<parquet::arrow::array_reader::fixed_len_byte_array::ValueDecoder as parquet::column::reader::decoder::ColumnValueDecoder>::read"}],
  [id |-> "C08-pq-flba-range-end", outcome |-> "panic", fmts |-> {"parquet"}, wfile |-> "parquet/src/arrow/array_reader/fixed_len_byte_array.rs",
   msg |-> "range end index",
   fns |-> {"<parquet::arrow::array_reader::fixed_len_byte_array::ValueDecoder as parquet::column::reader::decoder::ColumnValueDecoder>::read"}],
  [id |-> "C08-pq-flba-range-start", outcome |-> "panic", fmts |-> {"parquet"}, wfile |-> "parquet/src/arrow/array_reader/fixed_len_byte_array.rs",
   msg |-> "range start index",
   fns |-> {"<parquet::arrow::array_reader::fixed_len_byte_array::ValueDecoder as parquet::column::reader::decoder::ColumnValueDecoder>::read"}],
  [id |-> "C08-pq-delta-byte-array-slice", outcome |-> "panic", fmts |-> {"parquet"}, wfile |-> "parquet/src/arrow/decoder/delta_byte_array.rs",
   msg |-> "slice index starts at",
   fns |-> {"parquet::arrow::array_reader::byte_array::ByteArrayDecoder::read", "parquet::arrow::decoder::delta_byte_array::DeltaByteArrayDecoder::read"}],
  [id |-> "C08-pq-page-header-unwrap-none", outcome |-> "panic", fmts |-> {"parquet"}, wfile |-> "parquet/src/column/page.rs",
   msg |-> "called `Option",
   fns |-> {"<parquet::column::page::PageMetadata as core::convert::TryFrom<&parquet::file::metadata::thrift::PageHeader>>::try_from"}],
  [id |-> "C08-pq-dict-decoder-missing", outcome |-> "panic", fmts |-> {"parquet"}, wfile |-> "parquet/src/column/reader/decoder.rs",
   msg |-> "Decoder for dict should have been set",
   fns |-> {"<parquet::column::reader::decoder::ColumnValueDecoderImpl<T> as parquet::column::reader::decoder::ColumnValueDecoder>::set_data"}],
  [id |-> "C08-pq-plain-decoder-assert", outcome |-> "panic", fmts |-> {"parquet"}, wfile |-> "parquet/src/data_type.rs",
   msg |-> "assertion failed",
   fns |-> {"<parquet::encodings::decoding::PlainDecoder<T> as parquet::encodings::decoding::Decoder<T>>::get"}],
  [id |-> "C08-pq-plain-decoder-no-data", outcome |-> "panic", fmts |-> {"parquet"}, wfile |-> "parquet/src/data_type.rs",
   msg |-> "set_data should have been called",
   fns |-> {"<parquet::encodings::decoding::DeltaByteArrayDecoder<T> as parquet::encodings::decoding::Decoder<T>>::get"}],
  [id |-> "C08-pq-decoding-range-end", outcome |-> "panic", fmts |-> {"parquet"}, wfile |-> "parquet/src/encodings/decoding.rs",
   msg |-> "range end index",
   fns |-> {"<parquet::encodings::decoding::DeltaBitPackDecoder<T> as parquet::encodings::decoding::Decoder<T>>::get"}],
  [id |-> "C08-pq-byte-stream-split-index", outcome |-> "panic", fmts |-> {"parquet"}, wfile |-> "parquet/src/encodings/decoding/byte_stream_split_decoder.rs",
   msg |-> "index out of bounds",
   fns |-> {"parquet::encodings::decoding::byte_stream_split_decoder::join_streams_const"}],
  [id |-> "C08-pq-negative-column-range", outcome |-> "panic", fmts |-> {"parquet"}, wfile |-> "parquet/src/file/metadata/mod.rs",
   msg |-> "column start and length should not be negative",
   fns |-> {"parquet::file::metadata::ColumnChunkMetaData::byte_range"}],
  [id |-> "C08-pq-record-triplet-panic", outcome |-> "panic", fmts |-> {"parquet"}, wfile |-> "parquet/src/record/triplet.rs",
   msg |-> "Cannot extract value, max definition level",
   fns |-> {"parquet::record::triplet::TripletIter::current_value"}],
  [id |-> "C08-pq-bit-reader-range-end", outcome |-> "panic", fmts |-> {"parquet"}, wfile |-> "parquet/src/util/bit_util.rs",
   msg |-> "range end index",
   fns |-> {"<parquet::encodings::decoding::PlainDecoder<T> as parquet::encodings::decoding::Decoder<T>>::get"}]
}

KFMatch(k, e) ==
  /\ e.outcome = k.outcome /\ e.fmt \in k.fmts
  /\ e.wfile = k.wfile /\ e.msg = k.msg /\ e.fn \in k.fns

KF(e) == IF \E k \in KFTable : KFMatch(k, e) THEN (CHOOSE k \in KFTable : KFMatch(k, e)).id ELSE ""

(* Variant: a panic is identified like any other (KFTable, fmt = "variant"); *)
(* an *accepted* invalid encoding is identified by the one rule it breaks:   *)
(* valid under the relaxation "dup-keys" (VariantFormat!VariantValidR): two  *)
(* adjacent fields of an object have the same name (the real validator only  *)
(* rejects decreasing names when the dictionary is not sorted).              *)
KFV(e) ==
  IF e.outcome # "ok" THEN KF(e)
  ELSE IF e.ev = "variant" /\ ~V!VariantValid(e.meta, e.value) /\ V!VariantValidR(e.meta, e.value, {"dup-keys"})
            /\ e.tok = V!Decode(e.meta, e.value)
         THEN "C08-variant-object-duplicate-keys"
  ELSE ""

(* -------------------------------------------------------------- variant *)
VariantOK(e) ==
  /\ e.outcome \in {"ok", "err"}
  /\ e.outcome = "ok" => (V!VariantValid(e.meta, e.value) /\ e.tok = V!Decode(e.meta, e.value))
  /\ e.src = "base" => e.outcome = "ok"

NamesTok(m) == [i \in 1..V!MN(m) |-> V!BytesTok(V!Names(m)[i], 1)]
VMetaOK(e) ==
  /\ e.outcome \in {"ok", "err"}
  /\ e.outcome = "ok" => (V!MetaValid(e.meta) /\ e.names = NamesTok(e.meta))
  /\ e.src = "base" => e.outcome = "ok"

Init == l = 1 /\ bkey = <<"", "", "">> /\ bases = <<>>
Next == /\ l <= Len(Rec)
        /\ l' = l + 1
        /\ IF Rec[l].ev = "session" /\ Rec[l].src = "base"
             THEN bkey' = <<Rec[l].fmt, Rec[l].file, Rec[l].api>> /\ bases' = Rec[l].batches
             ELSE UNCHANGED <<bkey, bases>>
        /\ LET e == Rec[l] IN
           CASE e.ev = "session" ->
                  /\ Judge(EffectOK(e), l, "effect")
                  /\ JudgeKF(OutcomeOK(e), l, "outcome", KF(e))
                  /\ Judge(BatchesOK(e), l, "batch")
             [] e.ev = "variant" -> JudgeKF(VariantOK(e), l, "variant", KFV(e))
             [] e.ev = "vmeta" -> JudgeKF(VMetaOK(e), l, "vmeta", KFV(e))
             [] OTHER -> Judge(FALSE, l, "unknown event kind")
Spec == Init /\ [][Next]_<<l, bkey, bases>>
=============================================================================
