--------------------------- MODULE Trace_Untrusted ---------------------------
(***************************************************************************)
(* C08, impl -> spec: every recorded reader session on corrupted bytes is  *)
(* judged against Untrusted.tla (outcome protocol, plan semantics),        *)
(* ArrowLayout.tla (every returned batch is well formed) and               *)
(* VariantFormat.tla (what Variant::try_new accepts is valid and denotes   *)
(* the value the specification decodes).                                   *)
(*                                                                         *)
(* EVENTS (harness/p/c08)                                                  *)
(*  [ev |-> "session", fmt, api, file, src, op, arg, sel, d, fix, r, pos,  *)
(*   donor, kind, lo, hi, flo, fhi, lastgrp, baselen, newlen, dlo, dhi,    *)
(*   at, oldw, neww, outcome, where, wfile, msg, fn, phase, has_declared,  *)
(*   declared, batches, nb, big, units, peak]                              *)
(*     src    "base" (no corruption) | "gen" (plan enumerated by TLC from  *)
(*            Gen_Untrusted) | "byte" | "trunc" | "splice" (harness)       *)
(*     kind, lo, hi, flo, fhi   the addressed region and its frame         *)
(*     baselen, newlen, dlo, dhi   length before / after, first and        *)
(*            one-past-last byte position that differs from the base file  *)
(*     outcome  ok | err | panic | hang | alloc | crash;  wfile / msg / fn *)
(*            identify a panic (source file, constant head of the message, *)
(*            innermost function of a reader crate on the stack), fn also  *)
(*            the requester of a refused allocation                        *)
(*     declared   the schema the reader declared ([s, nullable] per field) *)
(*     batches    every batch returned before the end / the error:         *)
(*            [ref, big, schema, cols (vcore::dump::to_layout), nrows, vf, *)
(*             lens, types]; `big` batches carry no dumps (too large for   *)
(*            TLC), `vf` = the crate's own validate_full + RecordBatch     *)
(*            ::try_new accepted the batch (an observation).  Sessions are *)
(*            grouped by (file, api); each group starts with the session   *)
(*            on the uncorrupted file (src = "base"); a later batch whose  *)
(*            dump is identical to batch k of that base session is logged  *)
(*            as ref = k without the dump (the specification keeps the     *)
(*            base batches in its state and judged them there).            *)
(*  [ev |-> "variant", src, meta, value, outcome, where, tok]              *)
(*  [ev |-> "vmeta", src, meta, outcome, where, names]                     *)
(*                                                                         *)
(* REQUIRED of a session                                                   *)
(*  Effect    the harness applied the plan as Untrusted.tla defines it     *)
(*  Outcome   outcome \in SafeOutcomes; an uncorrupted file reads "ok"     *)
(*  Batches   BatchWellFormed(schema, cols, nrows) for every batch, the    *)
(*            batch's schema equals the declared one, vf holds             *)
(* REQUIRED of a variant event: outcome \in {ok, err}; ok => the           *)
(*  specification calls the bytes valid and decodes the same value.        *)
(*                                                                         *)
(* Known findings: KFTable below, one entry per defect site, identified by *)
(* outcome + format(s) + source file of the panic + constant head of its   *)
(* message + the reader module(s) (crate::module of the innermost reader   *)
(* function on the stack) it is reached from; for a refused allocation the *)
(* module of the requesting function; a hang has neither and is identified *)
(* by format + outcome.  A known id only explains the *outcome* of a       *)
(* session (and the absence of further batches); any other deviation, an   *)
(* unknown site, or an ill-formed batch is a REJECT.                       *)
(***************************************************************************)
EXTENDS Untrusted, ArrowLayout, TraceBase

V == INSTANCE VariantFormat

VARIABLES l,       \* index of the next event
          bkey,    \* <<fmt, file, api>> of the last base session
          bases    \* its batches

(* ------------------------------------------------------------ effect *)
EffectOK(e) ==
  LET at == PlanAt(e.op, e.sel, e.d, e.lo, e.hi, e.flo, e.fhi, e.baselen, e.pos)
      ft == PlanFirstTouched(e.op, e.sel, e.d, e.lo, e.hi, e.flo, e.fhi, e.baselen, e.pos)
      lt == PlanLastTouched(e.op, e.sel, e.d, e.lo, e.hi, e.flo, e.fhi, e.baselen, e.pos, e.kind, e.fix)
      same == e.dlo = 0 /\ e.dhi = 0
  IN /\ e.newlen = PlanNewLen(e.op, e.sel, e.d, e.lo, e.hi, e.flo, e.fhi, e.baselen, e.pos, e.neww)
     /\ e.op # "none" => e.at = at
     /\ e.op = "none" => same
     /\ e.op = "inflate" => InflatedWidthOK(e.kind, e.hi - e.lo, e.neww) /\ e.kind \in LenKinds
     /\ same \/ (e.dlo >= ft /\ e.dlo < e.dhi)
     /\ (lt # -1 /\ ~same /\ ~e.fix) => e.dhi <= lt
     /\ e.op = "trunc" => (IF e.newlen < e.baselen THEN e.dlo = e.newlen /\ e.dhi = e.baselen ELSE same)
     /\ e.src = "base" <=> e.op = "none"

(* ----------------------------------------------------------- batches *)
SchemaEq(a, b) == Len(a) = Len(b) /\ \A i \in 1..Len(a) : a[i].s = b[i].s /\ a[i].nullable = b[i].nullable

FullBatchOK(e, b) ==
  /\ b.vf
  /\ e.has_declared /\ SchemaEq(e.declared, b.schema)
  /\ Len(b.lens) = Len(b.schema) /\ Len(b.types) = Len(b.schema)
  /\ \A i \in 1..Len(b.schema) : b.lens[i] = b.nrows /\ b.types[i] = b.schema[i].s
  /\ b.big \/ BatchWellFormed(b.schema, b.cols, b.nrows)

(* a reference is to a batch of the base session of the same (file, api),    *)
(* which was judged in full when that session was read; what remains is the  *)
(* agreement with the schema this session declared                           *)
BatchOK(e, b) ==
  IF b.ref = 0 THEN FullBatchOK(e, b)
  ELSE /\ e.src # "base" /\ bkey = <<e.fmt, e.file, e.api>>
       /\ b.ref >= 1 /\ b.ref <= Len(bases)
       /\ b.vf /\ b.nrows = bases[b.ref].nrows
       /\ e.has_declared /\ SchemaEq(e.declared, bases[b.ref].schema)

BatchesOK(e) == Len(e.batches) = e.nb /\ \A i \in 1..Len(e.batches) : BatchOK(e, e.batches[i])

OutcomeOK(e) == e.outcome \in SafeOutcomes /\ (e.src = "base" => e.outcome = "ok")

(* ------------------------------------------------------ known findings *)
Ipc == {"ipc_file", "ipc_stream", "flight"}

KFTable == {}

KFMatch(k, e) ==
  /\ e.outcome = k.outcome /\ e.fmt \in k.fmts
  /\ e.wfile = k.wfile /\ e.msg = k.msg /\ e.fmod \in k.fmods

KF(e) == IF \E k \in KFTable : KFMatch(k, e) THEN (CHOOSE k \in KFTable : KFMatch(k, e)).id ELSE ""

(* Variant: a panic is identified like any other (KFTable, fmt = "variant"); *)
(* an *accepted* invalid encoding is identified by the one rule it breaks:   *)
(* valid under the relaxation "dup-keys" (VariantFormat!VariantValidR): two  *)
(* adjacent fields of an object have the same name (the real validator only  *)
(* rejects decreasing names when the dictionary is not sorted).              *)
KFV(e) ==
  IF e.outcome # "ok" THEN KF(e)
  ELSE IF e.ev = "variant" /\ ~V!VariantValid(e.meta, e.value) /\ V!VariantValidR(e.meta, e.value, {"dup-keys"})
            /\ e.tok = V!Decode(e.meta, e.value)
         THEN "C08-variant-object-duplicate-keys"
  ELSE ""

(* -------------------------------------------------------------- variant *)
VariantOK(e) ==
  /\ e.outcome \in {"ok", "err"}
  /\ e.outcome = "ok" => (V!VariantValid(e.meta, e.value) /\ e.tok = V!Decode(e.meta, e.value))
  /\ e.src = "base" => e.outcome = "ok"

NamesTok(m) == [i \in 1..V!MN(m) |-> V!BytesTok(V!Names(m)[i], 1)]
VMetaOK(e) ==
  /\ e.outcome \in {"ok", "err"}
  /\ e.outcome = "ok" => (V!MetaValid(e.meta) /\ e.names = NamesTok(e.meta))
  /\ e.src = "base" => e.outcome = "ok"

Init == l = 1 /\ bkey = <<"", "", "">> /\ bases = <<>>
Next == /\ l <= Len(Rec)
        /\ l' = l + 1
        /\ IF Rec[l].ev = "session" /\ Rec[l].src = "base"
             THEN bkey' = <<Rec[l].fmt, Rec[l].file, Rec[l].api>> /\ bases' = Rec[l].batches
             ELSE UNCHANGED <<bkey, bases>>
        /\ LET e == Rec[l] IN
           CASE e.ev = "session" ->
                  /\ Judge(EffectOK(e), l, "effect")
                  /\ JudgeKF(OutcomeOK(e), l, "outcome", KF(e))
                  /\ Judge(BatchesOK(e), l, "batch")
             [] e.ev = "variant" -> JudgeKF(VariantOK(e), l, "variant", KFV(e))
             [] e.ev = "vmeta" -> JudgeKF(VMetaOK(e), l, "vmeta", KFV(e))
             [] OTHER -> Judge(FALSE, l, "unknown event kind")
Spec == Init /\ [][Next]_<<l, bkey, bases>>
=============================================================================
