SPECIFICATION MCSpec
CONSTANTS
  NoLimit = NoLimit
  Targets = {1, 2, 3}
  Limits = {NoLimit, 1}
  MaxN = 3
  MaxQueued = 2
CONSTRAINT Queued
VIEW View
INVARIANTS I1_BufferBelowTarget I2_ExactSizes I3_RowsConserved I4_NoEmptyBatch
PROPERTY FifoPop
CHECK_DEADLOCK FALSE
