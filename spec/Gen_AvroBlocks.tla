--------------------------- MODULE Gen_AvroBlocks ---------------------------
(* spec -> impl (C17): the arrow-avro writer always emits arrays and maps as   *)
(* one block with a positive count, so its reader never meets the other forms  *)
(* the Avro specification allows - several blocks, negative counts followed by *)
(* the byte size of the block.  TLC writes, for every value of a list of       *)
(* schemas and every blocking mode, the body bytes (EncB) together with the    *)
(* value they denote; `c17 replay-avro` frames each body as a message, decodes *)
(* it with the real reader and compares the decoded row with the value.        *)
(* The cases are written when TLC evaluates the ASSUME (no behaviour).         *)
EXTENDS AvroEncoding, TLC, Json, IOUtils, SequencesExt, FiniteSets

CONSTANTS MaxItems

SeqsUpTo(S, n) == UNION {[1..k -> S] : k \in 0..n}
W(n) == B!ToWire(B!FromInt(n))

SLong == Prim("long")   SInt == Prim("int")   SStr == Prim("string")   SNull == Prim("null")
Array(s) == Sch("array", 0, <<s>>)
Map(s) == Sch("map", 0, <<s>>)
Record(fs) == Sch("record", 0, fs)
Opt(s) == Sch("union", 0, <<SNull, s>>)

(* the schemas, by the id the driver registers them under (harness/p/c17/src/replay.rs SCHEMAS) *)
Schemas == <<
  Record(<<Array(SLong)>>),                 \* 1 {a: array<long>}
  Record(<<Array(SStr), SLong>>),           \* 2 {a: array<string>, x: long}
  Record(<<Map(SInt)>>),                    \* 3 {m: map<int>}
  Record(<<Array(Array(SLong))>>),          \* 4 {a: array<array<long>>}
  Record(<<Array(Opt(SLong)), SStr>>)       \* 5 {a: array<union{null, long}>, s: string}
>>

Longs == {W(0), W(-1), W(64), <<1, 5808, 5477, 368, 3372, 922>>}
Strs == {<<>>, <<97>>, <<195, 169, 0>>}
RECURSIVE Vals(_), Prod(_, _)
Vals(s) ==
  CASE s.k = "null" -> {VNull}
    [] s.k = "long" -> {VInt(w) : w \in Longs}
    [] s.k = "int" -> {VInt(W(0)), VInt(W(-65))}
    [] s.k = "string" -> {VBytes(b) : b \in Strs}
    [] s.k = "array" -> {VArr(kids) : kids \in SeqsUpTo(IF s.kids[1].k = "array" THEN {VArr(<<>>), VArr(<<VInt(W(64))>>), VArr(<<VInt(W(0)), VInt(W(-1))>>)}
                                                          ELSE Vals(s.kids[1]), MaxItems)}
    [] s.k = "map" -> UNION {{VMap([j \in 1..(2 * n) |-> IF j % 2 = 1 THEN VBytes(ks[(j + 1) \div 2]) ELSE vs[j \div 2]]) :
                                  ks \in [1..n -> {<<>>, <<107>>}], vs \in [1..n -> Vals(s.kids[1])]} : n \in 0..MaxItems}
    [] s.k = "record" -> {VRec(kids) : kids \in Prod(s.kids, 1)}
    [] s.k = "union" -> {VNull} \cup Vals(s.kids[2])
Prod(ss, j) == IF j > Len(ss) THEN {<<>>}
               ELSE {<<h>> \o t : h \in (IF ss[j].k \in {"long", "string"} /\ j > 1 THEN {CHOOSE x \in Vals(ss[j]) : TRUE} ELSE Vals(ss[j])), t \in Prod(ss, j + 1)}

(* blocking modes: "one" one positive block (what Encode writes); "each" one positive block per item;       *)
(* "neg" one block with a negative count and its byte size; "negeach" one such block per item; "split" the   *)
(* first item in a positive block, the rest in a negative one                                                *)
Modes == {"one", "each", "neg", "negeach", "split"}

RECURSIVE EncB(_, _, _), ItemsB(_, _, _, _, _)
(* the encodings of the items kids[lo..hi] (pairs: key, value) one after the other *)
ItemsB(kids, s, mode, lo, hi) ==
  IF lo > hi THEN <<>>
  ELSE EncB(kids[lo], s, mode) \o ItemsB(kids, s, mode, lo + 1, hi)

Block(count, data, neg) ==
  IF neg THEN EncLong(B!FromInt(0 - count)) \o EncNat(Len(data)) \o data ELSE EncNat(count) \o data

EncB(v, s, mode) ==
  CASE s.k \in {"array", "map"} ->
         LET step == IF s.k = "map" THEN 2 ELSE 1
             n == Len(v.kids) \div step
             \* items i..j (1-based item numbers) as bytes
             Data(i, j) == IF s.k = "array" THEN ItemsB(v.kids, s.kids[1], mode, i, j)
                           ELSE LET D[k \in (i - 1)..j] ==
                                      IF k = i - 1 THEN <<>>
                                      ELSE D[k - 1] \o EncB(v.kids[2 * k - 1], SStr, mode) \o EncB(v.kids[2 * k], s.kids[1], mode)
                                IN D[j]
             Each(neg) == LET E[k \in 0..n] == IF k = 0 THEN <<>> ELSE E[k - 1] \o Block(1, Data(k, k), neg) IN E[n]
         IN IF n = 0 THEN <<0>>
            ELSE (CASE mode = "one" -> Block(n, Data(1, n), FALSE)
                    [] mode = "each" -> Each(FALSE)
                    [] mode = "neg" -> Block(n, Data(1, n), TRUE)
                    [] mode = "negeach" -> Each(TRUE)
                    [] OTHER -> Block(1, Data(1, 1), FALSE) \o (IF n > 1 THEN Block(n - 1, Data(2, n), TRUE) ELSE <<>>)) \o <<0>>
    [] s.k = "record" -> LET R[k \in 0..Len(s.kids)] == IF k = 0 THEN <<>> ELSE R[k - 1] \o EncB(v.kids[k], s.kids[k], mode) IN R[Len(s.kids)]
    [] s.k = "union" -> IF v.k = "null" THEN <<0>> ELSE <<2>> \o EncB(v, s.kids[2], mode)
    [] OTHER -> Enc(v, s).b

Case(sid, v, mode) == [sid |-> sid, mode |-> mode, body |-> EncB(v, Schemas[sid], mode), want |-> v]
CaseSet == UNION {{Case(sid, v, mode) : v \in Vals(Schemas[sid]), mode \in Modes} : sid \in 1..Len(Schemas)}
Cases == SetToSeq(CaseSet)

(* the specification itself reads every blocking back to the value, and "one" is what Encode writes *)
ASSUME \A c \in CaseSet : Decode(c.body, Schemas[c.sid]) = [ok |-> TRUE, v |-> c.want]
ASSUME \A c \in CaseSet : c.mode = "one" => Encode(c.want, Schemas[c.sid]) = [ok |-> TRUE, b |-> c.body]
ASSUME PrintT(<<"CASES", Len(Cases)>>) /\ ndJsonSerialize(IOEnv.OUT, Cases)

VARIABLE x
GInit == x = 0
GNext == UNCHANGED x
=============================================================================
