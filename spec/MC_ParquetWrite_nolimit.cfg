SPECIFICATION Spec
CONSTANTS
  Cols = {1, 2}
  MaxRG = 0
  ByteLimit = FALSE
  PageRows = 3
  BatchSz = 2
  SizeSplits = TRUE
  DictCols = {1}
  Fallback = TRUE
  MaxOps = 3
  MaxBatch = 3
INVARIANTS P1_RowsConserved P2_GroupSizes P2_Buffered P2_Documented P3_Chunks P3_OpenPages P4_Dictionary P5_Closed
PROPERTY P5_NoStepAfterClose
CHECK_DEADLOCK FALSE
