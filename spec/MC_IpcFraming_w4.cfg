SPECIFICATION MCSpec
CONSTANTS
  W = 4
  MaxMsgs = 2
  MaxBytes = 11
  Metas = {1}
  Bodies = {0, 1}
  Extras = {0}
INVARIANTS I_Window I_ChunkIndependent I_FramingSemantics
CHECK_DEADLOCK TRUE
