SPECIFICATION KleeneSpec
CONSTANTS
  LimbDigits = 4
  N = 0
INVARIANT Kleene
CHECK_DEADLOCK FALSE
