SPECIFICATION Spec
CONSTANTS
  MaxLaw = 4
  MaxBits = 9
  MaxArg = 3
INVARIANTS Laws B_Refines B_ByteLen B_PadZero
CHECK_DEADLOCK FALSE
