SPECIFICATION Spec
CONSTANTS
  MaxLaw = 4
INVARIANTS Laws
CHECK_DEADLOCK FALSE
