SPECIFICATION MCSpec
CONSTANTS
  G = 2
  S = 2
  F = 1
  MaxBlocks = 1
  MaxRows = 2
  MaxBytes = 11
  BatchSizes = {1, 2}
INVARIANTS I_ChunkIndependent I_BatchBound I_OcfSemantics I_Order
CHECK_DEADLOCK TRUE
