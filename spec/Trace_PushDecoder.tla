-------------------------- MODULE Trace_PushDecoder --------------------------
(***************************************************************************)
(* impl -> spec (C15): recorded runs of the three Parquet front-ends --     *)
(* the real ParquetPushDecoder (try_decode and try_next_reader styles,      *)
(* into_builder rebuilds) under adversarial delivery schedules, the async   *)
(* ParquetRecordBatchStream (stream and next_row_group styles) over an      *)
(* AsyncFileReader that returns Pending at will and serves vectored or per  *)
(* range, and the synchronous reader -- are checked against the protocol    *)
(* properties of PushDecoder.tla and the reference result of                *)
(* ParquetScan.tla:                                                         *)
(*   D1/D7  the rows produced so far are a prefix of Expected(cfg), equal   *)
(*          to it at `finished`, for every front-end and schedule           *)
(*   D2     every requested range lies in the file and inside a column      *)
(*          chunk of a needed column of a chosen row group                  *)
(*   D3     a request never contains a range supplied since the previous    *)
(*          call; when every request was answered in full, there are at     *)
(*          most groups x (predicates + 1) requests                         *)
(*   D4     into_builder succeeds exactly at a row-group boundary           *)
(*   D5     after the end the stream keeps returning None                   *)
(*   D6     batches have 1..batch size rows                                 *)
(* Episode: `new` (configuration as in Trace_ParquetScan, file length,      *)
(* `allowed` = the column chunk ranges requests may fall in), then          *)
(* request / push / clear / batch / rebuild / finished / ... events.        *)
(***************************************************************************)
EXTENDS ParquetScan, TraceBase

VARIABLES l, c, E, n, bs, fresh, lastReq, nreq, exact, done

tvars == <<l, c, E, n, bs, fresh, lastReq, nreq, exact, done>>

BitsOf(d) == IF d.k = "runs" THEN Bits(d.runs) ELSE d.bits
Cfg(ev) == [rgs |-> ev.rgs, hasSel |-> ev.hasSel, sel |-> BitsOf(ev.sel), preds |-> ev.preds,
            offset |-> ev.offset, limit |-> ev.limit, bs |-> ev.bs]

Within(r, s) == s[1] <= r[1] /\ r[2] <= s[2]
Has(b, r) == \E s \in b : Within(r, s)
ToSet(s) == {s[i] : i \in 1..Len(s)}
InFile(r) == 0 <= r[1] /\ r[1] < r[2] /\ r[2] <= c.flen

Init == /\ l = 1 /\ c = [flen |-> 0] /\ E = <<>> /\ n = 0 /\ bs = 1 /\ fresh = {} /\ lastReq = {}
        /\ nreq = 0 /\ exact = TRUE /\ done = TRUE

New(ev) ==
  /\ c' = ev /\ E' = Expected(ev.rgrows, Cfg(ev)) /\ n' = 0 /\ bs' = ev.bs
  /\ fresh' = {} /\ lastReq' = {} /\ nreq' = 0 /\ exact' = TRUE /\ done' = FALSE

Answered == \A r \in lastReq : Has(fresh, r)

Request(ev) ==
  LET R == ToSet(ev.ranges) IN
  /\ Judge(~done /\ c.front # "sync", l, "request outside a run")
  /\ Judge(\A r \in R : InFile(r), l, "requested range outside the file")
  /\ Judge(\A r \in R : Has(ToSet(c.allowed), r), l, "requested range outside the needed column chunks")
  /\ Judge(\A r \in R : ~Has(fresh, r), l, "asks again for a range just supplied")
  /\ Judge(R # {}, l, "empty request")
  /\ lastReq' = R /\ fresh' = {}
  /\ exact' = (exact /\ Answered) /\ nreq' = IF exact /\ Answered THEN nreq + 1 ELSE nreq
  /\ UNCHANGED <<c, E, n, bs, done>>

Push(ev) ==
  /\ Judge(\A r \in ToSet(ev.ranges) : InFile(r), l, "driver pushed outside the file")
  /\ fresh' = fresh \cup ToSet(ev.ranges)
  /\ UNCHANGED <<c, E, n, bs, lastReq, nreq, exact, done>>

Clear == /\ fresh' = {} /\ exact' = FALSE /\ UNCHANGED <<c, E, n, bs, lastReq, nreq, done>>

Batch(ev) ==
  LET m == ev.n IN
  /\ Judge(~done, l, "batch after the end")
  /\ Judge(m >= 1 /\ m <= Min2(bs, NumRows(c.rgrows)), l, <<"batch size", m, bs>>)
  /\ Judge(n + m <= Len(E), l, <<"more rows than expected", n + m, Len(E)>>)
  /\ Judge(/\ Len(ev.toks) = Len(c.ref)
           /\ n + m <= Len(E) =>
                \A col \in 1..Len(c.ref) :
                   /\ Len(ev.toks[col]) = m
                   /\ \A j \in 1..m : ev.toks[col][j] = c.ref[col][E[n + j] + 1],
           l, <<"wrong rows", c.front>>)
  /\ n' = n + m
  (* a batch returned by a decoder call ends the exchange about the last request; *)
  (* a batch drained from a handed-off reader says nothing about the protocol     *)
  /\ IF ev.call THEN exact' = (exact /\ Answered) /\ lastReq' = {} /\ fresh' = {}
     ELSE UNCHANGED <<exact, lastReq, fresh>>
  /\ UNCHANGED <<c, E, bs, nreq, done>>

(* try_next_reader / next_row_group returned a reader                          *)
Reader == /\ Judge(~done, l, "reader after the end")
          /\ exact' = (exact /\ Answered) /\ lastReq' = {} /\ fresh' = {}
          /\ UNCHANGED <<c, E, n, bs, nreq, done>>

Rebuild(ev) == /\ Judge(~done /\ ~ev.err, l, "into_builder refused at a row-group boundary")
               /\ bs' = ev.bs /\ UNCHANGED <<c, E, n, fresh, lastReq, nreq, exact, done>>

(* into_builder away from a boundary must be refused (the decoder is consumed) *)
Refused(ev) == /\ Judge(ev.err = ~ev.boundary, l, "into_builder outcome vs is_at_row_group_boundary")
               /\ done' = TRUE /\ UNCHANGED <<c, E, n, bs, fresh, lastReq, nreq, exact>>

Finished(ev) ==
  /\ Judge(~done, l, "finished twice")
  /\ Judge(n = Len(E), l, <<"rows missing at the end", n, Len(E), c.front>>)
  /\ Judge((exact /\ Answered) => nreq <= Len(c.rgs) * (Len(c.preds) + 1), l, <<"too many requests", nreq>>)
  /\ done' = TRUE /\ UNCHANGED <<c, E, n, bs, fresh, lastReq, nreq, exact>>

AfterEnd(ev) == /\ Judge(done /\ ev.res = "none", l, "stream yields after the end")
                /\ UNCHANGED <<c, E, n, bs, fresh, lastReq, nreq, exact, done>>

Failed(ev) == /\ Judge(FALSE, l, <<"front-end failed", c.front>>)
              /\ done' = TRUE /\ UNCHANGED <<c, E, n, bs, fresh, lastReq, nreq, exact>>

MetaRequest(ev) == /\ Judge(\A r \in ToSet(ev.ranges) : InFile(r), l, "metadata request outside the file")
                   /\ UNCHANGED <<c, E, n, bs, fresh, lastReq, nreq, exact, done>>

Next == /\ l <= Len(Rec)
        /\ l' = l + 1
        /\ LET ev == Rec[l] IN
           CASE ev.op = "new" -> New(ev)
             [] ev.op = "request" -> Request(ev)
             [] ev.op = "push" -> Push(ev)
             [] ev.op = "clear" -> Clear
             [] ev.op = "batch" -> Batch(ev)
             [] ev.op = "reader" -> Reader
             [] ev.op = "rebuild" -> Rebuild(ev)
             [] ev.op = "refused" -> Refused(ev)
             [] ev.op = "finished" -> Finished(ev)
             [] ev.op = "after_end" -> AfterEnd(ev)
             [] ev.op = "meta_request" -> MetaRequest(ev)
             [] OTHER -> Failed(ev)

Spec == Init /\ [][Next]_tvars
=============================================================================
