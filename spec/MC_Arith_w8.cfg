SPECIFICATION W8Spec
CONSTANTS
  LimbDigits = 4
  N = 0
INVARIANT W8Agree
CHECK_DEADLOCK FALSE
