SPECIFICATION Spec
CONSTANTS
  MaxBytes = 2
  MaxItems = 2
  MaxRaw = 5
  Deep = TRUE
  Modes = {"value", "blocks", "bytes", "ocf"}
INVARIANTS T_Encodable T_RoundTrip T_SelfDelimiting T_Typed T_Table T_Blocks T_Bytes T_Ocf
CHECK_DEADLOCK FALSE
