SPECIFICATION Spec
CONSTANTS
  MaxBytes = 3
  MaxItems = 3
  MaxRaw = 5
  Modes = {"value", "blocks", "bytes", "ocf"}
INVARIANTS T_Encodable T_RoundTrip T_SelfDelimiting T_Typed T_Table T_Blocks T_Bytes T_Ocf
CHECK_DEADLOCK FALSE
