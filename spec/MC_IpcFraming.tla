--------------------------- MODULE MC_IpcFraming ---------------------------
(* Exhaustive model of IPC stream decoding: every stream of at most MaxMsgs *)
(* messages (metadata sizes Metas, body sizes Bodies, kinds schema / batch  *)
(* / dictionary in any order, with or without continuation markers, with or *)
(* without EOS, optionally with stray bytes behind the EOS), every prefix of *)
(* it (truncation), of at most MaxBytes bytes, under EVERY chunking (also   *)
(* with empty chunks).                                                      *)
EXTENDS IpcFraming, TLC

CONSTANTS MaxMsgs, MaxBytes, Metas, Bodies, Extras

MsgSet == [meta : Metas, body : Bodies, kind : {"schema", "batch", "dict"}]
Streams == [msgs : UNION {[1..m -> MsgSet] : m \in 0..MaxMsgs}, legacy : BOOLEAN, eos : BOOLEAN,
            extra : Extras, cutoff : {0}]
FullLen(s) == Len(Layout(s))

MCInit ==
  /\ \E s \in Streams : \E c \in 0..FullLen(s) :
        /\ (s.extra > 0 => s.eos /\ c = 0)
        /\ FullLen(s) - c <= MaxBytes
        /\ stream = [s EXCEPT !.cutoff = c]
  /\ inb = Layout(stream)
  /\ \E c \in Chunkings(Len(inb)) : \E e \in BOOLEAN : cuts = IF e THEN WithEmpties(c, Len(inb)) ELSE c
  /\ k = 1 /\ hi = ChunkHi(cuts, Len(inb), 1) /\ off = 0
  /\ d = Pristine /\ phase = "run" /\ outcome = ""

MCSpec == MCInit /\ [][INext]_ivars
=============================================================================
