--------------------------- MODULE Gen_Coalescer ---------------------------
(* spec -> impl: TLC produces behaviours of Coalescer.tla (simulation mode)  *)
(* together with the observations the specification predicts after every     *)
(* step; the harness replays each behaviour on the real BatchCoalescer and   *)
(* compares (vk c03replay).  Row ids are globally unique (`nextId`).         *)
EXTENDS Coalescer, Integers, TLC, Json

CONSTANTS Targets, Limits, MaxN, Depth

VARIABLES nextId, hist, choice     \* choice: kind of the next step (makes simulation uniform over kinds)
gvars == <<vars, nextId, hist, choice>>
Kinds == {"push", "filter", "finish", "pop", "set_limit"}

Ids(k) == [i \in 1..k |-> nextId + i]

RECURSIVE PickPos(_, _, _)
PickPos(s, P, i) == IF i > Len(s) THEN <<>>
                    ELSE (IF i \in P THEN <<s[i]>> ELSE <<>>) \o PickPos(s, P, i + 1)
SetToSeq(P, n) == PickPos([i \in 1..n |-> i], P, 1)

Sizes(comp) == [i \in DOMAIN comp |-> Len(comp[i].rows)]
Step(op, n, flen, sel, lim, out) ==
  hist' = Append(hist, [op |-> op, n |-> n, first |-> nextId + 1, flen |-> flen, sel |-> sel, lim |-> lim, out |-> out,
                        buf |-> Len(buffered'), sizes |-> Sizes(completed')])

GInit == /\ target \in Targets /\ special \in BOOLEAN /\ limit = NoLimit /\ everLimited = FALSE
         /\ buffered = <<>> /\ completed = <<>> /\ pending = <<>> /\ nextId = 0 /\ hist = <<>> /\ choice \in Kinds

GPush == \E n \in 0..MaxN :
  /\ Push(Ids(n)) /\ nextId' = nextId + n /\ Step("push", n, 0, <<>>, 0, <<>>)

GFilter ==
  \/ \E n \in {2, MaxN} : \E flen \in {n - 1, n, n + 1} :
     \E P \in LET m == IF flen < n THEN flen ELSE n IN {S \cap (1..m) : S \in {{}, {1}, {1, 2}, {m}, 1..m, {i \in 1..m : i % 2 = 0}}} :
       /\ PushFiltered(n, flen, PickPos(Ids(n), P, 1)) /\ nextId' = nextId + n
       /\ Step("filter", n, flen, SetToSeq(P, n), 0, <<>>)
  \/ \E sh \in {<<16, 16, {1}>>, <<16, 16, {16}>>, <<33, 32, {3, 20}>>, <<17, 16, {5}>>, <<48, 48, {2, 9, 40}>>} :
       /\ PushFiltered(sh[1], sh[2], PickPos(Ids(sh[1]), sh[3], 1)) /\ nextId' = nextId + sh[1]
       /\ Step("filter", sh[1], sh[2], SetToSeq(sh[3], sh[1]), 0, <<>>)

GFinish == Finish /\ UNCHANGED nextId /\ Step("finish", 0, 0, <<>>, 0, <<>>)

GPop == IF completed # <<>>
        THEN /\ NextCompleted /\ UNCHANGED nextId /\ Step("pop", 1, 0, <<>>, 0, Head(completed).rows)
        ELSE /\ UNCHANGED <<vars, nextId>> /\ Step("pop", 0, 0, <<>>, 0, <<>>)     \* next_completed_batch = None

GSetLimit == \E lm \in Limits : lm # limit /\ SetLimit(lm) /\ UNCHANGED nextId
                /\ Step("set_limit", 0, 0, <<>>, IF lm = NoLimit THEN -1 ELSE lm, <<>>)

GNext == /\ Len(hist) < Depth
         /\ choice' \in Kinds
         /\ CASE choice = "push"   -> GPush
              [] choice = "filter" -> GFilter
              [] choice = "finish" -> GFinish
              [] choice = "pop"    -> GPop
              [] OTHER             -> GSetLimit
GSpec == GInit /\ [][GNext]_gvars

(* one CASE line per completed behaviour                                     *)
Emit == Len(hist) = Depth =>
          PrintT(<<"CASE", ToJson([target |-> target, special |-> special,
                                   steps |-> hist])>>)
=============================================================================
