SPECIFICATION Spec
INVARIANTS StateOk
POSTCONDITION AllConsumed
CHECK_DEADLOCK FALSE
