---------------------------- MODULE RowSelection ----------------------------
(***************************************************************************)
(* Row selections of the Parquet reader (C06).                             *)
(*                                                                         *)
(* A selection is either a run list -- a sequence of runs <<n, s>>,        *)
(* s = 1 for "skip n rows", s = 0 for "select n rows" -- or a bitmask, a   *)
(* sequence over {0, 1}.  Its denotation `Bits` is the 0/1 sequence over   *)
(* the rows it spans; `Positions` the set of selected (1-based) positions. *)
(*                                                                         *)
(* Part 1 defines every operation of the statement on the denotation (the  *)
(* reference: plain operations on positions).  Part 2 transcribes the run  *)
(* list algorithms of parquet/src/arrow/arrow_reader/selection/{mod,       *)
(* selector,algebra,ranges}.rs.  MC_RowSelection checks that part 2        *)
(* denotes part 1 for every small run list; Trace_RowSelection checks the  *)
(* results of the real RowSelection API against part 1.                    *)
(***************************************************************************)
EXTENDS Naturals, Integers, Sequences, FiniteSets

Sel(n) == <<n, 0>>
Skp(n) == <<n, 1>>
Min2(a, b) == IF a < b THEN a ELSE b
Max2(a, b) == IF a < b THEN b ELSE a

Rep(x, n) == [i \in 1..n |-> x]

RECURSIVE Bits(_)
Bits(rs) == IF rs = <<>> THEN <<>> ELSE Rep(1 - Head(rs)[2], Head(rs)[1]) \o Bits(Tail(rs))

RECURSIVE SumN(_)
SumN(rs) == IF rs = <<>> THEN 0 ELSE Head(rs)[1] + SumN(Tail(rs))

RECURSIVE SumSel(_)
SumSel(rs) == IF rs = <<>> THEN 0 ELSE (IF Head(rs)[2] = 0 THEN Head(rs)[1] ELSE 0) + SumSel(Tail(rs))

(* ---------------------------------------------------------------------- *)
(* Part 1: the denotation and the operations on it                         *)
(* ---------------------------------------------------------------------- *)
Positions(bits) == {i \in 1..Len(bits) : bits[i] = 1}
Count(bits) == Cardinality(Positions(bits))
(* number of selected positions among the first i                          *)
Rank(bits, i) == Cardinality({j \in 1..i : bits[j] = 1})
(* position of the k-th selected row (k >= 1, k <= Count)                  *)
NthPos(bits, k) == CHOOSE i \in 1..Len(bits) : bits[i] = 1 /\ Rank(bits, i) = k

(* documented invariants of the run length backing (selection/mod.rs:110)  *)
NormalForm(rs) ==
  /\ \A i \in 1..Len(rs) : rs[i][1] > 0 /\ rs[i][2] \in {0, 1}
  /\ \A i \in 1..(Len(rs) - 1) : rs[i][2] # rs[i + 1][2]

(* FromIterator<RowSelector> (mod.rs:683): drop empty runs, merge adjacent *)
PushRun(rs, n, s) ==
  IF n = 0 THEN rs
  ELSE IF rs # <<>> /\ rs[Len(rs)][2] = s THEN [rs EXCEPT ![Len(rs)] = <<@[1] + n, s>>]
  ELSE Append(rs, <<n, s>>)
RECURSIVE NormAcc(_, _)
NormAcc(rs, acc) == IF rs = <<>> THEN acc ELSE NormAcc(Tail(rs), PushRun(acc, Head(rs)[1], Head(rs)[2]))
Normalise(rs) == NormAcc(rs, <<>>)

(* the unique normal form denoting `bits` (mask_to_selectors, boolean.rs:199) *)
NF(bits) == Normalise([i \in 1..Len(bits) |-> <<1, 1 - bits[i]>>])

(* and_then: `b` addresses the rows selected by `a`                         *)
AndThenBits(a, b) == [i \in 1..Len(a) |-> IF a[i] = 1 THEN b[Rank(a, i)] ELSE 0]

(* intersection / union: pointwise on the common prefix; the tail of the    *)
(* longer operand passes through (algebra.rs:120-125, 269-278 and the doc   *)
(* examples of RowSelection::intersection / union)                          *)
Longer(a, b) == IF Len(a) >= Len(b) THEN a ELSE b
InterBits(a, b) ==
  [i \in 1..Max2(Len(a), Len(b)) |->
     IF i <= Len(a) /\ i <= Len(b) THEN (IF a[i] = 1 /\ b[i] = 1 THEN 1 ELSE 0) ELSE Longer(a, b)[i]]
UnionBits(a, b) ==
  [i \in 1..Max2(Len(a), Len(b)) |->
     IF i <= Len(a) /\ i <= Len(b) THEN (IF a[i] = 1 \/ b[i] = 1 THEN 1 ELSE 0) ELSE Longer(a, b)[i]]

(* split_off(k): the first k rows / the rest                                *)
SplitHeadBits(bits, k) == SubSeq(bits, 1, Min2(k, Len(bits)))
SplitTailBits(bits, k) == SubSeq(bits, Min2(k, Len(bits)) + 1, Len(bits))

(* offset(k): the first k selected rows become unselected; a selection with *)
(* nothing left is the empty selection                                      *)
OffsetBits(bits, k) ==
  IF k = 0 THEN bits
  ELSE IF k >= Count(bits) THEN <<>>
  ELSE [i \in 1..Len(bits) |-> IF bits[i] = 1 /\ Rank(bits, i) <= k THEN 0 ELSE bits[i]]

(* limit(k): only the first k selected rows remain; the selection ends at   *)
(* the k-th selected row when there are that many                           *)
LimitBits(bits, k) ==
  IF k = 0 THEN <<>>
  ELSE IF Count(bits) < k THEN bits
  ELSE SubSeq(bits, 1, NthPos(bits, k))

(* trim: trailing unselected rows are removed                               *)
TrimBits(bits) ==
  IF Positions(bits) = {} THEN <<>>
  ELSE SubSeq(bits, 1, CHOOSE i \in Positions(bits) : \A j \in Positions(bits) : j <= i)

RECURSIVE ConcatAll(_)
ConcatAll(ss) == IF ss = <<>> THEN <<>> ELSE Head(ss) \o ConcatAll(Tail(ss))

(* from_consecutive_ranges: ranges are <<start, end>> (0-based, end         *)
(* exclusive), ordered and disjoint, within total                           *)
RangesValid(ranges, total) ==
  /\ \A i \in 1..Len(ranges) : ranges[i][1] <= ranges[i][2] /\ ranges[i][2] <= total
  /\ \A i \in 1..(Len(ranges) - 1) : ranges[i][2] <= ranges[i + 1][1]
RangesBits(ranges, total) ==
  [p \in 1..total |-> IF \E i \in 1..Len(ranges) : ranges[i][1] < p /\ p <= ranges[i][2] THEN 1 ELSE 0]

(* scan_ranges: the pages holding at least one selected row.  `firsts` is   *)
(* the first row index (0-based) of every page; the last page is open ended *)
PageOf(firsts, p0) ==  \* page (1-based) of the 0-based row p0
  CHOOSE g \in 1..Len(firsts) : firsts[g] <= p0 /\ (g = Len(firsts) \/ p0 < firsts[g + 1])
ScanPagesBits(bits, firsts) ==
  IF firsts = <<>> THEN {} ELSE {PageOf(firsts, p - 1) : p \in {q \in Positions(bits) : q - 1 >= firsts[1]}}

(* expand_to_batch_boundaries: every selected run grows to the batch        *)
(* boundaries around it, capped at total                                    *)
ExpandBits(bits, bs, total) ==
  IF bs = 0 THEN bits
  ELSE [p \in 1..total |->
          IF \E q \in Positions(bits) : (q - 1) \div bs = (p - 1) \div bs THEN 1 ELSE 0]

(* ---------------------------------------------------------------------- *)
(* Part 2: the run list algorithms, transcribed                            *)
(* ---------------------------------------------------------------------- *)
Fail == [err |-> TRUE, runs |-> <<>>]
Done(rs) == [err |-> FALSE, runs |-> rs]
Cons(x, s) == <<x>> \o s

(* algebra.rs:56 and_then_iter                                              *)
RECURSIVE AndThenLoop(_, _, _, _)
AndThenLoop(f, s, skip, acc) ==
  IF s = <<>> THEN
     IF \E i \in 1..Len(f) : f[i][1] # 0 /\ f[i][2] = 0 THEN Fail   \* fewer rows than selected
     ELSE LET sk == skip + SumN(f) IN Done(IF sk # 0 THEN Append(acc, Skp(sk)) ELSE acc)
  ELSE IF f = <<>> THEN Fail                                         \* more rows than selected
  ELSE LET a == Head(f)
           b == Head(s) IN
       IF b[1] = 0 THEN AndThenLoop(f, Tail(s), skip, acc)
       ELSE IF a[1] = 0 THEN AndThenLoop(Tail(f), s, skip, acc)
       ELSE IF a[2] = 1 THEN AndThenLoop(Tail(f), s, skip + a[1], acc)
       ELSE LET p == Min2(a[1], b[1])
                f2 == Cons(<<a[1] - p, 0>>, Tail(f))
                s2 == Cons(<<b[1] - p, b[2]>>, Tail(s)) IN
            IF b[2] = 1 THEN AndThenLoop(f2, s2, skip + p, acc)
            ELSE AndThenLoop(f2, s2, 0, Append(IF skip # 0 THEN Append(acc, Skp(skip)) ELSE acc, Sel(p)))
AndThenRuns(a, b) == AndThenLoop(a, b, 0, <<>>)

(* algebra.rs:126 intersect_row_selections (the generator; collect()        *)
(* normalises)                                                              *)
RECURSIVE InterLoop(_, _, _)
InterLoop(l, r, acc) ==
  IF l # <<>> /\ Head(l)[1] = 0 THEN InterLoop(Tail(l), r, acc)
  ELSE IF r # <<>> /\ Head(r)[1] = 0 THEN InterLoop(l, Tail(r), acc)
  ELSE IF l # <<>> /\ r # <<>> THEN
     LET a == Head(l)
         b == Head(r) IN
     IF a[2] = 0 /\ b[2] = 0 THEN
        IF a[1] < b[1] THEN InterLoop(Tail(l), Cons(<<b[1] - a[1], b[2]>>, Tail(r)), Append(acc, a))
        ELSE InterLoop(Cons(<<a[1] - b[1], a[2]>>, Tail(l)), Tail(r), Append(acc, b))
     ELSE
        IF a[1] < b[1] THEN InterLoop(Tail(l), Cons(<<b[1] - a[1], b[2]>>, Tail(r)), Append(acc, Skp(a[1])))
        ELSE InterLoop(Cons(<<a[1] - b[1], a[2]>>, Tail(l)), Tail(r), Append(acc, Skp(b[1])))
  ELSE IF l # <<>> THEN InterLoop(Tail(l), r, Append(acc, Head(l)))
  ELSE IF r # <<>> THEN InterLoop(l, Tail(r), Append(acc, Head(r)))
  ELSE acc
IntersectRuns(l, r) == Normalise(InterLoop(l, r, <<>>))

(* algebra.rs:191 union_row_selections                                      *)
RECURSIVE UnionLoop(_, _, _)
UnionLoop(l, r, acc) ==
  IF l # <<>> /\ Head(l)[1] = 0 THEN UnionLoop(Tail(l), r, acc)
  ELSE IF r # <<>> /\ Head(r)[1] = 0 THEN UnionLoop(l, Tail(r), acc)
  ELSE IF l # <<>> /\ r # <<>> THEN
     LET a == Head(l)
         b == Head(r)
         lessL == a[1] < b[1]
         restR == Cons(<<b[1] - a[1], b[2]>>, Tail(r))    \* r.row_count -= l.row_count
         restL == Cons(<<a[1] - b[1], a[2]>>, Tail(l)) IN \* l.row_count -= r.row_count
     IF a[2] = 1 /\ b[2] = 1 THEN
        IF lessL THEN UnionLoop(Tail(l), restR, Append(acc, Skp(a[1])))
        ELSE UnionLoop(restL, Tail(r), Append(acc, Skp(b[1])))
     ELSE IF a[2] = 0 /\ b[2] = 1 THEN
        IF lessL THEN UnionLoop(Tail(l), restR, Append(acc, a))
        ELSE UnionLoop(restL, Tail(r), Append(acc, Sel(b[1])))
     ELSE IF a[2] = 1 /\ b[2] = 0 THEN
        IF lessL THEN UnionLoop(Tail(l), restR, Append(acc, Sel(a[1])))
        ELSE UnionLoop(restL, Tail(r), Append(acc, b))
     ELSE
        IF lessL THEN UnionLoop(Tail(l), restR, Append(acc, a))
        ELSE UnionLoop(restL, Tail(r), Append(acc, b))
  ELSE IF l # <<>> THEN UnionLoop(Tail(l), r, Append(acc, Head(l)))
  ELSE IF r # <<>> THEN UnionLoop(l, Tail(r), Append(acc, Head(r)))
  ELSE acc
UnionRuns(l, r) == Normalise(UnionLoop(l, r, <<>>))

(* selector.rs:59 split_off_selectors: <<head, tail>>                        *)
RECURSIVE CumIdx(_, _, _, _)   \* first index whose running total exceeds k (0 if none) and that total
CumIdx(rs, i, tot, k) ==
  IF i > Len(rs) THEN <<0, tot>>
  ELSE IF tot + rs[i][1] > k THEN <<i, tot + rs[i][1]>>
  ELSE CumIdx(rs, i + 1, tot + rs[i][1], k)
SplitOffRuns(rs, k) ==
  LET f == CumIdx(rs, 1, 0, k) IN
  IF f[1] = 0 THEN <<rs, <<>>>>
  ELSE LET idx == f[1]
           overflow == f[2] - k
           nxt == rs[idx]
           head0 == SubSeq(rs, 1, idx - 1)
           head == IF nxt[1] # overflow THEN Append(head0, <<nxt[1] - overflow, nxt[2]>>) ELSE head0
           tail == Cons(<<overflow, nxt[2]>>, SubSeq(rs, idx + 1, Len(rs))) IN
       <<head, tail>>

(* selector.rs:95 offset_selectors (RowSelection::offset returns self for 0) *)
RECURSIVE OffIdx(_, _, _, _, _)  \* <<index, selected so far, skipped so far>>
OffIdx(rs, i, selc, skc, k) ==
  IF i > Len(rs) THEN <<0, selc, skc>>
  ELSE IF rs[i][2] = 1 THEN OffIdx(rs, i + 1, selc, skc + rs[i][1], k)
  ELSE IF selc + rs[i][1] > k THEN <<i, selc + rs[i][1], skc>>
  ELSE OffIdx(rs, i + 1, selc + rs[i][1], skc, k)
OffsetRuns(rs, k) ==
  IF k = 0 THEN rs
  ELSE LET f == OffIdx(rs, 1, 0, 0, k) IN
       IF f[1] = 0 THEN <<>>
       ELSE <<Skp(f[3] + k), Sel(f[2] - k)>> \o SubSeq(rs, f[1] + 1, Len(rs))

(* selector.rs:125 limit_selectors                                          *)
RECURSIVE LimLoop(_, _, _)
LimLoop(rs, i, lim) ==
  IF i > Len(rs) THEN rs
  ELSE IF rs[i][2] = 0 THEN
     IF rs[i][1] >= lim THEN Append(SubSeq(rs, 1, i - 1), Sel(lim))
     ELSE LimLoop(rs, i + 1, lim - rs[i][1])
  ELSE LimLoop(rs, i + 1, lim)
LimitRuns(rs, k) == IF k = 0 THEN <<>> ELSE LimLoop(rs, 1, k)

(* mod.rs:553 trim                                                          *)
RECURSIVE TrimRuns(_)
TrimRuns(rs) == IF rs # <<>> /\ rs[Len(rs)][2] = 1 THEN TrimRuns(SubSeq(rs, 1, Len(rs) - 1)) ELSE rs

(* mod.rs:326 from_consecutive_ranges                                       *)
RECURSIVE FCRLoop(_, _, _, _)
FCRLoop(ranges, i, lastEnd, acc) ==
  IF i > Len(ranges) THEN <<acc, lastEnd>>
  ELSE LET st == ranges[i][1]
           en == ranges[i][2]
           n == en - st IN
       IF n = 0 THEN FCRLoop(ranges, i + 1, lastEnd, acc)
       ELSE IF st = lastEnd THEN
            FCRLoop(ranges, i + 1, en,
                    IF acc = <<>> THEN <<Sel(n)>> ELSE [acc EXCEPT ![Len(acc)] = <<@[1] + n, @[2]>>])
       ELSE FCRLoop(ranges, i + 1, en, acc \o <<Skp(st - lastEnd), Sel(n)>>)
FromConsecutiveRanges(ranges, total) ==
  LET f == FCRLoop(ranges, 1, 0, <<>>) IN
  IF f[2] # total THEN Append(f[1], Skp(total - f[2])) ELSE f[1]

(* maximal runs of ones of a bit sequence as <<start, end>> ranges           *)
(* (SlicesIterator / set_slices)                                             *)
SetSlices(bits) ==
  LET starts == {i \in Positions(bits) : i = 1 \/ bits[i - 1] = 0}
      EndOf(s) == CHOOSE e \in s..Len(bits) :
                     /\ \A j \in s..e : bits[j] = 1
                     /\ (e = Len(bits) \/ bits[e + 1] = 0)
      RECURSIVE Ord(_)
      Ord(S) == IF S = {} THEN <<>>
                ELSE LET m == CHOOSE x \in S : \A y \in S : x <= y IN Cons(<<m - 1, EndOf(m)>>, Ord(S \ {m}))
  IN Ord(starts)
(* mod.rs:311 from_filters                                                   *)
FromFilters(filters) == LET all == ConcatAll(filters) IN FromConsecutiveRanges(SetSlices(all), Len(all))

(* ranges.rs:33 scan_ranges_from_selectors: sequence of page indices         *)
RECURSIVE ScanLoop(_, _, _, _, _, _)
ScanLoop(rs, firsts, pg, rowOff, incl, acc) ==
  IF rs = <<>> \/ pg > Len(firsts) THEN acc
  ELSE LET s == Head(rs)
           take == ~(s[2] = 1 \/ incl)
           acc1 == IF take THEN Append(acc, pg) ELSE acc
           incl1 == incl \/ take IN
       IF pg < Len(firsts) THEN
          LET nf == firsts[pg + 1] IN
          IF rowOff + s[1] > nf THEN
             ScanLoop(Cons(<<s[1] - (nf - rowOff), s[2]>>, Tail(rs)), firsts, pg + 1, nf, FALSE, acc1)
          ELSE IF rowOff + s[1] = nf THEN ScanLoop(Tail(rs), firsts, pg + 1, rowOff + s[1], FALSE, acc1)
          ELSE ScanLoop(Tail(rs), firsts, pg, rowOff + s[1], incl1, acc1)
       ELSE ScanLoop(Tail(rs), firsts, pg, rowOff, incl1, acc1)
ScanPagesRuns(rs, firsts) == ScanLoop(rs, firsts, 1, 0, FALSE, <<>>)

(* ranges.rs:89 expand_to_batch_boundaries_from_selectors                    *)
RECURSIVE ExpRanges(_, _, _, _, _)
ExpRanges(rs, off, bs, total, acc) ==
  IF rs = <<>> THEN acc
  ELSE LET s == Head(rs) IN
       IF s[2] = 0 THEN
          LET st == (off \div bs) * bs
              en == Min2(((off + s[1] + bs - 1) \div bs) * bs, total) IN
          ExpRanges(Tail(rs), off + s[1], bs, total, Append(acc, <<st, en>>))
       ELSE ExpRanges(Tail(rs), off + s[1], bs, total, acc)
RECURSIVE MergeRanges(_, _)
MergeRanges(rg, acc) ==
  IF rg = <<>> THEN acc
  ELSE IF acc # <<>> /\ Head(rg)[1] <= acc[Len(acc)][2]
       THEN MergeRanges(Tail(rg), [acc EXCEPT ![Len(acc)] = <<@[1], Max2(@[2], Head(rg)[2])>>])
       ELSE MergeRanges(Tail(rg), Append(acc, Head(rg)))
ExpandRuns(rs, bs, total) ==
  IF bs = 0 THEN rs
  ELSE FromConsecutiveRanges(MergeRanges(ExpRanges(rs, 0, bs, total, <<>>), <<>>), total)

(* mod.rs:244 auto_selection_strategy on a run list: "Mask" / "Selectors"    *)
AutoStrategy(rs, threshold) ==
  LET nz == {i \in 1..Len(rs) : rs[i][1] > 0} IN
  IF Cardinality(nz) = 0 THEN "Mask"
  ELSE IF SumN(rs) < Cardinality(nz) * threshold THEN "Mask" ELSE "Selectors"
=============================================================================
