SPECIFICATION Spec
CONSTANTS
  ManyLimit = 100000
  Stride = 1
INVARIANTS Emit
CHECK_DEADLOCK FALSE
