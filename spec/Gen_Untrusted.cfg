SPECIFICATION Spec
CONSTANTS
  ManyLimit = 30
  Stride = 2
INVARIANTS Emit
CHECK_DEADLOCK FALSE
