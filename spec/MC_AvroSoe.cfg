SPECIFICATION MCSpec
CONSTANTS
  G = 1
  S = 1
  F = 2
  MaxRecs = 3
  MaxBytes = 10
  BatchSizes = {1, 2}
  Faithful = FALSE
  Widths = {1, 2}
  Lens = {0, 2}
  Empties = {FALSE, TRUE}
INVARIANTS I_ChunkIndependent I_BatchBound I_SoeSemantics
CHECK_DEADLOCK TRUE
