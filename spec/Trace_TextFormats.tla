-------------------------- MODULE Trace_TextFormats --------------------------
(***************************************************************************)
(* impl -> spec (C17): every recorded execution of the CSV / JSON / Avro   *)
(* writers and readers must be explained by the grammars CsvGrammar.tla,   *)
(* JsonGrammar.tla and AvroEncoding.tla.  TLC evaluates the grammar on the *)
(* logged text / bytes itself; the Rust driver only projects.              *)
(*                                                                         *)
(* Events (harness/p/c17):                                                 *)
(*  csv_split  text, f = [delim, quote, esc, term], header, ncols, nullre, *)
(*             outcome, cells (row-major fields of the Utf8 columns the    *)
(*             reader returned), nul (0/1), nrows                          *)
(*  csv_rt     w = writer format, header, null, cells = the field strings  *)
(*             the writer was given (header row first), cellnull, text,    *)
(*             rows_in / rows_out (row tokens), schema_in / schema_out,    *)
(*             outcome, utf8 = the text read back as Utf8 columns          *)
(*  json_text  text, schema = [k, names, kids], outcome, rows = the values *)
(*             the reader decoded as trees [k, s, kids]; src = "writer":   *)
(*             want = the rows the writer was given                        *)
(*  json_rt    framing, explicit_nulls, smode, text, rows_in / rows_out    *)
(*  avro       framing, codec, rows_in / rows_out; has_bytes: schema (type *)
(*             tree of the declared writer schema), vals (the rows the     *)
(*             writer was given as Avro values), file / msgs (bytes)       *)
(***************************************************************************)
EXTENDS TraceBase, Integers

C == INSTANCE CsvGrammar
J == INSTANCE JsonGrammar WITH DefectivePairs <- FALSE
JD == INSTANCE JsonGrammar WITH DefectivePairs <- TRUE      \* only inside KF (identification of a known finding)
A == INSTANCE AvroEncoding
BN == INSTANCE BigNum WITH LimbDigits <- 4

VARIABLE l

Has(ev, fld) == fld \in DOMAIN ev

Reshape(flat, n) == [r \in 1..(Len(flat) \div n) |-> [c \in 1..n |-> flat[(r - 1) * n + c]]]

(* ===================================================================== CSV *)
(* the reader, given a schema of ncols Utf8 columns, must return the fields  *)
(* CsvGrammar!Split finds; records of another width are an error             *)
CsvSplitOk(ev) ==
  LET s == C!Split(ev.text, ev.f) IN
  IF ~s.ok THEN ev.outcome # "panic"                       \* outside the grammar: not judged
  ELSE LET rows == IF ev.header /\ s.recs # <<>> THEN Tail(s.recs) ELSE s.recs IN
       IF \A r \in 1..Len(s.recs) : Len(s.recs[r]) = ev.ncols
       THEN /\ ev.outcome = "ok"
            /\ ev.nrows = Len(rows)
            /\ Len(ev.cells) = Len(rows) * ev.ncols /\ Len(ev.nul) = Len(ev.cells)
            /\ \A r \in 1..Len(rows) : \A c \in 1..ev.ncols :
                 LET k == (r - 1) * ev.ncols + c IN
                 /\ ev.cells[k] = rows[r][c]
                 /\ ev.nul[k] = IF ev.nullre = "empty" /\ rows[r][c] = <<>> THEN 1 ELSE 0
       ELSE ev.outcome = "err"

(* writer round trip *)
CsvUnambiguous(ev, recs) ==
  /\ C!WFormatOk(ev.w)
  /\ C!Unambiguous(recs, ev.w)
  \* the null sentinel differs from every value
  /\ \A k \in 1..Len(ev.cells) : (ev.cellnull[k] = 0 /\ (~ev.header \/ k > ev.ncols)) => ev.cells[k] # ev.null
  \* a record of one empty field is written as "" whatever the quote style: unreadable without quotes only if
  \* the quote character is not recognised - it always is

CsvRtWhat(ev) ==
  IF ev.wout # "ok" THEN "csv writer " \o ev.wout
  ELSE LET recs == Reshape(ev.cells, ev.ncols)
           s == C!Split(ev.text, C!ReaderOf(ev.w))
           un == CsvUnambiguous(ev, recs)
       IN IF ev.w.style \in {"necessary", "always", "never"} /\ C!WFormatOk(ev.w) /\ ev.text # C!Join(recs, ev.w)
          THEN "csv text # Join"
          ELSE IF un /\ s # [ok |-> TRUE, recs |-> recs] THEN "csv Split(text)"
          ELSE IF un /\ ~(ev.utf8_out = "ok" /\ Len(ev.utf8) = Len(ev.cells) /\ Reshape(ev.utf8, ev.ncols) = recs) THEN "csv utf8 read"
          ELSE IF un /\ ~ev.lossy /\ ~ev.reader_unsupported
                  /\ ~(ev.outcome = "ok" /\ ev.rows_out = ev.rows_in /\ ev.schema_out = ev.schema_in) THEN "csv round trip"
          ELSE ""

(* ==================================================================== JSON *)
NullNode == [k |-> "null", s |-> <<>>, kids |-> <<>>]

IsDigits(s) == s # <<>> /\ \A i \in 1..Len(s) : s[i] >= 48 /\ s[i] <= 57
Unsigned(s) == IF s # <<>> /\ s[1] = 45 THEN Tail(s) ELSE s
IsIntLexeme(s) == IsDigits(Unsigned(s))
(* digit strings without leading zeros compare by length, then lexicographically *)
RECURSIVE DigitsLe(_, _, _)
DigitsLe(a, b, i) == IF i > Len(a) THEN TRUE ELSE IF a[i] < b[i] THEN TRUE ELSE IF a[i] > b[i] THEN FALSE ELSE DigitsLe(a, b, i + 1)
MaxI64Digits == <<57, 50, 50, 51, 51, 55, 50, 48, 51, 54, 56, 53, 52, 55, 55, 53, 56, 48, 55>>       \* 9223372036854775807
MinI64Digits == <<57, 50, 50, 51, 51, 55, 50, 48, 51, 54, 56, 53, 52, 55, 55, 53, 56, 48, 56>>       \* 9223372036854775808
InI64(s) == LET u == Unsigned(s)  lim == IF s[1] = 45 THEN MinI64Digits ELSE MaxI64Digits IN
            Len(u) < 19 \/ (Len(u) = 19 /\ DigitsLe(u, lim, 1))
CanonInt(s) == IF s = <<45, 48>> THEN <<48>> ELSE s

(* the value of a number lexeme when it is an integer below 10^15 that the lexeme spells without  *)
(* rounding: [-] int [. 0*] [ (e|E) [+] digits ]; result <<>>: not decided (floats: shape only)     *)
PosOf(s, set) == IF \E i \in 1..Len(s) : s[i] \in set THEN CHOOSE i \in 1..Len(s) : s[i] \in set /\ \A j \in 1..(i - 1) : s[j] \notin set ELSE 0
RECURSIVE ToNat(_)
ToNat(d) == IF d = <<>> THEN 0 ELSE ToNat(SubSeq(d, 1, Len(d) - 1)) * 10 + (d[Len(d)] - 48)
FloatInt(s) ==
  LET neg == s[1] = 45
      u == Unsigned(s)
      e == PosOf(u, {101, 69})
      mant == IF e = 0 THEN u ELSE SubSeq(u, 1, e - 1)
      exps == IF e = 0 THEN <<>> ELSE (IF u[e + 1] = 43 THEN SubSeq(u, e + 2, Len(u)) ELSE SubSeq(u, e + 1, Len(u)))
      dot == PosOf(mant, {46})
      ip == IF dot = 0 THEN mant ELSE SubSeq(mant, 1, dot - 1)
      fp == IF dot = 0 THEN <<>> ELSE SubSeq(mant, dot + 1, Len(mant))
  IN IF ~IsDigits(ip) \/ (\E i \in 1..Len(fp) : fp[i] # 48) \/ (exps # <<>> /\ ~IsDigits(exps)) \/ Len(exps) > 2 THEN <<>>
     ELSE LET x == IF exps = <<>> THEN 0 ELSE ToNat(exps)
              digits == IF ip = <<48>> THEN <<48>> ELSE ip \o [i \in 1..x |-> 48]
          IN IF Len(digits) > 15 THEN <<>> ELSE <<105>> \o (IF neg THEN <<45>> ELSE <<>>) \o digits       \* "i" [-] digits

(* ---- the value of a number lexeme in an integer column (Int8 .. Int64, UInt8 .. UInt64; t.w bits, t.u = 1    *)
(* unsigned).  The lexeme [-] int [. frac] [(e|E) [+-] digits] denotes the rational  D * 10^scale  with D the   *)
(* digits of int and frac and scale = exponent - Len(frac), computed exactly on limbs.  Required: a lexeme that   *)
(* denotes an integer in the range of the type decodes to exactly that integer.  Pinned from the code (arrow-json *)
(* reader/primitive_array.rs: a lexeme the integer parser does not take is read as f64 and cast): an integer      *)
(* outside the range is an error; a non-integral value is truncated towards zero, then range checked (judged for  *)
(* lexemes of at most 15 significant digits, where the f64 is certainly on the same side of every integer;        *)
(* longer non-integral lexemes are not judged).  `viaF64` = TRUE additionally rounds the integer value to 53      *)
(* significant bits first (round half to even), as the f64 detour does: used only to identify the known finding   *)
(* C17-json-int-via-f64-inexact, never as the oracle.                                                             *)
RECURSIVE DecToMag(_, _, _)
DecToMag(d, i, acc) == IF i > Len(d) THEN acc
                       ELSE DecToMag(d, i + 1, BN!MagAdd(BN!MagMulSmall(acc, 10), BN!MagFromNatGen(d[i] - 48)))
RECURSIVE StripZeros(_)
StripZeros(d) == IF d # <<>> /\ d[1] = 48 THEN StripZeros(Tail(d)) ELSE d

P53 == BN!MagPow2(53)
F64RoundMag(m) ==
  IF BN!MagCmp(m, P53) <= 0 \/ BN!MagCmp(m, BN!MagPow2(65)) >= 0 THEN m
  ELSE LET k == CHOOSE k \in 1..12 : BN!MagCmp(BN!MagDivSmall(m, 2 ^ k).q, P53) < 0
                                      /\ \A j \in 1..(k - 1) : BN!MagCmp(BN!MagDivSmall(m, 2 ^ j).q, P53) >= 0
           dv == BN!MagDivSmall(m, 2 ^ k)
           half == 2 ^ (k - 1)
           up == dv.r > half \/ (dv.r = half /\ dv.q[1] % 2 = 1)
       IN BN!MagMulSmall(IF up THEN BN!MagAdd(dv.q, <<1>>) ELSE dv.q, 2 ^ k)

InIntRange(neg, m, w, u) ==
  IF u = 1 THEN (~neg \/ m = <<>>) /\ BN!MagCmp(m, BN!MagPow2(w)) < 0
  ELSE IF neg THEN BN!MagCmp(m, BN!MagPow2(w - 1)) <= 0 ELSE BN!MagCmp(m, BN!MagPow2(w - 1)) < 0

IVal(neg, m) == [kind |-> "val", neg |-> neg /\ m # <<>>, m |-> m]
IErr == [kind |-> "err", neg |-> FALSE, m |-> <<>>]
IUnd == [kind |-> "und", neg |-> FALSE, m |-> <<>>]

(* what reading the number lexeme s into an integer column of w bits must give: a value, an error, or not judged *)
IntOutcome(s, w, u, viaF64) ==
  LET neg == s[1] = 45
      us == Unsigned(s)
      e == PosOf(us, {101, 69})
      mant == IF e = 0 THEN us ELSE SubSeq(us, 1, e - 1)
      ex == IF e = 0 THEN <<>> ELSE SubSeq(us, e + 1, Len(us))
      eneg == ex # <<>> /\ ex[1] = 45
      exd == IF ex # <<>> /\ ex[1] \in {43, 45} THEN Tail(ex) ELSE ex
      dot == PosOf(mant, {46})
      ip == IF dot = 0 THEN mant ELSE SubSeq(mant, 1, dot - 1)
      fp == IF dot = 0 THEN <<>> ELSE SubSeq(mant, dot + 1, Len(mant))
      pure == e = 0 /\ dot = 0
      D == DecToMag(ip \o fp, 1, <<>>)
      sig == Len(StripZeros(ip \o fp))
      Check(m) == IF InIntRange(neg, m, w, u) THEN IVal(neg, m) ELSE IErr
      Cast(m) == IF viaF64 /\ ~(pure /\ InIntRange(neg, m, w, u)) THEN Check(F64RoundMag(m)) ELSE Check(m)
  IN IF Len(exd) > 3 \/ Len(ip \o fp) > 40 THEN IUnd
     ELSE IF D = <<>> THEN IVal(FALSE, <<>>)
     ELSE LET scale == (IF eneg THEN 0 - ToNat(exd) ELSE ToNat(exd)) - Len(fp) IN
          IF scale >= 0 THEN (IF scale > 25 THEN IErr ELSE Cast(BN!MagMulPow10(D, scale)))
          ELSE LET k == 0 - scale
                   t == BN!MagDivPow10(D, k) IN
               IF BN!MagMulPow10(t, k) = D THEN Cast(t)                       \* an integer
               ELSE IF sig <= 15 THEN Check(t)                                \* truncated towards zero
               ELSE IUnd

(* the decoded integer (decimal string) as sign and magnitude *)
LoggedInt(n) == LET neg == n.s # <<>> /\ n.s[1] = 45 IN [neg |-> neg, m |-> DecToMag(Unsigned(n.s), 1, <<>>)]

KeyIndex(keys, name) == IF \E i \in 1..Len(keys) : keys[i] = name THEN CHOOSE i \in 1..Len(keys) : keys[i] = name ELSE 0
UniqueKeys(keys) == \A i, j \in 1..Len(keys) : keys[i] = keys[j] => i = j

(* the document v is a value of the schema type t (what "within the supported schema" means) *)
RECURSIVE Conforms(_, _, _)
Conforms(v, t, smode) ==
  IF v.k = "null" THEN TRUE
  ELSE CASE t.k = "int" -> v.k = "num"
         [] t.k = "float" -> v.k = "num"
         [] t.k = "str" -> v.k = "str"
         [] t.k = "bool" -> v.k \in {"true", "false"}
         [] t.k = "list" -> v.k = "arr" /\ \A i \in 1..Len(v.kids) : Conforms(v.kids[i], t.kids[1], smode)
         [] t.k = "struct" ->
              IF smode = "list" THEN v.k = "arr" /\ Len(v.kids) = Len(t.kids) /\ \A i \in 1..Len(v.kids) : Conforms(v.kids[i], t.kids[i], smode)
              ELSE v.k = "obj" /\ UniqueKeys(v.keys)
                   /\ \A i \in 1..Len(v.keys) : LET j == KeyIndex(t.names, v.keys[i]) IN j # 0 => Conforms(v.kids[i], t.kids[j], smode)
         [] OTHER -> FALSE

(* the decoded tree n is the value the document v denotes under type t *)
RECURSIVE Agrees(_, _, _, _, _)
Agrees(n, v, t, smode, f64) ==
  IF v.k = "null" THEN n = NullNode
  ELSE CASE t.k = "int" -> LET o == IntOutcome(v.s, t.w, t.u, f64) IN
                           n.k = "num" /\ n.kids = <<>> /\ o.kind = "val" /\ LoggedInt(n) = [neg |-> o.neg, m |-> o.m]
         [] t.k = "float" -> n.k = "flt" /\ n.kids = <<>> /\ (FloatInt(v.s) # <<>> => n.s = FloatInt(v.s))
         [] t.k = "str" -> n = [k |-> "str", s |-> v.s, kids |-> <<>>]
         [] t.k = "bool" -> n = [k |-> v.k, s |-> <<>>, kids |-> <<>>]
         [] t.k = "list" -> n.k = "arr" /\ n.s = <<>> /\ Len(n.kids) = Len(v.kids)
                            /\ \A i \in 1..Len(v.kids) : Agrees(n.kids[i], v.kids[i], t.kids[1], smode, f64)
         [] t.k = "struct" ->
              /\ n.k = "obj" /\ n.s = <<>> /\ Len(n.kids) = Len(t.kids)
              /\ \A j \in 1..Len(t.kids) :
                   IF smode = "list" THEN Agrees(n.kids[j], v.kids[j], t.kids[j], smode, f64)
                   ELSE LET i == KeyIndex(v.keys, t.names[j]) IN
                        IF i = 0 THEN n.kids[j] = NullNode ELSE Agrees(n.kids[j], v.kids[i], t.kids[j], smode, f64)
         [] OTHER -> FALSE

(* some integer leaf of the (conforming) document v has an outcome of the given kind *)
RECURSIVE AnyInt(_, _, _, _, _)
AnyInt(v, t, smode, kind, f64) ==
  IF v.k = "null" THEN FALSE
  ELSE CASE t.k = "int" -> IntOutcome(v.s, t.w, t.u, f64).kind = kind
         [] t.k = "list" -> \E i \in 1..Len(v.kids) : AnyInt(v.kids[i], t.kids[1], smode, kind, f64)
         [] t.k = "struct" ->
              IF smode = "list" THEN \E i \in 1..Len(v.kids) : AnyInt(v.kids[i], t.kids[i], smode, kind, f64)
              ELSE \E i \in 1..Len(v.keys) : LET j == KeyIndex(t.names, v.keys[i]) IN j # 0 /\ AnyInt(v.kids[i], t.kids[j], smode, kind, f64)
         [] OTHER -> FALSE

JsonDocs(ev) ==      \* [ok, vs]: the documents of the text
  IF ev.flatten THEN LET p == J!Parse(ev.text) IN
                     IF p.ok /\ p.v.k = "arr" THEN [ok |-> TRUE, vs |-> p.v.kids] ELSE [ok |-> FALSE, vs |-> <<>>]
  ELSE J!ParseStream(ev.text)

JsonTextWhatM(ev, f64) ==
  IF ev.outcome = "panic" THEN "json reader panic"
  ELSE LET d == JsonDocs(ev)
           top(v) == IF ev.top_struct THEN v.k = (IF ev.smode = "list" THEN "arr" ELSE "obj") ELSE TRUE
           AnyK(kind) == \E i \in 1..Len(d.vs) : AnyInt(d.vs[i], ev.schema, ev.smode, kind, f64)
       IN IF ~d.ok THEN (IF ev.src = "writer" THEN "json writer text not RFC 8259" ELSE "")      \* not a document: not judged
          ELSE IF ~(\A i \in 1..Len(d.vs) : top(d.vs[i]) /\ Conforms(d.vs[i], ev.schema, ev.smode))
               THEN (IF ev.src = "writer" THEN "json writer text # schema" ELSE "")              \* outside the schema: not judged
          ELSE IF AnyK("und") THEN ""                                                             \* long non-integral lexeme in an integer column
          ELSE IF AnyK("err") THEN (IF ev.outcome = "err" THEN "" ELSE "json int out of range read")
          ELSE IF ev.outcome # "ok" THEN "json reader rejects RFC 8259"
          ELSE IF Len(ev.rows) # Len(d.vs) THEN "json row count"
          ELSE IF ~(\A i \in 1..Len(d.vs) : Agrees(ev.rows[i], d.vs[i], ev.schema, ev.smode, f64)) THEN "json values"
          ELSE IF ev.has_want /\ ~(Len(ev.want) = Len(d.vs) /\ \A i \in 1..Len(d.vs) : Agrees(ev.want[i], d.vs[i], ev.schema, ev.smode, f64))
               THEN "json writer values"
          ELSE IF ev.has_want /\ ev.rows # ev.want THEN "json tree round trip"
          ELSE ""
JsonTextWhat(ev) == JsonTextWhatM(ev, FALSE)

JsonRtWhat(ev) ==
  IF ev.wout # "ok" THEN "json writer " \o ev.wout
  ELSE LET n == IF ev.framing = "array"
                THEN (LET p == J!Parse(ev.text) IN IF p.ok /\ p.v.k = "arr" THEN Len(p.v.kids) ELSE 0 - 1)
                ELSE (LET p == J!ParseStream(ev.text) IN IF p.ok THEN Len(p.vs) ELSE 0 - 1)
       IN IF n # ev.nrows THEN "json writer text"
          ELSE IF ~(ev.outcome = "ok" /\ ev.rows_out = ev.rows_in /\ ev.schema_out = ev.schema_in) THEN "json round trip"
          ELSE ""

(* ==================================================================== Avro *)
RECURSIVE NoOther(_)
NoOther(v) == v.k # "other" /\ \A i \in 1..Len(v.kids) : NoOther(v.kids[i])

AsciiOf(str) ==
  CASE str = "null" -> <<110, 117, 108, 108>> [] str = "deflate" -> <<100, 101, 102, 108, 97, 116, 101>>
    [] str = "snappy" -> <<115, 110, 97, 112, 112, 121>> [] str = "zstandard" -> <<122, 115, 116, 97, 110, 100, 97, 114, 100>>
    [] str = "bzip2" -> <<98, 122, 105, 112, 50>> [] str = "xz" -> <<120, 122>> [] OTHER -> <<>>
KeySchema == <<97, 118, 114, 111, 46, 115, 99, 104, 101, 109, 97>>      \* avro.schema
KeyCodec == <<97, 118, 114, 111, 46, 99, 111, 100, 101, 99>>            \* avro.codec

RECURSIVE SumCounts(_)
SumCounts(bs) == IF bs = <<>> THEN 0 ELSE Head(bs).count + SumCounts(Tail(bs))
RECURSIVE BlocksDecode(_, _, _, _)
BlocksDecode(bs, schema, vals, done) ==      \* every block decodes to its slice of the rows
  IF bs = <<>> THEN done = Len(vals)
  ELSE LET b == Head(bs)
           r == A!DecodeRows(b.data, schema, b.count) IN
       /\ done + b.count <= Len(vals)
       /\ r = [ok |-> TRUE, vs |-> SubSeq(vals, done + 1, done + b.count)]
       /\ BlocksDecode(Tail(bs), schema, vals, done + b.count)
RECURSIVE ConcatData(_)
ConcatData(bs) == IF bs = <<>> THEN <<>> ELSE Head(bs).data \o ConcatData(Tail(bs))

BigEndian(n, width) == [i \in 1..width |-> (n \div (256 ^ (width - i))) % 256]       \* n < 2^31: the upper bytes are 0
PrefixLen(ev) == CASE ev.framing = "soe" -> 10 [] ev.framing = "confluent" -> 5 [] ev.framing = "apicurio" -> 9 [] OTHER -> 0
PrefixOk(ev, m) ==
  CASE ev.framing = "soe" -> Len(m) >= 10 /\ SubSeq(m, 1, 2) = A!SoeMagic /\ SubSeq(m, 3, 10) = SubSeq(ev.msgs[1], 3, 10)
    [] ev.framing = "confluent" -> Len(m) >= 5 /\ m[1] = 0 /\ SubSeq(m, 2, 5) = BigEndian(ev.id, 4)
    [] ev.framing = "apicurio" -> Len(m) >= 9 /\ m[1] = 0 /\ SubSeq(m, 2, 5) = <<0, 0, 0, 0>> /\ SubSeq(m, 6, 9) = BigEndian(ev.id, 4)
    [] OTHER -> TRUE

AvroBytesWhat(ev) ==
  IF ~J!Parse(ev.schema_json).ok THEN "avro schema json"
  ELSE IF ~A!SchemaOk(ev.schema) THEN "avro schema not Avro"
  ELSE IF ev.framing = "ocf" THEN
    LET p == A!OcfParse(ev.file) IN
    IF ~p.ok THEN "avro container"
    ELSE IF A!MetaGet(p.meta, KeySchema) # ev.schema_json THEN "avro.schema"
    ELSE IF ~(A!MetaGet(p.meta, KeyCodec) = AsciiOf(ev.codec) \/ (ev.codec = "null" /\ A!MetaGet(p.meta, KeyCodec) = <<>>)) THEN "avro.codec"
    ELSE IF SumCounts(p.blocks) # ev.nrows THEN "avro block counts"
    ELSE IF ev.codec # "null" \/ ~A!InFragment(ev.schema) \/ ~(\A i \in 1..Len(ev.vals) : NoOther(ev.vals[i])) THEN ""
    ELSE IF ~BlocksDecode(p.blocks, ev.schema, ev.vals, 0) THEN "avro Decode(block)"
    ELSE IF A!EncodeRows(ev.vals, ev.schema) # [ok |-> TRUE, b |-> ConcatData(p.blocks)] THEN "avro Encode(rows)"
    ELSE ""
  ELSE
    IF Len(ev.msgs) # ev.nrows THEN "avro message count"
    ELSE IF ~(\A i \in 1..Len(ev.msgs) : PrefixOk(ev, ev.msgs[i])) THEN "avro prefix"
    ELSE IF ~A!InFragment(ev.schema) \/ ~(\A i \in 1..Len(ev.vals) : NoOther(ev.vals[i])) THEN ""
    ELSE IF ~(\A i \in 1..Len(ev.msgs) :
                LET body == SubSeq(ev.msgs[i], PrefixLen(ev) + 1, Len(ev.msgs[i])) IN
                /\ A!Encode(ev.vals[i], ev.schema) = [ok |-> TRUE, b |-> body]
                /\ A!Decode(body, ev.schema) = [ok |-> TRUE, v |-> ev.vals[i]]) THEN "avro Encode(row)"
    ELSE ""

(* the Arrow schema the reader derives from the Avro schema: see AvroSchemaSame below *)
AvroWhat(ev) ==
  IF ev.wout # "ok" THEN "avro writer " \o ev.wout
  \* a type the reader returns as another Arrow type is not "supported by both sides": only the fragment list
  \* (harness/p/c17/src/avro.rs fragment_types) is required to come back with its own type
  \* (run-end / dictionary encoded columns come back as their value type: row tokens denote values, still judged)
  ELSE IF ~ev.in_fragment /\ ev.outcome = "ok" /\ ev.nrows > 0 /\ ev.framing # "binary"
          /\ ev.schema_out # ev.schema_in /\ ev.schema_out # ev.schema_in_plain THEN ""
  ELSE IF ~(ev.outcome = "ok" /\ ev.rows_out = ev.rows_in) THEN "avro round trip"
  ELSE IF ~ev.stream_is_concat THEN "avro stream # messages"
  ELSE IF ev.in_fragment /\ ev.nrows > 0 /\ ev.framing # "binary" /\ ev.schema_out # ev.schema_in THEN "avro schema"
  ELSE IF ev.has_bytes THEN AvroBytesWhat(ev)
  ELSE ""

(* ================================================================ judgement *)
What(ev) ==
  CASE ev.op = "csv_split" -> IF CsvSplitOk(ev) THEN "" ELSE "csv reader # Split"
    [] ev.op = "csv_rt" -> CsvRtWhat(ev)
    [] ev.op = "json_text" -> JsonTextWhat(ev)
    [] ev.op = "json_rt" -> JsonRtWhat(ev)
    [] ev.op = "avro" -> AvroWhat(ev)
    [] OTHER -> "unknown event"

(* ------------------------------------------------------------ known findings *)
(* C17-csv-escape-char-not-escaped: with double_quote = false the writer (csv-core) puts the escape      *)
(* character before a quote but writes the escape character itself unescaped, so the reader (same        *)
(* escape) drops it and takes the next character literally.  Identified by: ~dq, a field holds the       *)
(* escape character, the text is exactly what that rule writes, and the reader returned what the         *)
(* grammar finds in that text.                                                                           *)
RECURSIVE KfQuoteBody(_, _)
KfQuoteBody(x, w) == IF x = <<>> THEN <<>>
                     ELSE (IF Head(x) = w.quote THEN <<w.esc, w.quote>> ELSE <<Head(x)>>) \o KfQuoteBody(Tail(x), w)
KfWriteField(x, w) ==
  IF w.style = "always" \/ (w.style = "necessary" /\ C!NeedsQuotes(x, w)) THEN <<w.quote>> \o KfQuoteBody(x, w) \o <<w.quote>> ELSE x
RECURSIVE KfJoinFields(_, _, _)
KfJoinFields(rec, w, i) ==
  IF i > Len(rec) THEN <<>>
  ELSE (IF i > 1 THEN <<w.delim>> ELSE <<>>) \o KfWriteField(rec[i], w) \o KfJoinFields(rec, w, i + 1)
RECURSIVE KfJoin(_, _)
KfJoin(recs, w) ==
  IF recs = <<>> THEN <<>>
  ELSE (IF Len(Head(recs)) = 1 /\ Head(recs)[1] = <<>> /\ w.style # "always" THEN <<w.quote, w.quote>> ELSE KfJoinFields(Head(recs), w, 1))
       \o w.wterm \o KfJoin(Tail(recs), w)
RECURSIVE Flat(_)
Flat(recs) == IF recs = <<>> THEN <<>> ELSE Head(recs) \o Flat(Tail(recs))

KfCsvEscape(ev) ==
  /\ ev.wout = "ok" /\ ~ev.w.dq /\ C!WFormatOk(ev.w)
  /\ \E k \in 1..Len(ev.cells) : C!Has(ev.cells[k], ev.w.esc)
  /\ (ev.w.style \in {"necessary", "always", "never"} => ev.text = KfJoin(Reshape(ev.cells, ev.ncols), ev.w))
  /\ LET s == C!Split(ev.text, C!ReaderOf(ev.w)) IN s.ok => (ev.utf8_out = "ok" /\ ev.utf8 = Flat(s.recs))

(* C17-json-number-at-eof: the Reader rejects a stream whose last document is a number that ends the    *)
(* input ("Truncated record whilst reading number"): the tape decoder only completes a number when it   *)
(* sees the byte after it.  With any white space after the number the same text is accepted.           *)
KfJsonNumberAtEof(ev) ==
  /\ ~ev.flatten /\ ev.outcome = "err" /\ ev.text # <<>>
  /\ LET d == J!ParseStream(ev.text) IN d.ok /\ d.vs # <<>> /\ d.vs[Len(d.vs)].k = "num"
  /\ ~J!IsWs(ev.text[Len(ev.text)])

(* C17-json-surrogate-pair-or: escaped surrogate pairs of planes 2, 4, .. 16 decode to the character    *)
(* 0x10000 below (JsonGrammar!PairValue with DefectivePairs).  Identified by: the decoded rows are       *)
(* exactly what the text denotes under that reading.                                                    *)
KfJsonPairs(ev) ==
  /\ ~ev.flatten /\ ev.outcome = "ok"
  /\ LET d == JD!ParseStream(ev.text) IN
     /\ d.ok /\ d # J!ParseStream(ev.text) /\ Len(ev.rows) = Len(d.vs)
     /\ \A i \in 1..Len(d.vs) : Agrees(ev.rows[i], d.vs[i], ev.schema, ev.smode, FALSE)

(* C17-json-duration-iso-not-readable: the writer formats Duration columns as ISO 8601 strings          *)
(* ("PT0.004S"), the reader only parses numbers for them.                                               *)
KfJsonDuration(ev) == ev.wout = "ok" /\ ev.has_duration /\ ev.outcome = "err:read:JsonError"

(* C17-avro-union-offsets-across-batches: the reader's dense union decoder keeps counting child offsets    *)
(* across flush, so the second batch that holds a variant already seen in an earlier batch of the same   *)
(* reader fails ("Offsets must be non-negative and within the length of the Array").  Identified by: a  *)
(* union column, more rows than the batch size, a variant occurring in two different batches.           *)
KfAvroUnion(ev) ==
  /\ ev.wout = "ok" /\ ev.outcome \in {"err:read:AvroError", "err:flush:ParseError"} /\ ev.nrows > ev.bs
  /\ \E c \in 1..Len(ev.union_tids) : \E i, j \in 1..Len(ev.union_tids[c]) :
        i < j /\ ev.union_tids[c][i] = ev.union_tids[c][j] /\ (i - 1) \div ev.bs # (j - 1) \div ev.bs

(* C17-avro-null-column-union: a nullable column of Arrow type Null is declared as the union             *)
(* ["null", "null"], which is not an Avro schema.                                                      *)
RECURSIVE HasNullNull(_)
HasNullNull(s) == (s.k = "union" /\ Len(s.kids) = 2 /\ s.kids[1].k = "null" /\ s.kids[2].k = "null")
                  \/ \E j \in 1..Len(s.kids) : HasNullNull(s.kids[j])

(* C17-json-int-via-f64-inexact: a number lexeme the integer parser does not take (fraction, exponent, or   *)
(* outside the range of the type) is read as f64 and cast, so an integer value beyond 2^53 is rounded to 53  *)
(* bits before the cast: 9007199254740993.0 reads as ..992 into Int64, 9223372036854775807.0 is refused,      *)
(* -9223372036854775809 is accepted as -2^63.  Identified by: the event is exactly what IntOutcome with      *)
(* viaF64 = TRUE predicts.                                                                                  *)
KfJsonIntF64(ev) == JsonTextWhatM(ev, TRUE) = ""

(* C17-avro-nested-ree-double-branch: a nullable RunEndEncoded column BELOW a struct / list / map is written   *)
(* with the union branch twice (once for the field, once by the run-end encoder), so the bytes are not data of   *)
(* the declared schema: arrow-avro's own reader fails or never returns on them.  Top-level run-end columns are  *)
(* written correctly.  Identified by the schema shape (driver flag ree_nested).                                  *)
KfAvroReeNested(ev) == ev.wout = "ok" /\ ev.ree_nested

(* C17-avro-sliced-ree-offset-ignored: the Avro writer (Writer and Encoder, every framing) ignores the offset of   *)
(* a SLICED RunEndEncoded column: every row of batch.slice(k, n) is written with the value of the run that holds  *)
(* row 0 (..) of the unsliced array, silently.  Identified by: the batch was written in slices and has a run-end  *)
(* encoded column (driver flags).                                                                                  *)
KfAvroReeSliced(ev) == ev.wout = "ok" /\ ev.sliced /\ ev.has_ree

(* C17-json-dict-null-value-written: the JSON writer's DictionaryEncoder only knows the KEY validity; a row     *)
(* whose (valid) key selects a null dictionary VALUE is written as that slot's physical content ("" / 0) instead *)
(* of null.  Identified by: a dictionary with a null among its values somewhere in the batch (driver flag), the   *)
(* text read back without error and with the right number of rows.                                              *)
KfJsonDictNull(ev) == ev.wout = "ok" /\ ev.dict_null_values /\ ev.outcome = "ok" /\ Len(ev.rows_out) = Len(ev.rows_in)
                      /\ ev.schema_out = ev.schema_in

KF(ev, what) ==
  IF ev.op = "json_text" /\ what \in {"json values", "json reader rejects RFC 8259", "json int out of range read"} /\ KfJsonIntF64(ev)
  THEN "C17-json-int-via-f64-inexact"
  ELSE IF ev.op = "avro" /\ what = "avro round trip" /\ KfAvroUnion(ev) THEN "C17-avro-union-offsets-across-batches"
  ELSE IF ev.op = "avro" /\ what = "avro schema not Avro" /\ HasNullNull(ev.schema) THEN "C17-avro-null-column-union"
  ELSE IF ev.op = "avro" /\ what \in {"avro round trip", "avro Decode(block)", "avro Encode(rows)", "avro Encode(row)"} /\ KfAvroReeNested(ev)
  THEN "C17-avro-nested-ree-double-branch"
  ELSE IF ev.op = "avro" /\ what \in {"avro round trip", "avro Decode(block)", "avro Encode(rows)", "avro Encode(row)"} /\ KfAvroReeSliced(ev)
  THEN "C17-avro-sliced-ree-offset-ignored"
  ELSE IF ev.op = "csv_rt" /\ what \in {"csv text # Join", "csv Split(text)", "csv utf8 read", "csv round trip"} /\ KfCsvEscape(ev)
  THEN "C17-csv-escape-char-not-escaped"
  ELSE IF ev.op = "json_text" /\ what = "json reader rejects RFC 8259" /\ KfJsonNumberAtEof(ev) THEN "C17-json-number-at-eof"
  ELSE IF ev.op = "json_text" /\ what = "json values" /\ KfJsonPairs(ev) THEN "C17-json-surrogate-pair-or"
  ELSE IF ev.op = "json_rt" /\ what = "json round trip" /\ KfJsonDuration(ev) THEN "C17-json-duration-iso-not-readable"
  ELSE IF ev.op = "json_rt" /\ what = "json round trip" /\ KfJsonDictNull(ev) THEN "C17-json-dict-null-value-written"
  ELSE ""

Init == l = 1
Next == /\ l <= Len(Rec)
        /\ l' = l + 1
        /\ LET ev == Rec[l]
               what == What(ev) IN
           JudgeKF(what = "", l, what, KF(ev, what))
Spec == Init /\ [][Next]_l
=============================================================================
