SPECIFICATION MCSpec
CONSTANTS
  G = 1
  S = 1
  F = 1
  MaxBlocks = 2
  MaxRows = 1
  MaxBytes = 10
  BatchSizes = {1, 2}
INVARIANTS I_ChunkIndependent I_BatchBound I_OcfSemantics I_Order
CHECK_DEADLOCK TRUE
