---------------------------- MODULE ChunkDecoder ----------------------------
(***************************************************************************)
(* C14 - a push-style decoder session, generically.                        *)
(*                                                                         *)
(* An input is a byte sequence of length N.  A chunking is a partition of  *)
(* the positions 0..N into consecutive chunks, given by a non-decreasing   *)
(* sequence of cut positions (equal cuts = an empty chunk).  A driver      *)
(* presents the chunks to the decoder following the decoder's protocol:    *)
(*    Feed   offer the window (unconsumed bytes of the chunks delivered so *)
(*           far); the decoder consumes a prefix and changes state;        *)
(*    Flush  take the rows decoded so far as one batch;                    *)
(*    Next   deliver the next chunk (bytes the decoder did not consume are *)
(*           re-presented in front of it);                                 *)
(*    End    signal the end of the input.                                  *)
(* Property C14: the emitted row sequence, the schema and the ok / error   *)
(* outcome do not depend on the chunking, no batch exceeds batch_size and  *)
(* the result is that of the one-shot reader (the ghost OneShot below,     *)
(* defined directly on the input, without any state machine).              *)
(*                                                                         *)
(* ChunkOps.tla holds the operators shared with Trace_Chunk.tla            *)
(* (validation of sessions of the real decoders); this module is the       *)
(* abstract decoder used for the design-level theorem; the framing of IPC, *)
(* Avro and CSV is refined in IpcFraming.tla, AvroFraming.tla and          *)
(* CsvRecords.tla.                                                         *)
(***************************************************************************)
EXTENDS ChunkOps

(* ------------------------------------------------------------------------ *)
(* The abstract decoder                                                     *)
(*                                                                          *)
(* Bytes are classes: "b" a byte inside a record, "e" the last byte of a    *)
(* record, "x" a malformed byte.  gran = "byte": the decoder keeps partial  *)
(* records itself and consumes everything offered unless the batch is full  *)
(* (IPC, CSV, JSON, OCF).  gran = "record": the decoder consumes only       *)
(* complete records and the driver keeps a rolling buffer (Avro single-     *)
(* object framing).  eof = "strict": input ending inside a record is an     *)
(* error; "lenient": the partial record counts (CSV without a final         *)
(* terminator).  early: the driver may also flush at any record boundary.   *)
(* ------------------------------------------------------------------------ *)
VARIABLES inp, bs, gran, eof, early, cuts,      \* the session parameters
          k, hi,                                \* chunks 1..k delivered; hi = their end
          pos, part, buf, out, phase, outcome   \* decoder / driver state

dvars == <<inp, bs, gran, eof, early, cuts, k, hi, pos, part, buf, out, phase, outcome>>

N == Len(inp)

(* ---- ghost: the one-shot result, defined on the input alone ---- *)
BadAt == IF \E i \in 1..N : inp[i] = "x" THEN CHOOSE i \in 1..N : inp[i] = "x" /\ \A j \in 1..(i - 1) : inp[j] # "x" ELSE 0
ValidLen == IF BadAt = 0 THEN N ELSE BadAt - 1
Ends == {i \in 1..ValidLen : inp[i] = "e"}
LastEnd == IF Ends = {} THEN 0 ELSE CHOOSE i \in Ends : \A j \in Ends : j <= i
PrevEnd(i) == LET P == {j \in Ends : j < i} IN IF P = {} THEN 0 ELSE CHOOSE j \in P : \A l \in P : l <= j
RECURSIVE RowsUpTo(_)
RowsUpTo(e) == IF e = 0 THEN <<>> ELSE Append(RowsUpTo(PrevEnd(e)), <<PrevEnd(e) + 1, e>>)
CompleteRows == RowsUpTo(LastEnd)
Trailing == ValidLen > LastEnd           \* bytes of an unfinished record before the end / the bad byte
FullBatches(rows) == SubSeq(rows, 1, bs * (Len(rows) \div bs))

OneShot ==
  IF BadAt # 0 THEN [outcome |-> "err:bad", rows |-> FullBatches(CompleteRows), all |-> CompleteRows]
  ELSE IF Trailing /\ eof = "strict"
       THEN [outcome |-> "err:truncated", rows |-> FullBatches(CompleteRows), all |-> CompleteRows]
  ELSE LET r == IF Trailing THEN Append(CompleteRows, <<LastEnd + 1, N>>) ELSE CompleteRows
       IN [outcome |-> "ok", rows |-> r, all |-> r]

(* ---- one decode call: the longest scan the decoder makes over inp[p+1..h] ---- *)
RECURSIVE ScanByte(_, _, _, _)
ScanByte(p, pt, b, h) ==
  IF p = h \/ (Len(b) = bs /\ pt = 0) THEN [pos |-> p, part |-> pt, buf |-> b, err |-> FALSE]
  ELSE LET c == inp[p + 1] IN
       IF c = "x" THEN [pos |-> p, part |-> pt, buf |-> b, err |-> TRUE]
       ELSE IF c = "e" THEN ScanByte(p + 1, 0, Append(b, <<p + 1 - pt, p + 1>>), h)
       ELSE ScanByte(p + 1, pt + 1, b, h)

NextStop(p, h) == LET S == {i \in (p + 1)..h : inp[i] \in {"e", "x"}} IN
                  IF S = {} THEN 0 ELSE CHOOSE i \in S : \A j \in S : i <= j
RECURSIVE ScanRec(_, _, _)
ScanRec(p, b, h) ==
  IF Len(b) = bs THEN [pos |-> p, part |-> 0, buf |-> b, err |-> FALSE]
  ELSE LET i == NextStop(p, h) IN
       IF i = 0 THEN [pos |-> p, part |-> 0, buf |-> b, err |-> FALSE]     \* more bytes are required
       ELSE IF inp[i] = "x" THEN [pos |-> p, part |-> 0, buf |-> b, err |-> TRUE]
       ELSE ScanRec(i, Append(b, <<p + 1, i>>), h)

Scan == IF gran = "byte" THEN ScanByte(pos, part, buf, hi) ELSE ScanRec(pos, buf, hi)

Full == Len(buf) = bs /\ part = 0

Params == /\ UNCHANGED <<inp, bs, gran, eof, early, cuts>>

Feed ==
  /\ phase = "feed"
  /\ LET r == Scan IN
     /\ pos' = r.pos /\ part' = r.part /\ buf' = r.buf
     /\ IF r.err THEN phase' = "done" /\ outcome' = "err:bad"
                 ELSE phase' = "fed" /\ outcome' = outcome
  /\ UNCHANGED <<k, hi, out>> /\ Params

Flush ==
  /\ phase = "fed" /\ buf # <<>>
  /\ Full \/ (early /\ part = 0)
  /\ out' = Append(out, buf) /\ buf' = <<>> /\ phase' = "feed"
  /\ UNCHANGED <<k, hi, pos, part, outcome>> /\ Params

(* the decoder wants more input: everything offered was consumed, or (record *)
(* granularity) what is left is not a complete record                        *)
Starved == ~Full

Next ==
  /\ phase = "fed" /\ Starved /\ k < NChunks(cuts)
  /\ k' = k + 1 /\ hi' = ChunkHi(cuts, N, k + 1) /\ phase' = "feed"
  /\ UNCHANGED <<pos, part, buf, out, outcome>> /\ Params

End ==
  /\ phase = "fed" /\ Starved /\ k = NChunks(cuts)
  /\ LET leftover == (part > 0) \/ (pos < N) IN
     IF leftover /\ eof = "strict"
     THEN outcome' = "err:truncated" /\ out' = out /\ buf' = buf
     ELSE /\ outcome' = "ok"
          /\ LET last == IF leftover THEN Append(buf, <<pos - part + 1, N>>) ELSE buf
             IN out' = (IF last = <<>> THEN out ELSE out \o Group(last, bs)) /\ buf' = <<>>
  /\ phase' = "done"
  /\ UNCHANGED <<k, hi, pos, part>> /\ Params

Done == phase = "done" /\ UNCHANGED dvars

DNext == Feed \/ Flush \/ Next \/ End \/ Done

(* ---- the properties ---- *)
Result == [outcome |-> outcome, rows |-> Flatten(out)]

I_BatchBound == \A i \in DOMAIN out : Len(out[i]) \in 1..bs

I_Window == pos <= hi /\ hi <= N /\ (gran = "record" => part = 0)

(* at the end of the session the result is the one-shot result, whatever the chunking *)
I_ChunkIndependent ==
  phase = "done" =>
    /\ outcome = OneShot.outcome
    /\ ~early => out = Group(OneShot.rows, bs)
    /\ (early /\ outcome = "ok") => Flatten(out) = OneShot.rows
    \* an early flush moves the batch boundaries, so on an error the rows already handed out
    \* are some prefix of the rows before the error (not necessarily the canonical one)
    /\ (early /\ outcome # "ok") => IsPrefix(Flatten(out), OneShot.all)

(* rows are only ever emitted in input order: what is out is a prefix of the complete rows *)
I_Order == IsPrefix(Flatten(out) \o buf, OneShot.all)
=============================================================================
