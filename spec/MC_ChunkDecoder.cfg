SPECIFICATION MCSpec
CONSTANTS
  MaxLen = 6
  BatchSizes = {1, 2, 3}
INVARIANTS I_BatchBound I_Window I_ChunkIndependent I_Order
CHECK_DEADLOCK TRUE
