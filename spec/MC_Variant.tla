----------------------------- MODULE MC_Variant -----------------------------
(***************************************************************************)
(* Bounded exhaustive universes for VariantFormat.tla (C08).               *)
(*                                                                         *)
(* mode "value": for every metadata in Metas, ALL value byte strings over  *)
(* the alphabet of a universe up to its length bound (grown one byte at a  *)
(* time).  mode "meta": ALL metadata byte strings of a universe (paired    *)
(* with the value <<0>> = null).                                           *)
(*                                                                         *)
(* MC (MC_Variant*.cfg): laws of the validator / decoder itself, checked   *)
(* in every state (a wrong specification would be a wrong oracle):         *)
(*   Total           the verdict is defined on every byte string (every    *)
(*                   read of the validator stays inside the buffer: an     *)
(*                   out-of-range index is a TLC evaluation error)         *)
(*   SelfDelimiting  a valid value occupies a prefix; that prefix alone is *)
(*                   valid, tight, and denotes the same value              *)
(*   ExtensionStable appending bytes to a valid encoding changes nothing   *)
(*   NestedValid     every element / field value of a valid container is,  *)
(*                   with the same metadata, itself a valid variant        *)
(*   MetaLaws        the same for the metadata dictionary                  *)
(* GEN (Gen_Variant*.cfg): the invariant Emit prints one CASE line per     *)
(* *tight* valid encoding with the value it denotes (by SelfDelimiting /   *)
(* ExtensionStable a string of the universe is valid iff one of its        *)
(* prefixes is tight), and one line describing each universe; the harness  *)
(* enumerates the same universes against the real `Variant::try_new`.      *)
(***************************************************************************)
EXTENDS VariantFormat, FiniteSets, Json

CONSTANTS ValueUniverses,      \* set of [pre |-> fixed prefix, alpha |-> set of bytes, maxlen |-> n]: pre \o (all strings over alpha) up to length maxlen
          MetaUniverses,
          Metas                \* set of metadata byte strings used in mode "value"

VARIABLES mode, u, m, v
vars == <<mode, u, m, v>>

Init == \/ mode = "value" /\ u \in ValueUniverses /\ m \in Metas /\ v = u.pre
        \/ mode = "meta" /\ u \in MetaUniverses /\ m = u.pre /\ v = <<0>>

GrowValue == /\ mode = "value" /\ Len(v) < u.maxlen
             /\ \E b \in u.alpha : v' = Append(v, b)
             /\ UNCHANGED <<mode, u, m>>
GrowMeta == /\ mode = "meta" /\ Len(m) < u.maxlen
            /\ \E b \in u.alpha : m' = Append(m, b)
            /\ UNCHANGED <<mode, u, v>>
Next == GrowValue \/ GrowMeta
Spec == Init /\ [][Next]_vars

Total == VariantValid(m, v) \in BOOLEAN

SelfDelimiting ==
  VariantValid(m, v) =>
    LET s == VSize(m, v, 0, Len(v))
        t == SubSeq(v, 1, s)
    IN s >= 1 /\ s <= Len(v) /\ Tight(m, t) /\ Decode(m, t) = Decode(m, v)

ExtensionStable ==
  (mode = "value" /\ VariantValid(m, v) /\ Len(v) < u.maxlen) =>
    \A b \in u.alpha : VariantValid(m, Append(v, b)) /\ Decode(m, Append(v, b)) = Decode(m, v)

(* extents [lo, hi) of the element / field values of a valid top-level container *)
ChildExtents(mm, vv) ==
  LET h == Byte(vv, 0)
      bt == h % 4
      vh == h \div 4
  IN IF bt = 3 THEN
       LET osz == COsz(vh)
           nsz == IF ArrLarge(vh) THEN 4 ELSE 1
           n == LE(vv, 1, nsz)
           o0 == 1 + nsz
           vs == o0 + (n + 1) * osz
       IN [i \in 1..n |-> <<vs + LE(vv, o0 + (i - 1) * osz, osz), vs + LE(vv, o0 + i * osz, osz)>>]
     ELSE IF bt = 2 THEN
       LET osz == COsz(vh)
           isz == ObjIsz(vh)
           nsz == IF ObjLarge(vh) THEN 4 ELSE 1
           n == LE(vv, 1, nsz)
           o0 == 1 + nsz + n * isz
           vs == o0 + (n + 1) * osz
       IN [i \in 1..n |-> <<vs + LE(vv, o0 + (i - 1) * osz, osz), vs + LE(vv, o0 + n * osz, osz)>>]
     ELSE <<>>

NestedValid ==
  VariantValid(m, v) =>
    LET ce == ChildExtents(m, v) IN
    \A i \in 1..Len(ce) : VariantValid(m, SubSeq(v, ce[i][1] + 1, ce[i][2]))

MetaLaws ==
  MetaValid(m) =>
    LET s == MetaSize(m)
        t == SubSeq(m, 1, s)
    IN /\ s >= 3 /\ s <= Len(m)
       /\ MetaValid(t) /\ MetaSize(t) = s /\ Names(t) = Names(m)
       /\ \A i \in 1..Len(Names(m)) : ValidFrom(Names(m)[i], 1, Len(Names(m)[i]))
       /\ MSorted(m) => \A i \in 1..(Len(Names(m)) - 1) : Names(m)[i] # Names(m)[i + 1]

(* ------------------------------------------------------------------ GEN *)
SetToSeq(S) == LET RECURSIVE F(_) 
                   F(T) == IF T = {} THEN <<>> ELSE LET x == CHOOSE y \in T : \A z \in T : y <= z IN <<x>> \o F(T \ {x})
               IN F(S)
RECURSIVE SeqOfSeqs(_)
SeqOfSeqs(S) == IF S = {} THEN <<>> ELSE LET x == CHOOSE y \in S : TRUE IN <<x>> \o SeqOfSeqs(S \ {x})

Emit ==
  /\ (mode = "value" /\ v = u.pre) =>
       PrintT("CASE " \o ToJson([k |-> "uv", pre |-> u.pre, alpha |-> SetToSeq(u.alpha), maxlen |-> u.maxlen, m |-> m]))
  /\ (mode = "meta" /\ m = u.pre) =>
       PrintT("CASE " \o ToJson([k |-> "um", pre |-> u.pre, alpha |-> SetToSeq(u.alpha), maxlen |-> u.maxlen]))
  /\ (mode = "value" /\ Tight(m, v)) =>
       PrintT("CASE " \o ToJson([k |-> "v", m |-> m, v |-> v, tok |-> Decode(m, v)]))
  /\ (mode = "meta" /\ MetaValid(m) /\ MetaSize(m) = Len(m)) =>
       PrintT("CASE " \o ToJson([k |-> "m", m |-> m, n |-> MN(m), names |-> [i \in 1..MN(m) |-> BytesTok(Names(m)[i], 1)]]))

(* ---------------------------------------------------------- universes *)
MetasStd == { <<1, 0, 0>>,                    \* empty dictionary
              <<1, 1, 0, 1, 97>>,             \* "a"
              <<17, 2, 0, 1, 2, 97, 98>>,     \* sorted "a", "b"
              <<1, 2, 0, 1, 2, 98, 97>>,      \* unsorted "b", "a"
              <<1, 2, 0, 1, 2, 97, 97>> }     \* unsorted, duplicate "a", "a"

MetasQuick == { <<1, 0, 0>>, <<17, 2, 0, 1, 2, 97, 98>>, <<1, 2, 0, 1, 2, 97, 97>> }

VU_quick == { [pre |-> <<>>, alpha |-> {0, 1, 2, 3, 5, 12, 97, 195}, maxlen |-> 4],
              [pre |-> <<>>, alpha |-> {0, 1, 2, 3}, maxlen |-> 7] }
MU_quick == { [pre |-> <<1>>, alpha |-> {0, 1, 2, 195, 169}, maxlen |-> 7],      \* version 1, unsorted, 1-byte offsets
              [pre |-> <<>>, alpha |-> {0, 1, 2, 17, 97, 98}, maxlen |-> 5] }

VU_thorough == { [pre |-> <<>>, alpha |-> {0, 1, 2, 3, 5, 9, 12, 97, 169, 195}, maxlen |-> 5],
                 [pre |-> <<>>, alpha |-> {0, 1, 2, 3}, maxlen |-> 7],
                 [pre |-> <<2>>, alpha |-> {0, 1, 2, 3, 12}, maxlen |-> 9] }   \* objects (a two-field object needs 9 bytes)
MU_thorough == { [pre |-> <<1>>, alpha |-> {0, 1, 2, 195, 169}, maxlen |-> 9],
                 [pre |-> <<17>>, alpha |-> {0, 1, 2, 97, 98, 195, 169}, maxlen |-> 7],    \* sorted
                 [pre |-> <<>>, alpha |-> {0, 1, 2, 17, 65, 97, 98, 195}, maxlen |-> 6] }
=============================================================================
