----------------------------- MODULE IpcFraming -----------------------------
(***************************************************************************)
(* C14 refinement: the Arrow IPC stream framing and the byte-level state   *)
(* machine of arrow-ipc `StreamDecoder::decode` / `finish`                 *)
(* (arrow-ipc/src/reader/stream.rs:54-90, 159-309).                        *)
(*                                                                         *)
(* A stream is a sequence of encapsulated messages                         *)
(*     [continuation marker (W bytes 0xFF)] [metadata size (W bytes, LE)]  *)
(*     [metadata flatbuffer (size bytes)] [body (bodyLength bytes)]        *)
(* optionally followed by the end-of-stream marker (size 0).  W is 4 in    *)
(* the format; the model keeps it a constant so that small configurations  *)
(* stay exhaustive.  A byte of the input is the record [r, m, i]: its role *)
(* ("c" marker, "l" size, "m" metadata, "d" body, "z" stray), the message  *)
(* it belongs to and its index (for "l": its numeric value).  Metadata and *)
(* body are "parsed" by checking that exactly the right bytes, in order,   *)
(* were collected - a decoder that slices or copies the wrong range        *)
(* produces a corrupt message here as it would in the implementation.      *)
(*                                                                         *)
(* Decoder states as in the code: Header{buf, read, continuation},         *)
(* Message{size}, Body{message}, Finished; `scratch` is StreamDecoder::buf.*)
(* One Step = one iteration of `while !buffer.is_empty()`.                 *)
(***************************************************************************)
EXTENDS ChunkOps

CONSTANT W               \* width of the marker / size words (4 in Arrow IPC)

VARIABLES stream,        \* [msgs, legacy, eos, extra, cutoff]: what was written
          inb,           \* the input bytes (a function of stream)
          cuts, k, hi,   \* the chunking; chunks 1..k delivered, ending at hi
          off,           \* bytes consumed (Buffer::advance)
          d,             \* the decoder
          phase, outcome

ivars == <<stream, inb, cuts, k, hi, off, d, phase, outcome>>

Min(a, b) == IF a < b THEN a ELSE b

(* ---------------------------------------------------------------- layout *)
Byte(r, m, i) == [r |-> r, m |-> m, i |-> i]
Marker == [x \in 1..W |-> Byte("c", 0, 0)]
SizeWord(v) == [x \in 1..W |-> Byte("l", 0, IF x = 1 THEN v ELSE 0)]
MsgBytes(j, msg, legacy) ==
  (IF legacy THEN <<>> ELSE Marker) \o SizeWord(msg.meta)
  \o [x \in 1..msg.meta |-> Byte("m", j, x)] \o [x \in 1..msg.body |-> Byte("d", j, x)]
RECURSIVE AllMsgBytes(_, _, _)
AllMsgBytes(msgs, j, legacy) ==
  IF j > Len(msgs) THEN <<>> ELSE MsgBytes(j, msgs[j], legacy) \o AllMsgBytes(msgs, j + 1, legacy)
Layout(s) ==
  LET full == AllMsgBytes(s.msgs, 1, s.legacy)
              \o (IF s.eos THEN (IF s.legacy THEN <<>> ELSE Marker) \o SizeWord(0) ELSE <<>>)
              \o [x \in 1..s.extra |-> Byte("z", 0, 0)]
  IN SubSeq(full, 1, Len(full) - s.cutoff)

(* ---------------------------------------------------------------- decoder *)
Msgs == stream.msgs
Huge == 999                              \* a size word that is not a size

IsMarker(h) == \A x \in 1..W : h[x].r = "c"
SizeOf(h) == IF (\A x \in 1..W : h[x].r = "l") /\ (\A x \in 2..W : h[x].i = 0) THEN h[1].i ELSE Huge

(* MessageBuffer::try_new on the collected metadata bytes *)
ParseMeta(b) ==
  IF /\ b # <<>> /\ b[1].r = "m" /\ b[1].m \in DOMAIN Msgs
     /\ Len(b) = Msgs[b[1].m].meta
     /\ \A x \in DOMAIN b : b[x] = Byte("m", b[1].m, x)
  THEN b[1].m ELSE 0
BodyOk(b, j) == Len(b) = Msgs[j].body /\ \A x \in DOMAIN b : b[x] = Byte("d", j, x)

Pristine == [st |-> "Header", read |-> 0, hbuf |-> <<>>, cont |-> FALSE, size |-> 0, scratch |-> <<>>,
             msg |-> 0, schema |-> FALSE, out |-> <<>>, err |-> ""]

(* DecoderState::default() *)
Reset(dd) == [dd EXCEPT !.st = "Header", !.read = 0, !.hbuf = <<>>, !.cont = FALSE, !.size = 0, !.msg = 0]

(* the message body is complete: stream.rs:227-286 *)
Process(dd, body) ==
  LET j == dd.msg  kind == Msgs[j].kind IN
  CASE kind = "schema" -> IF dd.schema THEN [dd EXCEPT !.err = "decode"]       \* "Not expecting a schema"
                          ELSE [Reset(dd) EXCEPT !.schema = TRUE]
    [] kind = "batch"  -> IF ~dd.schema THEN [dd EXCEPT !.err = "decode"]      \* "Missing schema"
                          ELSE IF ~BodyOk(body, j) THEN [dd EXCEPT !.err = "corrupt"]
                          ELSE [Reset(dd) EXCEPT !.out = Append(dd.out, j)]
    [] OTHER           -> IF ~dd.schema THEN [dd EXCEPT !.err = "decode"]      \* dictionary batch
                          ELSE IF ~BodyOk(body, j) THEN [dd EXCEPT !.err = "corrupt"]
                          ELSE Reset(dd)

(* one iteration of the decode loop over the window inb[o+1..h], o < h; returns <<decoder, offset>> *)
StepF(dd, o, h) ==
  LET avail == h - o IN
  CASE dd.st = "Header" ->
         LET n == Min(avail, W - dd.read)
             h2 == dd.hbuf \o SubSeq(inb, o + 1, o + n)
         IN IF dd.read + n < W THEN <<[dd EXCEPT !.read = dd.read + n, !.hbuf = h2], o + n>>
            ELSE IF ~dd.cont /\ IsMarker(h2) THEN <<[dd EXCEPT !.cont = TRUE, !.read = 0, !.hbuf = <<>>], o + n>>
            ELSE IF SizeOf(h2) = 0 THEN <<[dd EXCEPT !.st = "Finished", !.read = W, !.hbuf = h2], o + n>>
            ELSE <<[dd EXCEPT !.st = "Message", !.size = SizeOf(h2), !.read = W, !.hbuf = h2], o + n>>
    [] dd.st = "Message" ->
         IF dd.scratch = <<>> /\ avail > dd.size
         THEN \* zero-copy: the metadata is a slice of the caller's buffer
              LET j == ParseMeta(SubSeq(inb, o + 1, o + dd.size)) IN
              IF j = 0 THEN <<[dd EXCEPT !.err = "corrupt"], o>>
              ELSE <<[dd EXCEPT !.st = "Body", !.msg = j], o + dd.size>>
         ELSE LET n == Min(avail, dd.size - Len(dd.scratch))
                  s2 == dd.scratch \o SubSeq(inb, o + 1, o + n)
              IN IF Len(s2) < dd.size THEN <<[dd EXCEPT !.scratch = s2], o + n>>
                 ELSE LET j == ParseMeta(s2) IN
                      IF j = 0 THEN <<[dd EXCEPT !.err = "corrupt", !.scratch = <<>>], o + n>>
                      ELSE <<[dd EXCEPT !.st = "Body", !.msg = j, !.scratch = <<>>], o + n>>
    [] dd.st = "Body" ->
         LET bl == Msgs[dd.msg].body IN
         IF dd.scratch = <<>> /\ avail >= bl
         THEN <<Process(dd, SubSeq(inb, o + 1, o + bl)), o + bl>>
         ELSE LET n == Min(avail, bl - Len(dd.scratch))
                  s2 == dd.scratch \o SubSeq(inb, o + 1, o + n)
              IN IF Len(s2) # bl THEN <<[dd EXCEPT !.scratch = s2], o + n>>
                 ELSE <<Process([dd EXCEPT !.scratch = <<>>], s2), o + n>>
    [] OTHER -> <<[dd EXCEPT !.err = "decode"], o>>                         \* Finished: "Unexpected EOS"

(* StreamDecoder::finish *)
FinishOk(dd) == dd.st = "Finished" \/ (dd.st = "Header" /\ dd.read = 0 /\ ~dd.cont)
Outcome(dd) == IF dd.err # "" THEN "err:" \o dd.err ELSE IF FinishOk(dd) THEN "ok" ELSE "err:finish"

(* ---- ghost: the whole input in one chunk ---- *)
RECURSIVE RunAll(_, _, _)
RunAll(dd, o, h) == IF o = h \/ dd.err # "" THEN dd ELSE LET r == StepF(dd, o, h) IN RunAll(r[1], r[2], h)
OneShotDec == RunAll(Pristine, 0, Len(inb))
Result(dd) == [outcome |-> Outcome(dd), out |-> dd.out, schema |-> dd.schema]

(* ---------------------------------------------------------------- the session *)
Fixed == UNCHANGED <<stream, inb, cuts>>

Step ==
  /\ phase = "run" /\ off < hi
  /\ LET r == StepF(d, off, hi) IN
     /\ d' = r[1] /\ off' = r[2]
     /\ IF r[1].err # "" THEN phase' = "done" /\ outcome' = Outcome(r[1]) ELSE UNCHANGED <<phase, outcome>>
  /\ UNCHANGED <<k, hi>> /\ Fixed

NextChunk ==
  /\ phase = "run" /\ off = hi /\ k < NChunks(cuts)
  /\ k' = k + 1 /\ hi' = ChunkHi(cuts, Len(inb), k + 1)
  /\ UNCHANGED <<off, d, phase, outcome>> /\ Fixed

Finish ==
  /\ phase = "run" /\ off = hi /\ k = NChunks(cuts)
  /\ phase' = "done" /\ outcome' = Outcome(d)
  /\ UNCHANGED <<k, hi, off, d>> /\ Fixed

Done == phase = "done" /\ UNCHANGED ivars

INext == Step \/ NextChunk \/ Finish \/ Done

(* ---------------------------------------------------------------- properties *)
I_Window == off <= hi /\ hi <= Len(inb) /\ Len(d.scratch) <= Len(inb) /\ d.read <= W

(* C14 for this decoder: batches, schema and outcome class are those of the one-chunk run *)
I_ChunkIndependent ==
  phase = "done" => [outcome |-> outcome, out |-> d.out, schema |-> d.schema] = Result(OneShotDec)

(* What the framing means, stated without the state machine, for every prefix of a stream the    *)
(* writer can produce (schema first, no second schema): a message is handled when all its bytes  *)
(* are there and - DESIGN appendix A - if its body is empty, at least one more byte follows (an   *)
(* empty body is processed only by the next non-empty decode call); the session is ok iff the    *)
(* input is the complete stream with its EOS marker, or ends exactly behind a handled message    *)
(* (a stream closed without EOS); any other end of input is reported by finish().                *)
WellFormed(s) ==
  /\ s.extra = 0 /\ s.msgs # <<>> /\ s.msgs[1].kind = "schema"
  /\ \A j \in 2..Len(s.msgs) : s.msgs[j].kind # "schema"
MsgLen(s, j) == (IF s.legacy THEN 0 ELSE W) + W + s.msgs[j].meta + s.msgs[j].body
EndPos(s, j) == LET F[i \in 0..j] == IF i = 0 THEN 0 ELSE F[i - 1] + MsgLen(s, i) IN F[j]
Handled(s, j, p) == EndPos(s, j) <= p /\ (s.msgs[j].body > 0 \/ EndPos(s, j) < p)
ExpectedOut(s, p) ==
  LET F[j \in 0..Len(s.msgs)] ==
        IF j = 0 THEN <<>>
        ELSE IF s.msgs[j].kind = "batch" /\ Handled(s, j, p) THEN Append(F[j - 1], j) ELSE F[j - 1]
  IN F[Len(s.msgs)]
I_FramingSemantics ==
  (phase = "done" /\ WellFormed(stream)) =>
     LET p == Len(inb) IN
     /\ d.out = ExpectedOut(stream, p)
     /\ outcome = (IF \/ (stream.eos /\ stream.cutoff = 0)
                      \/ p = 0
                      \/ \E j \in DOMAIN stream.msgs : EndPos(stream, j) = p /\ stream.msgs[j].body > 0
                   THEN "ok" ELSE "err:finish")
=============================================================================
