SPECIFICATION Spec
CONSTANTS
  MaxKids = 2
  MaxStr = 2
  MaxTokens = 3
  MaxNum = 4
  DefectivePairs = FALSE
  BigLeaves = FALSE
  Modes = {"value", "string", "text", "number", "escape"}
INVARIANTS T_RoundTrip T_Total T_FixedPoint T_Stream T_Number T_Escape
CHECK_DEADLOCK FALSE
