---------------------------- MODULE ParquetWrite ----------------------------
(***************************************************************************)
(* The Arrow Parquet writer as a state machine (property C05).              *)
(*                                                                         *)
(* parquet/src/arrow/arrow_writer/mod.rs: `ArrowWriter::write` hands the    *)
(* rows of a batch to the in-progress row group, splitting the batch where  *)
(* the row group reaches `max_row_group_row_count` (or, when                *)
(* `max_row_group_bytes` is set, wherever the size estimate says -- a       *)
(* nondeterministic choice here); `flush` closes the in-progress row group  *)
(* if there is one; `close` flushes and finishes.  Inside a row group every *)
(* leaf column has its own writer (parquet/src/column/writer/mod.rs) that   *)
(* takes the rows in mini batches, closes a data page when the page holds   *)
(* `data_page_row_count_limit` rows (or, size-driven, whenever -- again     *)
(* nondeterministic), and may fall back from dictionary to plain encoding   *)
(* once (flushing the buffered dictionary-encoded page first).  Column      *)
(* writers are independent (they may run on different threads): mini batches *)
(* of different columns interleave freely, columns are closed in any order, *)
(* and the chunks are appended to the row group in schema order.            *)
(*                                                                         *)
(* Rows are the numbers 1, 2, 3, ... in the order they are written.  A page *)
(* is [col, rows, enc]; a closed row group is [why, cols] with cols[c] the  *)
(* pages of column c.                                                       *)
(***************************************************************************)
EXTENDS Naturals, Sequences, FiniteSets

CONSTANTS
  Cols,         \* set of leaf columns
  MaxRG,        \* max_row_group_row_count, 0 = unlimited
  ByteLimit,    \* BOOLEAN: max_row_group_bytes is set (size-driven row group decisions are possible)
  PageRows,     \* data_page_row_count_limit (>= 1)
  BatchSz,      \* write_batch_size (>= 1)
  SizeSplits,   \* BOOLEAN: size-driven page breaks / sub-batching are possible
  DictCols,     \* columns with dictionary encoding enabled
  Fallback,     \* BOOLEAN: the dictionary page limit may be exceeded
  MaxOps,       \* bound on the number of write()/flush() calls
  MaxBatch      \* bound on the rows of one write()

VARIABLES
  next,         \* next row number
  pending,      \* rows of the current write() not yet handed to a row group
  todo,         \* per column: rows handed to the column writer, not yet taken by a mini batch
  page,         \* per column: rows buffered in the open data page
  pages,        \* per column: completed pages of the open column chunk
  dict,         \* per column: "on" | "fell" | "off"
  buffered,     \* rows of the in-progress row group (ArrowRowGroupWriter::buffered_rows)
  groups,       \* closed row groups
  phase,        \* "idle" | "split" | "cols" | "closing" | "closed"
  ret,          \* phase to return to after the row group has been closed
  why,          \* why the row group is being closed: "limit" | "bytes" | "flush"
  closedCols,   \* columns closed so far while closing a row group
  hist          \* the API calls so far: <<"w", n>>, <<"f", 0>>, <<"c", 0>>

vars == <<next, pending, todo, page, pages, dict, buffered, groups, phase, ret, why, closedCols, hist>>

Min(a, b) == IF a < b THEN a ELSE b
Pg(c, rows, enc) == [col |-> c, rows |-> rows, enc |-> enc]
Enc(ds) == IF ds = "on" THEN "dict" ELSE "plain"
DictInit == [c \in Cols |-> IF c \in DictCols THEN "on" ELSE "off"]
Empty == [c \in Cols |-> <<>>]

RECURSIVE Flat(_)
Flat(ss) == IF ss = <<>> THEN <<>> ELSE Head(ss) \o Flat(Tail(ss))
RowsOf(pgs) == Flat([i \in 1..Len(pgs) |-> pgs[i].rows])

Init ==
  /\ next = 1 /\ pending = <<>> /\ todo = Empty /\ page = Empty /\ pages = Empty
  /\ dict = DictInit /\ buffered = 0 /\ groups = <<>> /\ phase = "idle" /\ ret = "idle"
  /\ why = "none" /\ closedCols = {} /\ hist = <<>>

NOps == Cardinality({i \in 1..Len(hist) : hist[i][1] # "c"})

(* ArrowWriter::write(batch of n rows)                                      *)
Write(n) ==
  /\ phase = "idle" /\ NOps < MaxOps
  /\ hist' = Append(hist, <<"w", n>>)
  /\ pending' = [i \in 1..n |-> next + i - 1]
  /\ next' = next + n
  /\ phase' = IF n = 0 THEN "idle" ELSE "split"
  /\ UNCHANGED <<todo, page, pages, dict, buffered, groups, ret, why, closedCols>>

StartClose(w, r) == phase' = "closing" /\ why' = w /\ ret' = r /\ closedCols' = {}

(* one iteration of the split loop of write(): the leading rows that still  *)
(* fit go to the column writers of the in-progress row group                *)
Split ==
  /\ phase = "split"
  /\ LET cand == IF MaxRG # 0 /\ buffered + Len(pending) > MaxRG THEN MaxRG - buffered ELSE Len(pending) IN
     \/ \E k \in (IF ByteLimit /\ buffered > 0 THEN 1..cand ELSE {cand}) :
          /\ todo' = [c \in Cols |-> SubSeq(pending, 1, k)]
          /\ pending' = SubSeq(pending, k + 1, Len(pending))
          /\ buffered' = buffered + k
          /\ phase' = "cols"
          /\ UNCHANGED <<next, page, pages, dict, groups, ret, why, closedCols, hist>>
     \/ /\ ByteLimit /\ buffered > 0        \* size estimate already above the byte limit: flush first
        /\ StartClose("bytes", "split")
        /\ UNCHANGED <<next, pending, todo, page, pages, dict, buffered, groups, hist>>

(* GenericColumnWriter::write_mini_batch of column c, then the page and     *)
(* dictionary limit checks                                                  *)
MiniBatch(c) ==
  /\ phase = "cols" /\ todo[c] # <<>>
  /\ \E m \in (IF SizeSplits THEN 1..Min(BatchSz, Len(todo[c])) ELSE {Min(BatchSz, Len(todo[c]))}) :
     LET pg == page[c] \o SubSeq(todo[c], 1, m) IN
     \E add \in (IF Len(pg) >= PageRows THEN {TRUE} ELSE IF SizeSplits THEN BOOLEAN ELSE {FALSE}) :
     \E fall \in (IF dict[c] = "on" /\ Fallback THEN BOOLEAN ELSE {FALSE}) :
       LET pages1 == IF add THEN Append(pages[c], Pg(c, pg, Enc(dict[c]))) ELSE pages[c]
           page1  == IF add THEN <<>> ELSE pg
           (* dict_fallback: the buffered page is written dictionary-encoded, later pages are plain *)
           pages2 == IF fall /\ page1 # <<>> THEN Append(pages1, Pg(c, page1, "dict")) ELSE pages1
           page2  == IF fall THEN <<>> ELSE page1
       IN /\ todo' = [todo EXCEPT ![c] = SubSeq(@, m + 1, Len(@))]
          /\ page' = [page EXCEPT ![c] = page2]
          /\ pages' = [pages EXCEPT ![c] = pages2]
          /\ dict' = [dict EXCEPT ![c] = IF fall THEN "fell" ELSE @]
  /\ UNCHANGED <<next, pending, buffered, groups, phase, ret, why, closedCols, hist>>

(* all column writers have taken the rows: should_flush, then the next      *)
(* iteration of the split loop or return                                    *)
ColsDone ==
  /\ phase = "cols" /\ \A c \in Cols : todo[c] = <<>>
  /\ LET full == MaxRG # 0 /\ buffered >= MaxRG
         after == IF pending # <<>> THEN "split" ELSE "idle"
     IN \/ full /\ StartClose("limit", after)
        \/ ~full /\ ByteLimit /\ StartClose("bytes", after)
        \/ ~full /\ phase' = after /\ UNCHANGED <<ret, why, closedCols>>
  /\ UNCHANGED <<next, pending, todo, page, pages, dict, buffered, groups, hist>>

(* ArrowWriter::flush(): a no-op without an in-progress row group           *)
Flush ==
  /\ phase = "idle" /\ NOps < MaxOps
  /\ hist' = Append(hist, <<"f", 0>>)
  /\ IF buffered = 0 THEN UNCHANGED <<phase, ret, why, closedCols>> ELSE StartClose("flush", "idle")
  /\ UNCHANGED <<next, pending, todo, page, pages, dict, buffered, groups>>

(* ArrowWriter::close() / finish()                                          *)
Close ==
  /\ phase = "idle"
  /\ hist' = Append(hist, <<"c", 0>>)
  /\ IF buffered = 0 THEN phase' = "closed" /\ UNCHANGED <<ret, why, closedCols>> ELSE StartClose("flush", "closed")
  /\ UNCHANGED <<next, pending, todo, page, pages, dict, buffered, groups>>

(* ArrowColumnWriter::close of column c: the open page becomes the last page *)
CloseCol(c) ==
  /\ phase = "closing" /\ c \notin closedCols
  /\ pages' = [pages EXCEPT ![c] = IF page[c] # <<>> THEN Append(@, Pg(c, page[c], Enc(dict[c]))) ELSE @]
  /\ page' = [page EXCEPT ![c] = <<>>]
  /\ closedCols' = closedCols \cup {c}
  /\ UNCHANGED <<next, pending, todo, dict, buffered, groups, phase, ret, why, hist>>

(* every chunk is closed: append_to_row_group in schema order, close group  *)
AppendGroup ==
  /\ phase = "closing" /\ closedCols = Cols
  /\ groups' = Append(groups, [why |-> why, cols |-> pages])
  /\ pages' = Empty /\ dict' = DictInit /\ buffered' = 0 /\ closedCols' = {}
  /\ phase' = ret
  /\ UNCHANGED <<next, pending, todo, page, ret, why, hist>>

Next ==
  \/ \E n \in 0..MaxBatch : Write(n)
  \/ Split
  \/ \E c \in Cols : MiniBatch(c)
  \/ ColsDone
  \/ Flush
  \/ Close
  \/ \E c \in Cols : CloseCol(c)
  \/ AppendGroup

Spec == Init /\ [][Next]_vars

(***************************************************************************)
(* The documented row-group partition as a closed form: what the sequence   *)
(* of API calls alone determines when only the row limit is set.  Used by   *)
(* trace validation; MC checks that the machine agrees with it.             *)
(***************************************************************************)
Rep(x, k) == [i \in 1..k |-> x]
(* sizes of the row groups closed, and rows left buffered, after `h`        *)
RECURSIVE Account(_, _, _, _)
Account(h, i, b, M) ==
  IF i > Len(h) THEN [sizes |-> <<>>, b |-> b]
  ELSE LET op == h[i]
           tot == b + op[2]
           emit == IF op[1] = "w"
                   THEN (IF M # 0 THEN Rep(M, tot \div M) ELSE <<>>)
                   ELSE (IF b > 0 THEN <<b>> ELSE <<>>)
           nb == IF op[1] = "w" THEN (IF M # 0 THEN tot % M ELSE tot) ELSE 0
           rest == Account(h, i + 1, nb, M)
       IN [sizes |-> emit \o rest.sizes, b |-> rest.b]
GroupSizes(h, M) == Account(h, 1, 0, M).sizes
BufferedAfter(h, M) == Account(h, 1, 0, M).b

(* consecutive blocks of 1..n with the given sizes                          *)
RECURSIVE Blocks(_, _)
Blocks(sizes, from) ==
  IF sizes = <<>> THEN <<>>
  ELSE <<[i \in 1..sizes[1] |-> from + i - 1]>> \o Blocks(Tail(sizes), from + sizes[1])

RECURSIVE SumSeq(_)
SumSeq(s) == IF s = <<>> THEN 0 ELSE Head(s) + SumSeq(Tail(s))

(***************************************************************************)
(* Invariants                                                               *)
(***************************************************************************)
AnyCol == CHOOSE c \in Cols : TRUE
ChunkRows(g, c) == RowsOf(g.cols[c])
GroupRows(g) == ChunkRows(g, AnyCol)

(* P1: in every column, closed groups ++ closed pages ++ open page ++ rows  *)
(* waiting for the column writer ++ rows waiting for a row group = the rows *)
(* written so far, in order                                                 *)
P1_RowsConserved ==
  \A c \in Cols :
    Flat([i \in 1..Len(groups) |-> ChunkRows(groups[i], c)]) \o RowsOf(pages[c]) \o page[c] \o todo[c] \o pending
      = [i \in 1..(next - 1) |-> i]

(* P2: row groups are never empty, never above the row limit, and exactly   *)
(* at it when the limit closed them; size-driven closes need the byte limit *)
P2_GroupSizes ==
  \A i \in 1..Len(groups) :
    LET n == Len(GroupRows(groups[i])) IN
    /\ n >= 1
    /\ MaxRG # 0 => n <= MaxRG
    /\ groups[i].why = "limit" => n = MaxRG
    /\ groups[i].why = "bytes" => ByteLimit
P2_Buffered ==
  /\ buffered = Len(RowsOf(pages[AnyCol])) + Len(page[AnyCol]) + Len(todo[AnyCol])
  /\ (MaxRG # 0 /\ phase \in {"idle", "split"}) => buffered < MaxRG

(* the number and sizes of the row groups are the documented ones           *)
P2_Documented ==
  (~ByteLimit /\ phase \in {"idle", "closed"}) =>
     /\ [i \in 1..Len(groups) |-> Len(GroupRows(groups[i]))] = GroupSizes(hist, MaxRG)
     /\ buffered = BufferedAfter(hist, MaxRG)

(* P3: all columns of a group hold the same rows; pages are non-empty and   *)
(* partition the chunk; P6: chunk c of the group was produced by writer c   *)
P3_Chunks ==
  \A i \in 1..Len(groups) : \A c \in Cols :
    /\ ChunkRows(groups[i], c) = GroupRows(groups[i])
    /\ \A p \in 1..Len(groups[i].cols[c]) :
         groups[i].cols[c][p].rows # <<>> /\ groups[i].cols[c][p].col = c
P3_OpenPages ==
  \A c \in Cols : \A p \in 1..Len(pages[c]) : pages[c][p].rows # <<>> /\ pages[c][p].col = c

(* P4: dictionary-encoded pages form a prefix of the chunk; a column without *)
(* dictionary has none; while the dictionary is on, every page uses it       *)
DictPrefix(pgs) == \A i, j \in 1..Len(pgs) : (i < j /\ pgs[i].enc = "plain") => pgs[j].enc = "plain"
P4_Dictionary ==
  /\ \A i \in 1..Len(groups) : \A c \in Cols :
       /\ DictPrefix(groups[i].cols[c])
       /\ c \notin DictCols => \A p \in 1..Len(groups[i].cols[c]) : groups[i].cols[c][p].enc = "plain"
  /\ \A c \in Cols :
       /\ DictPrefix(pages[c])
       /\ dict[c] = "on" => \A p \in 1..Len(pages[c]) : pages[c][p].enc = "dict"
       /\ dict[c] = "off" => \A p \in 1..Len(pages[c]) : pages[c][p].enc = "plain"

(* P5: close leaves nothing behind                                          *)
P5_Closed ==
  phase = "closed" =>
    /\ buffered = 0 /\ pending = <<>>
    /\ \A c \in Cols : todo[c] = <<>> /\ page[c] = <<>> /\ pages[c] = <<>>
    /\ Flat([i \in 1..Len(groups) |-> GroupRows(groups[i])]) = [i \in 1..(next - 1) |-> i]
(* ... and nothing happens after it                                         *)
P5_NoStepAfterClose == [][phase # "closed"]_vars
=============================================================================
