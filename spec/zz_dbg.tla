---- MODULE zz_dbg ----
EXTENDS Trace_TextFormats
ASSUME PrintT(<<"J", C!Join(Reshape(Rec[1].cells, Rec[1].ncols), Rec[1].w)>>)
ASSUME PrintT(<<"T", Rec[1].text>>)
ASSUME PrintT(<<"W", Rec[1].w, C!WFormatOk(Rec[1].w)>>)
====
