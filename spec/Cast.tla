-------------------------------- MODULE Cast --------------------------------
(***************************************************************************)
(* Casts of arrow-cast (C13).                                              *)
(*                                                                         *)
(* A data type of the exact families is the record [f, w, sg, p, s, u, tz] *)
(* (family, bit width, signedness, decimal precision / scale, time unit,   *)
(* time zone); values of these families are Bigs (BigNum), booleans 0/1.   *)
(*                                                                         *)
(* CastVal(a, b, v) = [ok, v]: the value of type b that the value v of     *)
(* type a is cast to, ok = FALSE when v is not representable in b.  The    *)
(* array-level laws (strict errs iff some valid row is not representable;  *)
(* safe nulls exactly those rows) are stated once, for every family, in    *)
(* Strict / Safe below.  Families whose value semantics is not integer     *)
(* arithmetic (floats, text, nested types, encodings) are covered by the   *)
(* relational laws K1..K6 of Trace_Cast.                                   *)
(*                                                                         *)
(* Semantics taken from the kernel documentation and code comments:        *)
(*  - integer -> integer: the value if it is in the target range           *)
(*  - decimal -> decimal: rescale, rounding half away from zero when the   *)
(*    scale shrinks; representable = fits the target precision             *)
(*  - integer -> decimal: multiply by 10^s (s >= 0), divide truncating     *)
(*    (s < 0); decimal -> integer: divide truncating (s >= 0), multiply    *)
(*  - temporal units: multiply (overflow = not representable) or divide    *)
(*    truncating towards zero ("precision lost")                           *)
(*  - timestamp -> date32 / time: calendar date / time of day in the       *)
(*    timestamp's fixed-offset zone (floor); None -> Some(zone): the local  *)
(*    time of that zone                                                     *)
(***************************************************************************)
EXTENDS Arith

Fail == [ok |-> FALSE, v |-> Zero]
Val(v) == [ok |-> TRUE, v |-> v]
InRange(w, sg, v) == IF BIn(w, sg, v) THEN Val(v) ELSE Fail

PerSecExp(u) == CASE u = "s" -> 0 [] u = "ms" -> 3 [] u = "us" -> 6 [] u = "ns" -> 9

(* 10^p > |v|                                                               *)
FitsPrecision(v, p) == MagCmp(v.d, MagPow10(p)) < 0

IsIntLike(t) == t.f \in {"int", "date32", "date64", "time32", "time64", "ts", "dur", "ym"}

(* fixed-offset zone "+hh:mm" / "-hh:mm" as seconds east of UTC; "" and      *)
(* "+00:00" = 0.  Zones are passed by the driver as offset seconds in the    *)
(* field tzo (the type record of a timestamp carries tz and tzo)             *)
DaySeconds == 86400

(* floor(x / (86400 * 10^e))                                                 *)
FloorDays(x, e) == FloorDivSmall(FloorDivPow10(x, e + 1), 8640)

(* chrono's NaiveDateTime range (-262143-01-01T00:00:00 .. 262142-12-31T23:59:59) in seconds *)
(* since the epoch: the conversions that go through calendar dates fail outside it            *)
(* the instant denoted by the value v of the temporal type a, in whole seconds                *)
InstantS(a, v) ==
  CASE a.f = "ts"     -> FloorDivPow10(v, PerSecExp(a.u))
    [] a.f = "date32" -> Mul(v, FromInt(86400))
    [] a.f = "date64" -> FloorDivPow10(v, 3)
(* casts that go through a calendar date / local time                                         *)
Calendar(a, b) ==
  \/ (a.f = "ts" /\ b.f = "ts" /\ a.tz = "" /\ b.tz # "")
  \/ (a.f \in {"date32", "date64"} /\ b.f = "ts" /\ b.tz # "")
  \/ (a.f = "ts" /\ b.f \in {"date32", "time32", "time64"})

(* --------------------------- the exact families -------------------------- *)
IntToInt(b, v) == InRange(b.w, b.sg, v)

IntToDec(a, b, v) ==
  LET y == IF b.s >= 0 THEN MulPow10(v, b.s) ELSE TruncDivPow10(v, -b.s)
  IN IF FitsPrecision(y, b.p) THEN Val(y) ELSE Fail

DecToInt(a, b, v) ==
  LET y == IF a.s >= 0 THEN TruncDivPow10(v, a.s) ELSE MulPow10(v, -a.s)
  IN InRange(b.w, b.sg, y)

DecToDec(a, b, v) ==
  LET y == IF b.s >= a.s THEN MulPow10(v, b.s - a.s) ELSE RoundDivPow10(v, a.s - b.s)
  IN IF FitsPrecision(y, b.p) THEN Val(y) ELSE Fail

(* value * 10^(eb - ea) units: multiply, or divide truncating                *)
Rescale(v, ea, eb, w) ==
  IF eb >= ea THEN InRange(w, 1, MulPow10(v, eb - ea)) ELSE InRange(w, 1, TruncDivPow10(v, ea - eb))

TsToTs(a, b, v) ==
  LET r == Rescale(v, PerSecExp(a.u), PerSecExp(b.u), 64) IN
  IF ~r.ok THEN Fail
  ELSE IF a.tz = "" /\ b.tz # ""            \* local time of the target zone, moved to UTC
       THEN InRange(64, 1, Sub(r.v, MulPow10(FromInt(b.tzo), PerSecExp(b.u))))
       ELSE r

CastVal0(a, b, v) ==
  CASE a.f = "int" /\ b.f = "int" -> IntToInt(b, v)
    [] a.f = "bool" /\ b.f = "int" -> Val(v)
    [] a.f = "int" /\ b.f = "bool" -> Val(IF IsZero(v) THEN Zero ELSE One)
    [] a.f = "int" /\ b.f = "dec" -> IntToDec(a, b, v)
    [] a.f = "dec" /\ b.f = "int" -> DecToInt(a, b, v)
    [] a.f = "dec" /\ b.f = "dec" -> DecToDec(a, b, v)
    [] a.f = "date32" /\ b.f = "date64" -> Val(Mul(v, FromInt(86400000)))
    [] a.f = "int" /\ a.w = 32 /\ b.f = "date64" -> Val(Mul(v, FromInt(86400000)))   \* via Date32 (days)
    [] a.f = "date64" /\ b.f = "date32" -> InRange(32, 1, TruncDivSmall(TruncDivPow10(v, 5), 864))
    [] a.f \in {"time32", "time64"} /\ b.f \in {"time32", "time64"} ->
         Rescale(v, PerSecExp(a.u), PerSecExp(b.u), b.w)
    [] a.f = "dur" /\ b.f = "dur" -> Rescale(v, PerSecExp(a.u), PerSecExp(b.u), 64)
    [] a.f = "ts" /\ b.f = "ts" -> TsToTs(a, b, v)
    [] a.f = "ts" /\ b.f = "date64" -> Rescale(v, PerSecExp(a.u), 3, 64)
    [] a.f = "ts" /\ b.f = "date32" ->
         InRange(32, 1, FloorDays(Add(v, MulPow10(FromInt(a.tzo), PerSecExp(a.u))), PerSecExp(a.u)))
    [] a.f = "ts" /\ b.f \in {"time32", "time64"} ->      \* time of day in the timestamp's zone
         LET e   == PerSecExp(a.u)
             loc == Add(v, MulPow10(FromInt(a.tzo), e))
             tod == Sub(loc, MulPow10(Mul(FloorDays(loc, e), FromInt(86400)), e))
         IN Rescale(tod, e, PerSecExp(b.u), b.w)
    [] a.f = "date32" /\ b.f = "ts" ->
         LET r == InRange(64, 1, MulPow10(Mul(v, FromInt(86400)), PerSecExp(b.u))) IN
         IF r.ok /\ b.tz # "" THEN InRange(64, 1, Sub(r.v, MulPow10(FromInt(b.tzo), PerSecExp(b.u)))) ELSE r
    [] a.f = "date64" /\ b.f = "ts" ->
         LET r == Rescale(v, 3, PerSecExp(b.u), 64) IN
         IF r.ok /\ b.tz # "" THEN InRange(64, 1, Sub(r.v, MulPow10(FromInt(b.tzo), PerSecExp(b.u)))) ELSE r
    (* temporal <-> backing integer and integers of another width: the value itself *)
    [] (IsIntLike(a) /\ b.f = "int") \/ (a.f = "int" /\ IsIntLike(b)) -> InRange(b.w, b.sg, v)

(* conversions through a calendar date / local time are defined for instants  *)
(* inside chrono's range only (temporal_conversions::as_datetime is None      *)
(* outside): such a value is not representable in the target                  *)
CastVal(a, b, v) ==
  IF Calendar(a, b) /\ ~InChronoS(InstantS(a, v)) THEN Fail ELSE CastVal0(a, b, v)

(* pairs of type records for which CastVal is defined                        *)
Exact(a, b) ==
  \/ a.f \in {"int", "bool"} /\ b.f \in {"int", "bool"} /\ ~(a.f = "bool" /\ b.f = "bool")
  \/ (a.f = "int" /\ b.f = "dec") \/ (a.f = "dec" /\ b.f = "int") \/ (a.f = "dec" /\ b.f = "dec")
  \/ (IsIntLike(a) /\ a.f # "int" /\ b.f = "int") \/ (a.f = "int" /\ IsIntLike(b) /\ b.f # "int")
  \/ (a.f = "date32" /\ b.f = "date64") \/ (a.f = "date64" /\ b.f = "date32")
  \/ a.f \in {"time32", "time64"} /\ b.f \in {"time32", "time64"}
  \/ a.f = "dur" /\ b.f = "dur"
  \/ a.f = "ts" /\ b.f \in {"ts", "date64", "date32", "time32", "time64"}
  \/ a.f \in {"date32", "date64"} /\ b.f = "ts"

(* a cast that loses nothing: its inverse gives the value back               *)
Lossless(a, b) ==
  \/ a.f = "int" /\ b.f = "int" /\
       (IF a.sg = b.sg THEN a.w <= b.w ELSE a.sg = 0 /\ a.w < b.w)
  \/ a.f = "bool" /\ b.f = "int"
  \/ a.f = "int" /\ b.f = "dec" /\ b.s >= 0 /\
       b.p - b.s >= (CASE a.w = 8 -> 3 [] a.w = 16 -> 5 [] a.w = 32 -> 10 [] a.w = 64 -> 20)
  \/ a.f = "dec" /\ b.f = "dec" /\ b.s >= a.s /\ b.p - b.s >= a.p - a.s
  \/ a.f = "date32" /\ b.f = "date64"
  \/ a.f = "time32" /\ b.f = "time64" /\ PerSecExp(b.u) >= PerSecExp(a.u)
  \/ a.f = "time64" /\ b.f = "time64" /\ PerSecExp(b.u) >= PerSecExp(a.u)

(* the integer a decimal denotes for an integer target (before the range check)               *)
DecIntValue(a, v) == IF a.s >= 0 THEN TruncDivPow10(v, a.s) ELSE MulPow10(v, -a.s)

(* ------------------------- text -> value (lexical) ------------------------ *)
(* A text is the sequence of its Unicode code points.  The languages are      *)
(* pinned from arrow-cast/src/parse.rs and cast/{string,decimal}.rs:          *)
(*  integers, durations (parser_primitive!): optional ASCII whitespace on     *)
(*    both sides, an optional sign '+' / '-', one or more decimal digits;     *)
(*    nothing else (in particular no '.', no exponent, no inner blank)        *)
(*  decimals (parse_string_to_decimal_native): optional Unicode whitespace    *)
(*    on both sides, an optional sign, digits with at most one '.', at least  *)
(*    one digit; fractional digits beyond the scale round half away from 0    *)
(*  booleans (cast_single_string_to_boolean): ASCII case-insensitive, Unicode *)
(*    whitespace trimmed: true yes on 1 / false no off 0 and their prefixes   *)
(*  times of day (string_to_time): H:MM | HH:MM | H:MM:SS | HH:MM:SS[.f+]     *)
(*    with an optional suffix " AM" / " PM" (any case), no surrounding        *)
(*    whitespace; otherwise a plain Rust integer literal (sign? digits)       *)
IsDigit(c) == c \in 48..57
AsciiWS == {9, 10, 12, 13, 32}                                  \* u8::is_ascii_whitespace
UnicodeWS == {9, 10, 11, 12, 13, 32, 133, 160, 5760, 8232, 8233, 8239, 8287, 12288} \cup 8192..8202   \* char::is_whitespace
MinOf(S) == CHOOSE x \in S : \A y \in S : x <= y
MaxOf(S) == CHOOSE x \in S : \A y \in S : x >= y
TrimBoth(s, W) ==
  LET keep == {i \in 1..Len(s) : s[i] \notin W}
  IN IF keep = {} THEN <<>> ELSE SubSeq(s, MinOf(keep), MaxOf(keep))
AllDigits(s) == \A i \in 1..Len(s) : IsDigit(s[i])
RECURSIVE DigitsMag(_, _, _)
DigitsMag(s, i, acc) ==          \* the number written by the digits s[i..]
  IF i > Len(s) THEN acc ELSE DigitsMag(s, i + 1, Add(MulSmall(acc, 10), FromInt(s[i] - 48)))
DigitsVal(s) == DigitsMag(s, 1, Zero)
HasSign(t) == t # <<>> /\ t[1] \in {43, 45}
Unsigned(t) == IF HasSign(t) THEN Tail(t) ELSE t
Signed(t, mag) == IF t # <<>> /\ t[1] = 45 THEN Neg(mag) ELSE mag

(* sign? digit+ : [ok, v]                                                     *)
PlainInt(t) ==
  LET body == Unsigned(t) IN
  IF body # <<>> /\ AllDigits(body) THEN Val(Signed(t, DigitsVal(body))) ELSE Fail

IntText(s) == PlainInt(TrimBoth(s, AsciiWS))

DecText(s, scale) ==
  LET t == TrimBoth(s, UnicodeWS)
      body == Unsigned(t)
      points == {i \in 1..Len(body) : body[i] = 46}
      digits == SelectSeq(body, IsDigit)
      okForm == /\ \A i \in 1..Len(body) : IsDigit(body[i]) \/ body[i] = 46
                /\ points = {} \/ (\E i \in points : points = {i})
                /\ digits # <<>>
  IN IF ~okForm THEN Fail
     ELSE LET f == IF points = {} THEN 0 ELSE Len(body) - MinOf(points)      \* fractional digits
              n == DigitsVal(digits)
              v == IF f <= scale THEN MulPow10(n, scale - f) ELSE RoundDivPow10(n, f - scale)
          IN Val(Signed(t, v))

Lower(c) == IF c \in 65..90 THEN c + 32 ELSE c
TrueWords == {<<116>>, <<116, 114>>, <<116, 114, 117>>, <<116, 114, 117, 101>>, <<121>>, <<121, 101>>,
              <<121, 101, 115>>, <<111, 110>>, <<49>>}
FalseWords == {<<102>>, <<102, 97>>, <<102, 97, 108>>, <<102, 97, 108, 115>>, <<102, 97, 108, 115, 101>>,
               <<110>>, <<110, 111>>, <<111, 102>>, <<111, 102, 102>>, <<48>>}
BoolText(s) ==
  LET t == TrimBoth([i \in 1..Len(s) |-> Lower(s[i])], UnicodeWS) IN
  IF t \in TrueWords THEN Val(One) ELSE IF t \in FalseWords THEN Val(Zero) ELSE Fail

(* nanoseconds since midnight; a second of 60 is the leap second 59 + 1 s      *)
D2(s, i) == (s[i] - 48) * 10 + (s[i + 1] - 48)
TimeNanos(s) ==
  LET n0 == Len(s)
      suffix == IF n0 >= 3 THEN <<s[n0 - 2], Lower(s[n0 - 1]), Lower(s[n0])>> ELSE <<>>
      am == suffix = <<32, 97, 109>>
      pm == suffix = <<32, 112, 109>>
      t == IF am \/ pm THEN SubSeq(s, 1, n0 - 3) ELSE s
      n == Len(t)
      hl == IF n >= 4 /\ t[2] = 58 THEN 1 ELSE IF n >= 4 /\ t[3] = 58 THEN 2 ELSE 0     \* hour digits
      r == IF hl = 0 THEN <<>> ELSE SubSeq(t, hl + 2, n)                                 \* after "H:" / "HH:"
      rn == Len(r)
      shape == /\ n0 >= 4 /\ hl > 0 /\ rn >= 2
               /\ \A i \in 1..hl : IsDigit(t[i])
               /\ IsDigit(r[1]) /\ IsDigit(r[2])
               /\ \/ rn = 2
                  \/ /\ rn >= 5 /\ r[3] = 58 /\ IsDigit(r[4]) /\ IsDigit(r[5])
                     /\ \/ rn = 5
                        \/ rn >= 7 /\ r[6] = 46 /\ AllDigits(SubSeq(r, 7, rn))
  IN IF ~shape THEN Fail
     ELSE LET h0 == IF hl = 1 THEN t[1] - 48 ELSE D2(t, 1)
              mi == D2(r, 1)
              se == IF rn >= 5 THEN D2(r, 4) ELSE 0
              fr == IF rn >= 7 THEN SubSeq(r, 7, Min2(rn, 15)) ELSE <<>>                 \* at most 9 digits count
              frn == IF fr = <<>> THEN Zero ELSE MulPow10(DigitsVal(fr), 9 - Len(fr))
              hok == IF am \/ pm THEN h0 \in 1..12 ELSE h0 <= 23
              h == IF am THEN (IF h0 = 12 THEN 0 ELSE h0) ELSE IF pm THEN (IF h0 = 12 THEN 12 ELSE h0 + 12) ELSE h0
          IN IF hok /\ mi <= 59 /\ se <= 60
             THEN Val(Add(MulPow10(FromInt(h * 3600 + mi * 60 + se), 9), frn))
             ELSE Fail
TimeText(b, s) ==
  LET r == TimeNanos(s) IN
  IF r.ok THEN Val(TruncDivPow10(r.v, 9 - PerSecExp(b.u)))
  ELSE LET p == PlainInt(s) IN IF p.ok THEN InRange(b.w, 1, p.v) ELSE Fail

(* the value of type b a text denotes, Fail = not in the language or not       *)
(* representable                                                               *)
TextVal(b, s) ==
  CASE b.f \in {"int", "dur"} -> LET r == IntText(s) IN IF r.ok THEN InRange(b.w, b.sg, r.v) ELSE Fail
    [] b.f = "dec" -> LET r == DecText(s, b.s) IN IF r.ok /\ FitsPrecision(r.v, b.p) THEN r ELSE Fail
    [] b.f = "bool" -> BoolText(s)
    [] b.f \in {"time32", "time64"} -> TimeText(b, s)

(* ------------------------------ array level ------------------------------ *)
(* strict mode: an error iff some valid row is not representable             *)
StrictErr(a, b, vals, valid) ==
  \E i \in 1..Len(vals) : valid[i] = 1 /\ ~CastVal(a, b, FromWire(vals[i])).ok

RowOK(a, b, vals, valid, i) == valid[i] = 1 /\ CastVal(a, b, FromWire(vals[i])).ok
=============================================================================
