SPECIFICATION MCSpec
CONSTANTS
  NoDict = NoDict
  Kinds = {"file", "stream"}
  Handlings = {"resend", "delta"}
  NDs = {1, 2}
  Vals = {"a", "b"}
  MaxLen = 2
  MaxWrites = 4
  ContinueAfterError = TRUE
  Rich = FALSE
INVARIANTS R1_RoundTrip R1s_StreamExact R2_FileNoReplacement R3_OneMessagePerAcceptedBatch I_Order I_Sync I_Refusals
CHECK_DEADLOCK FALSE
