------------------------------- MODULE Stats -------------------------------
(***************************************************************************)
(* Parquet statistics, page indexes and bloom filters (property C07):       *)
(* what a reported quantity must satisfy with respect to the values it      *)
(* covers, so that pruning with it never excludes present data.             *)
(*                                                                         *)
(* Values and bounds are order keys (Order.tla, written by vcore::key):     *)
(* signed and unsigned integers, decimals of any physical type, temporal    *)
(* types as integers ("i" / sign-magnitude "sm"), floats as sign-magnitude  *)
(* of the IEEE bit pattern (so that CmpNN *is* IEEE-754 totalOrder, the     *)
(* order the crate uses for FLOAT / DOUBLE / FLOAT16 columns, -0 < +0),     *)
(* strings / binary / fixed size binary as byte strings under the unsigned  *)
(* lexicographic order, booleans as 0 / 1.  [k |-> "~"] is a null value or  *)
(* an absent statistic.  `fw` is the float width (16, 32, 64) or 0.         *)
(*                                                                         *)
(* Column orders: every order above is "the column's sort order" of the     *)
(* logical type; INTERVAL (and INT96 under the type-defined order) has no   *)
(* defined order: no min / max may be reported (ord = "none").              *)
(***************************************************************************)
EXTENDS Order, Truncate

NoKey == [k |-> "~"]
Absent(x) == x.k = "~"

(* magnitude (bits below the sign) of infinity, as the key's 16-bit limbs   *)
InfMag(fw) == CASE fw = 16 -> <<31744>> [] fw = 32 -> <<32640, 0>> [] fw = 64 -> <<32752, 0, 0, 0>>
IsNaN(x, fw) == fw # 0 /\ x.k = "sm" /\ LexInts(x.m, InfMag(fw), 1) > 0

KCmp(a, b) == CmpNN(a, b, DefaultOpt)
KLeq(a, b) == KCmp(a, b) <= 0

NonNull(vals) == SelectSeq(vals, LAMBDA v : v.k # "~")
Reals(vals, fw) == SelectSeq(NonNull(vals), LAMBDA v : ~IsNaN(v, fw))
NullCount(vals) == Len(vals) - Len(NonNull(vals))
NaNCount(vals, fw) == Len(NonNull(vals)) - Len(Reals(vals, fw))

(***************************************************************************)
(* B1  min <= every non-null non-NaN value <= max; a NaN is never a bound   *)
(*     while a non-NaN value exists; bounds of a NaN-only set are NaNs.     *)
(***************************************************************************)
BoundsHold(min, max, vals, fw) ==
  LET nn == NonNull(vals)
      r == Reals(vals, fw)
  IN IF r # <<>>
     THEN /\ ~IsNaN(min, fw) /\ ~IsNaN(max, fw)
          /\ \A i \in 1..Len(r) : KLeq(min, r[i]) /\ KLeq(r[i], max)
     ELSE nn # <<>> => (IsNaN(min, fw) /\ IsNaN(max, fw))
LowerHolds(min, vals, fw) ==
  LET r == Reals(vals, fw) IN
  IF r # <<>> THEN ~IsNaN(min, fw) /\ \A i \in 1..Len(r) : KLeq(min, r[i])
  ELSE NonNull(vals) # <<>> => IsNaN(min, fw)
UpperHolds(max, vals, fw) ==
  LET r == Reals(vals, fw) IN
  IF r # <<>> THEN ~IsNaN(max, fw) /\ \A i \in 1..Len(r) : KLeq(r[i], max)
  ELSE NonNull(vals) # <<>> => IsNaN(max, fw)

(* B2  a bound flagged exact is attained                                    *)
Attained(x, vals) == \E i \in 1..Len(vals) : vals[i].k # "~" /\ KCmp(x, vals[i]) = 0

(* a reported pair [min, max, minx, maxx] (absent bounds are NoKey)         *)
PairOk(min, max, minx, maxx, vals, fw, ord, utf8) ==
  /\ ord = "none" => (Absent(min) /\ Absent(max))               \* no defined order: no bounds
  /\ ~Absent(min) => /\ LowerHolds(min, vals, fw)
                     /\ minx => Attained(min, vals)
                     /\ utf8 => Valid(min.m)                    \* truncation keeps strings valid
  /\ ~Absent(max) => /\ UpperHolds(max, vals, fw)
                     /\ maxx => Attained(max, vals)
                     /\ utf8 => Valid(max.m)

(* B3  counts are exact when reported (-1 = not reported)                   *)
CountOk(reported, actual) == reported = (0 - 1) \/ reported = actual
DistinctValues(vals) ==
  LET nn == NonNull(vals) IN
  Cardinality({i \in 1..Len(nn) : \A j \in 1..(i - 1) : nn[j] # nn[i]})

(***************************************************************************)
(* B4  boundary order of the column index over the pages that hold a value. *)
(*     mins / maxs / nullpage: one entry per page.                          *)
(***************************************************************************)
ValuePages(nullpage) == SelectSeq([i \in 1..Len(nullpage) |-> i], LAMBDA i : ~nullpage[i])
BoundaryOk(order, mins, maxs, nullpage) ==
  LET vp == ValuePages(nullpage) IN
  CASE order = "ASCENDING" ->
         \A k \in 1..(Len(vp) - 1) : KLeq(mins[vp[k]], mins[vp[k + 1]]) /\ KLeq(maxs[vp[k]], maxs[vp[k + 1]])
    [] order = "DESCENDING" ->
         \A k \in 1..(Len(vp) - 1) : KLeq(mins[vp[k + 1]], mins[vp[k]]) /\ KLeq(maxs[vp[k + 1]], maxs[vp[k]])
    [] OTHER -> TRUE                                            \* UNORDERED claims nothing

(***************************************************************************)
(* B5  offset index: page i starts at the row where the pages before it     *)
(*     end; the byte ranges are inside the chunk, ascending, disjoint.      *)
(***************************************************************************)
RECURSIVE SumTo(_, _)
SumTo(s, n) == IF n = 0 THEN 0 ELSE s[n] + SumTo(s, n - 1)
OffsetIndexOk(firsts, offs, sizes, prows, rows, start, clen) ==
  /\ Len(firsts) = Len(prows) /\ Len(offs) = Len(prows) /\ Len(sizes) = Len(prows)
  /\ \A i \in 1..Len(prows) : firsts[i] = SumTo(prows, i - 1)
  /\ SumTo(prows, Len(prows)) = rows
  /\ \A i \in 1..Len(offs) : sizes[i] > 0 /\ offs[i] >= start /\ offs[i] + sizes[i] <= start + clen
  /\ \A i \in 1..(Len(offs) - 1) : offs[i] + sizes[i] <= offs[i + 1]

(* B6  every written value tests positive                                   *)
BloomOk(probes) == \A i \in 1..Len(probes) : probes[i]

(***************************************************************************)
(* The writer's running statistics, as documented (update_min / update_max, *)
(* get_min_max; boundary flags of update_column_offset_index): used by the  *)
(* page machine of MC_Stats, which checks that these rules yield B1 - B4.   *)
(***************************************************************************)
UpdMin(cur, v, fw) ==
  IF Absent(cur) THEN v
  ELSE IF ~IsNaN(cur, fw) /\ IsNaN(v, fw) THEN cur
  ELSE IF IsNaN(cur, fw) /\ ~IsNaN(v, fw) THEN v
  ELSE IF KCmp(cur, v) > 0 THEN v ELSE cur
UpdMax(cur, v, fw) ==
  IF Absent(cur) THEN v
  ELSE IF ~IsNaN(cur, fw) /\ IsNaN(v, fw) THEN cur
  ELSE IF IsNaN(cur, fw) /\ ~IsNaN(v, fw) THEN v
  ELSE IF KCmp(v, cur) > 0 THEN v ELSE cur
RECURSIVE FoldMin(_, _, _, _), FoldMax(_, _, _, _)
FoldMin(vals, i, cur, fw) ==
  IF i > Len(vals) THEN cur
  ELSE FoldMin(vals, i + 1, IF vals[i].k = "~" THEN cur ELSE UpdMin(cur, vals[i], fw), fw)
FoldMax(vals, i, cur, fw) ==
  IF i > Len(vals) THEN cur
  ELSE FoldMax(vals, i + 1, IF vals[i].k = "~" THEN cur ELSE UpdMax(cur, vals[i], fw), fw)
MinOf(vals, fw) == FoldMin(vals, 1, NoKey, fw)
MaxOf(vals, fw) == FoldMax(vals, 1, NoKey, fw)
=============================================================================
