---------------------------- MODULE Gen_Untrusted ----------------------------
(***************************************************************************)
(* spec -> impl (GEN) for C08: TLC enumerates every structural corruption  *)
(* plan (Untrusted!PlansFor) for the region map of every real base file.   *)
(* The region maps ("shapes") are written by the harness (`c08 shapes`,    *)
(* one JSON object per file: f = file index, fmt, n = length, focus = ""   *)
(* or the only region kind that gets plans, regs = the regions              *)
(* [k, g, w, e]) and read here from the file named by the          *)
(* environment variable SHAPES.  One CASE line is printed per plan; the    *)
(* harness (`c08 gen`) applies each plan to the file it was enumerated     *)
(* for, runs the safe readers of the format over the result and records    *)
(* the session for Trace_Untrusted.  Plan semantics: Untrusted.tla.        *)
(*                                                                         *)
(* ManyLimit / Stride let the quick tier thin the plans of the kinds that   *)
(* have very many regions in a file (the thrift varints of a Parquet       *)
(* footer, the buffer descriptors of an IPC message): those get the        *)
(* `Reduced` plan set on every Stride-th region.  The thorough tier        *)
(* enumerates everything.                                                  *)
(***************************************************************************)
EXTENDS Untrusted, TLC, Json, IOUtils

CONSTANTS ManyLimit,      \* a file with more than ManyLimit regions of one kind gets the reduced plan set for that kind ...
          Stride          \* ... on every Stride-th region of that kind only

Files == ndJsonDeserialize(IOEnv.SHAPES)

VARIABLES fi, plan
vars == <<fi, plan>>

KindCount(S, k) == Cardinality({i \in 1..Len(S) : S[i].k = k})

(* donors: the other files of the same format that have a region of the kind *)
DonorsOf(i, k) == {j \in 1..Len(Files) : j # i /\ Files[j].fmt = Files[i].fmt /\ \E q \in 1..Len(Files[j].regs) : Files[j].regs[q].k = k}
FirstDonor(i, k) == LET ds == DonorsOf(i, k) IN IF ds = {} THEN {} ELSE {CHOOSE d \in ds : \A x \in ds : d <= x}

(* reduced plan set for crowded kinds: the strongest representative of each class *)
Reduced(p) ==
  \/ p.op = "inflate" /\ p.arg \in {"i31", "neg", "x2"} /\ ~p.fix
  \/ p.op = "inflate" /\ p.arg = "i31" /\ p.fix
  \/ p.op = "set" /\ p.arg = "255" /\ p.sel = "first"
  \/ p.op = "flip" /\ p.arg = "hi" /\ p.sel = "last"
  \/ p.op = "trunc" /\ p.sel = "hi" /\ p.d = -1
  \/ p.op = "drop"
  \/ p.op = "bump" /\ p.arg \in {"len", "p5"}

PlansOfFile(i) ==
  LET S == Files[i].regs IN
  UNION { LET all == PlansFor(S, r, FirstDonor(i, S[r].k)) IN
          IF Files[i].focus # "" THEN all           \* never thinned: these regions are what the file is for
          ELSE IF KindCount(S, S[r].k) > ManyLimit
            THEN (IF r % Stride = 0 THEN {p \in all : Reduced(p)} ELSE {})
            ELSE all
          : r \in {q \in 1..Len(S) : Files[i].focus = "" \/ S[q].k = Files[i].focus} }

Init == fi = 0 /\ plan = P("none", "", "", 0, FALSE, 1, 0)
Next == fi = 0 /\ \E i \in 1..Len(Files) : \E p \in PlansOfFile(i) : fi' = i /\ plan' = p
Spec == Init /\ [][Next]_vars

Emit ==
  fi > 0 =>
    LET F == Files[fi]
        R == F.regs[plan.r]
    IN PrintT("CASE " \o ToJson([f |-> F.f, fmt |-> F.fmt, r |-> plan.r, k |-> R.k, w |-> R.w, op |-> plan.op, arg |-> plan.arg,
                                 sel |-> plan.sel, d |-> plan.d, fix |-> plan.fix,
                                 donor |-> IF plan.donor = 0 THEN 0 ELSE Files[plan.donor].f + 1]))
=============================================================================
