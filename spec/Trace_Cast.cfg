SPECIFICATION Spec
CONSTANT LimbDigits = 4
POSTCONDITION AllConsumed
CHECK_DEADLOCK FALSE
