SPECIFICATION Spec
CONSTANTS
  MaxLaw = 6
INVARIANTS Laws
CHECK_DEADLOCK FALSE
