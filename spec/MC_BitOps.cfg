SPECIFICATION Spec
CONSTANTS
  MaxLaw = 6
  MaxBits = 10
  MaxArg = 3
INVARIANTS Laws B_Refines B_ByteLen B_PadZero
CHECK_DEADLOCK FALSE
