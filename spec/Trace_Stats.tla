----------------------------- MODULE Trace_Stats -----------------------------
(***************************************************************************)
(* impl -> spec (C07): metadata read back from files written by the real    *)
(* writer, one episode per column chunk:                                    *)
(*   new    the column: sort order, float width, UTF-8 or not               *)
(*   page   one data page: the values decoded from that page alone (order   *)
(*          keys, nulls included: one entry per level), its rows, and what  *)
(*          is reported about it: the column index entry, the page header   *)
(*          statistics, the offset index entry, the StatisticsConverter's   *)
(*          page-level outputs                                              *)
(*   chunk  what is reported about the column chunk: footer statistics,     *)
(*          exactness flags, counts, boundary order, bloom filter probes of  *)
(*          every value, the StatisticsConverter's row-group outputs.       *)
(* TLC accumulates the values of the pages and judges every reported        *)
(* quantity with the operators of Stats.tla (B1 - B7).                      *)
(***************************************************************************)
EXTENDS Stats, TraceBase

VARIABLES l,
          col,     \* [ord, fw, utf8, badec, rep, dictin, tci] of the open chunk
          cvals,   \* values of the pages seen so far
          pidx,    \* per page: [ci, min, max, nullpage] (column index entries)
          prows,   \* per page: rows
          ploc     \* per page: [first, off, size]

vars == <<l, col, cvals, pidx, prows, ploc>>

Init == l = 1 /\ col = [ord |-> "signed", fw |-> 0, utf8 |-> FALSE, badec |-> FALSE, rep |-> FALSE, dictin |-> FALSE, tci |-> 0] /\ cvals = <<>> /\ pidx = <<>>
        /\ prows = <<>> /\ ploc = <<>>

New(ev) ==
  /\ col' = [ord |-> ev.ord, fw |-> ev.fw, utf8 |-> ev.utf8, badec |-> ev.badec, rep |-> ev.rep, dictin |-> ev.dictin, tci |-> ev.tci]
  /\ cvals' = <<>> /\ pidx' = <<>> /\ prows' = <<>> /\ ploc' = <<>>

(* a reported [min, max, exact flags, null count] against the values vs     *)
Reported(min, max, minx, maxx, nulls, vs) ==
  /\ PairOk(min, max, minx, maxx, vs, col.fw, col.ord, col.utf8)
  /\ CountOk(nulls, NullCount(vs))

(***************************************************************************)
(* Known findings (known_findings.txt).                                     *)
(* DECIMAL stored as BYTE_ARRAY: the writer's comparison of two values of    *)
(* unequal byte length is wrong (identified by: a BYTE_ARRAY decimal column  *)
(* and values of different encoded lengths among those covered).            *)
(* Repeated (list) columns: the column index marks a page as a null page when *)
(* its number of rows equals its number of null values (identified by: a     *)
(* repeated column, a page flagged null page that holds values, rows = nulls). *)
(***************************************************************************)
(* Dictionary input with write_row_group_number_distinct_values: the writer  *)
(* counts distinct dictionary *keys* (identified by: an Arrow dictionary      *)
(* column and a reported distinct count).                                    *)
KFDistinct(ev) == IF col.dictin /\ ev.distinct >= 0 THEN "C07-distinct-count-of-dictionary-keys" ELSE ""
(* UTF-8 column with column_index_truncate_length: the boundary order is      *)
(* decided on the untruncated bounds, but character-boundary truncation is    *)
(* not monotone (identified by: a UTF-8 column, a truncation length, a        *)
(* declared ASCENDING / DESCENDING order).                                    *)
KFBoundary(ev) ==
  IF col.badec /\ ev.mixedlen THEN "C07-byte-array-decimal-unequal-length-order"
  ELSE IF col.utf8 /\ col.tci > 0 /\ ev.order \in {"ASCENDING", "DESCENDING"}
       THEN "C07-boundary-order-lost-by-utf8-truncation"
  ELSE ""
KF(ev) ==
  IF col.badec /\ ev.mixedlen THEN "C07-byte-array-decimal-unequal-length-order"
  ELSE IF ev.op = "page" /\ col.rep /\ ev.ci /\ ev.nullpage /\ ev.rows = ev.nulls /\ NonNull(ev.vals) # <<>>
       THEN "C07-null-page-flag-counts-rows-against-null-values"
  ELSE ""

Page(ev) ==
  /\ JudgeKF(ev.ci => (/\ Reported(ev.min, ev.max, FALSE, FALSE, ev.nulls, ev.vals)
                       /\ ev.nullpage => NonNull(ev.vals) = <<>>
                       /\ ~ev.nullpage => (NonNull(ev.vals) # <<>> /\ ~Absent(ev.min) /\ ~Absent(ev.max))),
             l, "column index entry", KF(ev))
  /\ JudgeKF(ev.hs => Reported(ev.hmin, ev.hmax, ev.hminx, ev.hmaxx, ev.hnulls, ev.vals), l, "page header statistics", KF(ev))
  /\ JudgeKF(ev.cv => (/\ Reported(ev.cvmin, ev.cvmax, FALSE, FALSE, ev.cvnulls, ev.vals)
                       /\ CountOk(ev.cvrows, ev.rows)),
             l, "StatisticsConverter page values", KF(ev))
  /\ cvals' = cvals \o ev.vals
  /\ pidx' = Append(pidx, [ci |-> ev.ci, min |-> ev.min, max |-> ev.max, nullpage |-> ev.nullpage])
  /\ prows' = Append(prows, ev.rows)
  /\ ploc' = Append(ploc, [first |-> ev.first, off |-> ev.off, size |-> ev.size])
  /\ UNCHANGED col

AllCi == \A i \in 1..Len(pidx) : pidx[i].ci

ChunkStatsOk(ev) ==
  /\ ev.nv = Len(cvals) /\ ev.rows = SumTo(prows, Len(prows))
  /\ ev.has => (/\ Reported(ev.min, ev.max, ev.minx, ev.maxx, ev.nulls, cvals)
                /\ CountOk(ev.nan, NaNCount(cvals, col.fw)))
ChunkConvOk(ev) ==
  ev.cv => (/\ Reported(ev.cvmin, ev.cvmax, ev.cvminx, ev.cvmaxx, ev.cvnulls, cvals)
            /\ CountOk(ev.cvrows, ev.rows)
            /\ CountOk(ev.cvnan, NaNCount(cvals, col.fw))
            /\ CountOk(ev.cvdistinct, DistinctValues(cvals)))
ChunkBoundaryOk(ev) ==
  (ev.order # "NONE" /\ AllCi) =>
     BoundaryOk(ev.order, [i \in 1..Len(pidx) |-> pidx[i].min], [i \in 1..Len(pidx) |-> pidx[i].max],
                [i \in 1..Len(pidx) |-> pidx[i].nullpage])
ChunkOffsetsOk(ev) ==
  ev.hasoi => OffsetIndexOk([i \in 1..Len(ploc) |-> ploc[i].first], [i \in 1..Len(ploc) |-> ploc[i].off],
                            [i \in 1..Len(ploc) |-> ploc[i].size], prows, ev.rows, ev.start, ev.clen)

Chunk(ev) ==
  /\ JudgeKF(ChunkStatsOk(ev), l, "chunk statistics", KF(ev))
  /\ JudgeKF(ev.has => CountOk(ev.distinct, DistinctValues(cvals)), l, <<"distinct_count", ev.distinct>>, KFDistinct(ev))
  /\ JudgeKF(ChunkBoundaryOk(ev), l, <<"boundary order", ev.order>>, KFBoundary(ev))
  /\ Judge(ChunkOffsetsOk(ev), l, "offset index")
  /\ Judge(ev.hasbloom => (Len(ev.bloom) = Len(NonNull(cvals)) /\ BloomOk(ev.bloom)), l, "bloom filter misses a written value")
  /\ JudgeKF(ChunkConvOk(ev), l, "StatisticsConverter row group values", KF(ev))
  /\ UNCHANGED <<col, cvals, pidx, prows, ploc>>

Next ==
  /\ l <= Len(Rec)
  /\ l' = l + 1
  /\ LET ev == Rec[l] IN
     CASE ev.op = "new"   -> New(ev)
       [] ev.op = "page"  -> Page(ev)
       [] ev.op = "chunk" -> Chunk(ev)

Spec == Init /\ [][Next]_vars
=============================================================================
