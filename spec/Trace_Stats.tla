----------------------------- MODULE Trace_Stats -----------------------------
(***************************************************************************)
(* impl -> spec (C07): metadata read back from files written by the real    *)
(* writer, one episode per column chunk:                                    *)
(*   new    the column: sort order, float width, UTF-8 or not               *)
(*   page   one data page: the values decoded from that page alone (order   *)
(*          keys, nulls included: one entry per level), its rows, and what  *)
(*          is reported about it: the column index entry, the page header   *)
(*          statistics, the offset index entry, the StatisticsConverter's   *)
(*          page-level outputs                                              *)
(*   chunk  what is reported about the column chunk: footer statistics,     *)
(*          exactness flags, counts, boundary order, bloom filter probes of  *)
(*          every value, the StatisticsConverter's row-group outputs.       *)
(* TLC accumulates the values of the pages and judges every reported        *)
(* quantity with the operators of Stats.tla (B1 - B7).                      *)
(***************************************************************************)
EXTENDS Stats, TraceBase

VARIABLES l,
          col,     \* [ord, fw, utf8, badec, rep, dictin, tci] of the open chunk
          cvals,   \* values of the pages seen so far
          pidx,    \* per page: [ci, min, max, nullpage] (column index entries)
          prows,   \* per page: rows
          ploc,    \* per page: [first, off, size]
          bmins,   \* BYTE_ARRAY decimals: per page that holds a value, [raw, key] of the minimum / maximum
          bmaxs    \*   the current comparison code arrives at (see "Known findings")

vars == <<l, col, cvals, pidx, prows, ploc, bmins, bmaxs>>

Init == l = 1 /\ col = [ord |-> "signed", fw |-> 0, utf8 |-> FALSE, badec |-> FALSE, rep |-> FALSE, dictin |-> FALSE, tci |-> 0] /\ cvals = <<>> /\ pidx = <<>>
        /\ prows = <<>> /\ ploc = <<>> /\ bmins = <<>> /\ bmaxs = <<>>

New(ev) ==
  /\ col' = [ord |-> ev.ord, fw |-> ev.fw, utf8 |-> ev.utf8, badec |-> ev.badec, rep |-> ev.rep, dictin |-> ev.dictin, tci |-> ev.tci]
  /\ cvals' = <<>> /\ pidx' = <<>> /\ prows' = <<>> /\ ploc' = <<>> /\ bmins' = <<>> /\ bmaxs' = <<>>

(* a reported [min, max, exact flags, null count] against the values vs     *)
Reported(min, max, minx, maxx, nulls, vs) ==
  /\ PairOk(min, max, minx, maxx, vs, col.fw, col.ord, col.utf8)
  /\ CountOk(nulls, NullCount(vs))

(***************************************************************************)
(* Known findings (known_findings.txt).                                     *)
(*                                                                         *)
(* 1. DECIMAL stored as BYTE_ARRAY.  BuggyGreater transcribes the current    *)
(* compare_greater_byte_array_decimals (column/writer/mod.rs:1867-1910): for *)
(* two values of unequal length whose longer one starts with pure sign       *)
(* extension it compares the tails a[2..] and b[2..] although they are not   *)
(* aligned.  The writer folds the values of a page one by one (write batch   *)
(* size 1 in the driver) and the pages of a chunk one by one with this       *)
(* comparison; a wrong bound is KNOWN only if it is exactly the bound this   *)
(* fold arrives at (and the boundary order exactly the order these           *)
(* comparisons yield) -- any other wrong result of the same code is rejected. *)
(***************************************************************************)
Signed8(x) == IF x >= 128 THEN x - 256 ELSE x
BuggyGreater(a, b) ==
  IF Len(a) = 0 \/ Len(b) = 0 THEN Len(a) > 0
  ELSE LET nega == a[1] >= 128
           negb == b[1] >= 128
       IN IF nega # negb \/ (Len(a) = Len(b) /\ a[1] # b[1]) THEN Signed8(a[1]) > Signed8(b[1])
          ELSE LET ext == IF nega THEN 255 ELSE 0
                   longer == IF Len(a) > Len(b) THEN a ELSE b
                   lead == IF Len(a) > Len(b) THEN Len(a) - Len(b) ELSE Len(b) - Len(a)
               IN IF Len(a) # Len(b) /\ (\E i \in 1..lead : longer[i] # ext)
                  THEN (IF nega THEN ~(Len(a) > Len(b)) ELSE Len(a) > Len(b))
                  ELSE BytesCmp(Tail(a), Tail(b)) > 0

(* index of the minimum / maximum the sequential fold arrives at; `at(i)` is the stored bytes of entry i *)
RECURSIVE BugMinFrom(_, _, _, _), BugMaxFrom(_, _, _, _)
BugMinFrom(at(_), n, i, cur) == IF i > n THEN cur ELSE BugMinFrom(at, n, i + 1, IF BuggyGreater(at(cur), at(i)) THEN i ELSE cur)
BugMaxFrom(at(_), n, i, cur) == IF i > n THEN cur ELSE BugMaxFrom(at, n, i + 1, IF BuggyGreater(at(i), at(cur)) THEN i ELSE cur)

(* page: the reported pair is what the fold over the page's stored values gives *)
PageBugMin(ev) == BugMinFrom(LAMBDA i : ev.raw[i], Len(ev.raw), 2, 1)
PageBugMax(ev) == BugMaxFrom(LAMBDA i : ev.raw[i], Len(ev.raw), 2, 1)
PageBugPair(ev, min, max) ==
  LET nn == NonNull(ev.vals) IN
  /\ ev.raw # <<>> /\ Len(ev.raw) = Len(nn) /\ ~Absent(min) /\ ~Absent(max)
  /\ KCmp(min, nn[PageBugMin(ev)]) = 0 /\ KCmp(max, nn[PageBugMax(ev)]) = 0
(* chunk: the fold over the pages' (buggy) minima / maxima *)
ChunkBugPair(min, max) ==
  /\ bmins # <<>> /\ ~Absent(min) /\ ~Absent(max)
  /\ KCmp(min, bmins[BugMinFrom(LAMBDA i : bmins[i].raw, Len(bmins), 2, 1)].key) = 0
  /\ KCmp(max, bmaxs[BugMaxFrom(LAMBDA i : bmaxs[i].raw, Len(bmaxs), 2, 1)].key) = 0
(* boundary order as update_column_offset_index derives it with this comparison *)
BugOrder ==
  LET n == Len(bmins)
      asc == \A k \in 1..(n - 1) : ~(BuggyGreater(bmins[k].raw, bmins[k + 1].raw) \/ BuggyGreater(bmaxs[k].raw, bmaxs[k + 1].raw))
      desc == \A k \in 1..(n - 1) : ~(BuggyGreater(bmins[k + 1].raw, bmins[k].raw) \/ BuggyGreater(bmaxs[k + 1].raw, bmaxs[k].raw))
  IN IF asc THEN "ASCENDING" ELSE IF desc THEN "DESCENDING" ELSE "UNORDERED"
BADEC == "C07-byte-array-decimal-unequal-length-order"

(***************************************************************************)
(* 2. Repeated (list) columns: the column index marks a page as a null page  *)
(* when its number of rows equals its number of null values (identified by:  *)
(* a repeated column, a page flagged null page that holds values, rows =     *)
(* nulls).                                                                   *)
(* 3. Dictionary input with write_row_group_number_distinct_values: the      *)
(* writer counts distinct dictionary *keys* (identified by: an Arrow          *)
(* dictionary column and a reported distinct count).                         *)
(* 4. UTF-8 column with column_index_truncate_length: the boundary order is   *)
(* decided on the untruncated bounds, but character-boundary truncation is    *)
(* not monotone (identified by: a UTF-8 column, a truncation length, a        *)
(* declared ASCENDING / DESCENDING order).                                    *)
(***************************************************************************)
KFDistinct(ev) == IF col.dictin /\ ev.distinct >= 0 THEN "C07-distinct-count-of-dictionary-keys" ELSE ""
KFNullPage(ev) ==
  IF col.rep /\ ev.ci /\ ev.nullpage /\ ev.rows = ev.nulls /\ NonNull(ev.vals) # <<>>
  THEN "C07-null-page-flag-counts-rows-against-null-values" ELSE ""

(* the conditions on a page, with the judgement of a [min, max] pair as a parameter *)
CiCond(ev, P(_, _, _, _)) ==
  ev.ci => (/\ P(ev.min, ev.max, FALSE, FALSE) /\ CountOk(ev.nulls, NullCount(ev.vals))
            /\ ev.nullpage => NonNull(ev.vals) = <<>>
            /\ ~ev.nullpage => (NonNull(ev.vals) # <<>> /\ ~Absent(ev.min) /\ ~Absent(ev.max)))
HsCond(ev, P(_, _, _, _)) ==
  ev.hs => (P(ev.hmin, ev.hmax, ev.hminx, ev.hmaxx) /\ CountOk(ev.hnulls, NullCount(ev.vals)))
CvCond(ev, P(_, _, _, _)) ==
  ev.cv => (P(ev.cvmin, ev.cvmax, FALSE, FALSE) /\ CountOk(ev.cvnulls, NullCount(ev.vals)) /\ CountOk(ev.cvrows, ev.rows))
RightP(vs, mn, mx, mnx, mxx) == PairOk(mn, mx, mnx, mxx, vs, col.fw, col.ord, col.utf8)
(* a page without values has no bounds in either reading *)
PageBugP(ev, mn, mx) == IF NonNull(ev.vals) = <<>> THEN (Absent(mn) /\ Absent(mx)) ELSE PageBugPair(ev, mn, mx)
BadecPage(ev) == col.badec /\ ev.mixedlen

Page(ev) ==
  /\ JudgeKF(CiCond(ev, LAMBDA a, b, c, d : RightP(ev.vals, a, b, c, d)), l, "column index entry",
             IF BadecPage(ev) /\ CiCond(ev, LAMBDA a, b, c, d : PageBugP(ev, a, b)) THEN BADEC ELSE KFNullPage(ev))
  /\ JudgeKF(HsCond(ev, LAMBDA a, b, c, d : RightP(ev.vals, a, b, c, d)), l, "page header statistics",
             IF BadecPage(ev) /\ HsCond(ev, LAMBDA a, b, c, d : PageBugP(ev, a, b)) THEN BADEC ELSE "")
  /\ JudgeKF(CvCond(ev, LAMBDA a, b, c, d : RightP(ev.vals, a, b, c, d)), l, "StatisticsConverter page values",
             IF BadecPage(ev) /\ CvCond(ev, LAMBDA a, b, c, d : PageBugP(ev, a, b)) THEN BADEC ELSE "")
  /\ cvals' = cvals \o ev.vals
  /\ pidx' = Append(pidx, [ci |-> ev.ci, min |-> ev.min, max |-> ev.max, nullpage |-> ev.nullpage])
  /\ prows' = Append(prows, ev.rows)
  /\ ploc' = Append(ploc, [first |-> ev.first, off |-> ev.off, size |-> ev.size])
  /\ IF col.badec /\ ev.raw # <<>> /\ Len(ev.raw) = Len(NonNull(ev.vals))
     THEN /\ bmins' = Append(bmins, [raw |-> ev.raw[PageBugMin(ev)], key |-> NonNull(ev.vals)[PageBugMin(ev)]])
          /\ bmaxs' = Append(bmaxs, [raw |-> ev.raw[PageBugMax(ev)], key |-> NonNull(ev.vals)[PageBugMax(ev)]])
     ELSE UNCHANGED <<bmins, bmaxs>>
  /\ UNCHANGED col

AllCi == \A i \in 1..Len(pidx) : pidx[i].ci

ChunkStatsCond(ev, P(_, _, _, _)) ==
  /\ ev.nv = Len(cvals) /\ ev.rows = SumTo(prows, Len(prows))
  /\ ev.has => (/\ P(ev.min, ev.max, ev.minx, ev.maxx) /\ CountOk(ev.nulls, NullCount(cvals))
                /\ CountOk(ev.nan, NaNCount(cvals, col.fw)))
ChunkConvCond(ev, P(_, _, _, _)) ==
  ev.cv => (/\ P(ev.cvmin, ev.cvmax, ev.cvminx, ev.cvmaxx) /\ CountOk(ev.cvnulls, NullCount(cvals))
            /\ CountOk(ev.cvrows, ev.rows)
            /\ CountOk(ev.cvnan, NaNCount(cvals, col.fw))
            /\ CountOk(ev.cvdistinct, DistinctValues(cvals)))
ChunkBugP(mn, mx) == IF NonNull(cvals) = <<>> THEN (Absent(mn) /\ Absent(mx)) ELSE ChunkBugPair(mn, mx)
ChunkBoundaryOk(ev) ==
  (ev.order # "NONE" /\ AllCi) =>
     BoundaryOk(ev.order, [i \in 1..Len(pidx) |-> pidx[i].min], [i \in 1..Len(pidx) |-> pidx[i].max],
                [i \in 1..Len(pidx) |-> pidx[i].nullpage])
KFBoundary(ev) ==
  IF col.badec /\ ev.mixedlen THEN (IF ev.order = BugOrder THEN BADEC ELSE "")
  ELSE IF col.utf8 /\ col.tci > 0 /\ ev.order \in {"ASCENDING", "DESCENDING"}
       THEN "C07-boundary-order-lost-by-utf8-truncation"
  ELSE ""
ChunkOffsetsOk(ev) ==
  ev.hasoi => OffsetIndexOk([i \in 1..Len(ploc) |-> ploc[i].first], [i \in 1..Len(ploc) |-> ploc[i].off],
                            [i \in 1..Len(ploc) |-> ploc[i].size], prows, ev.rows, ev.start, ev.clen)
BadecChunk(ev) == col.badec /\ ev.mixedlen

Chunk(ev) ==
  /\ JudgeKF(ChunkStatsCond(ev, LAMBDA a, b, c, d : RightP(cvals, a, b, c, d)), l, "chunk statistics",
             IF BadecChunk(ev) /\ ChunkStatsCond(ev, LAMBDA a, b, c, d : ChunkBugP(a, b)) THEN BADEC ELSE "")
  /\ JudgeKF(ev.has => CountOk(ev.distinct, DistinctValues(cvals)), l, <<"distinct_count", ev.distinct>>, KFDistinct(ev))
  /\ JudgeKF(ChunkBoundaryOk(ev), l, <<"boundary order", ev.order>>, KFBoundary(ev))
  /\ Judge(ChunkOffsetsOk(ev), l, "offset index")
  /\ Judge(ev.hasbloom => (Len(ev.bloom) = Len(NonNull(cvals)) /\ BloomOk(ev.bloom)), l, "bloom filter misses a written value")
  /\ JudgeKF(ChunkConvCond(ev, LAMBDA a, b, c, d : RightP(cvals, a, b, c, d)), l, "StatisticsConverter row group values",
             IF BadecChunk(ev) /\ ChunkConvCond(ev, LAMBDA a, b, c, d : ChunkBugP(a, b)) THEN BADEC ELSE "")
  /\ UNCHANGED <<col, cvals, pidx, prows, ploc, bmins, bmaxs>>

Next ==
  /\ l <= Len(Rec)
  /\ l' = l + 1
  /\ LET ev == Rec[l] IN
     CASE ev.op = "new"   -> New(ev)
       [] ev.op = "page"  -> Page(ev)
       [] ev.op = "chunk" -> Chunk(ev)

Spec == Init /\ [][Next]_vars
=============================================================================
