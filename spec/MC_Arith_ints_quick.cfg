SPECIFICATION IntsSpec
CONSTANTS
  LimbDigits = 1
  N = 32
INVARIANT IntsAgree
CHECK_DEADLOCK FALSE
