SPECIFICATION IntsSpec
CONSTANTS
  LimbDigits = 1
  N = 45
INVARIANT IntsAgree
CHECK_DEADLOCK FALSE
