------------------------------ MODULE MC_Stats ------------------------------
(***************************************************************************)
(* The column writer's statistics machine over a float column (the type     *)
(* with the richest rules): values are written into the open page, pages    *)
(* are closed, the chunk is closed.  Page and chunk minima / maxima follow   *)
(* the documented update rules (Stats!UpdMin / UpdMax: a NaN never displaces *)
(* a number, a number displaces a NaN), the boundary flags follow            *)
(* update_column_offset_index (compared on the last page that holds a       *)
(* value).  TLC checks, for every sequence of at most MaxPages pages of at  *)
(* most MaxVals values over {null, -1, -0, +0, 1, NaN, -NaN}, that what the  *)
(* machine reports satisfies B1 - B4 of Stats.tla (the properties trace     *)
(* validation demands of the real writer) -- i.e. that the documented rules  *)
(* are sound and the properties are not over-demanding.                     *)
(***************************************************************************)
EXTENDS Stats, TLC

CONSTANTS MaxPages, MaxVals, Domain

F(s, m) == [k |-> "sm", i |-> s, m |-> <<m>>]      \* binary16: sign, magnitude bits
Values ==
  {NoKey} \cup
  (IF "neg" \in Domain THEN {F(1, 15360)} ELSE {}) \cup      \* -1.0
  {F(1, 0), F(0, 0), F(0, 15360)} \cup                      \* -0.0, +0.0, 1.0
  (IF "nan" \in Domain THEN {F(0, 32256)} ELSE {}) \cup      \* NaN
  (IF "negnan" \in Domain THEN {F(1, 32256)} ELSE {}) \*      -NaN
FW == 16

VARIABLES open,     \* values written into the open page
          pages,    \* closed pages: [vals, min, max, nulls, nullpage]
          cmin, cmax,
          asc, desc,
          last,     \* <<min, max>> of the last page that holds a value, or <<>>
          closed

vars == <<open, pages, cmin, cmax, asc, desc, last, closed>>

Init == open = <<>> /\ pages = <<>> /\ cmin = NoKey /\ cmax = NoKey /\ asc = TRUE /\ desc = TRUE
        /\ last = <<>> /\ closed = FALSE

WriteValue(v) ==
  /\ ~closed /\ Len(open) < MaxVals /\ Len(pages) < MaxPages
  /\ open' = Append(open, v)
  /\ UNCHANGED <<pages, cmin, cmax, asc, desc, last, closed>>

(* add_data_page: page statistics, chunk statistics, boundary flags         *)
AddPage ==
  /\ ~closed /\ open # <<>>
  /\ LET mn == MinOf(open, FW)
         mx == MaxOf(open, FW)
         np == NonNull(open) = <<>>
         pg == [vals |-> open, min |-> mn, max |-> mx, nulls |-> NullCount(open), nullpage |-> np]
     IN /\ pages' = Append(pages, pg)
        /\ cmin' = IF np THEN cmin ELSE UpdMin(cmin, mn, FW)
        /\ cmax' = IF np THEN cmax ELSE UpdMax(cmax, mx, FW)
        /\ IF np \/ last = <<>> THEN UNCHANGED <<asc, desc>>
           ELSE /\ asc' = (asc /\ ~(KCmp(last[1], mn) > 0 \/ KCmp(last[2], mx) > 0))
                /\ desc' = (desc /\ ~(KCmp(mn, last[1]) > 0 \/ KCmp(mx, last[2]) > 0))
        /\ last' = IF np THEN last ELSE <<mn, mx>>
  /\ open' = <<>>
  /\ UNCHANGED closed

CloseChunk ==
  /\ ~closed /\ open = <<>> /\ pages # <<>>
  /\ closed' = TRUE
  /\ UNCHANGED <<open, pages, cmin, cmax, asc, desc, last>>

Next == (\E v \in Values : WriteValue(v)) \/ AddPage \/ CloseChunk
Spec == Init /\ [][Next]_vars

Flat(ss) == IF ss = <<>> THEN <<>> ELSE LET F2[i \in 0..Len(ss)] == IF i = 0 THEN <<>> ELSE F2[i - 1] \o ss[i] IN F2[Len(ss)]
AllVals == Flat([i \in 1..Len(pages) |-> pages[i].vals])
Order3 == IF asc THEN "ASCENDING" ELSE IF desc THEN "DESCENDING" ELSE "UNORDERED"

PagesSound ==
  \A i \in 1..Len(pages) :
    /\ PairOk(pages[i].min, pages[i].max, TRUE, TRUE, pages[i].vals, FW, "total", FALSE)
    /\ CountOk(pages[i].nulls, NullCount(pages[i].vals))
    /\ pages[i].nullpage <=> (NonNull(pages[i].vals) = <<>>)
    /\ ~pages[i].nullpage => ~Absent(pages[i].min) /\ ~Absent(pages[i].max)
ChunkSound ==
  /\ PairOk(cmin, cmax, TRUE, TRUE, AllVals, FW, "total", FALSE)
  /\ (NonNull(AllVals) # <<>>) => (~Absent(cmin) /\ ~Absent(cmax))
BoundarySound ==
  BoundaryOk(Order3, [i \in 1..Len(pages) |-> pages[i].min], [i \in 1..Len(pages) |-> pages[i].max],
             [i \in 1..Len(pages) |-> pages[i].nullpage])
(* the rules are exact: the chunk bounds are the bounds of all the values   *)
ChunkIsFold == cmin = MinOf(AllVals, FW) /\ cmax = MaxOf(AllVals, FW)
=============================================================================
