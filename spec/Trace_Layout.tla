---------------------------- MODULE Trace_Layout ----------------------------
(***************************************************************************)
(* C09, impl -> spec: every verdict of a validating entry point of         *)
(* arrow-rs on a near-valid candidate layout is re-judged by the           *)
(* independent validator of ArrowLayout.tla:                               *)
(*                                                                         *)
(*        accepted  =>  WellFormed(candidate)                              *)
(*                      /\ WellFormed(the array it produced)               *)
(*                      /\ the exercise of every safe accessor, iterator   *)
(*                         and kernel over the result did not panic/crash  *)
(*                                                                         *)
(* Events (harness/p/c09):                                                 *)
(*  [ev |-> "cand", entry, cls, fam, corr, aligns, accepted, d, has_got,   *)
(*   got, after, note]                                                     *)
(*     entry   the validating entry point ("ArrayData::try_new", ...)      *)
(*     cls     "data" (ArrayData level: try_new, builder build, validate_  *)
(*             full, from_ffi + validate_full), "typed" (typed try_new and *)
(*             checked buffer constructors; a constructor panic = reject)  *)
(*     corr    the corruption applied to a valid array ("none" = control)  *)
(*     aligns  the entry point re-aligns buffers itself                    *)
(*     d       the candidate, dumped from its parts *before* the call      *)
(*     got     dump of the result (when has_got)                           *)
(*     after   "ok" | "panic: .." | "signal n" | "none" (not accepted)     *)
(*  [ev |-> "candbatch", entry, corr, accepted, schema, cols, nrows]       *)
(*     RecordBatch::try_new(_with_options) on schema/column candidates     *)
(*                                                                         *)
(* The converse (rejected although WellFormed) is legitimate strictness    *)
(* and only counted (INFO line).                                           *)
(***************************************************************************)
EXTENDS ArrowLayout, TraceBase

VARIABLE l

Cand(ev) == IF ev.aligns THEN Realigned(ev.d) ELSE ev.d

CandOK(ev) ==
  ev.accepted => /\ WellFormed(Cand(ev))
                 /\ ev.has_got => WellFormed(ev.got)
                 /\ ev.after = "ok"

(***************************************************************************)
(* Known findings (known_findings.txt).  Each is identified as: an         *)
(* ArrayData-level entry point accepted a candidate that is well-formed    *)
(* except for exactly the one rule the crate does not check.               *)
(***************************************************************************)
OnlyBreaks(ev, rule) == ~WellFormed(Cand(ev)) /\ WF(Cand(ev), {rule})

KF(ev) ==
  IF ~(ev.accepted /\ ev.cls = "data") THEN ""
  ELSE IF OnlyBreaks(ev, "union-ids")     THEN "C09-union-ids-offsets-unchecked"
  ELSE IF OnlyBreaks(ev, "ree-cover")     THEN "C09-ree-length-unchecked"
  ELSE IF OnlyBreaks(ev, "fsl-offset")    THEN "C09-fsl-child-offset-ignored"
  ELSE IF OnlyBreaks(ev, "struct-offset") THEN "C09-struct-child-offset-ignored"
  ELSE ""

(* report only: rejected although well-formed (constructors may be stricter) *)
Count(ev) == IF ~ev.accepted /\ WellFormed(Cand(ev)) THEN TLCSet(1, TLCGet(1) + 1) ELSE TRUE

BatchOK(ev) == ev.accepted => BatchWellFormed(ev.schema, ev.cols, ev.nrows)

Init == l = 1 /\ TLCSet(1, 0)
Next == /\ l <= Len(Rec)
        /\ l' = l + 1
        /\ LET ev == Rec[l] IN
           CASE ev.ev = "cand"      -> JudgeKF(CandOK(ev), l, ev.entry \o " " \o ev.corr, KF(ev)) /\ Count(ev)
             [] ev.ev = "candbatch" -> Judge(BatchOK(ev), l, ev.entry \o " " \o ev.corr)
             [] OTHER               -> Judge(FALSE, l, "unknown event kind")
Spec == Init /\ [][Next]_l

Post == AllConsumed /\ PrintT(<<"INFO", "rejected_but_wellformed", TLCGet(1)>>)
=============================================================================
