---------------------------- MODULE Trace_Layout ----------------------------
(***************************************************************************)
(* C09, impl -> spec: every verdict of a validating entry point of         *)
(* arrow-rs on a near-valid candidate layout is re-judged by the           *)
(* independent validator of ArrowLayout.tla:                               *)
(*                                                                         *)
(*        accepted  =>  WellFormed(candidate)                              *)
(*                      /\ WellFormed(the array it produced)               *)
(*                      /\ the exercise of every safe accessor, iterator,  *)
(*                         formatter and kernel over the result did not    *)
(*                         crash (a signal = it left its buffers)          *)
(*                                                                         *)
(* Events (harness/p/c09):                                                 *)
(*  [ev |-> "cand", e, entry, cls, fam, corr, aligns, accepted, d,         *)
(*   has_got, got, after, crashed, panicked, note]                         *)
(*     entry   the validating entry point ("ArrayData::try_new", ...),     *)
(*             e its short code                                            *)
(*     cls     "data" (ArrayData level: try_new, builder build, validate_  *)
(*             full, from_ffi + validate_full), "typed" (typed try_new and *)
(*             checked buffer constructors; a constructor panic = reject)  *)
(*     corr    the corruption applied to a valid array ("none" = control)  *)
(*     aligns  the entry point re-aligns buffers itself                    *)
(*     d       the candidate, dumped from its parts *before* the call      *)
(*     got     dump of the result (when has_got)                           *)
(*     after   outcome of the exercise: "ok" | "panic: [stage] .." |       *)
(*             "signal n" | "none" (not accepted); crashed / panicked say  *)
(*             which.  A panic is inside the buffers: it is an observation *)
(*             (counted, INFO line), not a violation of the property text. *)
(*  [ev |-> "candbatch", e, entry, corr, accepted, schema, cols, nrows]    *)
(*     RecordBatch::try_new(_with_options) on schema/column candidates     *)
(*                                                                         *)
(* The converse (rejected although WellFormed) is legitimate strictness    *)
(* and only counted (INFO line).                                           *)
(***************************************************************************)
EXTENDS ArrowLayout, TraceBase

VARIABLE l

(* A declared null count of 0 means "no validity bitmap": the builder drops the  *)
(* bitmap without looking at it (arrow-data data.rs `build`: `.filter(|b|        *)
(* b.null_count() != 0)`), as the C Data Interface allows ("if null_count is 0   *)
(* the validity buffer may be omitted").  Entry points that take a declared      *)
(* null count therefore see such a candidate as one without a bitmap.            *)
TakesDeclaredCount(ev) == ev.e \in {"build", "build_align", "vfull"}
NoBitmap == [present |-> FALSE, nbits |-> 0, boff |-> 0, bits |-> <<>>, nc |-> 0]
Norm(ev) == IF TakesDeclaredCount(ev) /\ ev.d.nulls.present /\ ev.d.nulls.nc = 0
            THEN [ev.d EXCEPT !.nulls = NoBitmap] ELSE ev.d

Cand(ev) == IF ev.aligns THEN Realigned(Norm(ev)) ELSE Norm(ev)

CandOK(ev) ==
  ev.accepted => /\ WellFormed(Cand(ev))
                 /\ ev.has_got => WellFormed(ev.got)
                 /\ ~ev.crashed

(***************************************************************************)
(* Known findings (known_findings.txt).  Each is identified as: an entry   *)
(* point of the named class accepted a candidate that is well-formed       *)
(* except for exactly the one rule that entry point does not check.        *)
(***************************************************************************)
OnlyBreaks(ev, rule) == ~WellFormed(Cand(ev)) /\ WF(Cand(ev), {rule})

(* FixedSizeListArray::try_new_with_length compares values.len() with         *)
(* `len * size` computed with a wrapping multiplication: a length of 2^63 or  *)
(* more (size 2) wraps to the actual child length.  Identified as: the typed  *)
(* fixed-size-list constructor, a length >= 2^30 (clamped), size > 0, no      *)
(* bitmap, a well-formed child of the declared type.                          *)
FslLenOverflow(ev) ==
  /\ ev.e = "typed" /\ ev.fam = "fsl" /\ ev.d.t.k = "fsl"
  /\ ev.d.len >= Huge /\ ev.d.t.size > 0 /\ ~ev.d.lo_ovf /\ ~ev.d.nulls.present
  /\ Len(ev.d.bufs) = 0 /\ KidTypesOK(ev.d) /\ Len(ev.d.kids) = 1 /\ WellFormed(ev.d.kids[1])

(* RunEndBuffer::new performs its range checks only when logical_length # 0,   *)
(* so a zero-length buffer whose logical offset lies beyond the last run end  *)
(* is accepted, although RunEndBuffer::new_unchecked documents "the last      *)
(* value of run_ends must be >= logical_offset + logical_len", validate_full  *)
(* rejects the same array and every other checked buffer constructor          *)
(* (ScalarBuffer::new, BooleanBuffer::new) rejects an offset beyond the       *)
(* buffer for length 0 too.  Identified as: that entry point, length 0, the   *)
(* candidate well-formed except that the run ends do not reach the offset.    *)
KF(ev) ==
  IF ~ev.accepted THEN ""
  ELSE IF ev.cls = "data" /\ OnlyBreaks(ev, "union-ids")     THEN "C09-union-ids"
  ELSE IF ev.cls = "data" /\ OnlyBreaks(ev, "ree-cover")     THEN "C09-ree-cover"
  ELSE IF ev.cls = "data" /\ OnlyBreaks(ev, "fsl-offset")    THEN "C09-fsl-offset"
  ELSE IF ev.cls = "data" /\ OnlyBreaks(ev, "struct-offset") THEN "C09-struct-offset"
  ELSE IF ev.e = "typed" /\ ev.fam = "union" /\ OnlyBreaks(ev, "union-kid-types") THEN "C09-union-kid-types"
  ELSE IF FslLenOverflow(ev) THEN "C09-fsl-len-overflow"
  ELSE IF ev.e = "run_end_buffer" /\ ev.d.len = 0 /\ OnlyBreaks(ev, "ree-cover") THEN "C09-run-end-buffer-empty"
  ELSE ""

(* report only: rejected although well-formed (constructors may be stricter); *)
(* a panic (not a crash) while exercising an accepted well-formed result     *)
Count(ev) ==
  /\ IF ~ev.accepted /\ WellFormed(Cand(ev)) THEN TLCSet(1, TLCGet(1) + 1) ELSE TRUE
  /\ IF ev.accepted /\ ev.panicked /\ WellFormed(Cand(ev)) THEN TLCSet(2, TLCGet(2) + 1) ELSE TRUE

BatchOK(ev) == ev.accepted => BatchWellFormed(ev.schema, ev.cols, ev.nrows)

Init == l = 1 /\ TLCSet(1, 0) /\ TLCSet(2, 0)
Next == /\ l <= Len(Rec)
        /\ l' = l + 1
        /\ LET ev == Rec[l] IN
           CASE ev.ev = "cand"      -> JudgeKF(CandOK(ev), l, ev.e, KF(ev)) /\ Count(ev)
             [] ev.ev = "candbatch" -> Judge(BatchOK(ev), l, ev.e)
             [] OTHER               -> Judge(FALSE, l, "unknown event kind")
Spec == Init /\ [][Next]_l

Post == /\ AllConsumed
        /\ PrintT(<<"INFO", "rejected_but_wellformed", TLCGet(1)>>)
        /\ PrintT(<<"INFO", "panic_on_wellformed", TLCGet(2)>>)
=============================================================================
