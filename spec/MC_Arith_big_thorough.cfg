SPECIFICATION BigSpec
CONSTANTS
  LimbDigits = 4
  N = 1
INVARIANTS Laws W8Agree Kleene
CHECK_DEADLOCK FALSE
