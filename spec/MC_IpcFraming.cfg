SPECIFICATION MCSpec
CONSTANTS
  W = 2
  MaxMsgs = 3
  MaxBytes = 9
  Metas = {1}
  Bodies = {0, 2}
  Extras = {0, 1}
INVARIANTS I_Window I_ChunkIndependent I_FramingSemantics
CHECK_DEADLOCK TRUE
