SPECIFICATION Spec
CONSTANTS
  MaxVals = 40
  Depth = 3
  MaxLen = 2
  WideDepth = 2
  RowBudget = 12
INVARIANTS Typed ThmRoundTrip ThmLevels ThmInjective ThmCount
CHECK_DEADLOCK FALSE
