------------------------------- MODULE Order -------------------------------
(***************************************************************************)
(* The one total order of arrow-rs (property C10), defined on *order keys*. *)
(*                                                                         *)
(* An order key is a small tree that denotes a logical value (written by   *)
(* harness/vcore/src/key.rs from the public accessors; dictionaries and    *)
(* run-end arrays are logged as the values they denote).  Node kinds:      *)
(*   [k |-> "~"]                     null                                  *)
(*   [k |-> "i",  i |-> x]           integer that fits a TLC int, boolean  *)
(*   [k |-> "sm", i |-> s, m |-> M]  sign s (1 = negative / sign bit set)  *)
(*                                   and magnitude M, big-endian limbs of  *)
(*                                   a width fixed by the type: wide ints, *)
(*                                   decimals, timestamps (M = |x|) and    *)
(*                                   floats (M = the bits below the sign   *)
(*                                   bit)                                  *)
(*   [k |-> "s",  m |-> bytes]       byte string                           *)
(*   [k |-> "r",  c |-> fields]      struct, interval (field-wise)         *)
(*   [k |-> "l",  c |-> elements]    list, fixed-size list, list view, map *)
(*   [k |-> "u",  i |-> tid, c |-> <<child>>]   union value                 *)
(*                                                                         *)
(* Everything the order kernels return is judged against the operators of  *)
(* this module: the comparator, sort acceptance (sorts are unstable: any   *)
(* permutation that is non-decreasing is accepted), limits, lexicographic  *)
(* sort, rank, partition and the comparison kernels.                       *)
(***************************************************************************)
EXTENDS Naturals, Integers, Sequences, FiniteSets

Opt(desc, nf) == [desc |-> desc, nf |-> nf]
DefaultOpt == Opt(FALSE, TRUE)         \* SortOptions::default(): ascending, nulls first
AllOpts == {Opt(d, n) : d \in BOOLEAN, n \in BOOLEAN}

(* options handed to the children of a nested value (arrow-cmp child_opts): *)
(* children are compared ascending, the parent reverses the whole result,   *)
(* so nulls_first is flipped under descending to keep nulls where asked     *)
ChildOpt(o) == Opt(FALSE, o.nf # o.desc)

NullKey == [k |-> "~"]
IsNull(v) == v.k = "~"

IntCmp(x, y) == IF x < y THEN -1 ELSE IF x > y THEN 1 ELSE 0

(* unsigned lexicographic order on integer sequences, a proper prefix first *)
RECURSIVE LexInts(_, _, _)
LexInts(s, t, i) ==
  IF i > Len(s) THEN (IF i > Len(t) THEN 0 ELSE -1)
  ELSE IF i > Len(t) THEN 1
  ELSE IF s[i] # t[i] THEN IntCmp(s[i], t[i])
  ELSE LexInts(s, t, i + 1)

(* sign-magnitude order.  Integers: the usual order.  Floats: this *is*    *)
(* IEEE-754 totalOrder on the bit pattern: any value with the sign bit set *)
(* is below any value without it (-0 < +0, -NaN lowest, +NaN highest);     *)
(* among negatives the larger magnitude is the smaller value; NaNs are     *)
(* ordered by payload like any other magnitude.                            *)
SMCmp(a, b) ==
  IF a.i # b.i THEN (IF a.i = 1 THEN -1 ELSE 1)
  ELSE LET c == LexInts(a.m, b.m, 1) IN IF a.i = 1 THEN 0 - c ELSE c

RECURSIVE CmpV(_, _, _), CmpNN(_, _, _), LexNodes(_, _, _, _)

(* lexicographic over child nodes under the child options; a proper prefix *)
(* is smaller (lists: element-wise, then length; structs: field-wise)      *)
LexNodes(s, t, co, i) ==
  IF i > Len(s) THEN (IF i > Len(t) THEN 0 ELSE -1)
  ELSE IF i > Len(t) THEN 1
  ELSE LET c == CmpV(s[i], t[i], co) IN IF c # 0 THEN c ELSE LexNodes(s, t, co, i + 1)

(* ascending order of two non-null values of one type                      *)
CmpNN(a, b, co) ==
  CASE a.k = "i"  -> IntCmp(a.i, b.i)
    [] a.k = "sm" -> SMCmp(a, b)
    [] a.k = "s"  -> LexInts(a.m, b.m, 1)
    [] a.k = "r"  -> LexNodes(a.c, b.c, co, 1)
    [] a.k = "l"  -> LexNodes(a.c, b.c, co, 1)
    [] a.k = "u"  -> IF a.i # b.i THEN IntCmp(a.i, b.i) ELSE CmpV(a.c[1], b.c[1], co)

(* the comparator: -1, 0, 1 for two values of one type under SortOptions o *)
(* nulls are placed by nulls_first alone; descending reverses values only  *)
CmpV(a, b, o) ==
  IF IsNull(a) THEN (IF IsNull(b) THEN 0 ELSE IF o.nf THEN -1 ELSE 1)
  ELSE IF IsNull(b) THEN (IF o.nf THEN 1 ELSE -1)
  ELSE LET c == CmpNN(a, b, ChildOpt(o)) IN IF o.desc THEN 0 - c ELSE c

Cmp(a, b, o) == CmpV(a, b, o)

(* tuples (rows of several columns), one SortOptions per column            *)
RECURSIVE LexCmpFrom(_, _, _, _)
LexCmpFrom(r1, r2, opts, i) ==
  IF i > Len(opts) THEN 0
  ELSE LET c == CmpV(r1[i], r2[i], opts[i]) IN IF c # 0 THEN c ELSE LexCmpFrom(r1, r2, opts, i + 1)
LexCmp(r1, r2, opts) == LexCmpFrom(r1, r2, opts, 1)

(* rows i and j (1-based) of a table given as a sequence of columns        *)
RECURSIVE RowCmpFrom(_, _, _, _, _)
RowCmpFrom(cols, opts, i, j, c) ==
  IF c > Len(cols) THEN 0
  ELSE LET r == CmpV(cols[c][i], cols[c][j], opts[c]) IN
       IF r # 0 THEN r ELSE RowCmpFrom(cols, opts, i, j, c + 1)
RowCmp(cols, opts, i, j) == RowCmpFrom(cols, opts, i, j, 1)

(***************************************************************************)
(* Sorting.  `idx` (0-based row numbers) is accepted for a table of n rows  *)
(* ordered by C (on 1-based row numbers) and an optional limit (lim < 0:    *)
(* none) iff it has min(lim, n) distinct in-range entries, is non-decreasing *)
(* and every row left out is not smaller than the last one included, i.e.   *)
(* it is a prefix of *a* sorted order.                                      *)
(***************************************************************************)
EffLimit(n, lim) == IF lim < 0 \/ lim > n THEN n ELSE lim

SortedPrefixBy(idx, n, lim, C(_, _)) ==
  LET m == EffLimit(n, lim) IN
  /\ Len(idx) = m
  /\ \A k \in 1..m : idx[k] >= 0 /\ idx[k] < n
  /\ \A j, k \in 1..m : j < k => idx[j] # idx[k]
  /\ \A k \in 1..(m - 1) : C(idx[k] + 1, idx[k + 1] + 1) <= 0
  /\ m > 0 => \A r \in 1..n : (\A k \in 1..m : idx[k] + 1 # r) => C(idx[m] + 1, r) <= 0

IsSortedPrefix(idx, col, o, lim) ==
  SortedPrefixBy(idx, Len(col), lim, LAMBDA i, j : CmpV(col[i], col[j], o))
IsSortedPerm(idx, col, o) == IsSortedPrefix(idx, col, o, -1)

IsLexSortedPrefix(idx, cols, opts, lim) ==
  SortedPrefixBy(idx, Len(cols[1]), lim, LAMBDA i, j : RowCmp(cols, opts, i, j))

(* sorted *values*: rows 1..n of a table are the input, rows n+1..n+mo the  *)
(* output of sort / sort_limit / lexsort.  The output must be non-decreasing,*)
(* a sub-multiset of the input (equality = C says 0) of the right size, and *)
(* contain every input row smaller than its last row in full multiplicity.  *)
SortedValuesBy(n, mo, lim, C(_, _)) ==
  LET m == EffLimit(n, lim)
      Cnt(lo, hi, r) == Cardinality({i \in lo..hi : C(i, r) = 0})
  IN /\ mo = m
     /\ \A k \in 1..(m - 1) : C(n + k, n + k + 1) <= 0
     /\ \A k \in 1..m : Cnt(n + 1, n + m, n + k) <= Cnt(1, n, n + k)
     /\ m > 0 => \A r \in 1..n : C(r, n + m) < 0 => Cnt(n + 1, n + m, r) = Cnt(1, n, r)

IsSortedValues(out, col, o, lim) ==
  LET all == col \o out IN
  SortedValuesBy(Len(col), Len(out), lim, LAMBDA i, j : CmpV(all[i], all[j], o))

IsLexSortedValues(outs, cols, opts, lim) ==
  /\ Len(outs) = Len(cols)
  /\ \A c \in 1..Len(cols) : Len(outs[c]) = Len(outs[1])
  /\ LET all == [c \in 1..Len(cols) |-> cols[c] \o outs[c]] IN
     SortedValuesBy(Len(cols[1]), Len(outs[1]), lim, LAMBDA i, j : RowCmp(all, opts, i, j))

(***************************************************************************)
(* rank: the number of rows not greater than the row (ties get the highest  *)
(* rank of their group; all nulls share one rank: null_count when nulls are *)
(* first, len otherwise -- both follow from this definition)                *)
(***************************************************************************)
RankOf(col, o) ==
  [i \in 1..Len(col) |-> Cardinality({j \in 1..Len(col) : CmpV(col[j], col[i], o) <= 0})]

(***************************************************************************)
(* partition: maximal runs of adjacent rows equal in every column (null      *)
(* equals null; the input need not be sorted).  `out` = 0-based half-open    *)
(* ranges <<lo, hi>>.                                                        *)
(***************************************************************************)
RowsDiffer(cols, i, j) == \E c \in 1..Len(cols) : CmpV(cols[c][i], cols[c][j], DefaultOpt) # 0
PartitionStarts(cols, n) == {1} \cup {i \in 2..n : RowsDiffer(cols, i - 1, i)}
IsPartition(out, cols, n) ==
  IF n = 0 THEN out = <<>>
  ELSE /\ Len(out) >= 1
       /\ out[1][1] = 0 /\ out[Len(out)][2] = n
       /\ \A k \in 1..Len(out) : out[k][1] < out[k][2]
       /\ \A k \in 1..(Len(out) - 1) : out[k][2] = out[k + 1][1]
       /\ {out[k][1] + 1 : k \in 1..Len(out)} = PartitionStarts(cols, n)

(***************************************************************************)
(* comparison kernels, per row: 0 = false, 1 = true, 2 = null.  eq, neq, lt, *)
(* lt_eq, gt, gt_eq are null when either side is null; distinct and          *)
(* not_distinct treat null as a value (null is not distinct from null).      *)
(***************************************************************************)
KernelNames == {"eq", "neq", "lt", "lt_eq", "gt", "gt_eq", "distinct", "not_distinct"}
B(x) == IF x THEN 1 ELSE 0
KernVal(f, a, b) ==
  LET c == CmpV(a, b, DefaultOpt) IN
  CASE f = "distinct"     -> B(c # 0)
    [] f = "not_distinct" -> B(c = 0)
    [] OTHER -> IF IsNull(a) \/ IsNull(b) THEN 2
                ELSE CASE f = "eq"    -> B(c = 0)
                       [] f = "neq"   -> B(c # 0)
                       [] f = "lt"    -> B(c < 0)
                       [] f = "lt_eq" -> B(c <= 0)
                       [] f = "gt"    -> B(c > 0)
                       [] f = "gt_eq" -> B(c >= 0)

(* array / scalar forms: a scalar is a one-row column broadcast             *)
KernLen(a, as, b, bs) == IF as THEN (IF bs THEN 1 ELSE Len(b)) ELSE Len(a)
KernMustErr(a, as, b, bs) == ~as /\ ~bs /\ Len(a) # Len(b)
KernRows(f, a, as, b, bs) ==
  [i \in 1..KernLen(a, as, b, bs) |->
     KernVal(f, IF as THEN a[1] ELSE a[i], IF bs THEN b[1] ELSE b[i])]

(***************************************************************************)
(* Order theorems (checked exhaustively by MC_Order over small universes).  *)
(***************************************************************************)
Total(U, o)   == \A a, b \in U : CmpV(a, b, o) \in {-1, 0, 1}
AntiSym(U, o) == \A a, b \in U : CmpV(a, b, o) = 0 - CmpV(b, a, o)
Trans(a, b, c, o) == (CmpV(a, b, o) <= 0 /\ CmpV(b, c, o) <= 0) => CmpV(a, c, o) <= 0
EqIffSame(a, b, o) == (CmpV(a, b, o) = 0) <=> (a = b)
(* (descending, nf) is exactly the reverse of (ascending, ~nf)              *)
Mirror(a, b, nf) == CmpV(a, b, Opt(TRUE, nf)) = CmpV(b, a, Opt(FALSE, ~nf))
NullPlaced(a, o) == ~IsNull(a) => CmpV(NullKey, a, o) = (IF o.nf THEN -1 ELSE 1)
(* descending reverses non-null values that contain no nested nulls ...      *)
IsFlat(a) == a.k \in {"i", "sm", "s"}
DescReverses(a, b, nf) ==
  (IsFlat(a) /\ IsFlat(b)) => CmpV(a, b, Opt(TRUE, nf)) = 0 - CmpV(a, b, Opt(FALSE, nf))
(* ... and a null nested at any depth sits where nulls_first asks, whatever  *)
(* the direction: a list holding one null against a list holding one value   *)
NestedNullPlaced(x, o) ==
  ~IsNull(x) => CmpV([k |-> "l", c |-> <<NullKey>>], [k |-> "l", c |-> <<x>>], o) = (IF o.nf THEN -1 ELSE 1)
=============================================================================
