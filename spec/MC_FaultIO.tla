----------------------------- MODULE MC_FaultIO -----------------------------
(***************************************************************************)
(* Bounded exhaustive model of FaultIO.tla: every fault index 0..MaxK and  *)
(* every fault kind, for buffered (capacity 2, 3) and unbuffered writers   *)
(* of a few API calls and for readers of a few frames at every cut.        *)
(* MC_FaultIO_lossy.cfg: the same with a writer that ignores the count     *)
(* returned by write - TLC must find a violation of I_Writer (the          *)
(* properties are not vacuous).                                            *)
(***************************************************************************)
EXTENDS FaultIO

C(n, fl) == [n |-> n, fl |-> fl]
F(h, b) == [h |-> h, b |-> b]

\* header / batch + flush / footer + flush (IPC, Parquet like)
S1 == <<C(2, FALSE), C(3, TRUE), C(1, TRUE)>>
\* no flush before the terminating call, which emits nothing itself (Avro, JSON + caller's flush)
S2 == <<C(1, FALSE), C(2, FALSE), C(3, FALSE), C(0, TRUE)>>
\* every call flushes (CSV like), terminating call emits a byte
S3 == <<C(3, TRUE), C(2, TRUE), C(1, TRUE)>>

MCScripts == {S1, S2, S3}
MCCaps == {0, 2, 3}
MCFiles == {[frames |-> <<F(1, 2), F(2, 1)>>, footer |-> 0],
            [frames |-> <<F(1, 1), F(1, 1), F(1, 2)>>, footer |-> 0],
            [frames |-> <<F(1, 2), F(1, 1)>>, footer |-> 2]}

(* negative test (Lossy = TRUE): one script, unbuffered, no reader            *)
TinyScripts == {S1}
TinyCaps == {0}
TinyFiles == {[frames |-> <<F(1, 1)>>, footer |-> 0]}

(* thorough tier: every script of 2..3 calls emitting 0..3 bytes each whose  *)
(* terminating call flushes, five capacities; every file of 1..3 frames with *)
(* header / body sizes 1..2, with and without a footer                        *)
BigScripts == {s \in UNION {[1..L -> [n : 0..3, fl : BOOLEAN]] : L \in 2..3} : s[Len(s)].fl}
BigCaps == {0, 1, 2, 3, 5}
BigFiles == {[frames |-> fs, footer |-> ft] :
               fs \in UNION {[1..L -> [h : 1..2, b : 1..2]] : L \in 1..3}, ft \in {0, 2}}
=============================================================================
