SPECIFICATION Spec
CONSTANTS
  MaxFields = 3
  MaxFieldLen = 1
  MaxFieldLen2 = 1
  MaxFields2 = 1
  MaxText = 3
INVARIANTS T_FormatsOk T_RoundTrip T_QuoteIffNeeded T_Total T_Plain T_FixedPoint T_NeverIsLossy
CHECK_DEADLOCK FALSE
