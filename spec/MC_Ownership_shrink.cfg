SPECIFICATION Spec
CONSTANTS
  Regions = {1, 2}
  Handles = {1, 2}
  MaxAbs = 1
  WithShrink = TRUE
  WithStreams = FALSE
  WithNested = FALSE
  GenDepth = 99
CONSTRAINT Small
VIEW View_
INVARIANTS O1_NoDangling O2_Immutable O3_ExactlyOnce O4_PoolExact O5_FfiMirror QuiescentClean
PROPERTIES WritesOnlyWhenUnique ReleaseIsFinal
CHECK_DEADLOCK FALSE
