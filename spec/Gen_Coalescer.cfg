SPECIFICATION GSpec
CONSTANTS
  NoLimit = NoLimit
  Targets = {1, 2, 3, 4, 5}
  Limits = {NoLimit, 1, 2, 3}
  MaxN = 6
  Depth = 10
INVARIANTS Emit I1_BufferBelowTarget I2_ExactSizes I3_RowsConserved I4_NoEmptyBatch
CHECK_DEADLOCK FALSE
