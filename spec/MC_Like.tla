------------------------------- MODULE MC_Like -------------------------------
(* Design-level check of Like.tla: the backtracking matcher and the NFA     *)
(* position-set definition agree on every pattern and string over a small   *)
(* alphabet (which contains %, _, backslash, a case pair and a non-ASCII    *)
(* case pair), and the special forms reduce to prefix/suffix/contains.      *)
EXTENDS Like, TLC, FiniteSets

CONSTANTS Alpha, MaxP, MaxS

SeqsUpTo(S, n) == UNION {[1..k -> S] : k \in 0..n}

VARIABLES p, s, done
vars == <<p, s, done>>

Init == p \in SeqsUpTo(Alpha, MaxP) /\ s \in SeqsUpTo(Alpha \ {PCT, UND, BSL}, MaxS) /\ done = FALSE
Next == done = FALSE /\ done' = TRUE /\ UNCHANGED <<p, s>>
Spec == Init /\ [][Next]_vars

NoWild(q) == \A i \in 1..Len(q) : q[i] \notin {PCT, UND, BSL}

Agree == \A ci \in BOOLEAN : LikeM(s, p, ci) = LikeN(s, p, ci)
Literal == NoWild(p) => (LikeM(s, p, FALSE) = (s = p)) /\ (LikeM(s, p, TRUE) = (FoldSeq(s) = FoldSeq(p)))
PrefixForm == NoWild(p) => (LikeM(s, p \o <<PCT>>, FALSE) = IsPrefix(p, s))
SuffixForm == NoWild(p) => (LikeM(s, <<PCT>> \o p, FALSE) = IsSuffix(p, s))
ContainsForm == NoWild(p) => (LikeM(s, <<PCT>> \o p \o <<PCT>>, FALSE) = Contains(s, p))
PercentAll == LikeM(s, <<PCT>>, FALSE) /\ LikeM(s, <<PCT, PCT>>, TRUE)
UnderscoreOne == LikeM(s, <<UND>>, FALSE) = (Len(s) = 1)
CaseWeaker == LikeM(s, p, FALSE) => LikeM(s, p, TRUE)
=============================================================================
