---------------------------- MODULE MC_Untrusted ----------------------------
(***************************************************************************)
(* Bounded model of the C08 session protocol: every shape of up to         *)
(* MaxRegions regions (kinds Kinds, widths Widths, every grouping into     *)
(* frames), every plan PlansFor enumerates for it, every admissible width  *)
(* of an inflated field.  Checked in every state:                          *)
(*   LenLaw      the closed form PlanNewLen equals the length of the       *)
(*               cell-level edit Apply                                     *)
(*   PrefixLaw   no cell before PlanFirstTouched changes                   *)
(*   SuffixLaw   in-place plans change nothing at or after PlanLastTouched *)
(*   Locality    a region-level plan leaves the cells of every other       *)
(*               region alone and in order (single-region corruption);     *)
(*               a truncation leaves a prefix                              *)
(*   Protocol    a finished session of the modelled (safe) reader has an   *)
(*               outcome in SafeOutcomes                                   *)
(* These are the laws Trace_Untrusted uses to check that the harness       *)
(* applied a plan the way the specification means it.                      *)
(***************************************************************************)
EXTENDS Untrusted, TLC

CONSTANTS MaxRegions, Kinds, Widths

VARIABLES phase, S, plan, neww, result, outcome
vars == <<phase, S, plan, neww, result, outcome>>

Donor == << [k |-> "magic", g |-> 1, w |-> 2, e |-> 0], [k |-> "len4", g |-> 1, w |-> 3, e |-> 0],
            [k |-> "zigzag", g |-> 2, w |-> 1, e |-> 0], [k |-> "zigzag", g |-> 2, w |-> 2, e |-> 0],
            [k |-> "body", g |-> 3, w |-> 2, e |-> 0] >>

Frames(n) == {f \in [1..n -> 1..n] : f[1] = 1 /\ \A i \in 1..(n - 1) : f[i + 1] \in {f[i], f[i] + 1}}
Shapes == UNION {
  { [i \in 1..n |-> [k |-> ks[i], g |-> f[i], w |-> ws[i],
                    e |-> IF ks[i] \in VarLenKinds /\ i < n /\ ks[n] = "len4" THEN n ELSE 0]] :
      ks \in [1..n -> Kinds], ws \in [1..n -> Widths], f \in Frames(n) } : n \in 1..MaxRegions }

HasKind(k) == \E i \in 1..Len(Donor) : Donor[i].k = k

Init == /\ phase = "idle" /\ S \in Shapes /\ plan = P("none", "", "", 0, FALSE, 1, 0)
        /\ neww = 0 /\ result = <<>> /\ outcome = "none"

Choose == /\ phase = "idle"
          /\ \E r \in 1..Len(S) : \E p \in PlansFor(S, r, IF HasKind(S[r].k) THEN {1} ELSE {}) :
               /\ p.op # "spliceframe"               \* frames of the donor are not modelled at cell level
               /\ plan' = p
          /\ phase' = "planned" /\ UNCHANGED <<S, neww, result, outcome>>

ApplyPlan == /\ phase = "planned"
             /\ \E nw \in (IF plan.op = "inflate"
                           THEN (IF S[plan.r].k \in FixedLenKinds THEN {S[plan.r].w} ELSE {1, 2, 5})
                           ELSE IF plan.op = "splice" THEN {Donor[DonorRegion(S, plan.r, Donor)].w}
                           ELSE {0}) :
                  /\ neww' = nw
                  /\ result' = Apply(S, Donor, plan, nw)
             /\ phase' = "applied" /\ UNCHANGED <<S, plan, outcome>>

Run == /\ phase = "applied"
       /\ outcome' \in SafeOutcomes          \* the reader under the property
       /\ phase' = "done" /\ UNCHANGED <<S, plan, neww, result>>

Next == Choose \/ ApplyPlan \/ Run
Spec == Init /\ [][Next]_vars

Geo(F(_, _, _, _, _, _, _, _, _)) ==
  F(plan.op, plan.sel, plan.d, RLo(S, plan.r), RHi(S, plan.r), FrameLo(S, plan.r), FrameHi(S, plan.r), FileLen(S), 0)

Applied == phase \in {"applied", "done"}

LenLaw == Applied =>
  Len(result) = PlanNewLen(plan.op, plan.sel, plan.d, RLo(S, plan.r), RHi(S, plan.r), FrameLo(S, plan.r), FrameHi(S, plan.r), FileLen(S), 0, neww)

PrefixLaw == Applied =>
  LET ft == Geo(PlanFirstTouched) IN
  /\ ft <= Len(result) \/ plan.op = "trunc"
  /\ \A i \in 1..Min2(ft, Len(result)) : result[i] = Cells(S)[i]

SuffixLaw == Applied =>
  LET lt == PlanLastTouched(plan.op, plan.sel, plan.d, RLo(S, plan.r), RHi(S, plan.r), FrameLo(S, plan.r), FrameHi(S, plan.r), FileLen(S), 0, S[plan.r].k, plan.fix) IN
  lt # -1 => (Len(result) = FileLen(S) /\ \A i \in (lt + 1)..Len(result) : result[i] = Cells(S)[i])

Locality == Applied =>
  IF plan.op = "trunc" THEN result = SubSeq(Cells(S), 1, Len(result))
  ELSE IF plan.op \in {"dupframe", "dropframe"} THEN TRUE
  ELSE Others(result, plan.r) = Others(Cells(S), plan.r)

(* frame level: everything outside the frame is left alone                   *)
FrameLocality == (Applied /\ plan.op \in {"dupframe", "dropframe"}) =>
  LET g == S[plan.r].g
      Out(c) == SelectSeq(c, LAMBDA x : S[x[1]].g # g)
  IN Out(result) = Out(Cells(S))

Protocol == phase = "done" => outcome \in SafeOutcomes
=============================================================================
