----------------------------- MODULE CsvGrammar -----------------------------
(***************************************************************************)
(* C17: the CSV grammar of RFC 4180 as an operator on character sequences, *)
(* and the writer's quoting rule.                                          *)
(*                                                                         *)
(*   file        = record *(BREAK record) [BREAK]                          *)
(*   record      = field *(DELIM field)                                    *)
(*   field       = escaped / non-escaped                                   *)
(*   escaped     = QUOTE *(TEXTDATA / DELIM / CR / LF / 2QUOTE) QUOTE      *)
(*   non-escaped = *TEXTDATA          (TEXTDATA: no DELIM, QUOTE, BREAK)   *)
(*                                                                         *)
(* written from the RFC (this is NOT the csv-core automaton that           *)
(* CsvRecords.tla transcribes for C14), generalised by the options the     *)
(* arrow-csv `Format` offers:                                              *)
(*   delim, quote  any character instead of COMMA / DQUOTE                 *)
(*   term          0: a line break is CR LF, a lone CR or a lone LF (the   *)
(*                 arrow-csv default); c # 0: the single character c       *)
(*   esc           0: none; c # 0: inside an escaped field  c x  denotes x *)
(*                 (the "idiosyncratic" backslash escapes); 2QUOTE stays   *)
(*                 recognised                                              *)
(* A text is a sequence of characters (code points; the delimiter, quote,  *)
(* escape and terminator are ASCII, so the byte- and the character-level   *)
(* readings of a UTF-8 text coincide).                                     *)
(*                                                                         *)
(* Two points the RFC leaves open are pinned from the documented behaviour *)
(* of the reader (csv-core `Reader` docs, which arrow-csv inherits):        *)
(*   * empty lines (no character between two line breaks) are skipped - by *)
(*     the grammar they would be records of one empty field;               *)
(*   * the last record need not end in a line break.                       *)
(* Texts outside the grammar (a quote inside a non-escaped field, text     *)
(* after the closing quote, an unterminated escaped field) have ok = FALSE *)
(* and are not judged.                                                     *)
(***************************************************************************)
EXTENDS Naturals, Sequences

CR == 13
LF == 10

(* reader format: [delim, quote, esc, term]                                  *)
IsBreak(f, c) == IF f.term = 0 THEN c = CR \/ c = LF ELSE c = f.term
(* position after the line break that starts at i                            *)
AfterBreak(t, f, i) ==
  IF f.term = 0 /\ t[i] = CR /\ i < Len(t) /\ t[i + 1] = LF THEN i + 2 ELSE i + 1

Bad(j) == [ok |-> FALSE, val |-> <<>>, next |-> j]

(* non-escaped = *TEXTDATA, from position j                                  *)
RECURSIVE NonEscaped(_, _, _, _)
NonEscaped(t, f, j, acc) ==
  IF j > Len(t) \/ t[j] = f.delim \/ IsBreak(f, t[j]) THEN [ok |-> TRUE, val |-> acc, next |-> j]
  ELSE IF t[j] = f.quote THEN Bad(j)
  ELSE NonEscaped(t, f, j + 1, Append(acc, t[j]))

(* escaped, after the opening quote                                          *)
RECURSIVE Escaped(_, _, _, _)
Escaped(t, f, j, acc) ==
  IF j > Len(t) THEN Bad(j)                                              \* no closing quote
  ELSE IF t[j] = f.quote THEN
         IF j < Len(t) /\ t[j + 1] = f.quote THEN Escaped(t, f, j + 2, Append(acc, f.quote))   \* 2QUOTE
         ELSE IF j = Len(t) \/ t[j + 1] = f.delim \/ IsBreak(f, t[j + 1])
              THEN [ok |-> TRUE, val |-> acc, next |-> j + 1]
         ELSE Bad(j)                                                     \* text after the closing quote
  ELSE IF f.esc # 0 /\ t[j] = f.esc THEN
         IF j < Len(t) THEN Escaped(t, f, j + 2, Append(acc, t[j + 1])) ELSE Bad(j)
  ELSE Escaped(t, f, j + 1, Append(acc, t[j]))

Field(t, f, i) ==
  IF i <= Len(t) /\ t[i] = f.quote THEN Escaped(t, f, i + 1, <<>>) ELSE NonEscaped(t, f, i, <<>>)

(* record = field *(DELIM field), from position i: [ok, rec, next]           *)
RECURSIVE Record(_, _, _, _)
Record(t, f, i, acc) ==
  LET r == Field(t, f, i) IN
  IF ~r.ok THEN [ok |-> FALSE, rec |-> <<>>, next |-> r.next]
  ELSE IF r.next <= Len(t) /\ t[r.next] = f.delim THEN Record(t, f, r.next + 1, Append(acc, r.val))
  ELSE [ok |-> TRUE, rec |-> Append(acc, r.val), next |-> r.next]

RECURSIVE File(_, _, _, _)
File(t, f, i, acc) ==
  IF i > Len(t) THEN [ok |-> TRUE, recs |-> acc]
  ELSE IF IsBreak(f, t[i]) THEN File(t, f, AfterBreak(t, f, i), acc)     \* empty line
  ELSE LET r == Record(t, f, i, <<>>) IN
       IF ~r.ok THEN [ok |-> FALSE, recs |-> acc]
       ELSE IF r.next > Len(t) THEN [ok |-> TRUE, recs |-> Append(acc, r.rec)]
       ELSE File(t, f, AfterBreak(t, f, r.next), Append(acc, r.rec))

(* the records (sequences of fields, a field a sequence of characters) of a  *)
(* text: [ok, recs]                                                          *)
Split(t, f) == File(t, f, 1, <<>>)

(* ------------------------------------------------------------- the writer *)
(* writer format: [delim, quote, esc, dq, wterm, style]                       *)
(*   dq     TRUE: a quote inside a quoted field is doubled; FALSE: it is      *)
(*          preceded by the escape character (and so is the escape character  *)
(*          itself, or the text would not denote the field)                   *)
(*   wterm  the characters written after each record (<<CR, LF>> or <<c>>)   *)
(*   style  "necessary" | "always" | "never"                                  *)
Has(s, c) == \E i \in 1..Len(s) : s[i] = c

(* a field needs quotes iff it contains the delimiter, the quote, a line     *)
(* break character - or the escape character when that is what escapes       *)
NeedsQuotes(x, w) ==
  \/ Has(x, w.delim) \/ Has(x, w.quote)
  \/ IF w.wterm \in {<<CR, LF>>, <<CR>>, <<LF>>} THEN Has(x, CR) \/ Has(x, LF) ELSE Has(x, w.wterm[1])
  \/ (~w.dq /\ Has(x, w.esc))

RECURSIVE QuoteBody(_, _)
QuoteBody(x, w) ==
  IF x = <<>> THEN <<>>
  ELSE LET c == Head(x) IN
       (IF c = w.quote THEN (IF w.dq THEN <<c, c>> ELSE <<w.esc, c>>)
        ELSE IF ~w.dq /\ c = w.esc THEN <<c, c>>
        ELSE <<c>>) \o QuoteBody(Tail(x), w)

Quoted(x, w) == <<w.quote>> \o QuoteBody(x, w) \o <<w.quote>>

WriteField(x, w) ==
  IF w.style = "always" \/ (w.style = "necessary" /\ NeedsQuotes(x, w)) THEN Quoted(x, w) ELSE x

RECURSIVE JoinFields(_, _, _)
JoinFields(rec, w, i) ==
  IF i > Len(rec) THEN <<>>
  ELSE (IF i > 1 THEN <<w.delim>> ELSE <<>>) \o WriteField(rec[i], w) \o JoinFields(rec, w, i + 1)

(* a record of one empty field is written as an empty quoted field (it would *)
(* otherwise be an empty line)                                               *)
WriteRecord(rec, w) ==
  (IF Len(rec) = 1 /\ rec[1] = <<>> /\ w.style # "always" THEN <<w.quote, w.quote>> ELSE JoinFields(rec, w, 1)) \o w.wterm

RECURSIVE Join(_, _)
Join(recs, w) == IF recs = <<>> THEN <<>> ELSE WriteRecord(Head(recs), w) \o Join(Tail(recs), w)

(* the reader format that reads what the writer format writes                *)
ReaderOf(w) == [delim |-> w.delim, quote |-> w.quote,
                esc   |-> IF w.dq THEN 0 ELSE w.esc,
                term  |-> IF w.wterm \in {<<CR, LF>>, <<CR>>, <<LF>>} THEN 0 ELSE w.wterm[1]]

(* the writer format is coherent: the special characters are distinct        *)
WFormatOk(w) ==
  /\ w.delim # w.quote /\ w.delim \notin {CR, LF} /\ w.quote \notin {CR, LF}
  /\ Len(w.wterm) >= 1 /\ (Len(w.wterm) = 1 => w.wterm[1] \notin {w.delim, w.quote})
  /\ (~w.dq => w.esc \notin {w.delim, w.quote, CR, LF} /\ (Len(w.wterm) = 1 => w.wterm[1] # w.esc))

(* the text is unambiguous: without quotes no field may need them            *)
Unambiguous(recs, w) ==
  /\ \A r \in 1..Len(recs) : Len(recs[r]) >= 1
  /\ (w.style = "never" => \A r \in 1..Len(recs) : \A i \in 1..Len(recs[r]) : ~NeedsQuotes(recs[r][i], w))

(* THEOREM  WFormatOk(w) /\ Unambiguous(recs, w) =>                           *)
(*            Split(Join(recs, w), ReaderOf(w)) = [ok |-> TRUE, recs |-> recs] *)
RoundTrip(recs, w) ==
  (WFormatOk(w) /\ Unambiguous(recs, w)) => Split(Join(recs, w), ReaderOf(w)) = [ok |-> TRUE, recs |-> recs]

(* on a quote-free text Split is the plain splitting at breaks and delimiters *)
RECURSIVE PlainFields(_, _, _, _)
PlainFields(t, f, i, cur) ==
  IF i > Len(t) THEN <<cur>>
  ELSE IF t[i] = f.delim THEN <<cur>> \o PlainFields(t, f, i + 1, <<>>)
  ELSE PlainFields(t, f, i + 1, Append(cur, t[i]))
RECURSIVE PlainLines(_, _, _, _)
PlainLines(t, f, i, cur) ==      \* maximal runs of non-break characters (empty runs vanish)
  IF i > Len(t) THEN (IF cur = <<>> THEN <<>> ELSE <<cur>>)
  ELSE IF IsBreak(f, t[i]) THEN (IF cur = <<>> THEN <<>> ELSE <<cur>>) \o PlainLines(t, f, i + 1, <<>>)
  ELSE PlainLines(t, f, i + 1, Append(cur, t[i]))
PlainSplit(t, f) == LET ls == PlainLines(t, f, 1, <<>>) IN [k \in 1..Len(ls) |-> PlainFields(ls[k], f, 1, <<>>)]
=============================================================================
