SPECIFICATION Spec
CONSTANTS
  ValueUniverses <- VU_thorough
  MetaUniverses <- MU_thorough
  Metas <- MetasStd
INVARIANTS Emit
CHECK_DEADLOCK FALSE
