----------------------------- MODULE RowFormat -----------------------------
(***************************************************************************)
(* The row format of arrow-row (property C11).                             *)
(*                                                                         *)
(* Part 1 -- the laws every RowConverter instance must obey, stated on      *)
(* rows [k |-> tuple of order keys (Order.tla), b |-> encoded bytes]:       *)
(*   F1  ByteCmp(r1.b, r2.b) = LexCmp(r1.k, r2.k, opts)   order preserving  *)
(*   F2  r1.b = r2.b  <=>  the values are logically equal  injective        *)
(*   F3  decoding a selection of rows gives back their values               *)
(*   F4  rows survive the trip through their binary-array form              *)
(*   F5  Row's Ord / Eq are the byte order                                  *)
(* for rows of one converter, whichever call or input array they came from. *)
(* A union value is a pair (type id, child value) -- unions have no         *)
(* validity of their own, a null child is a value of its type id (this is   *)
(* the documented row order of unions: type id first, then the child).      *)
(*                                                                         *)
(* Part 2 -- a byte-level model of the encoding itself (null sentinels,     *)
(* sign-bit flip, float transform, descending inversion, the block-based    *)
(* variable-length encoding, lists) with the block sizes as parameters, so  *)
(* that MC_RowFormat can check F1/F2, decodability and the pre-computed row *)
(* length exhaustively on a scaled-down instance (blocks of 2 and 4 bytes   *)
(* instead of 8 and 32).  A different order-preserving encoding in the      *)
(* implementation would not violate the property: traces are judged by      *)
(* part 1 only.                                                             *)
(***************************************************************************)
EXTENDS Order

ByteCmp(s, t) == LexInts(s, t, 1)

(* ------------------------------ part 1 --------------------------------- *)
RowOrderOK(r1, r2, opts) ==                         \* F1 and F2 for one pair
  LET c == LexCmp(r1.k, r2.k, opts) IN
  /\ ByteCmp(r1.b, r2.b) = c
  /\ (r1.b = r2.b) <=> (c = 0)

(* rows i (new) against every row up to i, for all new rows lo..hi           *)
PairsOK(all, lo, hi, opts) ==
  \A i \in lo..hi : \A j \in 1..i : RowOrderOK(all[i], all[j], opts)
BadPair(all, lo, hi, opts) ==
  CHOOSE p \in {<<i, j>> : i \in lo..hi, j \in 1..hi} : p[2] <= p[1] /\ ~RowOrderOK(all[p[1]], all[p[2]], opts)

(* F3 / F4: the decoded keys (one sequence per field) of the selected rows   *)
DecodedOK(keys, sel, all, nfields) ==
  /\ Len(keys) = nfields
  /\ \A c \in 1..nfields : /\ Len(keys[c]) = Len(sel)
                           /\ \A k \in 1..Len(sel) : keys[c][k] = all[sel[k] + 1].k[c]

(* ------------------------------ part 2 --------------------------------- *)
NullSentinel(o) == IF o.nf THEN 0 ELSE 255
Inv(x, o) == IF o.desc THEN 255 - x ELSE x
InvAll(s, o) == [i \in 1..Len(s) |-> Inv(s[i], o)]

(* fixed-width values: null = sentinel then zeros; valid = 1 then the        *)
(* order-preserving unsigned image of the value, inverted when descending    *)
EncFixed(isNull, image, o) ==
  IF isNull THEN <<NullSentinel(o)>> \o [i \in 1..Len(image) |-> 0]
  ELSE <<1>> \o InvAll(image, o)
(* images of one-byte values (wider values: the same, big-endian)            *)
ImageU8(v) == <<v>>                                  \* v in 0..255
ImageI8(v) == <<v + 128>>                            \* v in -128..127: sign bit flipped
(* 8-bit float pattern b = sign*128 + magnitude: negative values have all    *)
(* bits below the sign flipped, then the sign bit is flipped                 *)
ImageF8(b) == IF b >= 128 THEN <<127 - (b - 128)>> ELSE <<128 + b>>

(* variable-length values.  P = [mini, count]: the first mini*count bytes go *)
(* in `count` mini blocks, the rest in blocks of mini*count bytes.  Every    *)
(* block is followed by 255 when more data follows, else by the number of    *)
(* bytes used in it (the block is zero padded).                              *)
BlockSize(P) == P.mini * P.count
Pad(s, n) == s \o [i \in 1..(n - Len(s)) |-> 0]

RECURSIVE Blocks(_, _)
Blocks(s, size) ==          \* s non-empty, last block carries its length
  IF Len(s) <= size THEN Pad(s, size) \o <<Len(s)>>
  ELSE SubSeq(s, 1, size) \o <<255>> \o Blocks(SubSeq(s, size + 1, Len(s)), size)

RECURSIVE FullBlocks(_, _)
FullBlocks(s, size) ==      \* Len(s) a multiple of size, every block continues
  IF s = <<>> THEN <<>>
  ELSE SubSeq(s, 1, size) \o <<255>> \o FullBlocks(SubSeq(s, size + 1, Len(s)), size)

EncNonEmpty(s, P) ==
  IF Len(s) <= BlockSize(P) THEN <<2>> \o Blocks(s, P.mini)
  ELSE <<2>> \o FullBlocks(SubSeq(s, 1, BlockSize(P)), P.mini)
            \o Blocks(SubSeq(s, BlockSize(P) + 1, Len(s)), BlockSize(P))

(* v: NullKey or a byte-string key                                           *)
EncVar(v, o, P) ==
  IF IsNull(v) THEN <<NullSentinel(o)>>
  ELSE IF v.m = <<>> THEN <<Inv(1, o)>>
  ELSE InvAll(EncNonEmpty(v.m, P), o)

(* the length reserved for it before encoding (row_lengths / padded_length)  *)
CeilDiv(a, b) == (a + b - 1) \div b
PaddedLen(v, P) ==
  IF IsNull(v) THEN 1
  ELSE LET n == Len(v.m) IN
       IF n <= BlockSize(P) THEN 1 + CeilDiv(n, P.mini) * (P.mini + 1)
       ELSE P.count + CeilDiv(n, BlockSize(P)) * (BlockSize(P) + 1)

(* decoder: reads one value from the front of `row`; [v, used]               *)
RECURSIVE DecBlocks(_, _, _, _, _, _)
DecBlocks(row, idx, k, acc, o, P) ==     \* k = number of mini blocks still possible
  LET size == IF k > 0 THEN P.mini ELSE BlockSize(P)
      mark == Inv(row[idx + size], o)    \* undo the inversion
      data == [i \in 1..size |-> Inv(row[idx + i - 1], o)]
  IN IF mark # 255 THEN [v |-> [k |-> "s", m |-> acc \o SubSeq(data, 1, mark)], used |-> idx + size]
     ELSE DecBlocks(row, idx + size + 1, IF k > 0 THEN k - 1 ELSE 0, acc \o data, o, P)

DecVar(row, o, P) ==
  IF row[1] = NullSentinel(o) THEN [v |-> NullKey, used |-> 1]
  ELSE IF row[1] = Inv(1, o) THEN [v |-> [k |-> "s", m |-> <<>>], used |-> 1]
  ELSE DecBlocks(row, 2, P.count, <<>>, o, P)

(* lists: every element's row (child options) variable-length encoded under  *)
(* the list's options, then an empty marker; null / empty list = one byte.    *)
(* Elements here are one-byte unsigned values or null.                        *)
EncElem(e, co) == EncFixed(IsNull(e), IF IsNull(e) THEN <<0>> ELSE ImageU8(e.i), co)
RECURSIVE EncElems(_, _, _, _)
EncElems(es, i, o, P) ==
  IF i > Len(es) THEN <<Inv(1, o)>>
  ELSE EncVar([k |-> "s", m |-> EncElem(es[i], ChildOpt(o))], o, P) \o EncElems(es, i + 1, o, P)
EncList(v, o, P) ==
  IF IsNull(v) THEN <<NullSentinel(o)>>
  ELSE IF v.c = <<>> THEN <<Inv(1, o)>>
  ELSE EncElems(v.c, 1, o, P)
=============================================================================
