SPECIFICATION Spec
CONSTANTS
  MaxLen = 2
  MaxOff = 1
  OffVals <- OffValsQuick
  MaxData = 2
INVARIANTS LogicalDefined SliceClosed RelaxMonotone RealignOK
CHECK_DEADLOCK FALSE
