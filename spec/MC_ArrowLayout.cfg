SPECIFICATION Spec
CONSTANTS
  MaxLen = 3
  MaxOff = 1
  OffVals <- OffValsThorough
  MaxData = 3
INVARIANTS LogicalDefined SliceClosed RelaxMonotone RealignOK
CHECK_DEADLOCK FALSE
