---------------------------- MODULE Gen_CsvRecords ----------------------------
(* spec -> impl: for EVERY text of at most MaxLen byte classes and every    *)
(* batch size the records CsvRecords.tla specifies (fields as input         *)
(* positions, grouped in batches) and the outcome.  harness/p/c14           *)
(* (`c14 replay-csv`) maps the classes to concrete bytes and feeds the text *)
(* to the real arrow-csv Decoder under ALL 2^(n-1) chunkings.  There is no  *)
(* behaviour here: the cases are written when TLC evaluates the ASSUME.     *)
EXTENDS CsvRecords, TLC, Json, IOUtils, SequencesExt

CONSTANTS MaxLen, Alphabet, BatchSizes

Texts == UNION {[1..n -> Alphabet] : n \in 0..MaxLen}
Case(t, b) == LET o == RunCsv(Init0, t, b) IN
              [text |-> t, ncols |-> NCols, bs |-> b, outcome |-> o.outcome, batches |-> o.out]
Cases == SetToSeq({Case(t, b) : t \in Texts, b \in BatchSizes})

ASSUME PrintT(<<"CASES", Len(Cases)>>) /\ ndJsonSerialize(IOEnv.OUT, Cases)

(* a behaviour specification is required because CsvRecords declares variables; it is trivial *)
GInit == inb = <<>> /\ bs = 1 /\ cuts = <<>> /\ s = Init0
GNext == UNCHANGED cvars
=============================================================================
