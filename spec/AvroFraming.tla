---------------------------- MODULE AvroFraming ----------------------------
(***************************************************************************)
(* C14 refinement: Avro framing and the push decoders of arrow-avro.       *)
(*                                                                         *)
(*  * zig-zag variable-length integers decoded across arbitrary splits     *)
(*    (reader/vlq.rs `VLQDecoder::long`: in_progress / shift survive the   *)
(*    call);                                                               *)
(*  * object container files: header = magic, metadata map blocks, sync    *)
(*    marker (reader/header.rs `HeaderDecoder`, `read_header`), data       *)
(*    blocks = count, size, bytes, sync (reader/block.rs `BlockDecoder`),  *)
(*    driven by `Reader::read` (reader/mod.rs:1358-1401) over a `BufRead`  *)
(*    whose `fill_buf` returns the rest of the current chunk;              *)
(*  * single-object / Confluent framing: prefix = magic + fingerprint,     *)
(*    then the record body; `Decoder::decode` / `flush` (reader/mod.rs:    *)
(*    707-868: awaiting_body, remaining_capacity, pending schema switch    *)
(*    applied at flush), driven with a rolling buffer (unconsumed bytes    *)
(*    are re-presented with the next chunk appended).                      *)
(*                                                                         *)
(* Bytes are records [r, a, b] (role, two attributes):                     *)
(*   "g" magic (a = index)         "v" varint (a = 1: more follow, b digit)*)
(*   "k" / "u" metadata key/value  "s" sync marker (a = index, b = id)     *)
(*   "p" block payload (a = row id, b = 1: last byte of the row)           *)
(*   "f" fingerprint (a = index, b = schema id)   "t" string payload       *)
(* Varint digits are base 4 instead of base 128 and the fixed widths       *)
(* (magic, sync, fingerprint) are constants, so that small configurations  *)
(* are exhaustive.  A decoder reading a role it does not expect sees       *)
(* garbage (digit 3, no continuation) exactly as a mis-framed decoder      *)
(* would.                                                                  *)
(*                                                                         *)
(* The whole dynamic state is one record `s`; OcfF / SoeF are the          *)
(* transition functions, so that the one-shot result is the same function  *)
(* iterated on the single-chunk session (RunOcf / RunSoe).                 *)
(***************************************************************************)
EXTENDS ChunkOps, Integers

CONSTANTS G,      \* magic length (4 for OCF "Obj\x01", 2 for single-object 0xC3 0x01)
          S,      \* sync marker length (16 in Avro)
          F       \* fingerprint length (8 for CRC-64-AVRO)

VARIABLES cfg,    \* what was written + batch size (+ for single-object: faithful or ideal row decoder)
          inb,    \* the input bytes
          cuts,   \* the chunking
          s       \* the session state

avars == <<cfg, inb, cuts, s>>

Min(a, b) == IF a < b THEN a ELSE b
Byte(r, a, b) == [r |-> r, a |-> a, b |-> b]
N == Len(inb)

(* ------------------------------------------------------------------ varints *)
More(x) == IF x.r = "v" THEN x.a ELSE 0
Digit(x) == IF x.r = "v" THEN x.b ELSE 3
Value(acc) == LET V[i \in 0..Len(acc)] == IF i = 0 THEN 0 ELSE acc[i] * (4 ^ (i - 1)) + V[i - 1] IN V[Len(acc)]
Zz(v) == IF v % 2 = 0 THEN v \div 2 ELSE 0 - ((v + 1) \div 2)

(* VLQDecoder::long over b[i..]: digits collected so far are `acc` *)
RECURSIVE VlqF(_, _, _)
VlqF(acc, b, i) ==
  IF i > Len(b) THEN [done |-> FALSE, acc |-> acc, next |-> i]
  ELSE IF More(b[i]) = 0 THEN [done |-> TRUE, acc |-> Append(acc, Digit(b[i])), next |-> i + 1]
  ELSE VlqF(Append(acc, Digit(b[i])), b, i + 1)

(* canonical (or zero-padded, `wide`) encoding of the zig-zag value of n >= 0 *)
Enc(n, wide) ==
  LET raw == 2 * n
      d1 == raw % 4  d2 == raw \div 4
  IN IF d2 = 0 /\ ~wide THEN <<Byte("v", 0, d1)>> ELSE <<Byte("v", 1, d1), Byte("v", 0, d2)>>

(* ------------------------------------------------------------------ BufRead over the chunks *)
(* position after skipping exhausted chunks: <<k, hi>>; the buffer is inb[off+1..hi]             *)
RECURSIVE SkipTo(_, _, _)
SkipTo(c, kk, off) == IF off = ChunkHi(c, N, kk) /\ kk < NChunks(c) THEN SkipTo(c, kk + 1, off) ELSE kk
FillK(st, c) == SkipTo(c, st.k, st.off)
FillHi(st, c) == ChunkHi(c, N, FillK(st, c))

(* ------------------------------------------------------------------ OCF: HeaderDecoder::decode *)
HdrInit == [st |-> "Magic", rem |-> G, acc |-> <<>>, tuples |-> 0, sync |-> <<>>]

RECURSIVE HdrF(_, _, _)
HdrF(h, b, i) ==
  IF i > Len(b) THEN [h |-> h, used |-> Len(b), err |-> FALSE]
  ELSE
  CASE h.st = "Magic" ->
         IF b[i] # Byte("g", G - h.rem + 1, 0) THEN [h |-> h, used |-> i - 1, err |-> TRUE]
         ELSE HdrF([h EXCEPT !.rem = h.rem - 1, !.st = IF h.rem = 1 THEN "BlockCount" ELSE "Magic"], b, i + 1)
    [] h.st \in {"BlockCount", "BlockLen", "KeyLen", "ValueLen"} ->
         LET v == VlqF(h.acc, b, i) IN
         IF ~v.done THEN [h |-> [h EXCEPT !.acc = v.acc], used |-> Len(b), err |-> FALSE]
         ELSE LET n == Zz(Value(v.acc))
                  h0 == [h EXCEPT !.acc = <<>>]
                  h1 == CASE h.st = "BlockCount" ->
                               IF n = 0 THEN [h0 EXCEPT !.st = "Sync", !.rem = S]
                               ELSE IF n > 0 THEN [h0 EXCEPT !.st = "KeyLen", !.tuples = n]
                               ELSE [h0 EXCEPT !.st = "BlockLen", !.tuples = 0 - n]
                          [] h.st = "BlockLen" -> [h0 EXCEPT !.st = "KeyLen"]
                          [] h.st = "KeyLen" -> [h0 EXCEPT !.st = "Key", !.rem = n]
                          [] OTHER -> [h0 EXCEPT !.st = "Value", !.rem = n]
              IN HdrF(h1, b, v.next)
    [] h.st \in {"Key", "Value"} ->
         LET n == Min(h.rem, Len(b) - i + 1)
             left == h.rem - n
             h1 == IF left > 0 THEN [h EXCEPT !.rem = left]
                   ELSE IF h.st = "Key" THEN [h EXCEPT !.rem = 0, !.st = "ValueLen"]
                   ELSE [h EXCEPT !.rem = 0, !.tuples = h.tuples - 1,
                                  !.st = IF h.tuples = 1 THEN "BlockCount" ELSE "KeyLen"]
         IN HdrF(h1, b, i + n)
    [] h.st = "Sync" ->
         LET n == Min(h.rem, Len(b) - i + 1)
             h1 == [h EXCEPT !.sync = h.sync \o SubSeq(b, i, i + n - 1), !.rem = h.rem - n,
                             !.st = IF h.rem = n THEN "Finished" ELSE "Sync"]
         IN HdrF(h1, b, i + n)
    [] OTHER -> [h |-> h, used |-> i - 1, err |-> FALSE]                 \* Finished: reads nothing more

(* ------------------------------------------------------------------ OCF: BlockDecoder::decode *)
BlkInit == [st |-> "Count", rem |-> 0, acc |-> <<>>, count |-> 0, data |-> <<>>, sync |-> <<>>]

RECURSIVE BlkF(_, _, _)
BlkF(d, b, i) ==
  IF i > Len(b) THEN [d |-> d, used |-> Len(b), err |-> FALSE]
  ELSE
  CASE d.st \in {"Count", "Size"} ->
         LET v == VlqF(d.acc, b, i) IN
         IF ~v.done THEN [d |-> [d EXCEPT !.acc = v.acc], used |-> Len(b), err |-> FALSE]
         ELSE LET n == Zz(Value(v.acc)) IN
              IF n < 0 THEN [d |-> d, used |-> v.next - 1, err |-> TRUE]      \* "cannot be negative"
              ELSE IF d.st = "Count" THEN BlkF([d EXCEPT !.acc = <<>>, !.count = n, !.st = "Size"], b, v.next)
              ELSE BlkF([d EXCEPT !.acc = <<>>, !.rem = n, !.st = "Data"], b, v.next)
    [] d.st = "Data" ->
         LET n == Min(d.rem, Len(b) - i + 1)
             d1 == [d EXCEPT !.data = d.data \o SubSeq(b, i, i + n - 1), !.rem = d.rem - n]
         IN BlkF(IF d1.rem = 0 THEN [d1 EXCEPT !.rem = S, !.st = "Sync"] ELSE d1, b, i + n)
    [] d.st = "Sync" ->
         LET n == Min(d.rem, Len(b) - i + 1)
             d1 == [d EXCEPT !.sync = d.sync \o SubSeq(b, i, i + n - 1), !.rem = d.rem - n,
                             !.st = IF d.rem = n THEN "Finished" ELSE "Sync"]
         IN BlkF(d1, b, i + n)
    [] OTHER -> [d |-> d, used |-> i - 1, err |-> FALSE]

(* the row decoder on block payload: n rows from data[c+1..]; each row ends at a byte with b = 1 *)
RECURSIVE TakeRows(_, _, _, _)
TakeRows(data, c, n, acc) ==
  IF n = 0 THEN [ok |-> TRUE, cur |-> c, rows |-> acc]
  ELSE LET E == {j \in (c + 1)..Len(data) : data[j].r # "p" \/ data[j].b = 1} IN
       IF E = {} THEN [ok |-> FALSE, cur |-> c, rows |-> acc]
       ELSE LET e == CHOOSE j \in E : \A j2 \in E : j <= j2 IN
            IF data[e].r # "p" \/ \E j \in (c + 1)..e : data[j].a # data[e].a
            THEN [ok |-> FALSE, cur |-> c, rows |-> acc]
            ELSE TakeRows(data, e, n - 1, Append(acc, data[e].a))

(* ------------------------------------------------------------------ OCF: read_header + Reader::read *)
OcfInit == [ph |-> "hdr", k |-> 1, off |-> 0, hd |-> HdrInit, bd |-> BlkInit,
            bdata |-> <<>>, bcount |-> 0, bcur |-> 0, fin |-> FALSE, cap |-> cfg.bs, cur |-> <<>>,
            out |-> <<>>, outcome |-> ""]

Fail(st, what) == [st EXCEPT !.ph = "done", !.outcome = "err:" \o what]

OcfF(st, c) ==
  LET kk == FillK(st, c)  hi == FillHi(st, c)  buf == SubSeq(inb, st.off + 1, hi) IN
  CASE st.ph = "hdr" ->
         \* one iteration of the loop of read_header; on break: HeaderDecoder::flush
         LET flushed(h, st1) == IF h.st = "Finished" THEN [st1 EXCEPT !.ph = "read"] ELSE Fail(st1, "header-eof") IN
         IF buf = <<>> THEN flushed(st.hd, st)
         ELSE LET r == HdrF(st.hd, buf, 1)
                  st1 == [st EXCEPT !.k = kk, !.off = st.off + r.used, !.hd = r.h]
              IN IF r.err THEN Fail(st1, "magic")
                 ELSE IF r.used # Len(buf) THEN flushed(r.h, st1) ELSE st1
    [] st.ph = "read" /\ ~st.fin /\ st.cap > 0 /\ st.bcur = Len(st.bdata) ->
         \* fetch (part of) the next block
         IF buf = <<>> THEN [st EXCEPT !.fin = TRUE]
         ELSE LET r == BlkF(st.bd, buf, 1)
                  st1 == [st EXCEPT !.k = kk, !.off = st.off + r.used, !.bd = r.d]
              IN IF r.err THEN Fail(st1, "block")
                 ELSE IF r.d.st = "Finished"
                      THEN IF r.d.sync # st.hd.sync THEN Fail(st1, "sync")
                           ELSE [st1 EXCEPT !.bdata = r.d.data, !.bcount = r.d.count, !.bcur = 0, !.bd = BlkInit]
                 ELSE IF r.used = 0 THEN Fail(st1, "stuck") ELSE st1
    [] st.ph = "read" /\ ~st.fin /\ st.cap > 0 /\ st.bcur # Len(st.bdata) ->
         \* Decoder::decode_block on the rest of the current block
         LET n == Min(st.bcount, st.cap) IN
         IF n = 0 THEN Fail(st, "spin")          \* block bytes left over after `count` rows (not produced by MC inputs)
         ELSE LET t == TakeRows(st.bdata, st.bcur, n, <<>>) IN
              IF ~t.ok THEN Fail(st, "row")
              ELSE [st EXCEPT !.bcur = t.cur, !.bcount = st.bcount - n, !.cap = st.cap - n, !.cur = st.cur \o t.rows]
    [] st.ph = "read" /\ (st.fin \/ st.cap = 0) ->
         \* flush_block at the end of read(); an empty read ends the iteration
         IF st.cur = <<>> THEN [st EXCEPT !.ph = "done", !.outcome = "ok"]
         ELSE [st EXCEPT !.out = Append(st.out, st.cur), !.cur = <<>>, !.cap = cfg.bs]
    [] OTHER -> st

(* ------------------------------------------------------------------ single-object framing *)
(* schemas: sequence of field kinds per schema id; cfg.schemas[id] \in Seq({"long", "string"})   *)
FieldsOf(id) == cfg.schemas[id]

(* the row decoder on w[i..] for schema `id`.  Ideal: a row is decoded entirely or not at all     *)
(* ("need").  Faithful (cfg.faithful): as RecordDecoder::decode does it - each field is appended  *)
(* to its column builder as soon as it is decoded; a varint that cannot be completed is           *)
(* ParseError("bad varint"); a string payload that is not complete is "Unexpected EOF", which     *)
(* Decoder::decode takes for "more data needed" - but the fields appended so far stay appended.   *)
(* `cols` are the per-field builders (sequences of row ids).                                      *)
RECURSIVE RowF(_, _, _, _, _, _)
RowF(id, w, i, f, cols, rid) ==
  IF f > Len(FieldsOf(id)) THEN [st |-> "ok", next |-> i, cols |-> cols]
  ELSE LET v == VlqF(<<>>, w, i) IN
       IF ~v.done THEN [st |-> IF cfg.faithful THEN "err" ELSE "need", next |-> i, cols |-> cols]
       ELSE IF FieldsOf(id)[f] = "long"
            THEN RowF(id, w, v.next, f + 1, [cols EXCEPT ![f] = Append(@, rid)], rid)
            ELSE LET len == Zz(Value(v.acc)) IN
                 IF len < 0 THEN [st |-> "err", next |-> i, cols |-> cols]
                 ELSE IF v.next + len - 1 > Len(w) THEN [st |-> "need", next |-> i, cols |-> cols]
                 ELSE RowF(id, w, v.next + len, f + 1, [cols EXCEPT ![f] = Append(@, rid)], rid)

(* the id of the record whose body starts at absolute position p (ghost naming of rows) *)
RowIdAt(p) == IF p \in DOMAIN cfg.bodyStart THEN cfg.bodyStart[p] ELSE 0

EmptyCols(id) == [f \in 1..Len(FieldsOf(id)) |-> <<>>]
(* one row decoder (with its column builders) per schema, as in Decoder::cache / active_decoder *)
AllEmpty == [id \in DOMAIN cfg.schemas |-> EmptyCols(id)]

SoeInit(c) == [ph |-> "feed", k |-> 1, hi |-> ChunkHi(c, N, 1), off |-> 0,
               active |-> 0, pending |-> 0, awaiting |-> FALSE, cap |-> cfg.bs, cols |-> AllEmpty,
               out |-> <<>>, outcome |-> ""]

(* Decoder::decode over the window inb[off+1..hi]; recursion = the while loop *)
RECURSIVE DecF(_, _)
DecF(st, o) ==            \* o: bytes of the window consumed so far are inb[st.off+1..o]
  IF o >= st.hi \/ st.cap = 0 THEN [st |-> st, o |-> o, err |-> ""]
  ELSE LET w == SubSeq(inb, o + 1, st.hi) IN
  IF st.awaiting
  THEN LET r == RowF(st.active, w, 1, 1, st.cols[st.active], RowIdAt(o + 1)) IN
       CASE r.st = "ok" -> DecF([st EXCEPT !.cap = st.cap - 1, !.awaiting = FALSE, !.cols[st.active] = r.cols], o + r.next - 1)
         [] r.st = "need" -> [st |-> IF cfg.faithful THEN [st EXCEPT !.cols[st.active] = r.cols] ELSE st, o |-> o, err |-> ""]
         [] OTHER -> [st |-> st, o |-> o, err |-> "decode"]
  ELSE \* handle_prefix
       IF Len(w) < G THEN [st |-> st, o |-> o, err |-> ""]
       ELSE IF \E x \in 1..G : w[x] # Byte("g", x, 0) THEN [st |-> st, o |-> o, err |-> "decode"]   \* "Missing magic bytes"
       ELSE IF Len(w) < G + F THEN [st |-> st, o |-> o, err |-> ""]
       ELSE LET id == IF \A x \in 1..F : w[G + x].r = "f" /\ w[G + x].a = x /\ w[G + x].b = w[G + 1].b
                      THEN w[G + 1].b ELSE 0
            IN IF id = st.active
               THEN DecF([st EXCEPT !.awaiting = TRUE], o + G + F)
               ELSE IF id \notin DOMAIN cfg.schemas THEN [st |-> st, o |-> o, err |-> "decode"]     \* unknown fingerprint
               ELSE IF st.cap < cfg.bs
                    THEN \* rows of the old schema are waiting: the switch happens at the next flush
                         DecF([st EXCEPT !.pending = id, !.cap = 0, !.awaiting = TRUE], o + G + F)
                    ELSE DecF([st EXCEPT !.active = id, !.pending = 0, !.awaiting = TRUE], o + G + F)

(* Decoder::flush = flush_and_reset; apply_pending_schema *)
ColsOk(c) == \A f \in DOMAIN c : Len(c[f]) = Len(c[1])
SameRows(c) == \A f \in DOMAIN c : c[f] = c[1]
FlushF(st) ==
  LET applied(x) == IF x.pending = 0 THEN x ELSE [x EXCEPT !.active = x.pending, !.pending = 0]
      ac == st.cols[st.active]
  IN IF st.cap = cfg.bs THEN [st |-> applied(st), err |-> "", some |-> FALSE]
     ELSE IF ~ColsOk(ac) THEN [st |-> applied(st), err |-> "flush", some |-> FALSE]        \* row count mismatch
     ELSE LET rows == IF SameRows(ac) THEN ac[1] ELSE <<0 - 1>>                             \* -1: rows mixed up
              st1 == [st EXCEPT !.out = Append(st.out, [sch |-> st.active, rows |-> rows]), !.cap = cfg.bs,
                                !.cols[st.active] = EmptyCols(st.active)]
          IN [st |-> applied(st1), err |-> "", some |-> TRUE]

(* the driver (harness/p/c14 avro.rs run_soe): rolling buffer; flush when the batch is full *)
SoeF(st, c) ==
  CASE st.ph = "feed" ->
         IF st.off = st.hi THEN [st EXCEPT !.ph = "more"]
         ELSE LET r == DecF(st, st.off) IN
              IF r.err # "" THEN Fail(r.st, r.err)
              ELSE LET st1 == [r.st EXCEPT !.off = r.o] IN
                   IF st1.cap = 0 THEN [st1 EXCEPT !.ph = "flush"]
                   ELSE IF r.o = st.off THEN [st1 EXCEPT !.ph = "more"] ELSE st1
    [] st.ph = "flush" ->
         LET r == FlushF(st) IN IF r.err # "" THEN Fail(r.st, r.err) ELSE [r.st EXCEPT !.ph = "feed"]
    [] st.ph = "more" ->
         IF st.k < NChunks(c) THEN [st EXCEPT !.k = st.k + 1, !.hi = ChunkHi(c, N, st.k + 1), !.ph = "feed"]
         ELSE [st EXCEPT !.ph = "end"]
    [] st.ph = "end" ->
         LET r == FlushF(st) IN
         IF r.err # "" THEN Fail(r.st, r.err)
         ELSE IF r.some THEN r.st
         ELSE [r.st EXCEPT !.ph = "done", !.outcome = IF st.off < N THEN "err:truncated" ELSE "ok"]
    [] OTHER -> st

(* ------------------------------------------------------------------ sessions and ghosts *)
Fixed == UNCHANGED <<cfg, inb, cuts>>

OcfStep == s.ph # "done" /\ cfg.kind = "ocf" /\ s' = OcfF(s, cuts) /\ Fixed
SoeStep == s.ph # "done" /\ cfg.kind = "soe" /\ s' = SoeF(s, cuts) /\ Fixed
Done == s.ph = "done" /\ UNCHANGED avars
ANext == OcfStep \/ SoeStep \/ Done

ResultOf(st) == [outcome |-> st.outcome, out |-> st.out]

(* the one-shot run: the same transition function on the single-chunk session *)
RECURSIVE RunOcf(_)
RunOcf(st) == IF st.ph = "done" THEN st ELSE RunOcf(OcfF(st, <<>>))
RECURSIVE RunSoe(_)
RunSoe(st) == IF st.ph = "done" THEN st ELSE RunSoe(SoeF(st, <<>>))

(* C14: outcome class and emitted batches (rows, their order, their schema) do not depend on the chunking *)
I_ChunkIndependent ==
  s.ph = "done" => ResultOf(s) = ResultOf(IF cfg.kind = "ocf" THEN RunOcf(OcfInit) ELSE RunSoe(SoeInit(<<>>)))

I_BatchBound == \A i \in DOMAIN s.out :
                  LET b == IF cfg.kind = "ocf" THEN s.out[i] ELSE s.out[i].rows IN Len(b) \in 1..cfg.bs
=============================================================================
