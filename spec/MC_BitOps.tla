------------------------------ MODULE MC_BitOps ------------------------------
(***************************************************************************)
(* Exhaustive model for BitOps.tla (C19).                                  *)
(*                                                                         *)
(* mode = "law":     the successors of the seed state enumerate every pair (a, b) of bit *)
(*   sequences of equal length <= MaxLaw; the invariant Laws is the list   *)
(*   of design laws the operators of BitOps must satisfy (boolean algebra, *)
(*   slice-of-op = op-of-slices for every truth table and sub-range,       *)
(*   counting / index / run laws, find-nth, chunking, splice + frame,      *)
(*   validity-mask laws).  They guard against a wrong specification.       *)
(*                                                                         *)
(* mode = "builder": BooleanBufferBuilder as a *physical* machine (packed  *)
(*   bytes + length, every call transcribed from builder/boolean.rs) run   *)
(*   in lock step with the abstract effect BuilderEff of BitOps; the       *)
(*   invariants say the packed bytes denote the abstract bits, the byte    *)
(*   length is ceil(len / 8) and the padding bits of the last byte are     *)
(*   zero (the representation invariant append_n / advance rely on).       *)
(***************************************************************************)
EXTENDS BitOps, TLC

CONSTANTS MaxLaw,      \* longest sequence for the operator laws
          MaxBits,     \* longest builder content
          MaxArg       \* largest count argument of a builder call

VARIABLES mode, a, b,          \* law inputs
          buf, blen, abs       \* physical bytes (as bits), physical length, abstract bits

vars == <<mode, a, b, buf, blen, abs>>

BitSeqs(n) == UNION {[1..k -> Bit] : k \in 0..n}
Tables(n) == [1..n -> Bit]

---------------------------------------------------------------------------
(* Laws                                                                     *)
n0 == Len(a)
Ranges == {<<o, n>> \in (0..n0) \X (0..n0) : o + n <= n0}

RECURSIVE Flatten(_)
Flatten(runs) == IF runs = <<>> THEN <<>>
                 ELSE LET r == Head(runs) IN [i \in 1..(r[2] - r[1]) |-> r[1] + i - 1] \o Flatten(Tail(runs))

(* a longer sequence built from the pair, to cross the 64-bit word boundary *)
Long == a \o Ones(61) \o b \o Zeros(3) \o a

L_Algebra ==
  /\ Not(And(a, b)) = Or(Not(a), Not(b))
  /\ Not(Or(a, b)) = And(Not(a), Not(b))
  /\ Xor(a, b) = Or(AndNot(a, b), AndNot(b, a))
  /\ AndNot(a, b) = And(a, Not(b))
  /\ Not(Not(a)) = a
  /\ Bin(TAnd, a, b) = And(a, b) /\ Bin(TOr, a, b) = Or(a, b) /\ Bin(TXor, a, b) = Xor(a, b)
  /\ Bin(TAndNot, a, b) = AndNot(a, b) /\ Bin(TRight, a, b) = b
  /\ Un(TNot, a) = Not(a) /\ Un(TId, a) = a
  /\ IsBits(And(a, b)) /\ IsBits(Xor(a, b)) /\ IsBits(Not(a))

L_SliceCommutes ==
  \A r \in Ranges :
    /\ Sub(Not(a), r[1], r[2]) = Not(Sub(a, r[1], r[2]))
    /\ \A f \in Tables(4) : Sub(Bin(f, a, b), r[1], r[2]) = Bin(f, Sub(a, r[1], r[2]), Sub(b, r[1], r[2]))
    /\ \A f \in Tables(2) : Sub(Un(f, a), r[1], r[2]) = Un(f, Sub(a, r[1], r[2]))
    /\ Sub(Sub(a, r[1], n0 - r[1]), 0, r[2]) = Sub(a, r[1], r[2])

(* a quaternary table that ignores its last two operands is the binary one  *)
L_Quat ==
  \A f \in Tables(4) :
    LET f4 == [i \in 1..16 |-> f[((i - 1) \div 4) + 1]] IN Quat(f4, a, b, Not(a), Not(b)) = Bin(f, a, b)

L_Count ==
  LET idx == SetIndices(a) IN
  /\ Count(a) = Len(idx)
  /\ \A k \in 1..Len(idx) : a[idx[k] + 1] = 1 /\ (k > 1 => idx[k - 1] < idx[k])
  /\ {idx[k] + 1 : k \in 1..Len(idx)} = SetPos(a)
  /\ Count(a) + Count(Not(a)) = Len(a)
  /\ Count(a) + Count(b) = Count(And(a, b)) + Count(Or(a, b))
  /\ Count(And(a, b)) <= Min(Count(a), Count(b))
  /\ CountZeros(a) = Count(Not(a))
  /\ HasTrue(a) = (Count(a) > 0) /\ HasFalse(a) = (Count(a) < Len(a))
  /\ \A r \in Ranges : Count(Sub(a, 0, r[1])) + Count(Sub(a, r[1], n0 - r[1])) = Count(a)

L_Runs ==
  LET runs == SetSlices(a) IN
  /\ Flatten(runs) = SetIndices(a)                       \* the runs partition the set indices, in order
  /\ \A k \in 1..Len(runs) :
       /\ runs[k][1] < runs[k][2] /\ runs[k][2] <= Len(a)
       /\ (k > 1 => runs[k - 1][2] < runs[k][1])          \* maximal: separated by at least one unset bit
  /\ Len(runs) <= Count(a)

L_FindNth ==
  \A start \in 0..n0 : \A n \in 0..(n0 + 1) :
    LET p == FindNth(a, start, n) IN
    IF n = 0 THEN p = start
    ELSE IF Count(Sub(a, start, n0 - start)) < n THEN p = n0
    ELSE /\ p > start /\ p <= n0 /\ a[p] = 1
         /\ Count(Sub(a, start, p - start)) = n

L_Chunks ==
  LET s == Long IN
  /\ ChunkBits(s) \o Sub(RemainderWord(s), 0, RemainderLen(s)) = s
  /\ Len(RemainderWord(s)) = 64 /\ Len(ChunkBits(s)) = 64 * ChunkLen(s)
  /\ Count(ChunkBits(s)) + Count(RemainderWord(s)) = Count(s)
  /\ \A lead \in {0, 5, 63} :
       LET trail == (64 - ((lead + Len(s)) % 64)) % 64
           w == Zeros(lead) \o s \o Zeros(trail) IN
       /\ UnalignedOK(s, lead, trail, w) /\ Count(w) = Count(s)
       /\ ~UnalignedOK(s, lead, trail, Ones(lead) \o s \o Zeros(trail)) \/ lead = 0

L_Splice ==
  \A r \in Ranges : \A so \in 0..(n0 - r[2]) :
    LET d1 == SetBits(a, b, r[1], so, r[2]) IN
    /\ Sub(d1, r[1], r[2]) = Sub(b, so, r[2])
    /\ Outside(d1, a, r[1], r[2])
    /\ SetBits(d1, b, r[1], so, r[2]) = d1
    /\ ApplyBin(a, r[1], Sub(b, so, r[2]), r[2], TRight) = d1
    /\ \A f \in Tables(2) : LET d2 == ApplyUn(a, r[1], r[2], f) IN
         Outside(d2, a, r[1], r[2]) /\ Sub(d2, r[1], r[2]) = Un(f, Sub(a, r[1], r[2]))
    /\ \A f \in {TAnd, TOr, TXor, TAndNot} :
         LET d3 == ApplyBin(a, r[1], Sub(b, so, r[2]), r[2], f) IN
         Outside(d3, a, r[1], r[2]) /\ Sub(d3, r[1], r[2]) = Bin(f, Sub(a, r[1], r[2]), Sub(b, so, r[2]))

L_Validity ==
  /\ Union(a, b) = Union(b, a)
  /\ Contains(Union(a, b), a) /\ Contains(Union(a, b), b)
  /\ Contains(a, b) = (And(a, Not(b)) = Zeros(Len(a)))
  /\ UnionMany(<<a, b, a>>, Len(a)) = Union(a, b) /\ UnionMany(<<a>>, Len(a)) = a
  /\ OptAgrees(TRUE, Union(a, b), And(a, b))
  /\ OptAgrees(FALSE, <<>>, a) = (Count(a) = Len(a))
  /\ \A k \in 0..3 :
       /\ Len(Expand(a, k)) = k * Len(a) /\ Count(Expand(a, k)) = k * Count(a)
       /\ \A i \in 0..(Len(a) - 1) : Sub(Expand(a, k), i * k, k) = Fill(k, a[i + 1])
  /\ Expand(a, 1) = a

L_Iter ==
  /\ Reverse(Reverse(a)) = a
  /\ \A k \in 0..(n0 + 1) :
       /\ IterNth(a, k) = (IF k < n0 THEN Get(a, k) ELSE None)
       /\ IterNthBack(a, k) = IterNth(Reverse(a), k)
       /\ IterNthRest(a, k) = (IF k < n0 THEN Len(Sub(a, k + 1, n0 - k - 1)) ELSE 0)
  /\ IterLast(a) = IterNth(Reverse(a), 0)
  /\ IterMax(a) = (IF n0 = 0 THEN None ELSE IF Count(a) > 0 THEN 1 ELSE 0)
  /\ \A i \in 0..(n0 - 1) : FlipAt(a, i) # a /\ FlipAt(FlipAt(a, i), i) = a /\ ~Eq(a, FlipAt(a, i))
  /\ Eq(a, a)

Laws == mode = "law" =>
  /\ L_Algebra /\ L_SliceCommutes /\ L_Quat /\ L_Count /\ L_Runs /\ L_FindNth
  /\ L_Chunks /\ L_Splice /\ L_Validity /\ L_Iter

---------------------------------------------------------------------------
(* Physical BooleanBufferBuilder (builder/boolean.rs); buf is the packed    *)
(* MutableBuffer as a bit sequence, blen the builder's `len`                *)
Ceil8(n) == ((n + 7) \div 8) * 8

(* MutableBuffer::resize(new_len_bytes, value) seen at bit level             *)
PResize(bf, nbits, v) == IF nbits >= Len(bf) THEN bf \o Fill(nbits - Len(bf), v) ELSE Sub(bf, 0, nbits)

(* the last byte with its bits from `from` upward (0..7) set to v            *)
LastByteFrom(bf, from, v) ==
  [i \in 1..Len(bf) |-> IF i > Len(bf) - 8 + from THEN v ELSE bf[i]]

PAdvance(bf, ln, k) ==
  LET nl == ln + k IN
  [buf |-> IF Ceil8(nl) > Len(bf) THEN PResize(bf, Ceil8(nl), 0) ELSE bf, len |-> nl]

PSet(bf, i, v) == [bf EXCEPT ![i + 1] = v]

RECURSIVE PSetAll(_, _, _, _)
PSetAll(bf, at, s, i) ==     \* set_bit_raw for every true of s (append / append_slice)
  IF i > Len(s) THEN bf ELSE PSetAll(IF s[i] = 1 THEN PSet(bf, at + i - 1, 1) ELSE bf, at, s, i + 1)

PAppendSlice(bf, ln, s) ==
  LET st == PAdvance(bf, ln, Len(s)) IN [buf |-> PSetAll(st.buf, ln, s, 1), len |-> st.len]

PAppendNTrue(bf, ln, k) ==
  LET nl == ln + k
      b1 == IF ln % 8 # 0 THEN LastByteFrom(bf, ln % 8, 1) ELSE bf     \* pad last byte with 1s
      b2 == PResize(b1, Ceil8(nl), 1)                                   \* resize(.., 0xFF)
      b3 == IF nl % 8 # 0 THEN LastByteFrom(b2, nl % 8, 0) ELSE b2     \* clear remaining bits
  IN [buf |-> b3, len |-> nl]

PTruncate(bf, ln, k) ==
  IF k > ln THEN [buf |-> bf, len |-> ln]
  ELSE LET b1 == Sub(bf, 0, Ceil8(k))
           b2 == IF k % 8 # 0 THEN LastByteFrom(b1, k % 8, 0) ELSE b1
       IN [buf |-> b2, len |-> k]

(* append_packed_range: advance, then apply |_a, b| b over the new range     *)
PAppendPacked(bf, ln, s) ==
  LET st == PAdvance(bf, ln, Len(s)) IN [buf |-> ApplyBin(st.buf, ln, s, Len(s), TRight), len |-> st.len]

(* append_word(word, count): resize with zeros, OR the shifted word in      *)
PAppendWord(bf, ln, w, c) ==
  LET nl == ln + c
      b1 == IF Ceil8(nl) > Len(bf) THEN PResize(bf, Ceil8(nl), 0) ELSE bf
  IN [buf |-> [i \in 1..Len(b1) |-> IF i > ln /\ i <= nl /\ w[i - ln] = 1 THEN 1 ELSE b1[i]], len |-> nl]

Step(st, eff) == /\ mode = "builder" /\ buf' = st.buf /\ blen' = st.len /\ abs' = eff /\ UNCHANGED <<mode, a, b>>

Fits(k) == Len(abs) + k <= MaxBits

A_Append      == \E v \in Bit : Fits(1) /\ Step(PAppendSlice(buf, blen, <<v>>), BuilderEff(abs, "append", 0, v, <<>>))
A_AppendN     == \E k \in 0..MaxArg : \E v \in Bit : Fits(k) /\
                 Step(IF v = 1 THEN PAppendNTrue(buf, blen, k) ELSE PAdvance(buf, blen, k), BuilderEff(abs, "append_n", k, v, <<>>))
A_AppendSlice == \E s \in BitSeqs(MaxArg) : Fits(Len(s)) /\ Step(PAppendSlice(buf, blen, s), BuilderEff(abs, "append_slice", 0, 0, s))
A_AppendPacked == \E s \in BitSeqs(MaxArg) : Fits(Len(s)) /\ Step(PAppendPacked(buf, blen, s), BuilderEff(abs, "append_packed", 0, 0, s))
A_AppendWord  == \E w \in [1..MaxArg -> Bit] : \E c \in 0..MaxArg : Fits(c) /\
                 Step(PAppendWord(buf, blen, w, c), BuilderEff(abs, "append_word", c, 0, w))
A_SetBit      == \E i \in 0..(blen - 1) : \E v \in Bit : Step([buf |-> PSet(buf, i, v), len |-> blen], BuilderEff(abs, "set_bit", i, v, <<>>))
A_Advance     == \E k \in 0..MaxArg : Fits(k) /\ Step(PAdvance(buf, blen, k), BuilderEff(abs, "advance", k, 0, <<>>))
A_Truncate    == \E k \in 0..(MaxBits + 1) : Step(PTruncate(buf, blen, k), BuilderEff(abs, "truncate", k, 0, <<>>))
A_Resize      == \E k \in 0..MaxBits :
                 Step(IF k >= blen THEN PAdvance(buf, blen, k - blen) ELSE PTruncate(buf, blen, k), BuilderEff(abs, "resize", k, 0, <<>>))
A_Finish      == Step([buf |-> <<>>, len |-> 0], BuilderEff(abs, "finish", 0, 0, <<>>))

(* the packed bytes denote the abstract bits                                *)
B_Refines  == mode = "builder" => blen = Len(abs) /\ Sub(buf, 0, blen) = abs
(* what finish / finish_cloned hand out: ceil(len / 8) bytes                *)
B_ByteLen  == mode = "builder" => Len(buf) = Ceil8(blen)
(* padding bits of the last byte are zero                                   *)
B_PadZero  == mode = "builder" => \A i \in (blen + 1)..Len(buf) : buf[i] = 0

---------------------------------------------------------------------------
(* one seed state; PickA / LawCase fan out to every law input in two steps  *)
(* (so that the laws are evaluated by all TLC workers), StartBuilder enters *)
(* the builder machine                                                      *)
Init == mode = "seed" /\ a = <<>> /\ b = <<>> /\ buf = <<>> /\ blen = 0 /\ abs = <<>>

PickA == /\ mode = "seed" /\ mode' = "pick" /\ a' \in BitSeqs(MaxLaw) /\ UNCHANGED <<b, buf, blen, abs>>
LawCase == /\ mode = "pick" /\ mode' = "law" /\ b' \in [1..Len(a) -> Bit] /\ UNCHANGED <<a, buf, blen, abs>>

StartBuilder == mode = "seed" /\ mode' = "builder" /\ UNCHANGED <<a, b, buf, blen, abs>>

Next == \/ PickA \/ LawCase \/ StartBuilder
        \/ A_Append \/ A_AppendN \/ A_AppendSlice \/ A_AppendPacked \/ A_AppendWord
        \/ A_SetBit \/ A_Advance \/ A_Truncate \/ A_Resize \/ A_Finish

Spec == Init /\ [][Next]_vars
=============================================================================
