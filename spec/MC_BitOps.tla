------------------------------ MODULE MC_BitOps ------------------------------
(***************************************************************************)
(* Exhaustive model for BitOps.tla (C19).                                  *)
(*                                                                         *)
(* Design laws of the operators: the states enumerate every pair (a, b) of *)
(* bit sequences of equal length <= MaxLaw (seed -> PickA -> LawCase, two  *)
(* steps so that all TLC workers share the evaluation); the invariant Laws *)
(* is the list of laws the operators of BitOps must satisfy (boolean       *)
(* algebra, slice-of-op = op-of-slices for every truth table and           *)
(* sub-range, counting / index / run laws, find-nth, chunking, splice +    *)
(* frame, validity-mask laws).  They guard against a wrong specification.  *)
(* The packed BooleanBufferBuilder machine is in MC_BitBuilder.            *)
(***************************************************************************)
EXTENDS BitOps, TLC

CONSTANTS MaxLaw       \* longest sequence for the operator laws

VARIABLES mode, a, b   \* "seed" / "pick" / "law", and the law inputs

vars == <<mode, a, b>>

BitSeqs(n) == UNION {[1..k -> Bit] : k \in 0..n}
Tables(n) == [1..n -> Bit]

---------------------------------------------------------------------------
(* Laws                                                                     *)
n0 == Len(a)
Ranges == {<<o, n>> \in (0..n0) \X (0..n0) : o + n <= n0}

RECURSIVE Flatten(_)
Flatten(runs) == IF runs = <<>> THEN <<>>
                 ELSE LET r == Head(runs) IN [i \in 1..(r[2] - r[1]) |-> r[1] + i - 1] \o Flatten(Tail(runs))

(* a longer sequence built from the pair, to cross the 64-bit word boundary *)
Long == a \o Ones(61) \o b \o Zeros(3) \o a

L_Algebra ==
  /\ Not(And(a, b)) = Or(Not(a), Not(b))
  /\ Not(Or(a, b)) = And(Not(a), Not(b))
  /\ Xor(a, b) = Or(AndNot(a, b), AndNot(b, a))
  /\ AndNot(a, b) = And(a, Not(b))
  /\ Not(Not(a)) = a
  /\ Bin(TAnd, a, b) = And(a, b) /\ Bin(TOr, a, b) = Or(a, b) /\ Bin(TXor, a, b) = Xor(a, b)
  /\ Bin(TAndNot, a, b) = AndNot(a, b) /\ Bin(TRight, a, b) = b
  /\ Un(TNot, a) = Not(a) /\ Un(TId, a) = a
  /\ IsBits(And(a, b)) /\ IsBits(Xor(a, b)) /\ IsBits(Not(a))

L_SliceCommutes ==
  \A r \in Ranges :
    /\ Sub(Not(a), r[1], r[2]) = Not(Sub(a, r[1], r[2]))
    /\ \A f \in Tables(4) : Sub(Bin(f, a, b), r[1], r[2]) = Bin(f, Sub(a, r[1], r[2]), Sub(b, r[1], r[2]))
    /\ \A f \in Tables(2) : Sub(Un(f, a), r[1], r[2]) = Un(f, Sub(a, r[1], r[2]))
    /\ Sub(Sub(a, r[1], n0 - r[1]), 0, r[2]) = Sub(a, r[1], r[2])

(* a quaternary table that ignores its last two operands is the binary one  *)
L_Quat ==
  \A f \in Tables(4) :
    LET f4 == [i \in 1..16 |-> f[((i - 1) \div 4) + 1]] IN Quat(f4, a, b, Not(a), Not(b)) = Bin(f, a, b)

L_Count ==
  LET idx == SetIndices(a) IN
  /\ Count(a) = Len(idx)
  /\ \A k \in 1..Len(idx) : a[idx[k] + 1] = 1 /\ (k > 1 => idx[k - 1] < idx[k])
  /\ {idx[k] + 1 : k \in 1..Len(idx)} = SetPos(a)
  /\ Count(a) + Count(Not(a)) = Len(a)
  /\ Count(a) + Count(b) = Count(And(a, b)) + Count(Or(a, b))
  /\ Count(And(a, b)) <= Min(Count(a), Count(b))
  /\ CountZeros(a) = Count(Not(a))
  /\ HasTrue(a) = (Count(a) > 0) /\ HasFalse(a) = (Count(a) < Len(a))
  /\ \A r \in Ranges : Count(Sub(a, 0, r[1])) + Count(Sub(a, r[1], n0 - r[1])) = Count(a)

L_Runs ==
  LET runs == SetSlices(a) IN
  /\ Flatten(runs) = SetIndices(a)                       \* the runs partition the set indices, in order
  /\ \A k \in 1..Len(runs) :
       /\ runs[k][1] < runs[k][2] /\ runs[k][2] <= Len(a)
       /\ (k > 1 => runs[k - 1][2] < runs[k][1])          \* maximal: separated by at least one unset bit
  /\ Len(runs) <= Count(a)

L_FindNth ==
  \A start \in 0..n0 : \A n \in 0..(n0 + 1) :
    LET p == FindNth(a, start, n) IN
    IF n = 0 THEN p = start
    ELSE IF Count(Sub(a, start, n0 - start)) < n THEN p = n0
    ELSE /\ p > start /\ p <= n0 /\ a[p] = 1
         /\ Count(Sub(a, start, p - start)) = n

L_Chunks ==
  LET s == Long IN
  /\ ChunkBits(s) \o Sub(RemainderWord(s), 0, RemainderLen(s)) = s
  /\ Len(RemainderWord(s)) = 64 /\ Len(ChunkBits(s)) = 64 * ChunkLen(s)
  /\ Count(ChunkBits(s)) + Count(RemainderWord(s)) = Count(s)
  /\ \A lead \in {0, 5, 63} :
       LET trail == (64 - ((lead + Len(s)) % 64)) % 64
           w == Zeros(lead) \o s \o Zeros(trail) IN
       /\ UnalignedOK(s, lead, trail, w) /\ Count(w) = Count(s)
       /\ ~UnalignedOK(s, lead, trail, Ones(lead) \o s \o Zeros(trail)) \/ lead = 0

L_Splice ==
  \A r \in Ranges : \A so \in 0..(n0 - r[2]) :
    LET d1 == SetBits(a, b, r[1], so, r[2]) IN
    /\ Sub(d1, r[1], r[2]) = Sub(b, so, r[2])
    /\ Outside(d1, a, r[1], r[2])
    /\ SetBits(d1, b, r[1], so, r[2]) = d1
    /\ ApplyBin(a, r[1], Sub(b, so, r[2]), r[2], TRight) = d1
    /\ \A f \in Tables(2) : LET d2 == ApplyUn(a, r[1], r[2], f) IN
         Outside(d2, a, r[1], r[2]) /\ Sub(d2, r[1], r[2]) = Un(f, Sub(a, r[1], r[2]))
    /\ \A f \in {TAnd, TOr, TXor, TAndNot} :
         LET d3 == ApplyBin(a, r[1], Sub(b, so, r[2]), r[2], f) IN
         Outside(d3, a, r[1], r[2]) /\ Sub(d3, r[1], r[2]) = Bin(f, Sub(a, r[1], r[2]), Sub(b, so, r[2]))

L_Validity ==
  /\ Union(a, b) = Union(b, a)
  /\ Contains(Union(a, b), a) /\ Contains(Union(a, b), b)
  /\ Contains(a, b) = (And(a, Not(b)) = Zeros(Len(a)))
  /\ UnionMany(<<a, b, a>>, Len(a)) = Union(a, b) /\ UnionMany(<<a>>, Len(a)) = a
  /\ OptAgrees(TRUE, Union(a, b), And(a, b))
  /\ OptAgrees(FALSE, <<>>, a) = (Count(a) = Len(a))
  /\ \A k \in 0..3 :
       /\ Len(Expand(a, k)) = k * Len(a) /\ Count(Expand(a, k)) = k * Count(a)
       /\ \A i \in 0..(Len(a) - 1) : Sub(Expand(a, k), i * k, k) = Fill(k, a[i + 1])
  /\ Expand(a, 1) = a

L_Iter ==
  /\ Reverse(Reverse(a)) = a
  /\ \A k \in 0..(n0 + 1) :
       /\ IterNth(a, k) = (IF k < n0 THEN Get(a, k) ELSE None)
       /\ IterNthBack(a, k) = IterNth(Reverse(a), k)
       /\ IterNthRest(a, k) = (IF k < n0 THEN Len(Sub(a, k + 1, n0 - k - 1)) ELSE 0)
  /\ IterLast(a) = IterNth(Reverse(a), 0)
  /\ IterMax(a) = (IF n0 = 0 THEN None ELSE IF Count(a) > 0 THEN 1 ELSE 0)
  /\ \A i \in 0..(n0 - 1) : FlipAt(a, i) # a /\ FlipAt(FlipAt(a, i), i) = a /\ ~Eq(a, FlipAt(a, i))
  /\ Eq(a, a)

L_RLE ==
  LET r == RLE(Long) q == RLE(a) IN
  /\ UnRLE(r) = Long /\ UnRLE(q) = a
  /\ \A k \in 1..Len(r) : r[k][2] > 0 /\ (k > 1 => r[k - 1][1] # r[k][1])      \* maximal runs
  /\ (a = <<>>) = (q = <<>>)

Laws == mode = "law" =>
  /\ L_Algebra /\ L_SliceCommutes /\ L_Quat /\ L_Count /\ L_Runs /\ L_FindNth
  /\ L_Chunks /\ L_Splice /\ L_Validity /\ L_Iter /\ L_RLE

---------------------------------------------------------------------------
Init == mode = "seed" /\ a = <<>> /\ b = <<>>
PickA == mode = "seed" /\ mode' = "pick" /\ a' \in BitSeqs(MaxLaw) /\ UNCHANGED b
LawCase == mode = "pick" /\ mode' = "law" /\ b' \in [1..Len(a) -> Bit] /\ UNCHANGED a
Next == PickA \/ LawCase
Spec == Init /\ [][Next]_vars
=============================================================================
