-------------------------- MODULE Trace_Coalescer --------------------------
(* impl -> spec: recorded histories of the real BatchCoalescer are replayed *)
(* through the effects of Coalescer.tla; every observation the public API   *)
(* offers (popped batches, buffered row count, has_completed_batch, error   *)
(* outcome) must be the one the specification computes.  The invariants of  *)
(* Coalescer.tla are evaluated by TLC in every state of the trace.          *)
EXTENDS Coalescer, Select, TraceBase

VARIABLES l, ncols

Lim(x) == IF x < 0 THEN NoLimit ELSE x

(* state after the call, as the specification computes it                    *)
After(ev) ==
  CASE ev.op = "push"    -> PushEff(target, limit, buffered, completed, ev.rows)
    [] ev.op = "filter"  -> LET f == Filter(ev.rows, ev.mask) IN
                            IF f.err THEN St(buffered, completed)
                            ELSE FilterEff(target, special, limit, buffered, completed,
                                           Len(ev.rows), Len(ev.mask), f.rows)
    [] ev.op = "indices" -> LET t == TakeN(ev.rows, ev.idx, NullRow(ncols)) IN
                            IF t.err THEN St(buffered, completed)
                            ELSE PushEff(target, limit, buffered, completed, t.rows)
    [] ev.op = "finish"  -> FinishEff(target, buffered, completed)
    [] OTHER             -> St(buffered, completed)

Pushed(ev) ==
  CASE ev.op = "push"    -> ev.rows
    [] ev.op = "filter"  -> LET f == Filter(ev.rows, ev.mask) IN IF f.err THEN <<>> ELSE f.rows
    [] ev.op = "indices" -> LET t == TakeN(ev.rows, ev.idx, NullRow(ncols)) IN IF t.err THEN <<>> ELSE t.rows
    [] OTHER             -> <<>>

MustErr(ev) ==
  CASE ev.op = "filter"  -> Filter(ev.rows, ev.mask).err
    [] ev.op = "indices" -> TakeN(ev.rows, ev.idx, NullRow(ncols)).err
    [] OTHER             -> FALSE

Init == /\ l = 1 /\ ncols = 1 /\ target = 1 /\ special = FALSE /\ limit = NoLimit /\ everLimited = FALSE
        /\ buffered = <<>> /\ completed = <<>> /\ pending = <<>>

New(ev) ==
  /\ ncols' = ev.ncols /\ target' = ev.target /\ special' = ev.special /\ limit' = Lim(ev.limit)
  /\ everLimited' = (ev.limit >= 0)
  /\ buffered' = <<>> /\ completed' = <<>> /\ pending' = <<>>

Call(ev) ==
  LET a == After(ev) IN
  /\ Judge(ev.err = MustErr(ev), l, <<ev.op, "outcome">>)
  /\ Judge(ev.buffered = Len(a.buf), l, <<ev.op, "buffered rows", ev.buffered, Len(a.buf)>>)
  /\ Judge(ev.has = (a.comp # <<>>), l, <<ev.op, "has_completed_batch">>)
  /\ buffered' = a.buf /\ completed' = a.comp /\ pending' = pending \o Pushed(ev)
  /\ UNCHANGED <<target, special, limit, everLimited>>

Pop(ev) ==
  IF completed = <<>>
  THEN /\ Judge(~ev.some, l, "pop: batch returned but none specified")
       /\ UNCHANGED <<target, special, limit, everLimited, buffered, completed, pending>>
  ELSE /\ Judge(ev.some /\ ev.out = Head(completed).rows, l, <<"pop", Len(Head(completed).rows), Head(completed).kind>>)
       /\ NextCompleted

SetLim(ev) == SetLimit(Lim(ev.limit))

Next == /\ l <= Len(Rec)
        /\ l' = l + 1
        /\ LET ev == Rec[l] IN
           CASE ev.op = "new"       -> New(ev)
             [] ev.op = "pop"       -> Pop(ev) /\ UNCHANGED ncols
             [] ev.op = "set_limit" -> SetLim(ev) /\ UNCHANGED ncols
             [] OTHER               -> Call(ev) /\ UNCHANGED ncols

TSpec == Init /\ [][Next]_<<vars, l, ncols>>
=============================================================================
