SPECIFICATION TSpec
CONSTANTS NoLimit = NoLimit
INVARIANTS I1_BufferBelowTarget I2_ExactSizes I3_RowsConserved I4_NoEmptyBatch
POSTCONDITION AllConsumed
CHECK_DEADLOCK FALSE
