SPECIFICATION Spec
CONSTANTS
  MaxCol = 3
INVARIANTS OrderLaws SortLaws RankLaws PartitionLaws LexLaws KernelLaws
CHECK_DEADLOCK FALSE
