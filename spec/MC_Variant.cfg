SPECIFICATION Spec
CONSTANTS
  ValueUniverses <- VU_thorough
  MetaUniverses <- MU_thorough
  Metas <- MetasStd
INVARIANTS Total SelfDelimiting ExtensionStable NestedValid MetaLaws Emit
CHECK_DEADLOCK FALSE
