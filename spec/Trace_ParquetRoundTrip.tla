---------------------- MODULE Trace_ParquetRoundTrip ----------------------
(***************************************************************************)
(* impl -> spec (C05): recorded executions of the real Arrow Parquet writer *)
(* and reader.                                                              *)
(*                                                                         *)
(* Serial episodes are validated call by call: `new` (writer properties,    *)
(* schema), then `write` / `flush` events carrying what the public API      *)
(* shows after the call (sizes of the flushed row groups, rows buffered),   *)
(* then `close` with everything read back from the file.  The abstract      *)
(* state kept by TLC is the call history and the row tokens written so far; *)
(* the expected row groups are computed with ParquetWrite!GroupSizes (the   *)
(* closed form that MC_ParquetWrite proves equal to the writer machine).    *)
(* `par` events are files written by independent column writers on threads, *)
(* `lv` events carry the levels read back with the low-level column reader, *)
(* judged against Dremel!Shred of the logged logical values.                *)
(* `fail`: the writer or reader failed.  A refusal (an error returned while *)
(* writing) is not judged -- the property speaks of accepted batches; a     *)
(* panic, or any failure to read back a file the writer produced, is a      *)
(* violation unless it is a listed known finding.                           *)
(***************************************************************************)
EXTENDS Dremel, TraceBase

PW == INSTANCE ParquetWrite WITH
        Cols <- {1}, MaxRG <- 0, ByteLimit <- FALSE, PageRows <- 1, BatchSz <- 1, SizeSplits <- FALSE,
        DictCols <- {}, Fallback <- FALSE, MaxOps <- 0, MaxBatch <- 0,
        next <- 0, pending <- <<>>, todo <- <<>>, page <- <<>>, pages <- <<>>, dict <- <<>>, buffered <- 0,
        groups <- <<>>, phase <- "", ret <- "", why <- "", closedCols <- {}, hist <- <<>>

VARIABLES l,      \* next event
          live,   \* an episode is open and has not failed
          cfg,    \* [maxrg, bytes, cdc] of the open episode
          sch,    \* [names, types, flat, topree, anyree, nullable] of the open episode
          h,      \* API calls so far: <<"w", n>> / <<"f", 0>>
          rin,    \* row tokens written so far
          gs      \* sizes of the row groups flushed so far (as last observed)

vars == <<l, live, cfg, sch, h, rin, gs>>

Range(s) == {s[i] : i \in 1..Len(s)}
IsPrefix(a, b) == Len(a) <= Len(b) /\ SubSeq(b, 1, Len(a)) = a
Sum(s) == PW!SumSeq(s)
(* cumulative sums of a sequence of sizes *)
Cums(s) == {Sum(SubSeq(s, 1, k)) : k \in 1..Len(s)}

(***************************************************************************)
(* What the API must show after a call.                                     *)
(***************************************************************************)
(* flushed groups and buffered rows after history hh over n rows            *)
StepOk(ev, hh, n) ==
  /\ IsPrefix(gs, ev.gs)                                  \* closed row groups never change
  /\ Sum(ev.gs) + ev.b = n                                \* P1: rows conserved
  /\ \A i \in 1..Len(ev.gs) : ev.gs[i] >= 1 /\ (cfg.maxrg # 0 => ev.gs[i] <= cfg.maxrg)   \* P2
  /\ cfg.maxrg # 0 => ev.b < cfg.maxrg
  /\ ~cfg.bytes => (ev.gs = PW!GroupSizes(hh, cfg.maxrg) /\ ev.b = PW!BufferedAfter(hh, cfg.maxrg))

(* rows waiting at each explicit flush: a row group boundary must sit there *)
RECURSIVE FlushPoints(_, _, _)
FlushPoints(hh, i, n) ==
  IF i > Len(hh) THEN {}
  ELSE IF hh[i][1] = "w" THEN FlushPoints(hh, i + 1, n + hh[i][2])
  ELSE (IF n > 0 THEN {n} ELSE {}) \cup FlushPoints(hh, i + 1, n)

(***************************************************************************)
(* The file.                                                                *)
(***************************************************************************)
ExpectedType(i) ==
  IF sch.topree[i] THEN {sch.flat[i]}
  ELSE IF sch.anyree[i] THEN {sch.types[i], sch.flat[i]}
  ELSE {sch.types[i]}

SchemaOk(ev) ==
  /\ ev.names_out = sch.names
  /\ ev.nullable_out = sch.nullable
  /\ Len(ev.types_out) = Len(sch.types)
  /\ \A i \in 1..Len(sch.types) : ev.types_out[i] \in ExpectedType(i)
  /\ ev.batch_schema_same

(* page kinds of one chunk: 0 dictionary page, 1 dictionary-encoded data    *)
(* page, 2 other data page (P4)                                             *)
ChunkPagesOk(k, dictOn, rows) ==
  LET data == SelectSeq(k, LAMBDA x : x # 0) IN
  /\ \A i \in 2..Len(k) : k[i] # 0                        \* at most one dictionary page, first
  /\ \A i, j \in 1..Len(data) : (i < j /\ data[i] = 2) => data[j] = 2   \* no way back to the dictionary
  /\ (\E i \in 1..Len(data) : data[i] = 1) => (Len(k) > 0 /\ k[1] = 0)
  /\ ~dictOn => \A i \in 1..Len(k) : k[i] = 2
  /\ rows > 0 => data # <<>>

(* cdc: content-defined chunking inserts a page break after every chunk, also  *)
(* when no row is buffered: pages without rows are then possible               *)
FileOk(ev, sizes, n, cdc) ==
  /\ ev.rg = sizes /\ ev.nrows = n                         \* row groups as accounted
  /\ Len(ev.pg) = Len(sizes) /\ Len(ev.penc) = Len(sizes)
  /\ \A g \in 1..Len(sizes) :
       /\ Len(ev.pg[g]) = ev.nleaves /\ Len(ev.penc[g]) = ev.nleaves
       /\ \A c \in 1..ev.nleaves :
            (* P3: with an offset index, the pages of every leaf partition the rows of the group *)
            /\ ev.has_oi => (/\ Sum(ev.pg[g][c]) = sizes[g]
                             /\ \A p \in 1..Len(ev.pg[g][c]) : ev.pg[g][c][p] >= (IF cdc THEN 0 ELSE 1))
            /\ ChunkPagesOk(ev.penc[g][c], ev.dict_leaf[c], sizes[g])
            /\ ev.page_values[g][c] = ev.chunk_values[g][c]
(* rows come back in order: row group g holds the g-th block               *)
RowsOk(ev, sizes, rows) ==
  LET order == PW!Flat(PW!Blocks(sizes, 1)) IN
  /\ Len(ev.rout) = Len(rows) /\ Len(order) = Len(rows)
  /\ ev.rout = [i \in 1..Len(rows) |-> rows[order[i]]]
  /\ Sum(ev.outb) = Len(rows)
  /\ \A i \in 1..Len(ev.outb) : ev.outb[i] >= 1 /\ ev.outb[i] <= ev.bs

(***************************************************************************)
(* Known findings (known_findings.txt): identified by stage, failure kind   *)
(* and the feature of the input schema that triggers them.                  *)
(***************************************************************************)
Has(ev, f) == f \in Range(ev.feat)
KF(ev) ==
  CASE ev.op = "close" /\ ev.fin = "finish" /\ ev.waf = "ok"
         -> "C05-write-after-finish-accepted"
    [] ev.op = "fail" /\ Has(ev, "dictview") /\ ((ev.stage = "write" /\ ev.panic) \/ (ev.stage = "read" /\ ~ev.panic))
         -> "C05-dictionary-of-view-values"
    [] ev.op = "fail" /\ Has(ev, "dictflba") /\ ev.stage = "read" /\ ~ev.panic
         -> "C05-dictionary-of-flba-values-unreadable"
    [] ev.op = "fail" /\ Has(ev, "dictfsb") /\ ev.panic /\ ev.stage \in {"write", "read"}
         -> "C05-dictionary-of-fixed-size-binary-panics"
    [] ev.op = "fail" /\ Has(ev, "fsb0") /\ ev.stage = "write" /\ ev.panic
         -> "C05-fixed-size-binary-0-panics"
    [] ev.op = "fail" /\ Has(ev, "lvunordered") /\ ev.cdc /\ ev.stage = "write" /\ ev.panic
         -> "C05-cdc-unordered-list-view-panics"
    [] ev.op = "fail" /\ Has(ev, "bool") /\ ev.cdc /\ ev.stage = "write" /\ ev.panic
       /\ ev.pmsg = "RLE value encoder is not initialized"
         -> "C05-cdc-empty-page-boolean-rle-panics"
    [] OTHER -> ""

(***************************************************************************)
Init == l = 1 /\ live = FALSE /\ cfg = [maxrg |-> 0, bytes |-> FALSE, cdc |-> FALSE]
        /\ sch = [names |-> <<>>, types |-> <<>>, flat |-> <<>>, topree |-> <<>>, anyree |-> <<>>, nullable |-> <<>>]
        /\ h = <<>> /\ rin = <<>> /\ gs = <<>>

SchemaOf(ev) == [names |-> ev.names_in, types |-> ev.types_in, flat |-> ev.types_flat, topree |-> ev.top_ree,
                 anyree |-> ev.any_ree, nullable |-> ev.nullable_in]

New(ev) ==
  /\ live' = TRUE /\ cfg' = [maxrg |-> ev.maxrg, bytes |-> ev.bytes, cdc |-> ev.cdc] /\ sch' = SchemaOf(ev)
  /\ h' = <<>> /\ rin' = <<>> /\ gs' = <<>>

Write(ev) ==
  LET hh == Append(h, <<"w", Len(ev.rows)>>) IN
  /\ Judge(live, l, "write outside an episode")
  /\ Judge(StepOk(ev, hh, Len(rin) + Len(ev.rows)), l, <<"write", Len(ev.rows), ev.gs, ev.b>>)
  /\ h' = hh /\ rin' = rin \o ev.rows /\ gs' = ev.gs
  /\ UNCHANGED <<live, cfg, sch>>

Flush(ev) ==
  LET hh == Append(h, <<"f", 0>>) IN
  /\ Judge(live, l, "flush outside an episode")
  /\ Judge(StepOk(ev, hh, Len(rin)) /\ ev.b = 0, l, <<"flush", ev.gs, ev.b>>)
  /\ h' = hh /\ gs' = ev.gs
  /\ UNCHANGED <<live, cfg, sch, rin>>

Close(ev) ==
  LET hh == Append(h, <<"c", 0>>)
      n == Len(rin)
  IN /\ Judge(live, l, "close outside an episode")
     (* the footer continues what the API showed, every explicit flush is a boundary *)
     /\ Judge(/\ IsPrefix(gs, ev.rg) /\ Sum(ev.rg) = n
              /\ \A i \in 1..Len(ev.rg) : ev.rg[i] >= 1 /\ (cfg.maxrg # 0 => ev.rg[i] <= cfg.maxrg)
              /\ FlushPoints(h, 1, 0) \subseteq Cums(ev.rg)
              /\ ~cfg.bytes => ev.rg = PW!GroupSizes(hh, cfg.maxrg),
              l, <<"row groups", ev.rg>>)
     /\ Judge(FileOk(ev, ev.rg, n, cfg.cdc), l, "file structure")
     /\ Judge(SchemaOk(ev), l, "schema")
     /\ Judge(RowsOk(ev, ev.rg, rin), l, "rows")
     /\ JudgeKF(ev.waf # "ok", l, "write accepted after finish", KF(ev))     \* P5
     /\ live' = FALSE /\ UNCHANGED <<cfg, sch, h, rin, gs>>

(* independent column writers on threads: the driver chose the row groups  *)
Par(ev) ==
  LET n == Len(ev.rin) IN
  /\ Judge(ev.rg = ev.parts /\ Sum(ev.parts) = n, l, <<"par row groups", ev.rg>>)
  /\ Judge(FileOk(ev, ev.parts, n, FALSE), l, "par file structure")
  /\ Judge(/\ ev.names_out = ev.names_in /\ ev.nullable_out = ev.nullable_in
           /\ Len(ev.types_out) = Len(ev.types_in)
           /\ \A i \in 1..Len(ev.types_in) :
                ev.types_out[i] \in (IF ev.top_ree[i] THEN {ev.types_flat[i]}
                                     ELSE IF ev.any_ree[i] THEN {ev.types_in[i], ev.types_flat[i]} ELSE {ev.types_in[i]})
           /\ ev.batch_schema_same, l, "par schema")
  /\ Judge(RowsOk(ev, ev.parts, ev.rin), l, "par rows")
  /\ UNCHANGED <<live, cfg, sch, h, rin, gs>>

(* levels of a nested column                                                *)
Lv(ev) ==
  LET ss == Shred(ev.schema, ev.rows)
      mx == MaxLevels(ev.schema)
  IN /\ Judge(\A i \in 1..Len(ev.rows) : WellTyped(ev.schema, ev.rows[i]), l, "lv: harness: value not of the schema")
     /\ Judge(/\ Len(ev.leaves) = Len(ss)
              /\ ev.maxdef = [j \in 1..Len(mx) |-> mx[j].d] /\ ev.maxrep = [j \in 1..Len(mx) |-> mx[j].r],
              l, <<"lv max levels", ev.maxdef, ev.maxrep>>)
     /\ Judge(Len(ev.leaves) = Len(ss) =>
                \A j \in 1..Len(ss) :
                  /\ Len(ev.leaves[j].rep) = Len(ev.leaves[j].def) /\ Len(ev.leaves[j].val) = Len(ev.leaves[j].def)
                  /\ Triples(ev.leaves[j].rep, ev.leaves[j].def, ev.leaves[j].val) = ss[j],
              l, "lv levels differ from Shred")
     /\ UNCHANGED <<live, cfg, sch, h, rin, gs>>

Fail(ev) ==
  /\ JudgeKF(ev.stage = "write" /\ ~ev.panic, l, <<"fail", ev.stage, ev.panic>>, KF(ev))
  /\ live' = FALSE /\ UNCHANGED <<cfg, sch, h, rin, gs>>

Next ==
  /\ l <= Len(Rec)
  /\ l' = l + 1
  /\ LET ev == Rec[l] IN
     CASE ev.op = "new"   -> New(ev)
       [] ev.op = "write" -> Write(ev)
       [] ev.op = "flush" -> Flush(ev)
       [] ev.op = "close" -> Close(ev)
       [] ev.op = "par"   -> Par(ev)
       [] ev.op = "lv"    -> Lv(ev)
       [] ev.op = "fail"  -> Fail(ev)

Spec == Init /\ [][Next]_vars

(* invariant of the abstract state (evaluated by TLC in every state)        *)
StateOk == Sum(gs) <= Len(rin)
=============================================================================
