------------------------- MODULE Trace_IpcRoundTrip -------------------------
(***************************************************************************)
(* impl -> spec for C04: recorded sessions of the real IPC writers and     *)
(* readers are stepped through IpcDict.tla.                                *)
(*                                                                         *)
(* Step-by-step sessions (w = "file" FileWriter, "stream" StreamWriter,    *)
(* "encoder" StreamEncoder):                                               *)
(*   new    [w, hand, align, ver, ctor, nd, top, ree, dunion, schema,      *)
(*           msgs, start]   nd = dictionary ids of the schema, top[d] = 1  *)
(*          iff id d is not nested in another dictionary's values;         *)
(*          schema = [meta, fields]: canonical text per field (name, type  *)
(*          with child fields, nullability, metadata)                      *)
(*   write  [dicts, res, n, ree0, cols, msgs]   one batch; `dicts` = the   *)
(*          values (row tokens) and array identity of every dictionary of  *)
(*          the batch in the writer's visiting order; `cols` = row tokens  *)
(*          per column; `msgs` = the messages the call appended, read back *)
(*          with the flatbuffer accessors: [k, id, delta, vals (decoded    *)
(*          dictionary values), n, off, meta, body, offs (buffer offsets   *)
(*          mod 64), comp, ver]                                            *)
(*   finish [res, msgs, fdicts, fbatches, end, footer, cmeta]              *)
(*   read   [via, proj, has_schema, schema, cmeta, out, err]   out[j] =    *)
(*          [n, cols, dv]: dv = the values attached to every dictionary    *)
(*          array of the decoded batch                                     *)
(* Whole sessions: flight [fh, hand, max, with_schema, steps, res, msgs,   *)
(*          schema, hschema, oschema, ohschema, odict, out, err].          *)
(*                                                                         *)
(* TLC computes from the logged dictionaries, with the operators of        *)
(* IpcDict.tla, the outcome of every write, the exact message sequence     *)
(* (which ids are (re)sent, isDelta, the values carried) and the           *)
(* dictionaries a reader holds at every batch; the round trip itself       *)
(* (schema, batch count, rows batch by batch, projection = projection of a *)
(* full read, Flight: rows after concatenation) is judged on the tokens.   *)
(* The invariants of IpcDict.tla are evaluated in every state.             *)
(***************************************************************************)
EXTENDS IpcDict, TraceBase

VARIABLES l,
          cfg,       \* the `new` event of the session
          gin,       \* the accepted batches [n, cols, clean]
          logged     \* every message logged so far

tvars == <<dvars, l, cfg, gin, logged>>

P(m) == [k |-> m.k, id |-> m.id, delta |-> m.delta, vals |-> m.vals]
PSeq(ms) == [i \in DOMAIN ms |-> P(ms[i])]
Kinds(ms) == [i \in DOMAIN ms |-> ms[i].k]
HasSchema(ms) == \E i \in DOMAIN ms : ms[i].k = "schema"

ModelKind(w) == IF w = "file" THEN "file" ELSE "stream"

(* W1: the body of every message and every buffer in it start on the configured alignment *)
Aligned(m, a) ==
  /\ m.body % a = 0
  /\ ((m.meta > 0 /\ m.k # "eos") => m.meta % a = 0)      \* prefix + padded flatbuffer (0: Flight, no framing)
  /\ \A i \in DOMAIN m.offs : m.offs[i] % a = 0
AllAligned(ms, a) == \A i \in DOMAIN ms : Aligned(ms[i], a)

(* messages follow each other without gaps, from `start` *)
Contiguous(ms, start) ==
  \A i \in DOMAIN ms : ms[i].off = (IF i = 1 THEN start ELSE ms[i - 1].off + ms[i - 1].meta + ms[i - 1].body)

Blocks(ms, k) ==
  LET F[i \in 0..Len(ms)] ==
        IF i = 0 THEN <<>>
        ELSE IF ms[i].k = k THEN Append(F[i - 1], [off |-> ms[i].off, meta |-> ms[i].meta, body |-> ms[i].body]) ELSE F[i - 1]
  IN F[Len(ms)]

FirstUnclean == IF \E j \in DOMAIN gin : ~gin[j].clean THEN CHOOSE j \in DOMAIN gin : ~gin[j].clean /\ \A i \in 1..(j - 1) : gin[i].clean ELSE 0

SameBatch(o, g) == o.n = g.n /\ o.cols = g.cols

(* index of the first batch at which what was read deviates from what was expected (0: none) *)
FirstDev(out, exp) ==
  LET m == IF Len(out) > Len(exp) THEN Len(out) ELSE Len(exp)
      bad == {j \in 1..m : j > Len(out) \/ j > Len(exp) \/ ~SameBatch(out[j], exp[j])}
  IN IF bad = {} THEN 0 ELSE CHOOSE j \in bad : \A i \in bad : j <= i

(***************************************************************************)
(* Known findings (known_findings.txt), each identified by the session's   *)
(* configuration and the exact shape of the deviation; anything else is    *)
(* rejected.  j = first deviating batch.                                   *)
(*  - RunEndEncoded under metadata V4: the writer emits a validity buffer  *)
(*    the reader never consumes (schema has a run-end column, V4): a full  *)
(*    read returns the batches before the first one it cannot decode and   *)
(*    then an error; a projected read skips the wrong number of buffers;   *)
(*  - zero-length slice of a run-end array: written with the single run    *)
(*    end 0, which the reader refuses: the read stops with an error        *)
(*    exactly at a batch that holds such a column;                         *)
(*  - union below a sliced list: a union array that is the child of a       *)
(*    list / large list / map whose child range is a proper sub-range is   *)
(*    written from its ArrayData without regard to the offset: wrong rows  *)
(*    (dense) or an unreadable batch (sparse), at a batch holding such a   *)
(*    column;                                                              *)
(*  - StreamDecoder panics on a dense union whose offsets buffer is not    *)
(*    4-byte aligned in the caller's chunk (no realignment on that path);  *)
(*  - tracker ahead: a file-writer session with delta handling in which a  *)
(*    refused write had already advanced the tracker; every batch accepted *)
(*    before that point still reads back right.                            *)
(***************************************************************************)
KFID == "C04-file-delta-tracker-ahead"
KFREE == "C04-ree-validity-buffer-under-v4"
(* every deviation sits at a batch that holds a union below a sliced list (batches are decoded  *)
(* independently); an error stops the read exactly at such a batch                              *)
UnionShape(out, exp, err) ==
  /\ cfg.ulist /\ Len(out) <= Len(exp) /\ Len(exp) <= Len(gin)
  /\ \A j \in DOMAIN out : ~SameBatch(out[j], exp[j]) => gin[j].uoff
  /\ IF err = "" THEN Len(out) = Len(exp) ELSE (Len(out) < Len(exp) /\ gin[Len(out) + 1].uoff)
(* the push decoder panicked on a dense union: what it returned before is judged as a read of   *)
(* that many batches                                                                            *)
PanicCut(ev, out, exp) == ev.via = "StreamDecoder" /\ ev.err = "panic" /\ cfg.dunion /\ Len(out) < Len(exp)
Prefix(exp, n) == SubSeq(exp, 1, n)

KFRead(ev, out, exp) ==
  LET j == FirstDev(out, exp) IN
  CASE cfg.ver = 4 /\ cfg.ree /\ (ev.proj # <<>> \/ (ev.err \notin {"", "panic"} /\ j > 0 /\ Len(out) = j - 1)) -> KFREE
    [] cfg.ree /\ j \in DOMAIN gin /\ gin[j].ree0 /\ ev.err \notin {"", "panic"} /\ Len(out) = j - 1 -> "C04-ree-empty-slice-unreadable"
    [] ev.err # "panic" /\ UnionShape(out, exp, ev.err) -> "C04-union-below-sliced-list"
    [] PanicCut(ev, out, exp) /\ FirstDev(out, Prefix(exp, Len(out))) = 0 -> "C04-stream-decoder-dense-union-unaligned"
    [] PanicCut(ev, out, exp) /\ UnionShape(out, Prefix(exp, Len(out)), "") -> "C04-union-below-sliced-list"   \* (both)
    [] cfg.w = "file" /\ handling = "delta" /\ FirstUnclean > 0 /\ j >= FirstUnclean -> KFID
    [] OTHER -> ""
KFFlight(ev) ==
  CASE ev.ver = 4 /\ ev.ree -> KFREE
    [] ev.ulist /\ ev.res = "ok" /\ ev.err # "panic" -> "C04-union-below-sliced-list"    \* (splitting slices the batch)
    [] ev.reelist /\ ev.res = "ok" /\ ev.err \notin {"", "panic"} -> "C04-ree-empty-slice-unreadable"
    [] OTHER -> ""

-----------------------------------------------------------------------------
Init ==
  /\ l = 1 /\ cfg = [w |-> "stream", align |-> 8, ver |-> 5, ree |-> FALSE, dunion |-> FALSE, ulist |-> FALSE, cmeta |-> "[]", nd |-> 0, top |-> <<>>, schema |-> [meta |-> "", fields |-> <<>>], start |-> 0]
  /\ gin = <<>> /\ logged = <<>>
  /\ kind = "stream" /\ handling = "resend" /\ nd = 0 /\ written = NoDicts(0)
  /\ msgs = <<SchemaMsg>> /\ closed = FALSE /\ given = <<>>

New(ev) ==
  /\ Judge(ev.ctor = "ok", l, <<"constructor", ev.ctor>>)
  /\ Judge(PSeq(ev.msgs) = (IF ev.w = "encoder" THEN <<>> ELSE <<SchemaMsg>>), l, "messages written by the constructor")
  /\ Judge(AllAligned(ev.msgs, ev.align) /\ Contiguous(ev.msgs, ev.start), l, "W1 layout (constructor)")
  /\ Judge(Len(ev.top) = ev.nd, l, "harness: dictionary ids of the schema")
  /\ Start(ModelKind(ev.w), ev.hand, ev.nd)
  /\ cfg' = ev /\ gin' = <<>> /\ logged' = ev.msgs

WriteEv(ev) ==
  IF Len(ev.dicts) # nd
  THEN /\ Judge(FALSE, l, "harness: number of dictionaries in the batch")
       /\ UNCHANGED <<dvars, cfg, gin, logged>>
  ELSE LET e == Encode(kind, handling, written, ev.dicts)
           sch == IF cfg.w = "encoder" /\ ~HasSchema(logged) THEN <<SchemaMsg>> ELSE <<>>
           exp == sch \o (IF e.err THEN <<>> ELSE e.out \o <<BatchMsg>>)
       IN
       /\ Judge(\A d \in 1..nd : (written[d] # NoDict /\ written[d].obj = ev.dicts[d].obj) => written[d].vals = ev.dicts[d].vals,
                l, "harness: one array identity, two contents")
       /\ Judge(ev.res # "panic" /\ ((ev.res = "ok") = ~e.err), l, <<"write outcome", ev.res>>)
       /\ Judge(PSeq(ev.msgs) = exp, l, "messages of the write")
       /\ Judge(ev.msgs # <<>> /\ ev.res = "ok" => ev.msgs[Len(ev.msgs)].n = ev.n, l, "row count in the record batch message")
       /\ Judge(AllAligned(ev.msgs, cfg.align), l, "W1 layout")
       /\ Write(ev.dicts)
       /\ gin' = IF e.err THEN gin ELSE Append(gin, [n |-> ev.n, cols |-> ev.cols, clean |-> Stale = {}, ree0 |-> ev.ree0, uoff |-> ev.uoff])
       /\ logged' = logged \o ev.msgs
       /\ UNCHANGED cfg

FinishEv(ev) ==
  LET sch == IF cfg.w = "encoder" /\ ~HasSchema(logged) THEN <<SchemaMsg>> ELSE <<>>
      all == logged \o ev.msgs IN
  /\ Judge(ev.res = "ok", l, <<"finish", ev.res>>)
  /\ Judge(PSeq(ev.msgs) = sch \o <<EosMsg>>, l, "messages of finish")
  /\ Finish
  /\ Judge(PSeq(all) = msgs', l, "whole message sequence")
  /\ Judge(Contiguous(all, cfg.start) /\ AllAligned(ev.msgs, cfg.align), l, "W1 layout (whole stream)")
  /\ Judge(cfg.w = "file" =>
             /\ ev.fdicts = Blocks(all, "dict") /\ ev.fbatches = Blocks(all, "batch")
             /\ ev.footer = ev.end,
           l, "W2 footer blocks")
  /\ logged' = all
  /\ cfg' = [cfg EXCEPT !.cmeta = ev.cmeta]
  /\ UNCHANGED gin

(* the dictionaries attached to the decoded batches are those IpcDict's reader holds *)
AttachedOk(out, snaps) ==
  \A j \in DOMAIN out :
    /\ j <= Len(snaps) /\ ~snaps[j].bad
    /\ Len(out[j].dv) = nd
    /\ \A d \in 1..nd : cfg.top[d] = 1 => out[j].dv[d] = snaps[j].d[d]

ReadFull(ev) ==
  /\ JudgeKF(ev.err = "" /\ FirstDev(ev.out, gin) = 0, l, "round trip", KFRead(ev, ev.out, gin))
  /\ Judge(ev.has_schema /\ ev.schema = cfg.schema /\ ev.cmeta = cfg.cmeta, l, <<"schema", ev.via>>)
  /\ Judge(AttachedOk(ev.out, ReaderSnaps(kind, nd, msgs)), l, <<"reader dictionaries", ev.via>>)
  /\ UNCHANGED <<dvars, cfg, gin, logged>>

(* projection on read = projection of the full read (which is the input, see ReadFull) *)
ProjCols(cols, proj) == [p \in DOMAIN proj |-> cols[proj[p] + 1]]
ReadProj(ev) ==
  LET inRange == \A p \in DOMAIN ev.proj : ev.proj[p] + 1 \in DOMAIN cfg.schema.fields
      exp == [j \in DOMAIN gin |-> [n |-> gin[j].n, cols |-> ProjCols(gin[j].cols, ev.proj)]]
  IN
  /\ Judge(inRange, l, "harness: projection index")
  /\ inRange => JudgeKF(ev.err = "" /\ FirstDev(ev.out, exp) = 0, l, "projection", KFRead(ev, ev.out, exp))
  /\ Judge(inRange => (ev.has_schema /\ ev.schema.meta = cfg.schema.meta /\ ev.schema.fields = ProjCols(cfg.schema.fields, ev.proj)),
           l, <<"projected schema", ev.via>>)
  /\ UNCHANGED <<dvars, cfg, gin, logged>>

-----------------------------------------------------------------------------
(* Flight.  The encoder splits a batch into consecutive slices (how many is an *)
(* implementation matter): record batch messages are compared after collapsing *)
(* runs, rows after concatenation.  An empty batch produces no message and     *)
(* does not reach the dictionary tracker.                                      *)
RECURSIVE Collapse(_)
Collapse(ms) ==
  IF Len(ms) < 2 THEN ms
  ELSE IF ms[1].k = "batch" /\ ms[2].k = "batch" THEN Collapse(Tail(ms))
  ELSE <<Head(ms)>> \o Collapse(Tail(ms))

RECURSIVE FlightMsgs(_, _, _, _, _)
FlightMsgs(resend, hand, w, steps, i) ==
  IF i > Len(steps) THEN <<>>
  ELSE IF steps[i].n = 0 THEN FlightMsgs(resend, hand, w, steps, i + 1)
  ELSE IF ~resend THEN <<BatchMsg>> \o FlightMsgs(resend, hand, w, steps, i + 1)
  ELSE LET e == Encode("stream", hand, w, steps[i].dicts) IN
       e.out \o <<BatchMsg>> \o FlightMsgs(resend, hand, e.w, steps, i + 1)

RECURSIVE CatCol(_, _, _)
CatCol(bs, c, i) == IF i > Len(bs) THEN <<>> ELSE bs[i].cols[c] \o CatCol(bs, c, i + 1)
RECURSIVE SumN(_, _)
SumN(bs, i) == IF i > Len(bs) THEN 0 ELSE bs[i].n + SumN(bs, i + 1)

FlightEv(ev) ==
  LET resend == ev.fh = "resend"
      ncols == Len(ev.schema.fields)
      shapeOk == /\ \A i \in DOMAIN ev.steps : Len(ev.steps[i].cols) = ncols /\ (resend => Len(ev.steps[i].dicts) = ev.nd)
                 /\ \A j \in DOMAIN ev.out : Len(ev.out[j].cols) = ncols
      expSchema == ev.with_schema \/ Len(ev.steps) > 0
      expMsgs == (IF expSchema THEN <<SchemaMsg>> ELSE <<>>) \o FlightMsgs(resend, ev.hand, NoDicts(ev.nd), ev.steps, 1)
      nbatch == Cardinality({i \in DOMAIN ev.msgs : ev.msgs[i].k = "batch"})
  IN
  /\ JudgeKF(ev.res = "ok" /\ ev.err = "", l, "flight outcome", KFFlight(ev))
  /\ Judge(shapeOk, l, "flight: column counts")
  /\ Judge(shapeOk => /\ Collapse(PSeq(ev.msgs)) = Collapse(expMsgs)
                      /\ nbatch >= Cardinality({i \in DOMAIN ev.steps : ev.steps[i].n > 0}),
           l, <<"flight messages", ev.fh>>)
  /\ Judge(AllAligned(ev.msgs, ev.align), l, "W1 layout (flight)")
  /\ Judge(ev.has_schema = expSchema, l, "flight: schema message")
  /\ JudgeKF(ev.has_schema =>
               /\ ev.oschema.meta = ev.schema.meta
               /\ IF resend THEN ev.oschema.fields = ev.schema.fields
                            ELSE ev.ohschema.fields = ev.hschema.fields /\ ~ev.odict,
             l, "flight schema",
             (* the only difference: nullability / metadata of fields of union type *)
             IF /\ ev.oschema.meta = ev.schema.meta
                /\ IF resend THEN ev.oschema.ufields = ev.schema.ufields
                             ELSE ev.ohschema.ufields = ev.hschema.ufields /\ ~ev.odict
             THEN "C04-flight-union-field-flags-lost" ELSE "")
  /\ JudgeKF(Len(ev.out) = nbatch, l, "flight batch count", KFFlight(ev))
  /\ JudgeKF(shapeOk => /\ SumN(ev.out, 1) = SumN(ev.steps, 1)
                      /\ \A c \in 1..ncols : CatCol(ev.out, c, 1) = CatCol(ev.steps, c, 1),
           l, "flight rows", KFFlight(ev))
  /\ Judge((resend /\ shapeOk) =>
             LET snaps == StreamSnaps(PSeq(ev.msgs), Rd0(ev.nd)) IN
             \A j \in DOMAIN ev.out :
               /\ j <= Len(snaps) /\ ~snaps[j].bad /\ Len(ev.out[j].dv) = ev.nd
               /\ \A d \in 1..ev.nd : ev.top[d] = 1 => ev.out[j].dv[d] = snaps[j].d[d],
           l, "flight: dictionaries held by the decoder")
  /\ UNCHANGED <<dvars, cfg, gin, logged>>

-----------------------------------------------------------------------------
Next ==
  /\ l <= Len(Rec)
  /\ l' = l + 1
  /\ LET ev == Rec[l] IN
     CASE ev.op = "new"    -> New(ev)
       [] ev.op = "write"  -> WriteEv(ev)
       [] ev.op = "finish" -> FinishEv(ev)
       [] ev.op = "read"   -> IF ev.proj = <<>> THEN ReadFull(ev) ELSE ReadProj(ev)
       [] ev.op = "flight" -> FlightEv(ev)

TSpec == Init /\ [][Next]_tvars
=============================================================================
