-------------------------- MODULE Trace_ParquetScan --------------------------
(***************************************************************************)
(* impl -> spec: every recorded scan of a real Parquet file -- through     *)
(* ParquetRecordBatchReaderBuilder with any combination of projection, row *)
(* groups, row selection, row filter, offset, limit, batch size, selection *)
(* policy and page index -- must return exactly Expected(cfg) of           *)
(* ParquetScan.tla, projected to the requested columns, in batches of      *)
(* 1..batch size rows (C06, first sentence).                               *)
(*                                                                         *)
(* Event: the configuration (see ParquetScan.tla; `preds` are the values   *)
(* of the predicate functions on a plain full read of the file), `ref` =   *)
(* for every projected column the row tokens of the full read (index id +  *)
(* 1), `toks` = for every projected column the row tokens the scan         *)
(* returned, `blens` = the batch lengths, `err` = the scan failed.         *)
(***************************************************************************)
EXTENDS ParquetScan, TraceBase

VARIABLE l

(* the selection is logged as given to the API: raw selectors (k = "runs"),   *)
(* or the bits of a boolean buffer / of the filters (k = "mask", "filters")   *)
BitsOf(d) == IF d.k = "runs" THEN Bits(d.runs) ELSE d.bits

Cfg(ev) == [rgs |-> ev.rgs, hasSel |-> ev.hasSel, sel |-> BitsOf(ev.sel), preds |-> ev.preds,
            offset |-> ev.offset, limit |-> ev.limit, bs |-> ev.bs]

(* the scan returned the rows `ids`, projected                               *)
Returns(ev, ids) ==
  /\ Len(ev.toks) = Len(ev.ref)
  /\ \A c \in 1..Len(ev.ref) : ev.toks[c] = [j \in 1..Len(ids) |-> ev.ref[c][ids[j] + 1]]

Explained(ev) ==
  LET E == Expected(ev.rgrows, Cfg(ev)) IN
  /\ ~ev.err
  /\ BatchesOk(ev.blens, ev.bs, NumRows(ev.rgrows), Len(E))
  /\ Returns(ev, E)

(* known findings (known_findings.txt): none                                 *)
KF(ev) == ""

Init == l = 1
Next == /\ l <= Len(Rec)
        /\ l' = l + 1
        /\ LET ev == Rec[l] IN JudgeKF(Explained(ev), l, <<ev.op, ev.front>>, KF(ev))
Spec == Init /\ [][Next]_l
=============================================================================
