------------------------------- MODULE BigNum -------------------------------
(***************************************************************************)
(* Exact integer arithmetic beyond TLC's 32-bit integers (C12, C13).       *)
(*                                                                         *)
(* A magnitude is a little-endian sequence of limbs in 0..Base-1 whose     *)
(* most significant limb is not 0; <<>> is zero.  Base = 10^LimbDigits     *)
(* (LimbDigits = 4 in every trace specification: limb products stay below  *)
(* 2^31; the model MC_Arith also runs the same definitions with            *)
(* LimbDigits = 1 and compares them with TLC's native integers).           *)
(*                                                                         *)
(* A Big is [s |-> 0 | 1, d |-> magnitude]; s = 1 means negative; zero is  *)
(* [s |-> 0, d |-> <<>>] only.  On the wire (ndjson traces) a Big is the   *)
(* sequence <<s>> \o d.                                                    *)
(*                                                                         *)
(* Division by an arbitrary Big is not defined here: specifications state  *)
(* quotient / remainder relationally (IsTruncDiv).  Division by a limb and *)
(* by a power of ten is defined (short division).                          *)
(***************************************************************************)
EXTENDS Naturals, Integers, Sequences

CONSTANT LimbDigits

Base == 10 ^ LimbDigits

(* ------------------------------ magnitudes ------------------------------ *)
RECURSIVE Trim(_)
Trim(m) == IF m = <<>> THEN <<>>
           ELSE IF m[Len(m)] = 0 THEN Trim(SubSeq(m, 1, Len(m) - 1)) ELSE m

IsMag(m) == /\ \A i \in 1..Len(m) : m[i] \in 0..(Base - 1)
            /\ (m = <<>> \/ m[Len(m)] # 0)

RECURSIVE MagCmpFrom(_, _, _)
MagCmpFrom(a, b, i) ==
  IF i = 0 THEN 0
  ELSE IF a[i] < b[i] THEN -1 ELSE IF a[i] > b[i] THEN 1 ELSE MagCmpFrom(a, b, i - 1)

(* -1, 0, 1 as a < b, a = b, a > b                                           *)
MagCmp(a, b) == IF Len(a) < Len(b) THEN -1 ELSE IF Len(a) > Len(b) THEN 1
                ELSE MagCmpFrom(a, b, Len(a))

RECURSIVE MagAddC(_, _, _, _)
MagAddC(a, b, i, c) ==
  IF i > Len(a) /\ i > Len(b) THEN (IF c = 0 THEN <<>> ELSE <<c>>)
  ELSE LET x == (IF i <= Len(a) THEN a[i] ELSE 0) + (IF i <= Len(b) THEN b[i] ELSE 0) + c
       IN <<x % Base>> \o MagAddC(a, b, i + 1, x \div Base)
MagAdd(a, b) == MagAddC(a, b, 1, 0)

(* a - b for a >= b (borrow c in {0, 1})                                     *)
RECURSIVE MagSubC(_, _, _, _)
MagSubC(a, b, i, c) ==
  IF i > Len(a) THEN <<>>
  ELSE LET x == a[i] - (IF i <= Len(b) THEN b[i] ELSE 0) - c
       IN IF x < 0 THEN <<x + Base>> \o MagSubC(a, b, i + 1, 1)
          ELSE <<x>> \o MagSubC(a, b, i + 1, 0)
MagSub(a, b) == Trim(MagSubC(a, b, 1, 0))

(* a * k for a limb-sized k (0 <= k < Base)                                  *)
RECURSIVE MagMulSmallC(_, _, _, _)
MagMulSmallC(a, k, i, c) ==
  IF i > Len(a) THEN (IF c = 0 THEN <<>> ELSE <<c>>)
  ELSE LET x == a[i] * k + c IN <<x % Base>> \o MagMulSmallC(a, k, i + 1, x \div Base)
MagMulSmall(a, k) == IF k = 0 THEN <<>> ELSE MagMulSmallC(a, k, 1, 0)

MagShift(m, n) == IF m = <<>> THEN <<>> ELSE [i \in 1..n |-> 0] \o m     \* m * Base^n

RECURSIVE MagMulFrom(_, _, _)
MagMulFrom(a, b, j) ==     \* a * (b[j..] as a magnitude)
  IF j > Len(b) THEN <<>>
  ELSE MagAdd(MagMulSmall(a, b[j]), MagShift(MagMulFrom(a, b, j + 1), 1))
MagMul(a, b) == IF a = <<>> \/ b = <<>> THEN <<>>
                ELSE IF Len(a) >= Len(b) THEN MagMulFrom(a, b, 1) ELSE MagMulFrom(b, a, 1)

(* short division by 1 <= k < Base: [q |-> quotient, r |-> remainder]         *)
RECURSIVE MagDivSmallFrom(_, _, _, _)
MagDivSmallFrom(m, k, i, rem) ==
  IF i = 0 THEN [q |-> <<>>, r |-> rem]
  ELSE LET cur  == rem * Base + m[i]
           rest == MagDivSmallFrom(m, k, i - 1, cur % k)
       IN [q |-> Append(rest.q, cur \div k), r |-> rest.r]
MagDivSmall(m, k) == LET x == MagDivSmallFrom(m, k, Len(m), 0) IN [q |-> Trim(x.q), r |-> x.r]

RECURSIVE MagFromNatGen(_)
MagFromNatGen(n) == IF n = 0 THEN <<>> ELSE <<n % Base>> \o MagFromNatGen(n \div Base)

RECURSIVE MagToNat(_)
MagToNat(m) == IF m = <<>> THEN 0 ELSE m[1] + Base * MagToNat(Tail(m))   \* only when it fits

(* 10^k                                                                      *)
MagPow10(k) == [i \in 1..(k \div LimbDigits) |-> 0] \o <<10 ^ (k % LimbDigits)>>

(* m \div 10^k (truncated) and m % 10^k = 0                                   *)
MagDropLimbs(m, n) == IF n >= Len(m) THEN <<>> ELSE SubSeq(m, n + 1, Len(m))
MagDivPow10(m, k) == MagDivSmall(MagDropLimbs(m, k \div LimbDigits), 10 ^ (k % LimbDigits)).q
MagMulPow10(m, k) == MagShift(MagMulSmall(m, 10 ^ (k % LimbDigits)), k \div LimbDigits)

(* -------------------------------- signed -------------------------------- *)
Mk(s, d) == IF d = <<>> THEN [s |-> 0, d |-> <<>>] ELSE [s |-> s, d |-> d]
Zero == [s |-> 0, d |-> <<>>]
One  == [s |-> 0, d |-> <<1>>]
IsBig(x) == x.s \in {0, 1} /\ IsMag(x.d) /\ (x.d = <<>> => x.s = 0)

FromInt(n) == IF n < 0 THEN Mk(1, MagFromNatGen(-n)) ELSE Mk(0, MagFromNatGen(n))   \* n > -2^31
ToInt(x) == IF x.s = 1 THEN -MagToNat(x.d) ELSE MagToNat(x.d)                       \* only when it fits

FromWire(w) == [s |-> w[1], d |-> Tail(w)]
ToWire(x) == <<x.s>> \o x.d
IsWire(w) == Len(w) >= 1 /\ IsBig(FromWire(w))

Neg(x) == Mk(1 - x.s, x.d)
Abs(x) == Mk(0, x.d)
Sign(x) == IF x.d = <<>> THEN 0 ELSE IF x.s = 1 THEN -1 ELSE 1
IsZero(x) == x.d = <<>>

Cmp(a, b) ==
  IF a.s # b.s THEN (IF a.s = 1 THEN -1 ELSE 1)
  ELSE IF a.s = 0 THEN MagCmp(a.d, b.d) ELSE MagCmp(b.d, a.d)
Lt(a, b) == Cmp(a, b) < 0
Le(a, b) == Cmp(a, b) <= 0

Add(a, b) ==
  IF a.s = b.s THEN Mk(a.s, MagAdd(a.d, b.d))
  ELSE LET c == MagCmp(a.d, b.d) IN
       IF c = 0 THEN Zero
       ELSE IF c > 0 THEN Mk(a.s, MagSub(a.d, b.d)) ELSE Mk(b.s, MagSub(b.d, a.d))
Sub(a, b) == Add(a, Neg(b))
Mul(a, b) == Mk(IF a.s = b.s THEN 0 ELSE 1, MagMul(a.d, b.d))
MulSmall(a, k) == Mk(a.s, MagMulSmall(a.d, k))                 \* 0 <= k < Base

Pow10(k) == Mk(0, MagPow10(k))
MulPow10(x, k) == Mk(x.s, MagMulPow10(x.d, k))
(* truncated (towards zero) quotient by 10^k                                 *)
TruncDivPow10(x, k) == Mk(x.s, MagDivPow10(x.d, k))
(* quotient by 10^k rounded half away from zero                              *)
RoundDivPow10(x, k) ==
  IF k = 0 THEN x ELSE Mk(x.s, MagDivPow10(MagAdd(x.d, MagMulSmall(MagPow10(k - 1), 5)), k))
DivisibleByPow10(x, k) == MagMulPow10(MagDivPow10(x.d, k), k) = x.d

(* quotients by a limb-sized k (1 <= k < Base): truncated and floored         *)
TruncDivSmall(x, k) == Mk(x.s, MagDivSmall(x.d, k).q)
FloorDivSmall(x, k) ==
  IF x.s = 0 THEN Mk(0, MagDivSmall(x.d, k).q)
  ELSE Mk(1, MagDivSmall(MagAdd(x.d, MagFromNatGen(k - 1)), k).q)        \* -ceil(|x| / k)
FloorDivPow10(x, k) ==
  IF x.s = 0 \/ k = 0 THEN TruncDivPow10(x, k)
  ELSE Mk(1, MagDivPow10(MagAdd(x.d, MagSub(MagPow10(k), <<1>>)), k))

(* 2^k by repeated limb multiplication                                       *)
RECURSIVE MagPow2(_)
MagPow2(k) == IF k = 0 THEN <<1>>
              ELSE IF k >= 13 /\ Base > 8192 THEN MagMulSmall(MagPow2(k - 13), 8192)
              ELSE MagMulSmall(MagPow2(k - 1), 2)
Pow2(k) == Mk(0, MagPow2(k))

(* q, r are the truncated quotient and remainder of a by b (b # 0), as Rust's *)
(* `/` and `%`: a = q*b + r, |r| < |b|, r = 0 or sign(r) = sign(a).  The pair *)
(* is unique, so a logged q is right iff some r satisfies this.               *)
IsTruncDiv(a, b, q, r) ==
  /\ ~IsZero(b)
  /\ Add(Mul(q, b), r) = a
  /\ MagCmp(r.d, b.d) < 0
  /\ (IsZero(r) \/ r.s = a.s)

(* trunc(a / b) lies in [lo, hi] (lo <= 0 <= hi, b # 0), without dividing     *)
TruncQuotIn(a, b, lo, hi) ==
  IF IsZero(a) THEN TRUE
  ELSE IF a.s = b.s THEN MagCmp(a.d, MagMul(MagAdd(hi.d, <<1>>), b.d)) < 0
  ELSE MagCmp(a.d, MagMul(MagAdd(lo.d, <<1>>), b.d)) < 0
=============================================================================
