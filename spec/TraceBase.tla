------------------------------ MODULE TraceBase ------------------------------
(***************************************************************************)
(* Plumbing shared by every trace specification (impl -> spec direction).  *)
(*                                                                         *)
(* The trace is an ndjson file named by the environment variable TRACE;    *)
(* `l` is the index of the next event.  A trace specification defines      *)
(* `Explains(ev)` style predicates and uses `Judge` so that an unexplained *)
(* event is reported (REJECT line, read by the orchestrator) without       *)
(* stopping the validation of the remaining, independent events.           *)
(***************************************************************************)
EXTENDS Naturals, Sequences, TLC, Json, IOUtils

Rec == ndJsonDeserialize(IOEnv.TRACE)

(* evaluates to TRUE always; prints a REJECT line when ~ok                   *)
Judge(ok, idx, what) == IF ok THEN TRUE ELSE PrintT(<<"REJECT", idx, what>>)

(* as Judge, but a mismatch that matches the identification `kf` of a known  *)
(* finding (kf # "") is reported as KNOWN <id>; the orchestrator accepts it   *)
(* only if that id is listed in known_findings.txt                           *)
JudgeKF(ok, idx, what, kf) ==
  IF ok THEN TRUE
  ELSE IF kf # "" THEN PrintT(<<"KNOWN", idx, kf, what>>)
  ELSE PrintT(<<"REJECT", idx, what>>)

(* every line was consumed (guards against silent truncation of the run)     *)
AllConsumed == 
  \/ TLCGet("stats").diameter = Len(Rec) + 1
  \/ PrintT(<<"UNCONSUMED", TLCGet("stats").diameter, Len(Rec)>>) /\ FALSE
=============================================================================
