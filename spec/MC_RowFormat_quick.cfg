SPECIFICATION Spec
CONSTANTS
  Alphabet = {0, 2, 255}
  MaxLen = 5
  Mini = 2
  Count = 2
  MaxList = 2
INVARIANTS VarOrder VarDecode FixedOrder ListOrder
CHECK_DEADLOCK FALSE
