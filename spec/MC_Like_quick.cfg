SPECIFICATION Spec
CONSTANTS
  Alpha = {37, 95, 92, 97, 65, 223, 7838}
  MaxP = 3
  MaxS = 3
INVARIANTS Agree Literal PrefixForm SuffixForm ContainsForm PercentAll UnderscoreOne CaseWeaker
CHECK_DEADLOCK FALSE
