------------------------------- MODULE BitOps -------------------------------
(***************************************************************************)
(* C19 -- bit-packed mask primitives of arrow-buffer, as operators on      *)
(* sequences of bits (Seq({0,1})); position i of the mask (0-based, as in  *)
(* the Rust API) is element i+1 of the sequence.                           *)
(*                                                                         *)
(* A packed byte buffer is itself a bit sequence in LSB-first order (bit j *)
(* of byte k is element 8k+j+1), a range is (buffer, offset, len) and its  *)
(* logical content is Sub(buffer, offset, len).  Every primitive of        *)
(* util/{bit_util,bit_mask,bit_chunk_iterator,bit_iterator}.rs,            *)
(* buffer/{boolean,null,ops,immutable,mutable}.rs and                      *)
(* builder/{boolean,null}.rs is specified by what it returns on the        *)
(* logical content, plus the frame condition Outside for the forms that    *)
(* write into an existing buffer.                                          *)
(*                                                                         *)
(* Word functions (the closures of from_bitwise_unary_op,                  *)
(* apply_bitwise_binary_op, bitwise_quaternary_op_helper ...) are given as *)
(* truth tables: a unary f is <<f(0), f(1)>>, a binary f is                *)
(* <<f(0,0), f(0,1), f(1,0), f(1,1)>>, a quaternary f has 16 entries with  *)
(* the first operand as the most significant index bit.                    *)
(***************************************************************************)
EXTENDS Naturals, Integers, Sequences, FiniteSets

Bit == {0, 1}

IsBits(s) == DOMAIN s = 1..Len(s) /\ \A i \in 1..Len(s) : s[i] \in Bit

Min(x, y) == IF x <= y THEN x ELSE y
Max(x, y) == IF x >= y THEN x ELSE y

Zeros(n) == [i \in 1..n |-> 0]
Ones(n)  == [i \in 1..n |-> 1]
Fill(n, v) == [i \in 1..n |-> v]

(* the n bits of s that start at 0-based position o                         *)
Sub(s, o, n) == [i \in 1..n |-> s[o + i]]

(* BooleanBuffer::value / bit_util::get_bit                                  *)
Get(s, i) == s[i + 1]

(* BooleanBuffer::slice, NullBuffer::slice, Buffer::bit_slice,              *)
(* BooleanBuffer::sliced, BooleanBuffer::from_bits: all denote Sub           *)
Slice(s, o, n) == Sub(s, o, n)

Reverse(s) == [i \in 1..Len(s) |-> s[Len(s) + 1 - i]]

---------------------------------------------------------------------------
(* Boolean algebra: !, &, |, ^ of BooleanBuffer, buffer_bin_and/or/xor/     *)
(* and_not, buffer_unary_not                                                 *)
Not(a)       == [i \in 1..Len(a) |-> 1 - a[i]]
And(a, b)    == [i \in 1..Len(a) |-> a[i] * b[i]]
Or(a, b)     == [i \in 1..Len(a) |-> IF a[i] + b[i] > 0 THEN 1 ELSE 0]
Xor(a, b)    == [i \in 1..Len(a) |-> (a[i] + b[i]) % 2]
AndNot(a, b) == [i \in 1..Len(a) |-> a[i] * (1 - b[i])]

(* generic word operations given as truth tables                             *)
Un(f, a)            == [i \in 1..Len(a) |-> f[a[i] + 1]]
Bin(f, a, b)        == [i \in 1..Len(a) |-> f[2 * a[i] + b[i] + 1]]
Quat(f, a, b, c, d) == [i \in 1..Len(a) |-> f[8 * a[i] + 4 * b[i] + 2 * c[i] + d[i] + 1]]

TNot == <<1, 0>>
TId  == <<0, 1>>
TAnd == <<0, 0, 0, 1>>
TOr  == <<0, 1, 1, 1>>
TXor == <<0, 1, 1, 0>>
TAndNot == <<0, 0, 1, 0>>
TRight == <<0, 1, 0, 1>>       \* |_a, b| b : BooleanBufferBuilder::append_packed_range

---------------------------------------------------------------------------
(* Writing into an existing buffer                                          *)

(* the buffer d with the n bits at 0-based offset o replaced by r            *)
Splice(d, o, r) == [i \in 1..Len(d) |-> IF i > o /\ i <= o + Len(r) THEN r[i - o] ELSE d[i]]

(* bit_mask::set_bits(write, data, offset_write, offset_read, len): the new *)
(* destination; it returns the number of zero bits copied                   *)
SetBits(dst, src, dOff, sOff, n) == Splice(dst, dOff, Sub(src, sOff, n))

(* bit_util::apply_bitwise_unary_op / apply_bitwise_binary_op (in place)    *)
ApplyUn(d, o, n, f)      == Splice(d, o, Un(f, Sub(d, o, n)))
ApplyBin(d, o, r, n, f)  == Splice(d, o, Bin(f, Sub(d, o, n), r))    \* r = logical right operand

(* Frame condition: bits of the destination outside [o, o+n) are unchanged  *)
Outside(d1, d0, o, n) ==
  /\ Len(d1) = Len(d0)
  /\ \A i \in 1..Len(d0) : (i <= o \/ i > o + n) => d1[i] = d0[i]

---------------------------------------------------------------------------
(* Counting and searching                                                   *)
SetPos(a) == {i \in 1..Len(a) : a[i] = 1}          \* 1-based positions of set bits

(* count_set_bits, count_set_bits_offset, UnalignedBitChunk::count_ones      *)
Count(a) == Cardinality(SetPos(a))

(* NullBuffer::null_count; set_bits return value                             *)
CountZeros(a) == Len(a) - Count(a)

HasTrue(a)  == \E i \in 1..Len(a) : a[i] = 1
HasFalse(a) == \E i \in 1..Len(a) : a[i] = 0

Indices(n) == [i \in 1..n |-> i - 1]

(* BitIndexIterator / BitIndexU32Iterator / set_indices / valid_indices:    *)
(* the 0-based positions of the set bits in increasing order                *)
SetIndices(a) == SelectSeq(Indices(Len(a)), LAMBDA j : a[j + 1] = 1)

(* BitSliceIterator / set_slices / valid_slices: the maximal runs of set    *)
(* bits as <<start, end>> with end exclusive, in increasing order           *)
RunStarts(a) == SelectSeq(Indices(Len(a)), LAMBDA j : a[j + 1] = 1 /\ (j = 0 \/ a[j] = 0))
RunEnds(a)   == SelectSeq(Indices(Len(a)), LAMBDA j : a[j + 1] = 1 /\ (j + 1 = Len(a) \/ a[j + 2] = 0))
SetSlices(a) == LET s == RunStarts(a) e == RunEnds(a) IN [k \in 1..Len(s) |-> <<s[k], e[k] + 1>>]

(* find_nth_set_bit_position(start, n): one past the n-th set bit at or     *)
(* after `start`, i.e. the shortest prefix end p with n set bits in          *)
(* [start, p); `start` when n = 0; the length when there are fewer than n    *)
FindNth(a, start, n) ==
  IF n = 0 THEN start
  ELSE LET idx == SetIndices(Sub(a, start, Len(a) - start))       \* relative to start
       IN IF Len(idx) < n THEN Len(a) ELSE start + idx[n] + 1

(* BitIterator: forward = the bits, backward = reversed; its overrides of   *)
(* nth / nth_back / last / max / count.  None is encoded as 2                *)
None == 2
IterNth(a, k)     == IF k < Len(a) THEN a[k + 1] ELSE None
IterNthRest(a, k) == IF k < Len(a) THEN Len(a) - k - 1 ELSE 0
IterNthBack(a, k) == IF k < Len(a) THEN a[Len(a) - k] ELSE None
IterLast(a)       == IF Len(a) = 0 THEN None ELSE a[Len(a)]
IterMax(a)        == IF Len(a) = 0 THEN None ELSE IF HasTrue(a) THEN 1 ELSE 0

---------------------------------------------------------------------------
(* Chunk iteration                                                          *)

(* BitChunks: chunk_len = n \div 64 whole words, then remainder_len = n % 64 *)
(* bits in a zero-padded word; iter_padded yields the words followed by the  *)
(* remainder word (a zero word when there is no remainder)                   *)
ChunkLen(a)     == Len(a) \div 64
RemainderLen(a) == Len(a) % 64
ChunkBits(a)    == Sub(a, 0, 64 * ChunkLen(a))
RemainderWord(a) == Sub(a, 64 * ChunkLen(a), RemainderLen(a)) \o Zeros(64 - RemainderLen(a))

(* UnalignedBitChunk: prefix / aligned words / suffix.  The concatenation   *)
(* of the yielded words is the range preceded by `lead` and followed by     *)
(* `trail` zero bits (padding is masked to zero), a whole number of words;  *)
(* nothing is yielded for an empty range                                    *)
UnalignedOK(a, lead, trail, words) ==
  /\ lead \in 0..63 /\ trail \in 0..63
  /\ Len(words) % 64 = 0
  /\ words = Zeros(lead) \o a \o Zeros(trail)
  /\ (Len(a) = 0 => Len(words) = 0)

---------------------------------------------------------------------------
(* Run-length form.  Long results (the large-size stage: lengths around and  *)
(* beyond the 64-bit word and 16-word block fast paths) are logged as the    *)
(* lossless run-length encoding of what the code returned; the expected bit  *)
(* sequence is computed with the operators above and encoded with RLE        *)
Indices1(n) == [i \in 1..n |-> i]
RLE(s) ==
  LET st == SelectSeq(Indices1(Len(s)), LAMBDA i : i = 1 \/ s[i] # s[i - 1])       \* where a run starts
  IN [k \in 1..Len(st) |-> <<s[st[k]], (IF k < Len(st) THEN st[k + 1] ELSE Len(s) + 1) - st[k]>>]
RECURSIVE UnRLE(_)
UnRLE(runs) == IF runs = <<>> THEN <<>> ELSE Fill(Head(runs)[2], Head(runs)[1]) \o UnRLE(Tail(runs))

---------------------------------------------------------------------------
(* Validity masks (NullBuffer): 1 = valid, 0 = null.  An absent mask means  *)
(* all valid; Opt(p, m, n) is the mask denoted by an optional NullBuffer    *)
Opt(present, m, n) == IF present THEN m ELSE Ones(n)

(* NullBuffer::union(lhs, rhs): null where either is null                   *)
Union(a, b) == And(a, b)
(* union_many                                                               *)
UnionMany(ms, n) == [i \in 1..n |-> IF \A k \in 1..Len(ms) : ms[k][i] = 1 THEN 1 ELSE 0]
(* a.contains(b): every null of b is a null of a                            *)
Contains(a, b) == \A i \in 1..Len(a) : b[i] = 0 => a[i] = 0
(* expand(k): every bit repeated k times                                    *)
Expand(a, k) == [i \in 1..(Len(a) * k) |-> a[((i - 1) \div k) + 1]]

(* an optional result `present, m` denotes the mask `want`; an absent result *)
(* is only right when nothing is null                                       *)
OptAgrees(present, m, want) == IF present THEN m = want ELSE want = Ones(Len(want))

(* equality of BooleanBuffer / NullBuffer                                   *)
Eq(a, b) == a = b

FlipAt(a, i) == [a EXCEPT ![i + 1] = 1 - a[i + 1]]

---------------------------------------------------------------------------
(* BooleanBufferBuilder / NullBufferBuilder: the abstract state is the bit  *)
(* sequence appended so far                                                 *)
BNew                    == <<>>
BAppend(bits, v)        == Append(bits, v)
BAppendN(bits, k, v)    == bits \o Fill(k, v)
BAppendSlice(bits, s)   == bits \o s
BAppendWord(bits, w, c) == bits \o Sub(w, 0, c)          \* low c bits of the word
BSetBit(bits, i, v)     == [bits EXCEPT ![i + 1] = v]
BAdvance(bits, k)       == bits \o Zeros(k)
BTruncate(bits, k)      == IF k > Len(bits) THEN bits ELSE Sub(bits, 0, k)
BResize(bits, k)        == IF k >= Len(bits) THEN BAdvance(bits, k - Len(bits)) ELSE Sub(bits, 0, k)

(* effect of a builder call `op` with arguments k (count / index / length), *)
(* v (bit) and s (bit sequence) on the abstract state                        *)
BuilderEff(bits, op, k, v, s) ==
  CASE op = "append"        -> BAppend(bits, v)
    [] op = "append_n"      -> BAppendN(bits, k, v)
    [] op = "append_slice"  -> BAppendSlice(bits, s)
    [] op = "append_packed" -> BAppendSlice(bits, s)
    [] op = "append_buffer" -> BAppendSlice(bits, s)
    [] op = "extend"        -> BAppendSlice(bits, s)
    [] op = "append_word"   -> BAppendWord(bits, s, k)
    [] op = "set_bit"       -> BSetBit(bits, k, v)
    [] op = "advance"       -> BAdvance(bits, k)
    [] op = "truncate"      -> BTruncate(bits, k)
    [] op = "resize"        -> BResize(bits, k)
    [] op = "finish"        -> <<>>
    [] op = "finish_cloned" -> bits
    [] OTHER                -> bits
=============================================================================
