SPECIFICATION Spec
CONSTANTS
  MaxKids = 2
  MaxStr = 3
  MaxTokens = 5
  MaxNum = 7
  DefectivePairs = FALSE
  BigLeaves = TRUE
  Modes = {"value", "string", "text", "number", "escape"}
INVARIANTS T_RoundTrip T_Total T_FixedPoint T_Stream T_Number T_Escape
CHECK_DEADLOCK FALSE
