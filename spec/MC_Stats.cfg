SPECIFICATION Spec
CONSTANTS
  MaxPages = 3
  MaxVals = 2
  Domain = {"neg", "nan", "negnan"}
INVARIANTS PagesSound ChunkSound BoundarySound ChunkIsFold
CHECK_DEADLOCK FALSE
