SPECIFICATION MCSpec
CONSTANTS
  NCols = 2
  MaxLen = 6
  Alphabet = {"d", "q", "r", "n", "o"}
  BatchSizes = {1, 2}
INVARIANTS I_ChunkIndependent I_BatchBound I_PlainText
CHECK_DEADLOCK TRUE
