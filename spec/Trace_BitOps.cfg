SPECIFICATION Spec
INVARIANT BitsOK
POSTCONDITION AllConsumed
CHECK_DEADLOCK FALSE
