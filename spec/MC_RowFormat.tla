---------------------------- MODULE MC_RowFormat ----------------------------
(***************************************************************************)
(* Exhaustive check of the encoding theorems of RowFormat.tla (part 2) on a *)
(* scaled-down instance: mini blocks of Mini bytes, Count of them, then      *)
(* blocks of Mini*Count bytes (the implementation: 8, 4, 32).  For every     *)
(* byte string up to MaxLen over Alphabet (which holds the bytes that look   *)
(* like sentinels, length bytes, padding and continuation markers), null and *)
(* empty, under all four SortOptions:                                        *)
(*   - byte order of the encodings = the order of the values (F1, F2), also  *)
(*     when further columns follow (no encoding is a proper prefix)          *)
(*   - the decoder returns the value and consumes exactly the encoding       *)
(*   - the encoding has the pre-computed length                              *)
(* and the same for one-byte fixed-width values (unsigned, signed, float     *)
(* transform) and for lists of nullable one-byte values.                     *)
(***************************************************************************)
EXTENDS RowFormat, TLC

CONSTANTS Alphabet, MaxLen, Mini, Count, MaxList

P == [mini |-> Mini, count |-> Count]

Str(b) == [k |-> "s", m |-> b]
Strs == {NullKey} \cup {Str(b) : b \in UNION {[1..n -> Alphabet] : n \in 0..MaxLen}}
EncTab == [oo \in AllOpts |-> [s \in Strs |-> EncVar(s, oo, P)]]

I(x) == [k |-> "i", i |-> x]
ElemVals == {NullKey, I(0), I(1), I(255)}
Lists == {NullKey} \cup {[k |-> "l", c |-> c] : c \in UNION {[1..n -> ElemVals] : n \in 0..MaxList}}
ListTab == [oo \in AllOpts |-> [s \in Lists |-> EncList(s, oo, P)]]

Suffixes == {<<>>, <<0>>, <<255>>}         \* what the next column may start with

VARIABLES phase, o, v

vars == <<phase, o, v>>

Init == phase = "start" /\ o = DefaultOpt /\ v = NullKey

Choose ==
  /\ phase = "start"
  /\ phase' \in {"choose-var", "choose-fixed", "choose-list"}
  /\ o' \in AllOpts
  /\ v' = v

PickVar   == phase = "choose-var"   /\ phase' = "var"   /\ v' \in Strs  /\ o' = o
PickFixed == phase = "choose-fixed" /\ phase' = "fixed" /\ v' \in {I(x) : x \in 0..255} /\ o' = o
PickList  == phase = "choose-list"  /\ phase' = "list"  /\ v' \in Lists /\ o' = o

Next == Choose \/ PickVar \/ PickFixed \/ PickList
Spec == Init /\ [][Next]_vars

IsProperPrefix(s, t) == Len(s) < Len(t) /\ SubSeq(t, 1, Len(s)) = s

VarOrder ==
  phase = "var" =>
    LET e == EncTab[o][v] IN
    \A t \in Strs :
      LET f == EncTab[o][t]  c == CmpV(v, t, o) IN
      /\ ByteCmp(e, f) = c
      /\ (e = f) <=> (v = t)
      /\ ~IsProperPrefix(e, f)     \* hence the order is decided before any following column is reached

VarDecode ==
  phase = "var" =>
    LET e == EncTab[o][v] IN
    /\ Len(e) = PaddedLen(v, P)
    /\ \A x \in Suffixes : DecVar(e \o x \o <<0>>, o, P) = [v |-> v, used |-> Len(e)]

(* one-byte fixed-width values: unsigned, signed (two's complement pattern),  *)
(* float-like pattern (sign bit + 7 magnitude bits, ordered by totalOrder)    *)
Signed(b) == IF b >= 128 THEN b - 256 ELSE b
FloatKey(b) == [k |-> "sm", i |-> (IF b >= 128 THEN 1 ELSE 0), m |-> <<(IF b >= 128 THEN b - 128 ELSE b)>>]
FixedOrder ==
  phase = "fixed" =>
    LET a == v.i IN
    \A b \in 0..255 :
      /\ ByteCmp(EncFixed(FALSE, ImageU8(a), o), EncFixed(FALSE, ImageU8(b), o)) = CmpV(I(a), I(b), o)
      /\ ByteCmp(EncFixed(FALSE, ImageI8(Signed(a)), o), EncFixed(FALSE, ImageI8(Signed(b)), o))
           = CmpV(I(Signed(a)), I(Signed(b)), o)
      /\ ByteCmp(EncFixed(FALSE, ImageF8(a), o), EncFixed(FALSE, ImageF8(b), o)) = CmpV(FloatKey(a), FloatKey(b), o)
      /\ ByteCmp(EncFixed(TRUE, <<0>>, o), EncFixed(FALSE, ImageI8(Signed(b)), o)) = CmpV(NullKey, I(b), o)
      /\ ByteCmp(EncFixed(TRUE, <<0>>, o), EncFixed(FALSE, ImageF8(b), o)) = CmpV(NullKey, I(b), o)

ListOrder ==
  phase = "list" =>
    LET e == ListTab[o][v] IN
    \A t \in Lists :
      LET f == ListTab[o][t]  c == CmpV(v, t, o) IN
      /\ ByteCmp(e, f) = c
      /\ (e = f) <=> (v = t)
      /\ ~IsProperPrefix(e, f)
=============================================================================
