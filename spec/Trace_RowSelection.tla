-------------------------- MODULE Trace_RowSelection --------------------------
(***************************************************************************)
(* impl -> spec: every recorded call of the public RowSelection API must   *)
(* return the selection RowSelection.tla part 1 defines on positions, in   *)
(* the documented normal form, with the right counts (C06, second          *)
(* sentence).  A selection argument is logged as                           *)
(*   [k |-> "runs", runs |-> raw <<n, skip>> pairs given to From<Vec<..>>] *)
(*   [k |-> "mask", bits |-> the bits given to from_boolean_buffer]        *)
(* and a result as its iter() (out), row_count (rc), skipped_row_count     *)
(* (sk), total_row_count (tot), selects_any (any); split_off logs the      *)
(* remainder as out2, rc2, ...                                             *)
(***************************************************************************)
EXTENDS RowSelection, TraceBase

VARIABLE l

BitsOf(d) == IF d.k = "mask" THEN d.bits ELSE Bits(d.runs)

(* a logged result `o` is the selection denoting `bits`                      *)
Res(out, rc, sk, tot, any, bits) ==
  /\ out = NF(bits)
  /\ rc = Count(bits) /\ tot = Len(bits) /\ sk = Len(bits) - Count(bits)
  /\ any = (Count(bits) > 0)
Is(ev, bits) == Res(ev.out, ev.rc, ev.sk, ev.tot, ev.any, bits)

RECURSIVE SortedSeq(_)
SortedSeq(S) == IF S = {} THEN <<>>
                ELSE LET m == CHOOSE x \in S : \A y \in S : x <= y IN <<m>> \o SortedSeq(S \ {m})

RECURSIVE ConcatBits(_)
ConcatBits(ds) == IF ds = <<>> THEN <<>> ELSE BitsOf(Head(ds)) \o ConcatBits(Tail(ds))

Explained(ev) ==
  CASE ev.op = "from" -> ~ev.err /\ Is(ev, BitsOf(ev.a))
    [] ev.op = "from_filters" -> ~ev.err /\ Is(ev, ConcatAll(ev.filters))
    [] ev.op = "from_ranges" ->
         RangesValid(ev.ranges, ev.total) => (~ev.err /\ Is(ev, RangesBits(ev.ranges, ev.total)))
    [] ev.op = "collect" -> ~ev.err /\ Is(ev, ConcatBits(ev.parts))
    [] ev.op = "and_then" ->
         LET A == BitsOf(ev.a)
             B == BitsOf(ev.b) IN
         IF Len(B) # Count(A) THEN ev.err      \* documented panic
         ELSE ~ev.err /\ Is(ev, AndThenBits(A, B))
    [] ev.op = "intersection" -> ~ev.err /\ Is(ev, InterBits(BitsOf(ev.a), BitsOf(ev.b)))
    [] ev.op = "union" -> ~ev.err /\ Is(ev, UnionBits(BitsOf(ev.a), BitsOf(ev.b)))
    [] ev.op = "split_off" ->
         /\ ~ev.err
         /\ Is(ev, SplitHeadBits(BitsOf(ev.a), ev.n))
         /\ Res(ev.out2, ev.rc2, ev.sk2, ev.tot2, ev.any2, SplitTailBits(BitsOf(ev.a), ev.n))
    [] ev.op = "eq" -> ~ev.err /\ ev.eq = (BitsOf(ev.a) = BitsOf(ev.b))
    [] ev.op = "mask_runs" -> ~ev.err /\ ev.out = NF(ev.bits)
    [] ev.op = "scan_ranges" ->
         LET pages == SortedSeq(ScanPagesBits(BitsOf(ev.a), ev.firsts)) IN
         /\ ~ev.err
         /\ ev.out = [i \in 1..Len(pages) |-> <<ev.starts[pages[i]], ev.starts[pages[i]] + ev.sizes[pages[i]]>>]
    [] OTHER -> FALSE

Init == l = 1
Next == /\ l <= Len(Rec)
        /\ l' = l + 1
        /\ LET ev == Rec[l] IN Judge(Explained(ev), l, ev.op)
Spec == Init /\ [][Next]_l
=============================================================================
