SPECIFICATION Spec
CONSTANTS
  Regions = {1, 2, 3}
  Handles = {1, 2, 3}
  MaxAbs = 1
  WithShrink = TRUE
  WithStreams = TRUE
  WithNested = TRUE
  GenDepth = 4
CONSTRAINTS Small GenBound
VIEW View_
INVARIANT GenPrint
CHECK_DEADLOCK FALSE
