SPECIFICATION Spec
CONSTANTS
  MaxFields = 3
  MaxFieldLen = 2
  MaxFieldLen2 = 2
  MaxFields2 = 1
  MaxText = 6
INVARIANTS T_FormatsOk T_RoundTrip T_QuoteIffNeeded T_Total T_Plain T_FixedPoint T_NeverIsLossy
CHECK_DEADLOCK FALSE
