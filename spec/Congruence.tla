----------------------------- MODULE Congruence -----------------------------
(***************************************************************************)
(* C02: array content, equality and kernel results depend only on logical *)
(* values.                                                                 *)
(*                                                                         *)
(* A kernel observation is a pair <<key, out>>: `key` identifies the       *)
(* kernel, its options, the data type and the LOGICAL input (the row       *)
(* tuple for a row-wise kernel, the whole canonical columns for a          *)
(* whole-array kernel), `out` the logical output and outcome.  The         *)
(* property says the set of observations is a function: the memo is        *)
(* extended by new keys and must agree on known keys.  Because a row-wise  *)
(* kernel is memoised per row, the same rule yields both congruence across *)
(* physical layouts and commutation with take / slice / concat.            *)
(***************************************************************************)
EXTENDS Naturals, Sequences, FiniteSets

VARIABLES memo      \* function from keys seen so far to their output

Init == memo = <<>>   \* empty function

Known(k) == k \in DOMAIN memo
Consistent(k, o) == Known(k) => memo[k] = o

(* an observation is accepted iff it agrees with the memo                    *)
Observe(k, o) ==
  /\ Consistent(k, o)
  /\ memo' = IF Known(k) THEN memo ELSE [x \in DOMAIN memo \cup {k} |-> IF x = k THEN o ELSE memo[x]]

(* reading an array back yields the values it was built from                 *)
ReadBackOk(src, got) == got = src

(* `==` holds exactly when type, length, null positions and values coincide  *)
EqOk(typeA, rowsA, typeB, rowsB, result) == result = (typeA = typeB /\ rowsA = rowsB)

Functional(obs) ==      \* a set of observations is a function
  \A a \in obs, b \in obs : a[1] = b[1] => a[2] = b[2]
=============================================================================
