--------------------------- MODULE MC_CsvGrammar ---------------------------
(* Design-level check of CsvGrammar.tla (C17): TLC evaluates, for EVERY record  *)
(* matrix of a small universe and every writer format of a list, the theorem    *)
(*     Split(Join(recs, w), ReaderOf(w)) = recs                                  *)
(* and, for EVERY text up to a length over the same alphabet (delimiter, quote, *)
(* CR, LF, the escape character when it escapes, one ordinary character), that  *)
(* Split is total, that it is the plain splitting on quote-free texts, and that *)
(* what it returns is a fixed point of Join / Split.                            *)
EXTENDS CsvGrammar, TLC, FiniteSets

CONSTANTS MaxFields,     \* fields per record in the one-record universe
          MaxFieldLen,   \* characters per field there
          MaxFieldLen2,  \* characters per field in the two-record universe (<= 2 fields in the first record)
          MaxFields2,    \* fields of the second record there
          MaxText        \* length of the texts

A == 97
Styles == {"necessary", "always", "never"}
Formats ==
  {[delim |-> 44, quote |-> 34, esc |-> 92, dq |-> TRUE, wterm |-> t, style |-> s] :
       t \in {<<LF>>, <<CR, LF>>}, s \in Styles}
  \cup {[delim |-> 59, quote |-> 39, esc |-> 92, dq |-> FALSE, wterm |-> <<LF>>, style |-> s] : s \in {"necessary", "always"}}
  \cup {[delim |-> 9, quote |-> 34, esc |-> 92, dq |-> TRUE, wterm |-> <<124>>, style |-> "necessary"]}

Alpha(w) == {A, w.delim, w.quote, CR, LF} \cup (IF w.dq THEN {} ELSE {w.esc}) \cup (IF Len(w.wterm) = 1 THEN {w.wterm[1]} ELSE {})
SeqsUpTo(S, n) == UNION {[1..k -> S] : k \in 0..n}

VARIABLES mode, w, recs, txt
vars == <<mode, w, recs, txt>>

InitRecs ==
  /\ mode = "recs" /\ txt = <<>> /\ w \in Formats
  /\ \/ \E n \in 1..MaxFields : recs \in {<<r>> : r \in [1..n -> SeqsUpTo(Alpha(w), MaxFieldLen)]}
     \/ \E n1 \in 1..2, n2 \in 1..MaxFields2 :
          \E r1 \in [1..n1 -> SeqsUpTo(Alpha(w), MaxFieldLen2)] : \E r2 \in [1..n2 -> SeqsUpTo(Alpha(w), MaxFieldLen2)] :
             recs = <<r1, r2>>
     \/ recs = <<>>
InitText ==
  /\ mode = "text" /\ recs = <<>> /\ w \in {x \in Formats : x.style = "necessary"}
  /\ txt \in SeqsUpTo(Alpha(w), MaxText)
Init == InitRecs \/ InitText
Next == UNCHANGED vars
Spec == Init /\ [][Next]_vars

T_FormatsOk == WFormatOk(w)
T_RoundTrip == mode = "recs" => RoundTrip(recs, w)
(* the writer quotes exactly when needed: an unquoted field is written verbatim *)
T_QuoteIffNeeded ==
  (mode = "recs" /\ w.style = "necessary") =>
     \A r \in 1..Len(recs) : \A i \in 1..Len(recs[r]) :
        (WriteField(recs[r][i], w) = recs[r][i]) = ~NeedsQuotes(recs[r][i], w)
T_Total == mode = "text" => Split(txt, ReaderOf(w)).ok \in BOOLEAN
T_Plain == (mode = "text" /\ ~Has(txt, w.quote)) => Split(txt, ReaderOf(w)) = [ok |-> TRUE, recs |-> PlainSplit(txt, ReaderOf(w))]
T_FixedPoint ==
  mode = "text" => LET s == Split(txt, ReaderOf(w)) IN s.ok => RoundTrip(s.recs, w)
(* without quotes a field that needs them is NOT read back (the round trip condition is not vacuous) *)
T_NeverIsLossy ==
  (mode = "recs" /\ w.style = "never" /\ ~Unambiguous(recs, w) /\ \A r \in 1..Len(recs) : Len(recs[r]) >= 1) =>
     Split(Join(recs, w), ReaderOf(w)) # [ok |-> TRUE, recs |-> recs]
=============================================================================
