----------------------------- MODULE Gen_IpcDict -----------------------------
(* spec -> impl (C04): TLC enumerates (or samples) complete writer sessions   *)
(* of IpcDict.tla - every dictionary evolution history within the constants - *)
(* and prints each one with what the specification predicts: the outcome of   *)
(* every write call, the dictionary messages it emits (id, isDelta, values)   *)
(* and, per accepted batch, the values the reader of that writer kind         *)
(* resolves for a batch that references every dictionary entry and a null.    *)
(* `c04 replay` builds the real DictionaryArrays (same array / equal copy as  *)
(* `obj` says), drives FileWriter+FileReader resp. StreamWriter+StreamReader, *)
(* StreamEncoder+StreamDecoder and FlightDataEncoder(Resend)+decoder, reads   *)
(* the messages back with the flatbuffer accessors and compares.              *)
EXTENDS MC_IpcDict, Json

OkIdx(j) == CHOOSE i \in OkWrites : BatchNo(i) = j

Dec ==
  LET snaps == ReaderSnaps(kind, nd, msgs) IN
  [j \in 1..NumBatches(msgs) |->
     [d \in 1..nd |-> IF snaps[j].bad THEN <<"~out-of-range">>
                      ELSE Resolve(AllKeys(given[OkIdx(j)].dicts[d].vals), snaps[j].d[d])]]

Case == [kind |-> kind, handling |-> handling, nd |-> nd,
         steps |-> [i \in DOMAIN given |-> [dicts |-> given[i].dicts, ok |-> given[i].ok, out |-> given[i].out]],
         dec |-> Dec]

(* one CASE line per finished session *)
Emit == (phase = "run" /\ closed) => PrintT(<<"CASE", ToJson(Case)>>)
=============================================================================
