INIT GInit
NEXT GNext
CONSTANTS
  NCols = 2
  MaxLen = 5
  Alphabet = {"d", "q", "r", "n", "o"}
  BatchSizes = {1, 2}
CHECK_DEADLOCK FALSE
